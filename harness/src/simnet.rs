//! Scripted in-memory transport: the harness controls every byte the client reads, every read
//! boundary, EOF, reset and write failure.
use std::collections::VecDeque;
use std::io;
use std::pin::Pin;
use std::sync::{Arc, Mutex};
use std::task::{Context, Poll, Waker};
use tokio::io::{AsyncRead, AsyncWrite, ReadBuf};

#[derive(Default, Debug)]
pub struct Shared {
    pub to_client: VecDeque<u8>,
    pub eof: bool,
    pub read_err: bool,
    /// deliver at most this many bytes per read (0 = no limit)
    pub max_read: usize,
    pub written: Vec<u8>,
    /// fail the write that would make the total written exceed this many bytes
    pub fail_write_at: Option<usize>,
    pub total_written: usize,
    pub shutdown: bool,
    pub dropped: bool,
    pub reads: usize,
    /// writes return Pending while set (a peer that does not drain its socket)
    pub stall_writes: bool,
    wwaker: Option<Waker>,
    waker: Option<Waker>,
}

#[derive(Clone, Debug)]
pub struct Net(pub Arc<Mutex<Shared>>);

#[derive(Debug)]
pub struct SimIo(Arc<Mutex<Shared>>);

impl Drop for SimIo {
    fn drop(&mut self) {
        self.0.lock().unwrap().dropped = true;
    }
}

pub fn pair() -> (SimIo, Net) {
    let sh = Arc::new(Mutex::new(Shared::default()));
    (SimIo(sh.clone()), Net(sh))
}

impl Net {
    pub fn send(&self, bytes: &[u8]) {
        let mut s = self.0.lock().unwrap();
        s.to_client.extend(bytes.iter().copied());
        if let Some(w) = s.waker.take() {
            w.wake();
        }
    }
    pub fn close(&self) {
        let mut s = self.0.lock().unwrap();
        s.eof = true;
        if let Some(w) = s.waker.take() {
            w.wake();
        }
        if let Some(w) = s.wwaker.take() {
            w.wake();
        }
    }
    pub fn reset(&self) {
        let mut s = self.0.lock().unwrap();
        s.read_err = true;
        if let Some(w) = s.waker.take() {
            w.wake();
        }
        if let Some(w) = s.wwaker.take() {
            w.wake();
        }
    }
    pub fn stall_writes(&self, on: bool) {
        let mut s = self.0.lock().unwrap();
        s.stall_writes = on;
        if !on {
            if let Some(w) = s.wwaker.take() {
                w.wake();
            }
        }
    }
    pub fn set_max_read(&self, n: usize) {
        self.0.lock().unwrap().max_read = n;
    }
    pub fn fail_write_at(&self, n: Option<usize>) {
        self.0.lock().unwrap().fail_write_at = n;
    }
    pub fn take_written(&self) -> Vec<u8> {
        std::mem::take(&mut self.0.lock().unwrap().written)
    }
    pub fn total_written(&self) -> usize {
        self.0.lock().unwrap().total_written
    }
    pub fn is_shutdown(&self) -> bool {
        self.0.lock().unwrap().shutdown
    }
    pub fn is_dropped(&self) -> bool {
        self.0.lock().unwrap().dropped
    }
    pub fn pending_to_client(&self) -> usize {
        self.0.lock().unwrap().to_client.len()
    }
}

impl AsyncRead for SimIo {
    fn poll_read(self: Pin<&mut Self>, cx: &mut Context<'_>, buf: &mut ReadBuf<'_>) -> Poll<io::Result<()>> {
        let mut s = self.0.lock().unwrap();
        if !s.to_client.is_empty() {
            let mut n = s.to_client.len().min(buf.remaining());
            if s.max_read > 0 {
                n = n.min(s.max_read);
            }
            for _ in 0..n {
                let b = s.to_client.pop_front().unwrap();
                buf.put_slice(&[b]);
            }
            s.reads += 1;
            return Poll::Ready(Ok(()));
        }
        if s.read_err {
            return Poll::Ready(Err(io::Error::new(io::ErrorKind::ConnectionReset, "sim reset")));
        }
        if s.eof {
            return Poll::Ready(Ok(()));
        }
        s.waker = Some(cx.waker().clone());
        Poll::Pending
    }
}

impl AsyncWrite for SimIo {
    fn poll_write(self: Pin<&mut Self>, cx: &mut Context<'_>, buf: &[u8]) -> Poll<io::Result<usize>> {
        let mut s = self.0.lock().unwrap();
        if s.stall_writes {
            // a peer that has closed or reset the connection does not keep a writer blocked for ever:
            // the kernel answers the pending write with an error (EPIPE / ECONNRESET)
            if s.eof || s.read_err {
                return Poll::Ready(Err(io::Error::new(io::ErrorKind::BrokenPipe, "sim write to a closed peer")));
            }
            s.wwaker = Some(cx.waker().clone());
            return Poll::Pending;
        }
        if s.shutdown {
            return Poll::Ready(Err(io::Error::new(io::ErrorKind::BrokenPipe, "sim write after shutdown")));
        }
        if let Some(limit) = s.fail_write_at {
            if s.total_written + buf.len() > limit {
                // accept the part below the limit, then fail
                let ok = limit.saturating_sub(s.total_written);
                if ok == 0 {
                    return Poll::Ready(Err(io::Error::new(io::ErrorKind::BrokenPipe, "sim write failure")));
                }
                let part = buf[..ok].to_vec();
                s.written.extend(&part);
                s.total_written += ok;
                return Poll::Ready(Ok(ok));
            }
        }
        s.written.extend_from_slice(buf);
        s.total_written += buf.len();
        Poll::Ready(Ok(buf.len()))
    }
    fn poll_flush(self: Pin<&mut Self>, _cx: &mut Context<'_>) -> Poll<io::Result<()>> {
        Poll::Ready(Ok(()))
    }
    fn poll_shutdown(self: Pin<&mut Self>, _cx: &mut Context<'_>) -> Poll<io::Result<()>> {
        self.0.lock().unwrap().shutdown = true;
        Poll::Ready(Ok(()))
    }
}

//! ldap3 verification harness: runs the real code (current /repo working tree, `--cfg ldap3_verif`)
//! on generated inputs and prints canonical observations, one per line (see out.rs).
mod fmtx;
mod gen;
mod lanes;
mod out;
mod rng;
mod scen;
mod simnet;

fn main() {
    // keep panics quiet: they are caught per case and reported as outcomes
    std::panic::set_hook(Box::new(|_| {}));
    let args: Vec<String> = std::env::args().collect();
    if args.len() < 5 {
        eprintln!("usage: harness <lane> <quick|thorough> <seed> <outfile> [extra]");
        std::process::exit(2);
    }
    let lane = args[1].as_str();
    let thorough = args[2] == "thorough";
    let seed: u64 = args[3].parse().unwrap_or(1);
    let extra: Vec<String> = args[5..].to_vec();
    let out = out::Out::new(&args[4]);
    let rng = rng::Rng::new(seed, lane);
    match lanes::run(lane, thorough, rng, out, &extra) {
        Ok(()) => {}
        Err(e) => {
            eprintln!("harness: {}", e);
            std::process::exit(2);
        }
    }
}

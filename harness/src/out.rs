//! Lane output: one line per observation.
//!   M <request> <TAB> <what the real code answered>   model-vs-code correspondence (driver recomputes)
//!   O <request> <TAB> <expected>                      oracle: a Lean *spec* function applied to real output
//!   R <description> <TAB> ok | FAIL <detail>          oracle evaluated in Rust on real output
//!   S <json>                                          statistics (written last)
use std::collections::{BTreeMap, HashSet};
use std::io::Write;

pub struct Out {
    w: std::io::BufWriter<std::fs::File>,
    pub stats: BTreeMap<String, u64>,
    distinct: HashSet<u64>,
    pub evaluations: u64,
    pub nontrivial: u64,
    pub samples: Vec<String>,
    pub rfail: u64,
}

/// File holding the input of the case that is running right now (`<outfile>.current`).  A case that
/// makes the real code *abort* the process (allocation failure, stack overflow, double panic) cannot be
/// caught per case; `./check` reads this file when a lane dies on a signal and reports its content as the
/// failing input.
static CURRENT: std::sync::OnceLock<std::sync::Mutex<std::fs::File>> = std::sync::OnceLock::new();

/// record the input about to be handed to the real code (cheap: truncate + one write, no sync)
pub fn mark(input: &str) {
    use std::io::{Seek, SeekFrom};
    if let Some(m) = CURRENT.get() {
        if let Ok(mut f) = m.lock() {
            let _ = f.set_len(0);
            let _ = f.seek(SeekFrom::Start(0));
            let _ = f.write_all(input.as_bytes());
        }
    }
}

impl Out {
    pub fn new(path: &str) -> Out {
        if let Ok(f) = std::fs::File::create(format!("{}.current", path)) {
            let _ = CURRENT.set(std::sync::Mutex::new(f));
        }
        Out {
            w: std::io::BufWriter::new(std::fs::File::create(path).expect("create lane output")),
            stats: BTreeMap::new(),
            distinct: HashSet::new(),
            evaluations: 0,
            nontrivial: 0,
            samples: vec![],
            rfail: 0,
        }
    }
    fn line(&mut self, kind: char, a: &str, b: &str) {
        debug_assert!(!a.contains('\t') && !a.contains('\n') && !b.contains('\n'));
        writeln!(self.w, "{}\t{}\t{}", kind, a, b).unwrap();
    }
    /// count one generated case; `nontrivial` by the lane's rule; distinctness by hash of the canonical input
    pub fn case(&mut self, canonical: &str, nontrivial: bool) {
        self.evaluations += 1;
        if nontrivial && self.distinct.insert(crate::fmtx::fnv(canonical.as_bytes())) {
            self.nontrivial += 1;
            if self.samples.len() < 6 && canonical.len() < 300 {
                self.samples.push(canonical.to_string());
            }
        }
    }
    pub fn m(&mut self, req: &str, ans: &str) {
        self.line('M', req, ans);
    }
    pub fn o(&mut self, req: &str, expected: &str) {
        self.line('O', req, expected);
    }
    pub fn r(&mut self, desc: &str, ok: bool, detail: &str) {
        if !ok {
            self.rfail += 1;
        }
        let b = if ok { String::from("ok") } else { format!("FAIL {}", detail) };
        self.line('R', desc, &b);
    }
    pub fn stat(&mut self, key: &str) {
        *self.stats.entry(key.to_string()).or_insert(0) += 1;
    }
    pub fn stat_n(&mut self, key: &str, n: u64) {
        *self.stats.entry(key.to_string()).or_insert(0) += n;
    }
    pub fn finish(mut self, rule: &str) {
        let mut js = String::from("{");
        js.push_str(&format!("\"evaluations\":{},\"distinct_nontrivial\":{},\"rule\":{:?},", self.evaluations, self.nontrivial, rule));
        js.push_str("\"samples\":[");
        js.push_str(&self.samples.iter().map(|s| format!("{:?}", s)).collect::<Vec<_>>().join(","));
        js.push_str("],\"distribution\":{");
        js.push_str(&self.stats.iter().map(|(k, v)| format!("{:?}:{}", k, v)).collect::<Vec<_>>().join(","));
        js.push_str("}}");
        writeln!(self.w, "S\t{}\t", js).unwrap();
        self.w.flush().unwrap();
    }
}

/// run `f`, mapping a panic to `Err(location)`
pub fn guarded<T>(f: impl FnOnce() -> T + std::panic::UnwindSafe) -> Result<T, String> {
    std::panic::catch_unwind(f).map_err(|e| {
        if let Some(s) = e.downcast_ref::<String>() {
            s.clone()
        } else if let Some(s) = e.downcast_ref::<&str>() {
            s.to_string()
        } else {
            String::from("?")
        }
    })
}

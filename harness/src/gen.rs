//! Generators of LDAP protocol messages (as lber trees), shared by several lanes.
use crate::fmtx::*;
use crate::rng::Rng;
use lber::structure::{StructureTag, PL};

#[derive(Clone, Debug)]
pub struct Ctl {
    pub oid: Vec<u8>,
    /// None = criticality absent; Some(b) = explicitly encoded
    pub crit: Option<bool>,
    pub val: Option<Vec<u8>>,
}

pub const KNOWN_OIDS: &[&str] = &[
    "1.2.840.113556.1.4.319",
    "1.3.6.1.1.13.2",
    "1.3.6.1.1.13.1",
    "1.3.6.1.4.1.4203.1.9.1.3",
    "1.3.6.1.4.1.4203.1.9.1.2",
    "2.16.840.1.113730.3.4.2",
    "1.2.826.0.1.3344810.2.3",
];

pub fn known_name(oid: &[u8]) -> &'static str {
    match std::str::from_utf8(oid).unwrap_or("") {
        "1.2.840.113556.1.4.319" => "PagedResults",
        "1.3.6.1.1.13.2" => "PostReadResp",
        "1.3.6.1.1.13.1" => "PreReadResp",
        "1.3.6.1.4.1.4203.1.9.1.3" => "SyncDone",
        "1.3.6.1.4.1.4203.1.9.1.2" => "SyncState",
        "2.16.840.1.113730.3.4.2" => "ManageDsaIt",
        "1.2.826.0.1.3344810.2.3" => "MatchedValues",
        _ => "-",
    }
}

pub fn int_octets(v: i64) -> Vec<u8> {
    // independent minimal two's complement
    let mut b = v.to_be_bytes().to_vec();
    while b.len() > 1 && ((b[0] == 0 && b[1] & 0x80 == 0) || (b[0] == 0xff && b[1] & 0x80 != 0)) {
        b.remove(0);
    }
    b
}

pub fn utf8_string(rng: &mut Rng, maxlen: u64) -> Vec<u8> {
    let n = rng.below(maxlen + 1);
    let mut s = String::new();
    for _ in 0..n {
        match rng.below(10) {
            0 => s.push('é'),
            1 => s.push('𝄞'),
            2 => s.push(*rng.pick(&[',', '=', ' ', '\\', '(', ')', '*', '\0', '#', '+'])),
            _ => s.push((b'a' + rng.below(26) as u8) as char),
        }
    }
    s.into_bytes()
}

pub fn gen_ctl(rng: &mut Rng) -> Ctl {
    let oid = if rng.chance(1, 2) {
        rng.pick(KNOWN_OIDS).as_bytes().to_vec()
    } else {
        format!("1.3.6.1.4.1.{}.{}", rng.below(70000), rng.below(9)).into_bytes()
    };
    let crit = match rng.below(3) { 0 => None, 1 => Some(true), _ => Some(false) };
    let val = if rng.chance(2, 3) {
        let n = *rng.pick(&[0usize, 1, 5, 20, 127, 128, 300]);
        Some(rng.bytes(n))
    } else {
        None
    };
    Ctl { oid, crit, val }
}

pub fn ctl_tree(c: &Ctl) -> StructureTag {
    let mut ks = vec![prim(0, 4, c.oid.clone())];
    if let Some(b) = c.crit {
        ks.push(prim(0, 1, vec![if b { 0xff } else { 0 }]));
    }
    if let Some(v) = &c.val {
        ks.push(prim(0, 4, v.clone()));
    }
    cons(0, 16, ks)
}

/// canonical text of a control list as the client should report it
pub fn ctls_text(cs: &[Ctl]) -> String {
    let parts: Vec<String> = cs
        .iter()
        .map(|c| {
            format!(
                "{}:{}:{}:{}",
                hex(&c.oid),
                if c.crit == Some(true) { 1 } else { 0 },
                match &c.val { Some(v) => hex(v), None => String::from("none") },
                known_name(&c.oid)
            )
        })
        .collect();
    format!("[{}]", parts.join(","))
}

#[derive(Clone, Debug)]
pub struct Resp {
    pub id: i64,
    pub app: u64,
    pub rc: u32,
    pub matched: Vec<u8>,
    pub text: Vec<u8>,
    pub refs: Option<Vec<Vec<u8>>>,
    pub sasl: Option<Vec<u8>>,
    pub exop_name: Option<Vec<u8>>,
    pub exop_val: Option<Vec<u8>>,
    pub ctls: Option<Vec<Ctl>>,
}

pub const RESULT_APPS: &[u64] = &[1, 5, 7, 9, 11, 13, 15, 24];

pub fn gen_id(rng: &mut Rng) -> i64 {
    match rng.below(10) {
        0 => *rng.pick(&[1i64, 127, 128, 255, 256, 32767, 32768, 65535, 8388607, 8388608, 2147483646, 2147483647]),
        _ => rng.range(1, 200) as i64,
    }
}

pub fn gen_resp(rng: &mut Rng) -> Resp {
    let app = *rng.pick(RESULT_APPS);
    let rc = match rng.below(6) {
        0 => 0,
        1 => *rng.pick(&[5u32, 6, 10, 14, 32, 49, 80, 88, 122, 255, 4096]),
        2 => rng.below(123) as u32,
        3 => rng.next() as u32 & 0x7fffffff,
        _ => 0,
    };
    let refs = if rng.chance(1, 4) {
        Some((0..rng.below(4)).map(|_| format!("ldap://h{}/dc=x", rng.below(100)).into_bytes()).collect())
    } else {
        None
    };
    let ctls = if rng.chance(1, 2) { Some((0..rng.below(5)).map(|_| gen_ctl(rng)).collect()) } else { None };
    Resp {
        id: gen_id(rng),
        app,
        rc,
        matched: utf8_string(rng, 12),
        text: utf8_string(rng, 20),
        refs,
        sasl: if app == 1 && rng.chance(1, 2) { Some(rng.bytes_below(10)) } else { None },
        exop_name: if app == 24 && rng.chance(1, 2) { Some(format!("1.3.6.1.4.1.{}", rng.below(9999)).into_bytes()) } else { None },
        exop_val: if app == 24 && rng.chance(1, 2) { Some(rng.bytes_below(40)) } else { None },
        ctls,
    }
}

pub fn resp_op(r: &Resp) -> StructureTag {
    let mut ks = vec![prim(0, 10, int_octets(r.rc as i64)), prim(0, 4, r.matched.clone()), prim(0, 4, r.text.clone())];
    if let Some(refs) = &r.refs {
        ks.push(cons(2, 3, refs.iter().map(|u| prim(0, 4, u.clone())).collect()));
    }
    if let Some(s) = &r.sasl {
        ks.push(prim(2, 7, s.clone()));
    }
    if let Some(n) = &r.exop_name {
        ks.push(prim(2, 10, n.clone()));
    }
    if let Some(v) = &r.exop_val {
        ks.push(prim(2, 11, v.clone()));
    }
    cons(1, r.app, ks)
}

pub fn envelope(id: i64, op: StructureTag, ctls: &Option<Vec<Ctl>>) -> StructureTag {
    let mut ks = vec![prim(0, 2, int_octets(id)), op];
    if let Some(cs) = ctls {
        ks.push(cons(2, 0, cs.iter().map(ctl_tree).collect()));
    }
    cons(0, 16, ks)
}

pub fn resp_msg(r: &Resp) -> StructureTag {
    envelope(r.id, resp_op(r), &r.ctls)
}

/// SearchResultEntry with `n` attributes
pub fn gen_entry_op(rng: &mut Rng) -> StructureTag {
    let n = rng.below(4);
    let attrs = (0..n)
        .map(|i| {
            let vals = (0..rng.below(3)).map(|_| prim(0, 4, utf8_string(rng, 6))).collect();
            cons(0, 16, vec![prim(0, 4, format!("a{}", i).into_bytes()), cons(0, 17, vals)])
        })
        .collect();
    cons(1, 4, vec![prim(0, 4, utf8_string(rng, 10)), cons(0, 16, attrs)])
}

pub fn gen_reference_op(rng: &mut Rng) -> StructureTag {
    let n = rng.range(1, 3);
    cons(1, 19, (0..n).map(|_| prim(0, 4, format!("ldap://r{}/", rng.below(50)).into_bytes())).collect())
}

pub fn gen_intermediate_op(rng: &mut Rng) -> StructureTag {
    let mut ks = vec![];
    if rng.chance(1, 2) {
        ks.push(prim(2, 0, b"1.3.6.1.4.1.4203.1.9.1.4".to_vec()));
    }
    if rng.chance(1, 2) {
        ks.push(prim(2, 1, rng.bytes_below(12)));
    }
    cons(1, 25, ks)
}

/// any well-formed server message
pub fn gen_any_msg(rng: &mut Rng) -> StructureTag {
    match rng.below(6) {
        0 => envelope(gen_id(rng), gen_entry_op(rng), &if rng.chance(1, 4) { Some(vec![gen_ctl(rng)]) } else { None }),
        1 => envelope(gen_id(rng), gen_reference_op(rng), &None),
        2 => envelope(gen_id(rng), gen_intermediate_op(rng), &None),
        _ => resp_msg(&gen_resp(rng)),
    }
}

/// all single-node structural mutations of a tree (drop / duplicate / swap children, flip class,
/// change tag number, empty a primitive, primitive <-> constructed)
pub fn tree_mutations(t: &StructureTag) -> Vec<(String, StructureTag)> {
    let mut out = vec![];
    mutate_at(t, &mut vec![], t, &mut out);
    out
}

fn replace_at(root: &StructureTag, path: &[usize], new: Option<StructureTag>, dup: bool) -> StructureTag {
    if path.is_empty() {
        return new.unwrap_or_else(|| root.clone());
    }
    let mut r = root.clone();
    if let PL::C(ks) = &mut r.payload {
        let i = path[0];
        if path.len() == 1 {
            match new {
                Some(n) => {
                    if dup {
                        ks.insert(i, n);
                    } else {
                        ks[i] = n;
                    }
                }
                None => {
                    ks.remove(i);
                }
            }
        } else {
            ks[i] = replace_at(&ks[i], &path[1..], new, dup);
        }
    }
    r
}

fn mutate_at(root: &StructureTag, path: &mut Vec<usize>, node: &StructureTag, out: &mut Vec<(String, StructureTag)>) {
    let p = format!("{:?}", path);
    // node-local mutations
    for c in 0..4u8 {
        if c != cls_num(node.class) {
            let mut n = node.clone();
            n.class = cls_of(c);
            out.push((format!("class{}@{}", c, p), replace_at(root, path, Some(n), false)));
        }
    }
    for id in [0u64, 1, 2, 4, 5, 10, 16, 19, 25, 30] {
        if id != node.id {
            let mut n = node.clone();
            n.id = id;
            out.push((format!("id{}@{}", id, p), replace_at(root, path, Some(n), false)));
        }
    }
    match &node.payload {
        PL::P(v) => {
            if !v.is_empty() {
                let mut n = node.clone();
                n.payload = PL::P(vec![]);
                out.push((format!("empty@{}", p), replace_at(root, path, Some(n), false)));
            }
            let mut n = node.clone();
            n.payload = PL::C(vec![]);
            out.push((format!("tocons@{}", p), replace_at(root, path, Some(n), false)));
        }
        PL::C(ks) => {
            let mut n = node.clone();
            n.payload = PL::P(vec![]);
            out.push((format!("toprim@{}", p), replace_at(root, path, Some(n), false)));
            if !path.is_empty() || true {
                for i in 0..ks.len() {
                    path.push(i);
                    out.push((format!("drop@{:?}", path), replace_at(root, path, None, false)));
                    out.push((format!("dup@{:?}", path), replace_at(root, path, Some(ks[i].clone()), true)));
                    path.pop();
                }
                for i in 0..ks.len().saturating_sub(1) {
                    let mut n = node.clone();
                    if let PL::C(k2) = &mut n.payload {
                        k2.swap(i, i + 1);
                    }
                    out.push((format!("swap{}@{}", i, p), replace_at(root, path, Some(n), false)));
                }
            }
            for (i, k) in ks.iter().enumerate() {
                path.push(i);
                mutate_at(root, path, k, out);
                path.pop();
            }
        }
    }
}

// ---------------------------------------------------------------------------------------------
// Additions for lane `results` (C03): controls with an explicit criticality OCTET (any value),
// wide-range response generator, resultCode content octets as a parameter.

/// a control as a server may encode it: criticality absent or any single BOOLEAN content octet
#[derive(Clone, Debug)]
pub struct WireCtl {
    pub oid: Vec<u8>,
    pub crit: Option<u8>,
    pub val: Option<Vec<u8>>,
}

pub fn gen_wire_ctl(rng: &mut Rng) -> WireCtl {
    let oid = match rng.below(8) {
        0..=3 => rng.pick(KNOWN_OIDS).as_bytes().to_vec(),
        4..=6 => format!("1.3.6.1.4.1.{}.{}", rng.below(70000), rng.below(9)).into_bytes(),
        // LDAPOID is only required to be text by the client: any UTF-8
        _ => utf8_string(rng, 8),
    };
    let crit = match rng.below(6) {
        0 | 1 => None,
        2 => Some(0xff),
        3 => Some(0x00),
        4 => Some(*rng.pick(&[0x01u8, 0x02, 0x7f, 0x80, 0xfe, 0x55])),
        _ => Some(rng.next() as u8),
    };
    let val = match rng.below(6) {
        0 | 1 => None,
        2 => Some(vec![]),
        3 => Some(rng.bytes(300)),
        _ => {
            let n = *rng.pick(&[1usize, 2, 5, 20, 127, 128, 129]);
            Some(rng.bytes(n))
        }
    };
    WireCtl { oid, crit, val }
}

pub fn wire_ctl_tree(c: &WireCtl) -> StructureTag {
    let mut ks = vec![prim(0, 4, c.oid.clone())];
    if let Some(b) = c.crit {
        ks.push(prim(0, 1, vec![b]));
    }
    if let Some(v) = &c.val {
        ks.push(prim(0, 4, v.clone()));
    }
    cons(0, 16, ks)
}

/// what the client must report (RFC 4511 4.1.11: criticality DEFAULT FALSE; BER: any non-zero octet is TRUE)
pub fn wire_ctls_text(cs: &Option<Vec<WireCtl>>) -> String {
    let parts: Vec<String> = cs
        .iter()
        .flatten()
        .map(|c| {
            format!(
                "{}:{}:{}:{}",
                hex(&c.oid),
                if matches!(c.crit, Some(b) if b != 0) { 1 } else { 0 },
                match &c.val { Some(v) => hex(v), None => String::from("none") },
                known_name(&c.oid)
            )
        })
        .collect();
    format!("[{}]", parts.join(","))
}

/// text field: empty / short / multi-byte / long (>= 300 bytes)
pub fn gen_text(rng: &mut Rng) -> Vec<u8> {
    match rng.below(12) {
        0 | 1 => vec![],
        2 => {
            let mut s = vec![];
            while s.len() < 300 {
                s.extend(utf8_string(rng, 40));
                s.push(b'x');
            }
            s
        }
        3 => "čćž-ß-日本語-𝄞".as_bytes().to_vec(),
        _ => utf8_string(rng, 20),
    }
}

/// all codes 0..=122, the documented special ones, random below 2^31, and (rarely) 2^31..2^32
pub fn gen_rc(rng: &mut Rng) -> u32 {
    match rng.below(8) {
        0 | 1 => 0,
        2 => *rng.pick(&[5u32, 6, 10, 14, 32, 49, 80, 88, 122, 127, 128, 255, 256, 4096, 32767, 32768, 65535, 8388607, 8388608, 2147483647]),
        3 | 4 | 5 => rng.below(123) as u32,
        6 => rng.next() as u32 & 0x7fffffff,
        _ => {
            if rng.chance(1, 4) {
                (rng.next() as u32) | 0x80000000
            } else {
                rng.next() as u32 & 0x7fffffff
            }
        }
    }
}

/// content octets of a non-negative resultCode: minimal two's complement, or padded with leading zeros
pub fn gen_rc_octets(rng: &mut Rng, rc: u32) -> Vec<u8> {
    let mut b = int_octets(rc as i64);
    if rng.chance(1, 8) {
        for _ in 0..rng.range(1, 4) {
            b.insert(0, 0);
        }
    }
    b
}

/// wide-range response of a given kind (`ctls` is left `None`: lane `results` carries WireCtl lists)
pub fn gen_resp_wide(rng: &mut Rng, app: u64) -> Resp {
    let refs = match rng.below(4) {
        0 => {
            let n = rng.below(6);
            Some(
                (0..n)
                    .map(|_| match rng.below(8) {
                        0 => vec![],
                        1 => format!("ldap://höst{}/dc=é,dc=𝄞", rng.below(100)).into_bytes(),
                        _ => format!("ldap://h{}/dc=x{}", rng.below(100), rng.below(1000)).into_bytes(),
                    })
                    .collect(),
            )
        }
        _ => None,
    };
    Resp {
        id: gen_id(rng),
        app,
        rc: gen_rc(rng),
        matched: gen_text(rng),
        text: gen_text(rng),
        refs,
        sasl: if app == 1 && rng.chance(1, 2) {
            Some(match rng.below(4) {
                0 => vec![],
                1 => rng.bytes(300),
                _ => rng.bytes_below(24),
            })
        } else {
            None
        },
        exop_name: if app == 24 && rng.chance(1, 2) {
            Some(if rng.chance(1, 6) { utf8_string(rng, 10) } else { format!("1.3.6.1.4.1.{}.{}", rng.below(9999), rng.below(99)).into_bytes() })
        } else {
            None
        },
        exop_val: if app == 24 && rng.chance(1, 2) {
            Some(match rng.below(4) {
                0 => vec![],
                1 => rng.bytes(300),
                _ => rng.bytes_below(40),
            })
        } else {
            None
        },
        ctls: None,
    }
}

/// `resp_op` with the resultCode content octets given
pub fn resp_op_rcc(r: &Resp, rcc: &[u8]) -> StructureTag {
    let mut op = resp_op(r);
    if let PL::C(ks) = &mut op.payload {
        ks[0] = prim(0, 10, rcc.to_vec());
    }
    op
}

pub fn envelope_wire(id: i64, op: StructureTag, ctls: &Option<Vec<WireCtl>>) -> StructureTag {
    let mut ks = vec![prim(0, 2, int_octets(id)), op];
    if let Some(cs) = ctls {
        ks.push(cons(2, 0, cs.iter().map(wire_ctl_tree).collect()));
    }
    cons(0, 16, ks)
}

//! Scenario runner for the connection lanes: executes a script of client / server / clock steps
//! against the REAL connection (current-thread runtime, paused clock, scripted transport) and
//! returns the merged event trace (driver trace hook + client/server events in real order).
use crate::fmtx::*;
use crate::gen::int_octets;
use crate::lanes::ber::real_encode;
use crate::simnet::{self, Net};
use futures_util::FutureExt;
use ldap3::verif::{verif_take_trace, verif_trace};
use ldap3::{Ldap, LdapConnAsync, LdapError, Scope};
use lber::structure::PL;
use std::time::Duration;
use tokio::sync::mpsc;

#[derive(Clone, Debug)]
pub enum OpKind {
    Single,
    Search,
    Abandon(i32),
    Unbind,
}

#[derive(Clone, Debug)]
pub enum Step {
    Issue { kind: OpKind, tmo_ms: Option<u64> },
    /// server frame: message id, protocolOp number, well-formed?
    Send { id: i64, op: u64, good: bool },
    /// raw server bytes (already a complete frame or garbage); logged as given
    Raw { bytes: Vec<u8>, log: String },
    Close,
    Garbage,
    Reset,
    Tick(u64),
    Settle,
    /// next() on the stream of op #i
    Next(usize),
    /// next() on the stream of op #i polled ONCE and, if still pending, dropped (a caller's `select!` /
    /// own timer giving up on the wait); no model event: a wait that ends pending changes nothing
    NextCancel(usize),
    Finish(usize),
    /// the stream of search `i` is dropped WITHOUT finish(): its receiver goes, no scrub is sent
    DropStream(usize),
    DropHandles,
    Table,
    /// a single-result operation issued through the handle INSIDE the stream of search `i`
    /// (`stream.ldap_handle()`); it gets the next operation index
    Via(usize),
    /// move the ID counter so that the next allocation tries `next_id` first; the in-use set is the
    /// library's own (emulates the wrap of the ID space; not a model event: R-oracle scenarios only)
    Rewind(i32),
    FailWrites,
    MaxRead(usize),
    /// the peer stops / resumes draining its socket: client writes block
    StallWrites(bool),
    /// EOF in the middle of a frame (FramedRead: "bytes remaining on stream"): logged as garbage
    CloseMidFrame,
    /// fail the write that crosses this absolute byte offset of the request stream
    FailWriteAt(usize),
    /// the caller of operation `i` stops waiting: its task is aborted, the operation's future (or the
    /// stream) is dropped where it stands — an outer `timeout()`, a `select!` arm, a task abort.  No model
    /// event: for the model this is a client that never polls again.
    CancelOp(usize),
}

pub fn kind_text(k: &OpKind) -> String {
    match k {
        OpKind::Single => String::from("single"),
        OpKind::Search => String::from("search"),
        OpKind::Abandon(t) => format!("abandon:{}", t),
        OpKind::Unbind => String::from("unbind"),
    }
}

fn err_text(e: &LdapError) -> String {
    match e {
        LdapError::Timeout { .. } => String::from("timeout"),
        LdapError::ResultRecv { .. } => String::from("recverr"),
        LdapError::OpSend { .. } => String::from("opsenderr"),
        LdapError::IdScrubSend { .. } => String::from("scrubsenderr"),
        LdapError::EndOfStream => String::from("closed"),
        LdapError::Io { source } if source.kind() == std::io::ErrorKind::InvalidData => String::from("decode"),
        LdapError::Io { .. } => String::from("io"),
        LdapError::FilterParsing => String::from("filter"),
        other => format!("other:{}", other).replace(' ', "_"),
    }
}

fn tok_of_text(t: &str) -> Option<u64> {
    t.strip_prefix("tok").and_then(|n| n.parse().ok())
}

/// LDAPResult-carrying response `[APPLICATION op] { rc 0, "", "tok<N>" }`
pub fn result_frame(id: i64, op: u64, tok: u64) -> Vec<u8> {
    let body = cons(1, op, vec![prim(0, 10, vec![0]), prim(0, 4, vec![]), prim(0, 4, format!("tok{}", tok).into_bytes())]);
    real_encode(&cons(0, 16, vec![prim(0, 2, int_octets(id)), body]))
}

/// entry / reference / intermediate-like frame `[APPLICATION op] { "tok<N>", {} }`
pub fn item_frame(id: i64, op: u64, tok: u64) -> Vec<u8> {
    let body = cons(1, op, vec![prim(0, 4, format!("tok{}", tok).into_bytes()), cons(0, 16, vec![])]);
    real_encode(&cons(0, 16, vec![prim(0, 2, int_octets(id)), body]))
}

/// bytes for `Send { id, op, good }` carrying token `tok`
pub fn frame_bytes(id: i64, op: u64, good: bool, tok: u64) -> Vec<u8> {
    if good {
        result_frame(id, op, tok)
    } else {
        item_frame(id, op, tok)
    }
}

enum Cmd {
    Next,
    NextCancel,
    Finish,
    Drop,
    Via,
}

pub struct Outcome {
    pub trace: Vec<String>,
    pub net: Net,
    pub watchdog_stuck: Vec<usize>,
}

async fn settle() {
    for _ in 0..30 {
        tokio::task::yield_now().await;
    }
}

fn now_ms(t0: tokio::time::Instant) -> u64 {
    (tokio::time::Instant::now() - t0).as_millis() as u64
}

/// Run the script. Every client operation runs in its own task on a clone of the handle.
pub fn run_script(steps: &[Step]) -> Outcome {
    let rt = tokio::runtime::Builder::new_current_thread().enable_time().start_paused(true).build().unwrap();
    let _ = verif_take_trace();
    let steps = steps.to_vec();
    rt.block_on(async move {
        let t0 = tokio::time::Instant::now();
        let (io, net) = simnet::pair();
        let (conn, ldap) = LdapConnAsync::verif_pair(Box::new(io));
        let drv = tokio::spawn(async move {
            let r = conn.drive().await;
            verif_trace(format!("drv result {}", if r.is_ok() { "ok" } else { "err" }));
        });
        let mut main_handle: Option<Ldap> = Some(ldap);
        let issued = std::rc::Rc::new(std::cell::Cell::new(0usize));
        let mut cmd_tx: Vec<Option<mpsc::UnboundedSender<Cmd>>> = vec![];
        let mut aborts: Vec<Option<tokio::task::AbortHandle>> = vec![];
        let mut tasks = tokio::task::JoinSet::new();
        let local = tokio::task::LocalSet::new();
        let mut tok: u64 = 100;
        let mut link_down = false;
        local
            .run_until(async {
                for st in steps {
                    match st {
                        Step::Issue { kind, tmo_ms } => {
                            let Some(h) = main_handle.as_ref() else { continue };
                            let mut l = h.clone();
                            let issued = issued.clone();
                            let (tx, mut rx) = mpsc::unbounded_channel::<Cmd>();
                            cmd_tx.push(Some(tx));
                            let k2 = kind.clone();
                            let ah = tasks.spawn_local(async move {
                                if let Some(t) = tmo_ms {
                                    l.with_timeout(Duration::from_millis(t));
                                }
                                let i = issued.get();
                                issued.set(i + 1);
                                verif_trace(format!("cli issue {} {} {}", i, kind_text(&k2), match tmo_ms { Some(t) => t.to_string(), None => String::from("none") }));
                                match k2 {
                                    OpKind::Single => {
                                        // a panic inside the operation future (caller's task) is an outcome, not a lost task
                                        let r = std::panic::AssertUnwindSafe(l.delete("cn=x")).catch_unwind().await;
                                        let txt = match r {
                                            Err(_) => String::from("panic"),
                                            Ok(Ok(res)) => match tok_of_text(&res.text) {
                                                Some(t) => format!("frame:{}", t),
                                                None => String::from("ack"),
                                            },
                                            Ok(Err(e)) => err_text(&e),
                                        };
                                        verif_trace(format!("cli done {} {}", i, txt));
                                    }
                                    OpKind::Abandon(t) => {
                                        let r = l.abandon(t).await;
                                        verif_trace(format!("cli done {} {}", i, match r { Ok(()) => String::from("ack"), Err(e) => err_text(&e) }));
                                    }
                                    OpKind::Unbind => {
                                        let r = l.unbind().await;
                                        verif_trace(format!("cli done {} {}", i, match r { Ok(()) => String::from("ack"), Err(e) => err_text(&e) }));
                                    }
                                    OpKind::Search => {
                                        let r = l.streaming_search("dc=x", Scope::Base, "(a=b)", vec!["a"]).await;
                                        let mut stream = match r {
                                            Ok(s) => {
                                                verif_trace(format!("cli done {} ack", i));
                                                s
                                            }
                                            Err(e) => {
                                                verif_trace(format!("cli done {} {}", i, err_text(&e)));
                                                return;
                                            }
                                        };
                                        let mut done_seen = false;
                                        while let Some(c) = rx.recv().await {
                                            match c {
                                                Cmd::Next => {
                                                    let dl = tmo_ms.map(|t| now_ms(t0) + t);
                                                    let active = stream.state() == ldap3::StreamState::Active;
                                                    let r = stream.next().await;
                                                    let txt = match r {
                                                        Ok(Some(re)) => {
                                                            let t = match &re.0.payload {
                                                                PL::C(ks) if !ks.is_empty() => match &ks[0].payload {
                                                                    PL::P(b) => tok_of_text(std::str::from_utf8(b).unwrap_or("")),
                                                                    _ => None,
                                                                },
                                                                _ => None,
                                                            };
                                                            format!("item:entry:{}", t.unwrap_or(0))
                                                        }
                                                        Ok(None) => {
                                                            if active {
                                                                done_seen = true;
                                                                let t = stream.res.as_ref().and_then(|r| tok_of_text(&r.text));
                                                                format!("item:done:{}", t.unwrap_or(0))
                                                            } else {
                                                                String::from("inactive")
                                                            }
                                                        }
                                                        Err(e) => err_text(&e),
                                                    };
                                                    if txt != "inactive" {
                                                        verif_trace(format!("cli next {} {} {}", i, match dl { Some(d) => d.to_string(), None => String::from("none") }, txt));
                                                    }
                                                }
                                                Cmd::NextCancel => {
                                                    let active = stream.state() == ldap3::StreamState::Active;
                                                    let polled = {
                                                        let mut fut = Box::pin(stream.next());
                                                        futures_util::poll!(&mut fut)
                                                    };
                                                    match polled {
                                                        std::task::Poll::Pending => verif_trace(format!("cli nextcancelled {}", i)),
                                                        std::task::Poll::Ready(r) => {
                                                            let txt = match r {
                                                                Ok(Some(re)) => {
                                                                    let t = match &re.0.payload {
                                                                        PL::C(ks) if !ks.is_empty() => match &ks[0].payload {
                                                                            PL::P(b) => tok_of_text(std::str::from_utf8(b).unwrap_or("")),
                                                                            _ => None,
                                                                        },
                                                                        _ => None,
                                                                    };
                                                                    format!("item:entry:{}", t.unwrap_or(0))
                                                                }
                                                                Ok(None) => {
                                                                    if active {
                                                                        done_seen = true;
                                                                        let t = stream.res.as_ref().and_then(|r| tok_of_text(&r.text));
                                                                        format!("item:done:{}", t.unwrap_or(0))
                                                                    } else {
                                                                        String::from("inactive")
                                                                    }
                                                                }
                                                                Err(e) => err_text(&e),
                                                            };
                                                            if txt != "inactive" {
                                                                verif_trace(format!("cli next {} none {}", i, txt));
                                                            }
                                                        }
                                                    }
                                                }
                                                Cmd::Drop => {
                                                    // for the model this is `finish` without a scrub: the receiver goes
                                                    if stream.state() != ldap3::StreamState::Closed {
                                                        verif_trace(format!("cli finish {} 0", i));
                                                    }
                                                    break;
                                                }
                                                Cmd::Via => {
                                                    let j = issued.get();
                                                    issued.set(j + 1);
                                                    verif_trace(format!("cli issue {} single none", j));
                                                    let r = stream.ldap_handle().delete("cn=via").await;
                                                    let txt = match r {
                                                        Ok(res) => match tok_of_text(&res.text) {
                                                            Some(t) => format!("frame:{}", t),
                                                            None => String::from("ack"),
                                                        },
                                                        Err(e) => err_text(&e),
                                                    };
                                                    verif_trace(format!("cli done {} {}", j, txt));
                                                }
                                                Cmd::Finish => {
                                                    let closed = stream.state() == ldap3::StreamState::Closed;
                                                    let was_done = stream.state() == ldap3::StreamState::Done;
                                                    let _ = done_seen;
                                                    // order matters: the scrub is sent inside finish(); log first
                                                    if !closed {
                                                        verif_trace(format!("cli finish {} {}", i, if was_done { 0 } else { 1 }));
                                                    }
                                                    let res = stream.finish().await;
                                                    verif_trace(format!("cli finished {} rc={}", i, res.rc));
                                                    break;
                                                }
                                            }
                                        }
                                        drop(stream);
                                        verif_trace(format!("cli streamdropped {}", i));
                                    }
                                }
                            });
                            aborts.push(Some(ah));
                            // let the task run its synchronous prefix (alloc + enqueue)
                            tokio::task::yield_now().await;
                        }
                        Step::Send { .. } | Step::Raw { .. } | Step::Close | Step::Garbage | Step::Reset if link_down => {}
                        Step::Send { id, op, good } => {
                            tok += 1;
                            verif_trace(format!("srv send {} {} {} {}", id, op, tok, if good { 1 } else { 0 }));
                            net.send(&frame_bytes(id, op, good, tok));
                        }
                        Step::Raw { bytes, log } => {
                            if !log.is_empty() {
                                verif_trace(log.clone());
                            }
                            net.send(&bytes);
                        }
                        Step::Close => {
                            verif_trace(String::from("srv close"));
                            link_down = true;
                            net.close();
                        }
                        Step::Garbage => {
                            verif_trace(String::from("srv garbage"));
                            link_down = true;
                            // one of several complete frames that are not LDAPMessages, in rotation; the server
                            // stays connected and silent afterwards, so only a decode error ends the driver
                            static GARBAGE_NO: std::sync::atomic::AtomicUsize = std::sync::atomic::AtomicUsize::new(0);
                            const GARBAGE: [&[u8]; 4] = [
                                &[0x30, 0x03, 0x04, 0x01, 0x41],                   // SEQUENCE { OCTET STRING }: not an envelope
                                &[0x30, 0x0c, 0x02, 0x01, 0x02, 0x61, 0x07, 0x0a, 0x01, 0x00, 0x04, 0x00, 0x04, 0x05], // inner TLV overruns its parent (F3)
                                &[0x30, 0x00],                                     // empty envelope (F1)
                                &[0x04, 0x02, 0x41, 0x42],                         // not even a SEQUENCE
                            ];
                            let g = GARBAGE[GARBAGE_NO.fetch_add(1, std::sync::atomic::Ordering::Relaxed) % GARBAGE.len()];
                            net.send(g);
                        }
                        Step::Reset => {
                            verif_trace(String::from("srv garbage"));
                            link_down = true;
                            net.reset();
                        }
                        Step::Tick(ms) => {
                            verif_trace(format!("tick {}", ms));
                            tokio::time::advance(Duration::from_millis(ms)).await;
                        }
                        Step::Settle => settle().await,
                        Step::Next(i) => {
                            if let Some(Some(tx)) = cmd_tx.get(i) {
                                let _ = tx.send(Cmd::Next);
                            }
                            tokio::task::yield_now().await;
                        }
                        Step::NextCancel(i) => {
                            if let Some(Some(tx)) = cmd_tx.get(i) {
                                let _ = tx.send(Cmd::NextCancel);
                            }
                            tokio::task::yield_now().await;
                        }
                        Step::Finish(i) => {
                            if let Some(Some(tx)) = cmd_tx.get(i) {
                                let _ = tx.send(Cmd::Finish);
                            }
                            tokio::task::yield_now().await;
                        }
                        Step::DropStream(i) => {
                            if let Some(Some(tx)) = cmd_tx.get(i) {
                                let _ = tx.send(Cmd::Drop);
                            }
                            tokio::task::yield_now().await;
                        }
                        Step::DropHandles => {
                            // only meaningful when no client task still holds a clone
                            settle().await;
                            for c in cmd_tx.iter_mut() {
                                *c = None;
                            }
                            settle().await;
                            if tasks.is_empty() || { while tasks.try_join_next().is_some() {} tasks.is_empty() } {
                                if main_handle.take().is_some() {
                                    verif_trace(String::from("drophandles"));
                                }
                            }
                        }
                        Step::Via(i) => {
                            if let Some(Some(tx)) = cmd_tx.get(i) {
                                let _ = tx.send(Cmd::Via);
                                cmd_tx.push(None); // the new operation has an index but takes no commands
                                aborts.push(None);
                                tokio::task::yield_now().await;
                            }
                        }
                        Step::Table => {
                            if let Some(h) = main_handle.as_ref() {
                                let (last, used) = h.verif_msgmap();
                                verif_trace(format!("tbl {} {:?}", last, used).replace(", ", ","));
                            }
                        }
                        Step::Rewind(next_id) => {
                            if let Some(h) = main_handle.as_ref() {
                                let (_, used) = h.verif_msgmap();
                                h.verif_set_msgmap(if next_id <= 1 { i32::MAX } else { next_id - 1 }, &used);
                                verif_trace(format!("rewind {}", next_id));
                            }
                        }
                        Step::FailWrites => {
                            net.fail_write_at(Some(net.total_written()));
                            verif_trace(String::from("net failwrites"));
                        }
                        Step::MaxRead(n) => net.set_max_read(n),
                        Step::StallWrites(b) => net.stall_writes(b),
                        Step::CloseMidFrame => {
                            if !link_down {
                                verif_trace(String::from("srv garbage"));
                                link_down = true;
                                net.close();
                            }
                        }
                        Step::FailWriteAt(n) => net.fail_write_at(Some(n)),
                        Step::CancelOp(i) => {
                            if let Some(Some(ah)) = aborts.get(i) {
                                if !ah.is_finished() {
                                    ah.abort();
                                    verif_trace(format!("cli cancelled {}", i));
                                }
                            }
                            if let Some(c) = cmd_tx.get_mut(i) {
                                *c = None;
                            }
                            settle().await;
                            while tasks.try_join_next().is_some() {}
                        }
                    }
                }
                settle().await;
                // final table + watchdog: advance virtual time far; anything still pending with the driver gone is a hang
                if let Some(h) = main_handle.as_ref() {
                    let (last, used) = h.verif_msgmap();
                    verif_trace(format!("tbl {} {:?}", last, used).replace(", ", ","));
                }
            })
            .await;
        let driver_done = drv.is_finished();
        let mut stuck = vec![];
        if driver_done {
            // with the driver gone every client future must resolve without further input
            local
                .run_until(async {
                    for c in cmd_tx.iter_mut() {
                        // streams: ask for one more item so that a waiting stream observes the loss, then finish
                        if let Some(tx) = c {
                            let _ = tx.send(Cmd::Next);
                            let _ = tx.send(Cmd::Finish);
                        }
                    }
                    settle().await;
                    tokio::time::advance(Duration::from_secs(7200)).await;
                    settle().await;
                    while tasks.try_join_next().is_some() {}
                    if !tasks.is_empty() {
                        stuck.push(tasks.len());
                    }
                })
                .await;
        }
        tasks.abort_all();
        Outcome { trace: verif_take_trace(), net, watchdog_stuck: stuck }
    })
}

/// Translate the merged real trace into the model's event language (one `;`-separated line).
pub fn to_model_events(trace: &[String]) -> String {
    let mut out: Vec<String> = vec![];
    let mut pending_op: Option<String> = None;
    let mut i = 0;
    while i < trace.len() {
        let t = &trace[i];
        let w: Vec<&str> = t.split(' ').collect();
        match (w[0], w.get(1).copied().unwrap_or("")) {
            ("cli", "issue") => out.push(format!("issue {} {} {}", w[2], w[3], w[4])),
            ("cli", "done") => out.push(format!("poll {} {}", w[2], w[3])),
            ("cli", "next") => out.push(format!("recv {} {} {}", w[2], w[3], w[4])),
            ("cli", "finish") => out.push(format!("finish {} {}", w[2], w[3])),
            ("cli", "finished") | ("cli", "streamdropped") | ("cli", "nextcancelled") | ("cli", "cancelled") => {}
            ("drv", "scrub") => out.push(format!("drvscrub {}", w[2])),
            ("drv", "op") => {
                // the arm's effects take place when the write has completed (`drv sent`), failed
                // (`drv end senderr`) or the request was discarded (`drv opskipped`)
                pending_op = Some(format!("drvop {} {}", w[2], w[3]));
            }
            ("drv", "sent") => {
                if let Some(p) = pending_op.take() {
                    out.push(format!("{} ok", p));
                }
            }
            ("drv", "opskipped") => {
                if let Some(p) = pending_op.take() {
                    out.push(format!("{} skipped", p));
                }
            }
            ("drv", "end") if w[2] == "senderr" => {
                if let Some(p) = pending_op.take() {
                    out.push(format!("{} fail", p));
                }
            }
            ("drv", "resp") => {
                let bad = trace.get(i + 1).map(|n| n == "drv end badresp").unwrap_or(false);
                out.push(format!("drvresp {} {}", w[2], if bad { "bad" } else { "ok" }));
                if bad {
                    i += 1;
                }
            }
            ("drv", "end") => out.push(format!("drvend {}", w[2])),
            ("drv", "maps") => out.push(format!("maps {}", t["drv maps ".len()..].replace(", ", ","))),
            ("drv", "result") => out.push(format!("drvresult {}", w[2])),
            ("srv", "send") => out.push(format!("srvsend {} {} {} {}", w[2], w[3], w[4], w[5])),
            ("srv", "close") => out.push(String::from("srvclose")),
            ("srv", "garbage") => out.push(String::from("srvgarbage")),
            ("tick", _) => out.push(format!("tick {}", w[1])),
            ("tbl", _) => out.push(format!("tbl {} {}", w[1], w[2])),
            ("drophandles", _) => out.push(String::from("drophandles")),
            ("net", _) => {}
            _ => out.push(format!("unknown:{}", t.replace(' ', "_"))),
        }
        i += 1;
    }
    out.join(" ; ")
}

//! One PRNG state per lane; every random choice derives from it (splitmix64).
pub struct Rng(pub u64);

impl Rng {
    pub fn new(seed: u64, lane: &str) -> Rng {
        let mut h: u64 = 0xcbf29ce484222325 ^ seed.wrapping_mul(0x9E3779B97F4A7C15);
        for b in lane.bytes() {
            h = (h ^ b as u64).wrapping_mul(0x100000001b3);
        }
        Rng(h)
    }
    pub fn next(&mut self) -> u64 {
        self.0 = self.0.wrapping_add(0x9E3779B97F4A7C15);
        let mut z = self.0;
        z = (z ^ (z >> 30)).wrapping_mul(0xBF58476D1CE4E5B9);
        z = (z ^ (z >> 27)).wrapping_mul(0x94D049BB133111EB);
        z ^ (z >> 31)
    }
    /// uniform in 0..n (n > 0)
    pub fn below(&mut self, n: u64) -> u64 {
        self.next() % n
    }
    pub fn range(&mut self, lo: u64, hi_incl: u64) -> u64 {
        lo + self.below(hi_incl - lo + 1)
    }
    pub fn chance(&mut self, num: u64, den: u64) -> bool {
        self.below(den) < num
    }
    pub fn pick<'a, T>(&mut self, xs: &'a [T]) -> &'a T {
        &xs[self.below(xs.len() as u64) as usize]
    }
    pub fn bytes(&mut self, n: usize) -> Vec<u8> {
        (0..n).map(|_| self.next() as u8).collect()
    }
}

impl Rng {
    /// `n` random bytes with `n` uniform below `max`
    pub fn bytes_below(&mut self, max: u64) -> Vec<u8> {
        let n = self.below(max) as usize;
        self.bytes(n)
    }
}

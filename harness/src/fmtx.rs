//! Canonical text forms shared with the Lean driver.
use lber::common::TagClass;
use lber::structure::{StructureTag, PL};

pub fn hex(b: &[u8]) -> String {
    if b.is_empty() {
        return String::from("-");
    }
    let mut s = String::with_capacity(b.len() * 2);
    for x in b {
        s.push_str(&format!("{:02x}", x));
    }
    s
}

pub fn unhex(s: &str) -> Vec<u8> {
    if s == "-" {
        return vec![];
    }
    (0..s.len() / 2)
        .map(|i| u8::from_str_radix(&s[2 * i..2 * i + 2], 16).unwrap())
        .collect()
}

pub fn cls_num(c: TagClass) -> u8 {
    c as u8
}

pub fn cls_of(n: u8) -> TagClass {
    TagClass::from_u8(n).unwrap()
}

/// `(P c id hex)` / `(C c id kid kid …)`
pub fn tlv(t: &StructureTag) -> String {
    let mut s = String::new();
    tlv_into(t, &mut s);
    s
}

fn tlv_into(t: &StructureTag, s: &mut String) {
    match &t.payload {
        PL::P(v) => {
            s.push_str(&format!("(P {} {} {})", cls_num(t.class), t.id, hex(v)));
        }
        PL::C(ks) => {
            s.push_str(&format!("(C {} {}", cls_num(t.class), t.id));
            for k in ks {
                s.push(' ');
                tlv_into(k, s);
            }
            s.push(')');
        }
    }
}

pub fn prim(c: u8, id: u64, v: Vec<u8>) -> StructureTag {
    StructureTag { class: cls_of(c), id, payload: PL::P(v) }
}

pub fn cons(c: u8, id: u64, ks: Vec<StructureTag>) -> StructureTag {
    StructureTag { class: cls_of(c), id, payload: PL::C(ks) }
}

pub fn depth(t: &StructureTag) -> usize {
    match &t.payload {
        PL::P(_) => 0,
        PL::C(ks) => 1 + ks.iter().map(depth).max().unwrap_or(0),
    }
}

/// FNV-1a, used to count distinct cases.
pub fn fnv(s: &[u8]) -> u64 {
    let mut h: u64 = 0xcbf29ce484222325;
    for b in s {
        h = (h ^ *b as u64).wrapping_mul(0x100000001b3);
    }
    h
}

//! Lane `ids` (C05): the real ID table positioned at arbitrary counter values / in-use sets
//! (hooks `verif_set_msgmap`, `verif_next_msgid`) against Model.IdAlloc.nextId, and multi-threaded
//! bursts from cloned handles with a server-side uniqueness oracle.
use crate::fmtx::*;
use crate::out::{guarded, Out};
use crate::rng::Rng;
use crate::simnet;
use ldap3::LdapConnAsync;
use std::collections::HashSet;

const N: i32 = i32::MAX;

fn alloc_case(out: &mut Out, last: i32, in_use: &[i32], label: &str) {
    let rt = tokio::runtime::Builder::new_current_thread().build().unwrap();
    let used = in_use.to_vec();
    let r = guarded(move || {
        rt.block_on(async move {
            let (io, _net) = simnet::pair();
            let (_conn, mut ldap) = LdapConnAsync::verif_pair(Box::new(io));
            ldap.verif_set_msgmap(last, &used);
            let id = ldap.verif_next_msgid();
            let (l2, u2) = ldap.verif_msgmap();
            (id, l2, u2)
        })
    });
    let mut sorted = in_use.to_vec();
    sorted.sort_unstable();
    let req = format!("id.next {} {} {}", N, last, format!("{:?}", sorted).replace(", ", ","));
    out.case(&req, !in_use.is_empty());
    out.stat(label);
    match r {
        Ok((id, l2, u2)) => {
            out.m(&req, &format!("ok {}", id));
            let set: HashSet<i32> = in_use.iter().copied().collect();
            // Property oracle: what C05 states and no more - the ID handed out is within 1..=N, is not
            // one of the IDs in use, and is reserved afterwards.  WHICH free ID is chosen (the first one
            // in cyclic order after the counter) is the model's business: the M line above.
            let mut exp_used = sorted.clone();
            exp_used.push(id);
            exp_used.sort_unstable();
            out.r(&format!("ids.allocated-id-in-range-free-and-reserved {}", req), id >= 1 && !set.contains(&id) && u2 == exp_used, &format!("got {} (counter now {}), in use afterwards {:?}", id, l2, &u2[..u2.len().min(8)]));
        }
        Err(_) => {
            out.m(&req, "panic");
            out.r(&format!("ids.alloc-panics-only-when-full {}", req), false, "panic with free IDs available");
        }
    }
}

pub fn run(thorough: bool, mut rng: Rng, mut out: Out) {
    // (i) pure allocator at and around the wrap point
    let lasts = [0i32, 1, 2, 100, N - 2, N - 1, N];
    let sets: Vec<Vec<i32>> = vec![
        vec![], vec![1], vec![1, 2, 3], vec![N], vec![N, 1], vec![N - 1, N, 1, 2], vec![2], vec![N - 1], vec![1, 3, 5],
        (1..=40).collect(), ((N - 20)..=N).collect(), ((N - 20)..=N).chain(1..=20).collect(),
    ];
    for &l in &lasts {
        for s in &sets {
            if l == 0 && !s.is_empty() {
                continue; // last = 0 only on a fresh table
            }
            alloc_case(&mut out, l, s, "grid");
        }
    }
    let nrand = if thorough { 100000 } else { 1500 };
    for _ in 0..nrand {
        let last = match rng.below(4) { 0 => N - rng.below(5) as i32, 1 => rng.range(1, 50) as i32, 2 => N, _ => rng.range(1, N as u64) as i32 };
        let mut s: Vec<i32> = vec![];
        // dense run starting right after `last`, crossing the wrap point when near it
        let run_len = rng.below(30);
        let mut c = last;
        for _ in 0..run_len {
            c = if c == N { 1 } else { c + 1 };
            if rng.chance(9, 10) {
                s.push(c);
            }
        }
        for _ in 0..rng.below(5) {
            s.push(rng.range(1, N as u64) as i32);
        }
        s.sort_unstable();
        s.dedup();
        alloc_case(&mut out, last, &s, "random");
    }
    // (ii) histories: cloned handles on a multi-thread runtime issue bursts while the server answers
    // in random order; server-side oracle: an arriving ID is within 1..N and differs from every
    // request it has not answered yet
    let nhist = if thorough { 600 } else { 25 };
    for h in 0..nhist {
        let handles = rng.range(1, 6) as usize;
        let per = rng.range(2, 12) as usize;
        let start_last = if rng.chance(1, 2) { N - rng.below(8) as i32 } else { rng.range(0, 50) as i32 };
        let seed = rng.next();
        let res = guarded(move || history(handles, per, start_last, seed));
        let label = format!("ids.history handles={} per={} start_last={}", handles, per, start_last);
        out.case(&format!("{} #{}", label, h), handles * per >= 2);
        match res {
            Ok((ok, detail, n)) => {
                out.stat_n("history.requests", n as u64);
                out.r(&label, ok, &detail);
            }
            Err(e) => out.r(&label, false, &format!("panic {}", e)),
        }
    }
    // (iii) the counter wraps while operations started through the ordinary API are still running:
    // searches whose streams are open (started, one entry received, no Done) and single operations
    // nobody has answered; the table is the library's own (read back through the hook, only the
    // counter position is moved to N-r).  Same server-side oracle.
    let nlive = if thorough { 400 } else { 16 };
    for h in 0..nlive {
        let searches = rng.range(1, 4) as usize;
        let singles = rng.below(3) as usize;
        let per = rng.range(2, 8) as usize;
        let r = rng.below(3) as i32;
        let seed = rng.next();
        let res = guarded(move || history_live(searches, singles, per, r, seed));
        let label = format!("ids.wrap-with-live-operations searches={} singles={} then={} start_last=N-{}", searches, singles, per, r);
        out.case(&format!("{} #{}", label, h), true);
        match res {
            Ok((ok, detail, n)) => {
                out.stat_n("live.requests", n as u64);
                out.r(&label, ok, &detail);
            }
            Err(e) => out.r(&label, false, &format!("panic {}", e)),
        }
    }
    // (iv) a waiter that learns late that its operation is gone: A waits (with or without a time-out), another
    // handle abandons A's ID, the counter comes round and C's request leaves under that ID, and only THEN does
    // A's task run and see its failure; afterwards the counter comes round again and D allocates.  Whatever A's
    // error path does (a stale scrub, say) must not release the ID C now owns: D's ID must differ from C's while
    // C is unanswered, and both get their own answers.
    let nlate = if thorough { 200 } else { 24 };
    for h in 0..nlate {
        let a_tmo = if h % 3 == 1 { Some(60_000u64) } else { None };
        let base = *rng.pick(&[1i32, 2, 7, 100, N - 1, N]);
        let extra_polls = rng.below(3) as usize;
        let res = guarded(move || late_wakeup(a_tmo, base, extra_polls));
        let label = format!("ids.late-wakeup-of-abandoned-waiter a_timeout={:?} n={} polls={}", a_tmo, base, extra_polls);
        out.case(&format!("{} #{}", label, h), true);
        out.stat("late-wakeup.scenarios");
        match res {
            Ok((ok, detail)) => out.r(&label, ok, &detail),
            Err(e) => out.r(&label, false, &format!("panic {}", e)),
        }
    }
    // (v) whatever the server sends under the ID of an operation that is still WAITING, the ID stays that
    // operation's: the frame either completes the operation (result, or an error for a frame that is no result)
    // or leaves it waiting — and while it waits, a counter that comes round to that number must skip it.
    // Frames: IntermediateResponse (25, RFC-legal for extended operations), entry (4), reference (19), extended
    // response (24), bind response (1), a malformed result (11 bad), a Done for a non-search (5).
    for (k, (op, good)) in [(25u64, false), (25, true), (4, false), (19, false), (24, true), (1, true), (11, false), (5, true), (5, false)].iter().enumerate() {
        for repeats in 1..=2usize {
            use crate::scen::*;
            let mut sc = vec![
                Step::Issue { kind: OpKind::Single, tmo_ms: None },                                  // op 0, id 1
                Step::Issue { kind: OpKind::Single, tmo_ms: if k % 2 == 0 { None } else { Some(60_000) } }, // op 1, id 2
                Step::Settle,
            ];
            for _ in 0..repeats {
                sc.push(Step::Send { id: 1, op: *op, good: *good });
                sc.push(Step::Settle);
            }
            sc.push(Step::Table);
            sc.push(Step::Rewind(1));                                                                // the counter comes round
            sc.push(Step::Issue { kind: OpKind::Single, tmo_ms: None });                             // op 2
            sc.push(Step::Issue { kind: OpKind::Search, tmo_ms: None });                             // op 3
            sc.push(Step::Settle);
            sc.push(Step::Table);
            for id in 1..=4 {
                sc.push(Step::Send { id, op: 11, good: true });
            }
            sc.push(Step::Settle);
            let o = run_script(&sc);
            let label = format!("ids.waiting-operation-keeps-its-id frame-op={} good={} x{}", op, good, repeats);
            out.case(&label, true);
            out.stat("waiting-keeps-id.scenarios");
            // replay the trace: which operations are outstanding (issued, not done) when a request leaves, and under which IDs
            let mut opq: Vec<usize> = vec![];
            let mut id_of: std::collections::HashMap<usize, String> = Default::default();
            let mut done: std::collections::HashSet<usize> = Default::default();
            let mut ok = true;
            let mut why = String::new();
            for t in &o.trace {
                let w: Vec<&str> = t.split(' ').collect();
                match (w[0], w.get(1).copied().unwrap_or("")) {
                    ("cli", "issue") => opq.push(w[2].parse().unwrap_or(0)),
                    ("cli", "done") => {
                        done.insert(w[2].parse().unwrap_or(0));
                    }
                    ("drv", "op") => {
                        if !opq.is_empty() {
                            let me = opq.remove(0);
                            for (other, oid) in &id_of {
                                if !done.contains(other) && oid == w[2] {
                                    ok = false;
                                    why = format!("operation {} leaves under ID {} while operation {} is still waiting under it", me, w[2], other);
                                }
                            }
                            id_of.insert(me, w[2].to_string());
                        }
                    }
                    _ => {}
                }
            }
            out.r(&label, ok && o.watchdog_stuck.is_empty(), &format!("{} | {}", why, to_model_events(&o.trace)));
        }
    }
    out.finish("the real msgmap positioned at last in {0,1,2,100,N-2,N-1,N} x in-use sets (empty, singletons, dense runs across the wrap point, random) and random positions; multi-thread bursts from 1..6 cloned handles with a server-side uniqueness oracle; non-trivial = non-empty in-use set / at least 2 requests; distinct by FNV of the request line");
}

/// scenario (iv) of `run`; futures are polled by hand so that A's task observably runs last
fn late_wakeup(a_tmo: Option<u64>, n: i32, extra_polls: usize) -> (bool, String) {
    use futures_util::poll;
    let rt = tokio::runtime::Builder::new_current_thread().enable_time().start_paused(true).build().unwrap();
    rt.block_on(async move {
        let (io, net) = simnet::pair();
        let (conn, ldap) = LdapConnAsync::verif_pair(Box::new(io));
        tokio::spawn(async move {
            let _ = conn.drive().await;
        });
        async fn settle() {
            for _ in 0..40 {
                tokio::task::yield_now().await;
            }
        }
        let mut inbuf: Vec<u8> = vec![];
        let mut next_req = |net: &simnet::Net, inbuf: &mut Vec<u8>| -> Option<(i64, u64)> {
            inbuf.extend(net.take_written());
            read_msg(inbuf)
        };
        let (mut a, mut b, mut c, mut d) = (ldap.clone(), ldap.clone(), ldap.clone(), ldap.clone());
        // 1. A's Delete leaves under ID n and stays pending
        ldap.verif_set_msgmap(if n <= 1 { N } else { n - 1 }, &[]);
        if let Some(t) = a_tmo {
            a.with_timeout(std::time::Duration::from_millis(t));
        }
        let mut fut_a = Box::pin(a.delete("cn=a"));
        if !poll!(&mut fut_a).is_pending() {
            return (false, String::from("A resolved without an answer"));
        }
        settle().await;
        let Some((ida, _)) = next_req(&net, &mut inbuf) else { return (false, String::from("A's request not written")) };
        if ida != n as i64 {
            return (false, format!("A left under {} instead of {}", ida, n));
        }
        // 2. B abandons n
        if b.abandon(n).await.is_err() {
            return (false, String::from("abandon failed"));
        }
        settle().await;
        let _ = next_req(&net, &mut inbuf);
        let (_, used) = ldap.verif_msgmap();
        if !used.is_empty() {
            return (false, format!("IDs still reserved after the Abandon: {:?}", used));
        }
        // 3. the counter comes round: C's Delete leaves under n and stays pending
        ldap.verif_set_msgmap(if n <= 1 { N } else { n - 1 }, &used);
        let mut fut_c = Box::pin(c.delete("cn=c"));
        if !poll!(&mut fut_c).is_pending() {
            return (false, String::from("C resolved without an answer"));
        }
        settle().await;
        let Some((idc, _)) = next_req(&net, &mut inbuf) else { return (false, String::from("C's request not written")) };
        if idc != n as i64 {
            return (false, format!("C left under {} instead of the free ID {}", idc, n));
        }
        // 4. only now does A's task run
        let ra = fut_a.await;
        if ra.is_ok() {
            return (false, String::from("A returned a result although its operation was abandoned and never answered"));
        }
        drop(a);
        settle().await;
        for _ in 0..extra_polls {
            let _ = poll!(&mut fut_c);
            settle().await;
        }
        // 5. the counter comes round again: D must not get C's ID
        let (_, used) = ldap.verif_msgmap();
        ldap.verif_set_msgmap(if n <= 1 { N } else { n - 1 }, &used);
        let mut fut_d = Box::pin(d.delete("cn=d"));
        if !poll!(&mut fut_d).is_pending() {
            return (false, String::from("D resolved without an answer"));
        }
        settle().await;
        let Some((idd, _)) = next_req(&net, &mut inbuf) else { return (false, String::from("D's request not written")) };
        if idd == idc {
            return (false, format!("two outstanding requests left the client under the same message ID {} (table before D's allocation: {:?})", idd, used));
        }
        if !used.contains(&(idc as i32)) {
            return (false, format!("C (ID {}) is outstanding but its ID is not reserved: {:?}", idc, used));
        }
        // both get their own answers
        net.send(&crate::scen::result_frame(idc, 11, 31));
        net.send(&crate::scen::result_frame(idd, 11, 32));
        settle().await;
        let rc = tokio::time::timeout(std::time::Duration::from_secs(5), fut_c).await;
        let rd = tokio::time::timeout(std::time::Duration::from_secs(5), fut_d).await;
        let tc = rc.ok().and_then(|r| r.ok()).map(|r| r.text);
        let td = rd.ok().and_then(|r| r.ok()).map(|r| r.text);
        if tc.as_deref() != Some("tok31") || td.as_deref() != Some("tok32") {
            return (false, format!("C got {:?} (expected tok31), D got {:?} (expected tok32)", tc, td));
        }
        (true, String::new())
    })
}

fn read_msg(buf: &mut Vec<u8>) -> Option<(i64, u64)> {
    // minimal reader of `30 len 02 idlen id.. optag`
    if buf.len() < 2 {
        return None;
    }
    let (hl, total) = if buf[1] < 0x80 {
        (2usize, 2 + buf[1] as usize)
    } else {
        let k = (buf[1] & 0x7f) as usize;
        if buf.len() < 2 + k {
            return None;
        }
        let mut n = 0usize;
        for b in &buf[2..2 + k] {
            n = (n << 8) | *b as usize;
        }
        (2 + k, 2 + k + n)
    };
    if buf.len() < total {
        return None;
    }
    let idlen = buf[hl + 1] as usize;
    let mut id: i64 = 0;
    for b in &buf[hl + 2..hl + 2 + idlen] {
        id = (id << 8) | *b as i64;
    }
    let optag = (buf[hl + 2 + idlen] & 0x1f) as u64;
    buf.drain(..total);
    Some((id, optag))
}

fn history_live(searches: usize, singles: usize, per: usize, r: i32, seed: u64) -> (bool, String, usize) {
    use ldap3::Scope;
    let rt = tokio::runtime::Builder::new_multi_thread().worker_threads(4).enable_time().build().unwrap();
    rt.block_on(async move {
        let (io, net) = simnet::pair();
        let (conn, ldap) = LdapConnAsync::verif_pair(Box::new(io));
        tokio::spawn(async move {
            let _ = conn.drive().await;
        });
        let mut rng = Rng(seed);
        let mut inbuf: Vec<u8> = vec![];
        let mut outstanding: Vec<i64> = vec![];
        let mut ok = true;
        let mut detail = String::new();
        let mut seen = 0usize;
        // phase 1: the live operations
        let mut streams = vec![];
        for _ in 0..searches {
            let mut l = ldap.clone();
            match tokio::time::timeout(std::time::Duration::from_secs(5), l.streaming_search("dc=x", Scope::Subtree, "(a=b)", vec!["cn"])).await {
                Ok(Ok(st)) => streams.push(st),
                other => return (false, format!("search did not start: {:?}", other.map(|r| r.map(|_| ()).map_err(|e| e.to_string()))), 0),
            }
        }
        let mut pending = vec![];
        for _ in 0..singles {
            let mut l = ldap.clone();
            pending.push(tokio::spawn(async move {
                let _ = l.delete("cn=pending").await;
            }));
        }
        let live = searches + singles;
        let t0 = std::time::Instant::now();
        while seen < live {
            if t0.elapsed().as_secs() > 10 {
                return (false, format!("watchdog: {} of {} live requests seen", seen, live), seen);
            }
            inbuf.extend(net.take_written());
            while let Some((id, _op)) = read_msg(&mut inbuf) {
                seen += 1;
                if outstanding.contains(&id) {
                    ok = false;
                    detail = format!("id {} reused while still outstanding {:?}", id, outstanding);
                }
                outstanding.push(id);
            }
            tokio::time::sleep(std::time::Duration::from_micros(200)).await;
        }
        let live_ids = outstanding.clone();
        // phase 2: move the counter to N-r, keep the library's own in-use set
        let (_, used) = ldap.verif_msgmap();
        ldap.verif_set_msgmap(N - r, &used);
        // phase 3: further operations across the wrap point; they are answered, the live ones are not
        let mut l2 = ldap.clone();
        let later = tokio::spawn(async move {
            for _ in 0..per {
                let _ = l2.delete("cn=x").await;
            }
        });
        let total = live + per;
        let t1 = std::time::Instant::now();
        while seen < total || outstanding.len() > live {
            if t1.elapsed().as_secs() > 20 {
                ok = false;
                detail = format!("watchdog: {} of {} requests seen, outstanding {:?}", seen, total, outstanding);
                break;
            }
            inbuf.extend(net.take_written());
            while let Some((id, _op)) = read_msg(&mut inbuf) {
                seen += 1;
                if id < 1 || id > N as i64 {
                    ok = false;
                    detail = format!("id {} out of range", id);
                }
                if outstanding.contains(&id) {
                    ok = false;
                    detail = format!("id {} given to a new request while the operation that owns it is still running (live {:?}, table {:?})", id, live_ids, used);
                }
                outstanding.push(id);
            }
            // answer one of the later requests (never the live ones)
            if let Some(pos) = outstanding.iter().position(|x| !live_ids.contains(x)) {
                if rng.chance(2, 3) || seen >= total {
                    let id = outstanding.remove(pos);
                    net.send(&crate::scen::result_frame(id, 11, 1));
                }
            }
            tokio::time::sleep(std::time::Duration::from_micros(200)).await;
        }
        let _ = tokio::time::timeout(std::time::Duration::from_secs(5), later).await;
        drop(streams);
        for p in pending {
            p.abort();
        }
        (ok, detail, seen)
    })
}

fn history(handles: usize, per: usize, start_last: i32, seed: u64) -> (bool, String, usize) {
    let rt = tokio::runtime::Builder::new_multi_thread().worker_threads(4).enable_time().build().unwrap();
    rt.block_on(async move {
        let (io, net) = simnet::pair();
        let (conn, ldap) = LdapConnAsync::verif_pair(Box::new(io));
        if start_last > 0 {
            ldap.verif_set_msgmap(start_last, &[]);
        }
        tokio::spawn(async move {
            let _ = conn.drive().await;
        });
        let total = handles * per;
        let mut joins = vec![];
        for _ in 0..handles {
            let mut l = ldap.clone();
            joins.push(tokio::spawn(async move {
                for _ in 0..per {
                    let _ = l.delete("cn=x").await;
                }
            }));
        }
        // scripted server
        let mut rng = Rng(seed);
        let mut inbuf: Vec<u8> = vec![];
        let mut outstanding: Vec<i64> = vec![];
        let mut seen = 0usize;
        let mut ok = true;
        let mut detail = String::new();
        let t0 = std::time::Instant::now();
        while seen < total || !outstanding.is_empty() {
            if t0.elapsed().as_secs() > 20 {
                ok = false;
                detail = format!("watchdog: {} of {} requests seen, {} unanswered", seen, total, outstanding.len());
                break;
            }
            inbuf.extend(net.take_written());
            while let Some((id, _op)) = read_msg(&mut inbuf) {
                seen += 1;
                if id < 1 || id > N as i64 {
                    ok = false;
                    detail = format!("id {} out of range", id);
                }
                if outstanding.contains(&id) {
                    ok = false;
                    detail = format!("id {} reused while still outstanding {:?}", id, outstanding);
                }
                outstanding.push(id);
            }
            if !outstanding.is_empty() && (rng.chance(1, 2) || seen >= total) {
                let k = rng.below(outstanding.len() as u64) as usize;
                let id = outstanding.remove(k);
                net.send(&crate::scen::result_frame(id, 11, 1));
            }
            tokio::time::sleep(std::time::Duration::from_micros(200)).await;
        }
        for j in joins {
            let _ = tokio::time::timeout(std::time::Duration::from_secs(5), j).await;
        }
        let _ = hex(&[]);
        (ok, detail, seen)
    })
}

//! Lane `ber` (C07): lber writer/parser/typed integers vs Model.Ber, and the property oracles.
use crate::fmtx::*;
use crate::out::{guarded, Out};
use crate::rng::Rng;
use bytes::BytesMut;
use lber::parse::parse_tag;
use lber::structure::{StructureTag, PL};
use lber::structures::{ASNTag, Boolean, Enumerated, Integer};
use lber::write::encode_into;

pub const SIZES: &[usize] = &[0, 1, 2, 3, 126, 127, 128, 129, 254, 255, 256, 257];
pub const BIG_SIZES: &[usize] = &[65534, 65535, 65536, 65537];

pub fn gen_payload(rng: &mut Rng, allow_big: bool) -> Vec<u8> {
    let n = match rng.below(100) {
        0..=59 => rng.below(6) as usize,
        60..=84 => rng.below(40) as usize,
        85..=97 => *rng.pick(SIZES),
        _ => {
            if allow_big {
                *rng.pick(BIG_SIZES)
            } else {
                *rng.pick(SIZES)
            }
        }
    };
    if n > 300 {
        // cheap big payloads: constant fill with a random byte
        let b = rng.next() as u8;
        vec![b; n]
    } else {
        rng.bytes(n)
    }
}

pub fn gen_tree(rng: &mut Rng, depth_left: u32, fan: u64, allow_big: bool) -> StructureTag {
    let c = rng.below(4) as u8;
    let id = rng.below(31);
    if depth_left == 0 || rng.chance(2, 5) {
        prim(c, id, gen_payload(rng, allow_big))
    } else {
        let n = rng.below(fan + 1);
        let ks = (0..n).map(|_| gen_tree(rng, depth_left - 1, fan, allow_big)).collect();
        cons(c, id, ks)
    }
}

pub fn real_encode(t: &StructureTag) -> Vec<u8> {
    let mut buf = BytesMut::new();
    encode_into(&mut buf, t.clone()).unwrap();
    buf.to_vec()
}

/// Independent definite-length encoder (written from X.690 §8.1), with a *choice* of length form:
/// short form when allowed and chosen, else long form with `extra` redundant leading zero octets.
pub fn spec_len(n: usize, extra: usize, prefer_long: bool) -> Vec<u8> {
    if n < 128 && !prefer_long {
        return vec![n as u8];
    }
    let mut ds: Vec<u8> = vec![];
    let mut m = n;
    while m > 0 {
        ds.push((m & 0xff) as u8);
        m >>= 8;
    }
    if ds.is_empty() {
        ds.push(0);
    }
    for _ in 0..extra {
        ds.push(0);
    }
    ds.reverse();
    let mut v = vec![0x80 | ds.len() as u8];
    v.extend(ds);
    v
}

pub fn spec_enc(t: &StructureTag, rng: &mut Rng, vary: bool) -> Vec<u8> {
    let (pc, content) = match &t.payload {
        PL::P(v) => (0u8, v.clone()),
        PL::C(ks) => {
            let mut c = vec![];
            for k in ks {
                c.extend(spec_enc(k, rng, vary));
            }
            (0x20u8, c)
        }
    };
    assert!(t.id <= 30);
    let mut out = vec![(cls_num(t.class) << 6) | pc | t.id as u8];
    let (extra, long) = if vary {
        (
            match rng.below(10) {
                0..=5 => 0,
                6..=8 => rng.below(3) as usize + 1,
                _ => rng.below(9) as usize + 1,
            },
            rng.chance(1, 2),
        )
    } else {
        (0, false)
    };
    out.extend(spec_len(content.len(), extra, long));
    out.extend(content);
    out
}

pub fn parse_outcome(bs: &[u8]) -> String {
    crate::out::mark(&format!("ber.parse {}", hex(bs)));
    match guarded(|| match parse_tag(bs) {
        Ok((rest, t)) => format!("ok {} rest={}", tlv(&t), rest.len()),
        Err(e) if e.is_incomplete() => String::from("incomplete"),
        Err(_) => String::from("error"),
    }) {
        Ok(s) => s,
        Err(_) => String::from("panic"),
    }
}

fn has_long_form(t: &StructureTag) -> bool {
    match &t.payload {
        PL::P(v) => v.len() >= 128,
        PL::C(ks) => ks.iter().any(has_long_form) || real_encode(t).len() > 129,
    }
}

/// two's complement value of content octets (independent oracle)
fn twos(b: &[u8]) -> Option<i128> {
    if b.is_empty() || b.len() > 9 {
        return None;
    }
    let mut v: i128 = if b[0] & 0x80 != 0 { -1 } else { 0 };
    for x in b {
        v = (v << 8) | *x as i128;
    }
    Some(v)
}

fn minimal(b: &[u8]) -> bool {
    !(b.len() >= 2 && ((b[0] == 0 && b[1] & 0x80 == 0) || (b[0] == 0xff && b[1] & 0x80 != 0)))
}

fn int_case(out: &mut Out, v: i64, enumerated: bool) {
    let r = guarded(move || {
        let st = if enumerated {
            Enumerated { inner: v, ..Default::default() }.into_structure()
        } else {
            Integer { inner: v, ..Default::default() }.into_structure()
        };
        match st.payload {
            PL::P(b) => (st.id, b),
            PL::C(_) => (st.id, vec![]),
        }
    });
    let canon = format!("int {}", v);
    out.case(&canon, v < -128 || v > 127);
    match r {
        Ok((id, b)) => {
            out.m(&format!("int.enc {}", v), &hex(&b));
            let good = twos(&b) == Some(v as i128) && minimal(&b) && id == if enumerated { 10 } else { 2 };
            out.r(&format!("int.oracle {} {}", v, hex(&b)), good, "octets are not the minimal two's complement of the value");
            out.o(&format!("spec.twos {}", hex(&b)), &format!("{}", v));
        }
        Err(_) => {
            out.m(&format!("int.enc {}", v), "panic");
            out.r(&format!("int.oracle {}", v), false, "panic");
        }
    }
}

pub fn run(thorough: bool, mut rng: Rng, mut out: Out) {
    // ---- corpus: witnesses of past findings (F6) and form boundaries, always first
    for v in [-129i64, -200, -32769, -128, -127, -1, 0, 127, 128, 255, 256, 32767, 32768, -32768, i64::MIN, i64::MAX, i64::MIN + 1, -8388609, -8388608, 8388607, 8388608] {
        int_case(&mut out, v, false);
        int_case(&mut out, v, true);
    }
    for b in [true, false] {
        let st = Boolean { inner: b, ..Default::default() }.into_structure();
        let by = match st.payload { PL::P(v) => v, _ => vec![] };
        out.m(&format!("bool.enc {}", b), &hex(&by));
        out.r(&format!("bool.oracle {}", b), by == if b { vec![0xffu8] } else { vec![0u8] }, "BOOLEAN octet");
    }
    // ---- (iii) integers
    let span: i64 = if thorough { 70000 } else { 20000 };
    for v in -span..=span {
        int_case(&mut out, v, v % 2 == 0);
    }
    for k in 1..=8u32 {
        for d in -2i128..=2 {
            for base in [1i128 << (8 * k - 1), 1i128 << (8 * k).min(126)] {
                for sign in [1i128, -1] {
                    let v = sign * base + d;
                    if v >= i64::MIN as i128 && v <= i64::MAX as i128 {
                        int_case(&mut out, v as i64, false);
                    }
                }
            }
        }
    }
    let nrand = if thorough { 200000 } else { 10000 };
    for _ in 0..nrand {
        let bits = rng.range(1, 64);
        let v = (rng.next() as i64) >> (64 - bits);
        int_case(&mut out, v, rng.chance(1, 2));
    }
    // ---- (0) the writer's high-tag-number form (tag numbers > 30): outside C07's quantifier (the parser
    // does not read that form back), but the model has the branch - keep it tied: writer output only
    for id in [31u64, 32, 127, 128, 129, 16383, 16384, 2097151, 2097152, 4294967295, 4294967296, u64::MAX >> 1, u64::MAX] {
        for class in [lber::common::TagClass::Universal, lber::common::TagClass::Context] {
            for constructed in [false, true] {
                let t = StructureTag { class, id, payload: if constructed { PL::C(vec![]) } else { PL::P(vec![0x41]) } };
                let canon = tlv(&t);
                out.case(&canon, true);
                out.stat("writer.high-tag-number");
                match guarded(|| real_encode(&t)) {
                    Ok(e) => out.m(&format!("ber.enc {}", canon), &hex(&e)),
                    Err(_) => out.m(&format!("ber.enc {}", canon), "panic"),
                }
            }
        }
    }
    // ---- (i) trees: writer and parser against the model; round trip oracle
    let ntrees = if thorough { 60000 } else { 6000 };
    for n in 0..ntrees {
        let allow_big = n % 50 == 0;
        let d = rng.below(7) as u32;
        let t = gen_tree(&mut rng, d, 5, allow_big);
        let canon = tlv(&t);
        let nontrivial = matches!(t.payload, PL::C(_)) || has_long_form(&t);
        out.case(&canon, nontrivial);
        out.stat(&format!("tree.depth={}", depth(&t)));
        let enc = match guarded(|| real_encode(&t)) {
            Ok(e) => e,
            Err(_) => {
                out.m(&format!("ber.enc {}", canon), "panic");
                continue;
            }
        };
        out.stat(match enc.len() { 0..=127 => "enc.len<128", 128..=255 => "enc.len<256", 256..=65535 => "enc.len<65536", _ => "enc.len>=65536" });
        out.m(&format!("ber.enc {}", canon), &hex(&enc));
        let sl = rng.below(4) as usize;
        let suffix = rng.bytes(sl);
        let mut input = enc.clone();
        input.extend(&suffix);
        let got = parse_outcome(&input);
        out.m(&format!("ber.parse {}", hex(&input)), &got);
        out.r(&format!("ber.roundtrip {}", if canon.len() < 200 { canon.clone() } else { format!("fnv{:x}", fnv(canon.as_bytes())) }),
              got == format!("ok {} rest={}", canon, suffix.len()), "parse(encode t ++ rest) != (t, rest)");
        // spec: the bytes are an X.690 definite-length encoding of the tree, lengths minimal
        out.r("ber.enc-is-minimal-definite", enc == spec_enc(&t, &mut rng, false), "writer output differs from the minimal definite-length encoding");
        // ---- (ii) any definite-length encoding parses to the same tree
        let alt = spec_enc(&t, &mut rng, true);
        if alt != enc {
            out.stat("nonminimal.encodings");
            let mut input = alt.clone();
            input.extend(&suffix);
            let got = parse_outcome(&input);
            if input.len() < 4000 {
                out.m(&format!("ber.parse {}", hex(&input)), &got);
            }
            out.r("ber.all-definite-forms", got == format!("ok {} rest={}", canon, suffix.len()), &format!("input {}", hex(&input[..input.len().min(64)])));
        }
        // every proper prefix is Incomplete (sampled prefixes)
        for _ in 0..3 {
            if enc.len() > 1 {
                let k = rng.below(enc.len() as u64) as usize;
                let got = parse_outcome(&enc[..k]);
                out.r("ber.prefix-incomplete", got == "incomplete", &format!("prefix {} of {} gave {}", k, hex(&enc[..enc.len().min(64)]), got));
            }
        }
    }
    // deep nesting around the depth limit (lber MAX_DEPTH = 64)
    for d in [1usize, 2, 10, 62, 63, 64, 65, 66, 100, 400] {
        let mut t = prim(0, 4, vec![1]);
        for _ in 0..d {
            t = cons(0, 16, vec![t]);
        }
        let enc = real_encode(&t);
        out.case(&format!("nest {}", d), true);
        out.m(&format!("ber.parse {}", hex(&enc)), &parse_outcome(&enc));
        let want_ok = d <= 64;
        let got = parse_outcome(&enc);
        out.r(&format!("ber.depth {}", d), got.starts_with("ok") == want_ok && (want_ok || got == "error"), &got);
    }
    // ---- (iv) random and mutated byte strings: outcome class
    let nrand = if thorough { 300000 } else { 20000 };
    for _ in 0..nrand {
        let bs = if rng.chance(1, 2) {
            let t = gen_tree(&mut rng, 3, 3, false);
            let mut e = real_encode(&t);
            if !e.is_empty() {
                match rng.below(5) {
                    0 => { let i = rng.below(e.len() as u64) as usize; e[i] = rng.next() as u8; }
                    1 => { let i = rng.below(e.len() as u64) as usize; e.truncate(i); }
                    2 => { let i = rng.below(e.len() as u64) as usize; e.insert(i, rng.next() as u8); }
                    3 => { let i = rng.below(e.len() as u64) as usize; e.remove(i); }
                    _ => { let i = rng.below(e.len() as u64) as usize; e[i] = *rng.pick(&[0x80u8, 0x81, 0x82, 0x88, 0x89, 0xff, 0x00, 0x30, 0x1f, 0x3f]); }
                }
            }
            e
        } else {
            let n = rng.below(24) as usize;
            let mut b = rng.bytes(n);
            if n > 1 && rng.chance(2, 3) {
                b[0] = *rng.pick(&[0x30u8, 0x02, 0x04, 0x61, 0xa0, 0x31, 0x0a]);
                b[1] = *rng.pick(&[0x00u8, 0x01, 0x02, 0x05, 0x7f, 0x80, 0x81, 0x82, 0x84, 0x88, 0x89, 0xff]);
            }
            b
        };
        let got = parse_outcome(&bs);
        out.case(&hex(&bs), bs.len() >= 2);
        out.stat(if got.starts_with("ok") { "rand.ok" } else if got == "incomplete" { "rand.incomplete" } else if got == "error" { "rand.error" } else { "rand.panic" });
        out.m(&format!("ber.parse {}", hex(&bs)), &got);
        out.r("ber.no-panic", got != "panic", &hex(&bs));
    }
    if thorough {
        for n in [(1usize << 24) - 1, 1 << 24, (1 << 24) + 1] {
            let t = prim(0, 4, vec![0x5a; n]);
            let enc = real_encode(&t);
            let hdr = &enc[..6.min(enc.len())];
            out.case(&format!("payload {}", n), true);
            out.r(&format!("ber.len-boundary {} hdr={}", n, hex(hdr)), enc[..enc.len() - n] == [vec![0x04u8], spec_len(n, 0, false)].concat()[..] && matches!(parse_tag(&enc), Ok((r, ref p)) if r.is_empty() && *p == t), "16 MiB boundary");
        }
    }
    out.finish("random tag trees (classes 0-3, ids 0-30, nesting <= 6, fan-out <= 5, payload sizes biased to the 127/128, 255/256, 65535/65536 boundaries), every i64 in a dense window plus all 2^(8k-1), 2^(8k) neighbourhoods, random and single-mutation byte strings; non-trivial = constructed or long-form tree, integer outside one octet, byte string of >= 2 octets; distinct by FNV hash of the canonical input");
}

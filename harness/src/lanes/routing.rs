//! Lane `routing` (C01, also feeds C05/C13 observations): random histories of concurrent single
//! operations and searches against a scripted server answering in arbitrary order, with
//! unsolicited / late / unknown-ID frames; the merged real trace must be accepted by Model.Conn.
use crate::out::Out;
use crate::rng::Rng;
use crate::scen::*;

pub fn gen_script(rng: &mut Rng, n_ops: usize, with_faults: bool, with_timeouts: bool) -> Vec<Step> {
    gen_script_ex(rng, n_ops, with_faults, with_timeouts, false, false)
}

/// `drain`: at the end answer every unanswered operation and finish every stream, so that the
/// connection is quiescent; `stalls`: the peer sometimes stops draining its socket
pub fn gen_script_ex(rng: &mut Rng, n_ops: usize, with_faults: bool, with_timeouts: bool, drain: bool, stalls: bool) -> Vec<Step> {
    let mut steps = vec![];
    let mut next_id: i64 = 1; // the IDs a fresh connection hands out: 1, 2, 3, …
    let mut live_single: Vec<i64> = vec![];
    let mut live_search: Vec<(usize, i64)> = vec![]; // (op index, id)
    let mut op_index = 0usize;
    let mut budget = n_ops;
    let mut guard = 0;
    while (budget > 0 || !live_single.is_empty() || !live_search.is_empty()) && guard < 400 {
        guard += 1;
        let choice = rng.below(100);
        if budget > 0 && choice < 35 {
            let tmo = if with_timeouts && rng.chance(1, 3) { Some(*rng.pick(&[1u64, 10, 1000])) } else { None };
            let kind = match rng.below(10) {
                0..=4 => OpKind::Single,
                5..=8 => OpKind::Search,
                _ => {
                    let t = if !live_single.is_empty() && rng.chance(1, 2) { *rng.pick(&live_single) as i32 } else if !live_search.is_empty() && rng.chance(1, 2) { rng.pick(&live_search).1 as i32 } else { rng.range(1, 12) as i32 };
                    live_single.retain(|x| *x != t as i64);
                    live_search.retain(|x| x.1 != t as i64);
                    OpKind::Abandon(t)
                }
            };
            match kind {
                OpKind::Single => live_single.push(next_id),
                OpKind::Search => live_search.push((op_index, next_id)),
                _ => {}
            }
            steps.push(Step::Issue { kind, tmo_ms: tmo });
            next_id += 1;
            op_index += 1;
            budget -= 1;
            if rng.chance(2, 3) {
                steps.push(Step::Settle);
            }
        } else if choice < 60 && !live_single.is_empty() {
            let k = rng.below(live_single.len() as u64) as usize;
            let id = live_single.remove(k);
            steps.push(Step::Send { id, op: *rng.pick(&[1u64, 7, 9, 11, 13, 15, 24]), good: true });
        } else if choice < 80 && !live_search.is_empty() {
            let k = rng.below(live_search.len() as u64) as usize;
            let (oi, id) = live_search[k];
            match rng.below(10) {
                0..=5 => {
                    if rng.chance(1, 6) {
                        // the caller gives up on one wait (its own select!/timer) and asks again later
                        steps.push(Step::NextCancel(oi));
                        steps.push(Step::Settle);
                    }
                    steps.push(Step::Send { id, op: *rng.pick(&[4u64, 4, 19, 25]), good: false });
                    if rng.chance(1, 2) {
                        steps.push(Step::Settle);
                        steps.push(Step::Next(oi));
                    }
                }
                6..=7 => {
                    steps.push(Step::Send { id, op: 5, good: true });
                    live_search.remove(k);
                    steps.push(Step::Settle);
                    for _ in 0..rng.range(1, 4) {
                        steps.push(Step::Next(oi));
                        steps.push(Step::Settle);
                    }
                    steps.push(Step::Finish(oi));
                }
                _ => {
                    // finished early by the caller - or simply dropped (no scrub: the driver finds out
                    // when the next item for it cannot be delivered)
                    steps.push(if rng.chance(1, 4) { Step::DropStream(oi) } else { Step::Finish(oi) });
                    live_search.remove(k);
                }
            }
        } else if choice < 88 {
            // unsolicited / unknown / late frame
            let id = match rng.below(4) { 0 => 0, 1 => rng.range(1, next_id.max(2) as u64) as i64, 2 => next_id + rng.range(0, 5) as i64, _ => *rng.pick(&[2147483647i64, 65536, 255]) };
            live_single.retain(|x| *x != id);
            if live_search.iter().any(|x| x.1 == id) {
                continue;
            }
            steps.push(Step::Send { id, op: *rng.pick(&[11u64, 7, 24]), good: true });
        } else if choice < 93 && with_timeouts {
            steps.push(Step::Tick(*rng.pick(&[1u64, 5, 10, 500, 1000])));
            steps.push(Step::Settle);
        } else if choice < 95 {
            steps.push(Step::Table);
        } else if choice < 97 && with_faults {
            match rng.below(4) {
                0 => steps.push(Step::Close),
                1 => steps.push(Step::Garbage),
                2 => steps.push(Step::FailWrites),
                _ => steps.push(Step::Reset),
            }
            steps.push(Step::Settle);
        } else if stalls && choice < 99 {
            steps.push(Step::StallWrites(rng.chance(1, 2)));
        } else {
            steps.push(Step::Settle);
        }
    }
    steps.push(Step::StallWrites(false));
    steps.push(Step::Settle);
    if drain {
        for id in live_single.drain(..) {
            steps.push(Step::Send { id, op: 11, good: true });
        }
        steps.push(Step::Settle);
        if with_timeouts {
            steps.push(Step::Tick(2000));
            steps.push(Step::Settle);
        }
    }
    // read whatever is left on the open streams, then finish them
    for (oi, _) in live_search {
        steps.push(Step::Finish(oi));
    }
    steps.push(Step::Settle);
    steps.push(Step::Table);
    steps
}

/// Independent of the model: while a search is registered with the driver, every frame the driver
/// consumes under its ID must reach the stream, in order — what `next()` returned so far is a
/// PREFIX of those frames; and a stream only sees "closed" when the driver ended, the search was
/// abandoned / scrubbed, or its receiver had gone.
pub fn completeness(trace: &[String]) -> (bool, String) {
    use std::collections::HashMap;
    let mut sent: Vec<(String, String, String)> = vec![]; // (id, op, tok) in sending order
    let mut consumed = 0usize;
    let mut opq: Vec<(String, String)> = vec![]; // (op index, kind)
    let mut pending_op: Option<(String, String, String)> = None; // (op index, id, kind)
    let mut reg: HashMap<String, String> = HashMap::new(); // id -> op index of the registered search
    let mut expect: HashMap<String, Vec<String>> = HashMap::new(); // op index -> tokens routed to it
    let mut got: HashMap<String, usize> = HashMap::new(); // op index -> how many taken
    let mut id_of: HashMap<String, String> = HashMap::new();
    let mut released: std::collections::HashSet<String> = Default::default(); // op indices legitimately closed
    let mut driver_ended = false;
    for (ti, t) in trace.iter().enumerate() {
        let w: Vec<&str> = t.split(' ').collect();
        match (w[0], w.get(1).copied().unwrap_or("")) {
            ("cli", "issue") => opq.push((w[2].to_string(), w[3].to_string())),
            ("srv", "send") => sent.push((w[2].to_string(), w[3].to_string(), w[4].to_string())),
            ("drv", "op") => {
                if !opq.is_empty() {
                    let (oi, kind) = opq.remove(0);
                    pending_op = Some((oi, w[2].to_string(), kind));
                }
            }
            ("drv", "opskipped") => {
                if let Some((oi, _, _)) = pending_op.take() {
                    released.insert(oi);
                }
            }
            ("drv", "sent") => {
                if let Some((oi, id, kind)) = pending_op.take() {
                    id_of.insert(oi.clone(), id.clone());
                    if kind == "search" {
                        reg.insert(id, oi);
                    } else if let Some(t) = kind.strip_prefix("abandon:") {
                        if let Some(oi2) = reg.remove(t) {
                            released.insert(oi2);
                        }
                    }
                }
            }
            ("drv", "scrub") => {
                if let Some(oi2) = reg.remove(w[2]) {
                    released.insert(oi2);
                }
            }
            ("drv", "resp") => {
                if consumed < sent.len() {
                    let (id, op, tok) = sent[consumed].clone();
                    consumed += 1;
                    let rejected = trace.get(ti + 1).map(|n| n == "drv end badresp").unwrap_or(false);
                    if rejected {
                        // undecodable for a search: the connection ends, nothing is routed
                    } else if let Some(oi) = reg.get(&id).cloned() {
                        if released.contains(&oi) {
                            // receiver gone: the driver drops the entry on this frame
                            reg.remove(&id);
                        } else {
                            expect.entry(oi.clone()).or_default().push(tok);
                            if op == "5" {
                                reg.remove(&id);
                            }
                        }
                    }
                }
            }
            ("drv", "end") | ("drv", "result") => driver_ended = true,
            ("cli", "finish") => {
                released.insert(w[2].to_string());
            }
            ("cli", "next") => {
                let oi = w[2].to_string();
                if w[4].starts_with("item:") {
                    let tok = w[4].rsplit(':').next().unwrap().to_string();
                    let n = got.entry(oi.clone()).or_insert(0);
                    let exp = expect.get(&oi).cloned().unwrap_or_default();
                    if exp.get(*n) != Some(&tok) {
                        return (false, format!("search {} received token {} as its item #{}, the driver had routed {:?} to it", oi, tok, *n, exp));
                    }
                    *n += 1;
                } else if w[4] == "closed" {
                    let n = got.get(&oi).copied().unwrap_or(0);
                    let exp = expect.get(&oi).cloned().unwrap_or_default();
                    if n < exp.len() {
                        return (false, format!("search {} saw end-of-stream with routed items still undelivered", oi));
                    }
                    if !driver_ended && !released.contains(&oi) {
                        return (false, format!("search {} (id {:?}) saw end-of-stream although it was neither finished, abandoned nor scrubbed and the driver is alive", oi, id_of.get(&oi)));
                    }
                } else if w[4] == "timeout" {
                    released.insert(oi);
                }
            }
            _ => {}
        }
    }
    (true, String::new())
}

/// Oracle (trace only): an operation's call ends with "reply sender dropped" (`recverr`) only if
/// the connection ended first or somebody abandoned that very ID.  Anything else - in particular a
/// response carrying an ID nobody is registered under - must not make another operation fail.
pub fn undisturbed(trace: &[String]) -> (bool, String) {
    let mut opq: Vec<String> = vec![];
    let mut id_of_op: std::collections::HashMap<String, String> = Default::default();
    let mut abandoned: std::collections::HashSet<String> = Default::default();
    let mut ended = false;
    for t in trace {
        let w: Vec<&str> = t.split(' ').collect();
        match (w[0], w.get(1).copied().unwrap_or("")) {
            ("cli", "issue") => opq.push(w[2].to_string()),
            ("drv", "op") => {
                if !opq.is_empty() {
                    let oi = opq.remove(0);
                    id_of_op.insert(oi, w[2].to_string());
                }
                if let Some(k) = w.get(3) {
                    if let Some(tgt) = k.strip_prefix("abandon:") {
                        abandoned.insert(tgt.to_string());
                    }
                }
            }
            ("drv", "end") | ("drv", "result") => ended = true,
            ("cli", "done") if w[3] == "recverr" => {
                let id = id_of_op.get(w[2]).cloned().unwrap_or_default();
                if !ended && !abandoned.contains(&id) {
                    return (false, format!("operation {} (id {}) failed with a dropped reply sender although the connection is up and nobody abandoned it", w[2], id));
                }
            }
            _ => {}
        }
    }
    (true, String::new())
}

/// Oracle independent of the model: every client result carries the token the server put into a frame with
/// that operation's own message ID (checked from the trace alone); and a frame sent under message ID 0
/// (RFC 4511 §4.4: reserved for unsolicited notifications) is never anybody's response.
pub fn token_oracle(trace: &[String]) -> (bool, String) {
    let mut id_of_op: std::collections::HashMap<String, String> = Default::default(); // op index -> id
    let mut tok_id: std::collections::HashMap<String, String> = Default::default(); // token -> frame id
    let mut opq: Vec<String> = vec![];
    let mut ok = true;
    let mut why = String::new();
    for t in trace {
        let w: Vec<&str> = t.split(' ').collect();
        match (w[0], w.get(1).copied().unwrap_or("")) {
            ("cli", "issue") => opq.push(w[2].to_string()),
            ("drv", "op") => {
                if !opq.is_empty() {
                    let oi = opq.remove(0);
                    id_of_op.insert(oi, w[2].to_string());
                }
            }
            ("srv", "send") => {
                tok_id.insert(w[4].to_string(), w[2].to_string());
            }
            ("cli", "done") if w[3].starts_with("frame:") => {
                let tok = &w[3][6..];
                if tok_id.get(tok) != id_of_op.get(w[2]) {
                    ok = false;
                    why = format!("op {} (id {:?}) got token {} sent under id {:?}", w[2], id_of_op.get(w[2]), tok, tok_id.get(tok));
                }
                if tok_id.get(tok).map(|i| i == "0").unwrap_or(false) {
                    ok = false;
                    why = format!("op {} was handed token {} of a frame sent under message ID 0 (unsolicited notification)", w[2], tok);
                }
            }
            ("cli", "next") if w[4].starts_with("item:") => {
                let tok = w[4].rsplit(':').next().unwrap();
                if tok_id.get(tok) != id_of_op.get(w[2]) {
                    ok = false;
                    why = format!("search {} (id {:?}) got token {} sent under id {:?}", w[2], id_of_op.get(w[2]), tok, tok_id.get(tok));
                }
                if tok_id.get(tok).map(|i| i == "0").unwrap_or(false) {
                    ok = false;
                    why = format!("search {} was handed token {} of a frame sent under message ID 0 (unsolicited notification)", w[2], tok);
                }
            }
            _ => {}
        }
    }
    (ok, why)
}

/// Histories in which the ID counter runs over the top of the ID space (2^31-1 -> 1) while the server also
/// sends unsolicited notifications (message ID 0): the server answers under the IDs the documented policy
/// hands out; every operation must get its own answer and nobody the notification.  (R-oracles only: the
/// positioned counter is not a model event.)
fn wrap_scenarios(thorough: bool, rng: &mut Rng, out: &mut Out) {
    let n = if thorough { 600 } else { 40 };
    for k in 0..n {
        let before = rng.below(4) as i32; // how many IDs are left below the top
        let n_ops = rng.range(2, 6) as usize;
        let mut sc = vec![Step::Rewind(i32::MAX - before)];
        let mut ids: Vec<i64> = vec![];
        let mut next = (i32::MAX - before) as i64;
        let mut kinds = vec![];
        for _ in 0..n_ops {
            let search = rng.chance(1, 3);
            kinds.push(search);
            sc.push(Step::Issue { kind: if search { OpKind::Search } else { OpKind::Single }, tmo_ms: None });
            sc.push(Step::Settle);
            ids.push(next);
            next = if next == i32::MAX as i64 { 1 } else { next + 1 };
            if rng.chance(1, 2) {
                sc.push(Step::Send { id: 0, op: 24, good: true });
            }
        }
        sc.push(Step::Send { id: 0, op: 24, good: true });
        sc.push(Step::Settle);
        let mut order: Vec<usize> = (0..n_ops).collect();
        for i in 0..order.len() {
            let j = rng.below(order.len() as u64) as usize;
            order.swap(i, j);
        }
        for oi in order {
            if kinds[oi] {
                sc.push(Step::Send { id: ids[oi], op: 4, good: false });
                sc.push(Step::Send { id: ids[oi], op: 5, good: true });
                sc.push(Step::Settle);
                sc.push(Step::Next(oi));
                sc.push(Step::Settle);
                sc.push(Step::Next(oi));
                sc.push(Step::Settle);
                sc.push(Step::Finish(oi));
            } else {
                sc.push(Step::Send { id: ids[oi], op: 11, good: true });
            }
            if rng.chance(1, 3) {
                sc.push(Step::Send { id: 0, op: 24, good: true });
            }
            sc.push(Step::Settle);
        }
        let o = run_script(&sc);
        let ev = to_model_events(&o.trace);
        let label = format!("wrap#{} top-{} ops={}", k, before, n_ops);
        out.case(&format!("{} {}", label, ev), true);
        out.stat("wrap.scenarios");
        let (ok, why) = token_oracle(&o.trace);
        out.r(&format!("routing.wrap.token-matches-id-and-id-zero-is-nobodys {}", label), ok, &format!("{} ; trace: {}", why, ev));
        // everybody got an answer of their own: n_ops results / final results delivered
        let delivered = o.trace.iter().filter(|t| (t.starts_with("cli done ") && t.contains(" frame:")) || (t.starts_with("cli next ") && t.contains("item:done:"))).count();
        out.r(&format!("routing.wrap.every-operation-gets-its-own-answer {}", label), delivered == n_ops, &format!("{} of {} operations received their answer ; trace: {}", delivered, n_ops, ev));
        let ids_seen: Vec<String> = o.trace.iter().filter(|t| t.starts_with("drv op ")).map(|t| t.split(' ').nth(2).unwrap_or("?").to_string()).collect();
        out.r(&format!("routing.wrap.no-request-under-id-zero {}", label), !ids_seen.iter().any(|i| i == "0"), &format!("request IDs {:?}", ids_seen));
    }
}

pub fn run(thorough: bool, mut rng: Rng, mut out: Out) {
    let n = if thorough { 120000 } else { 2500 };
    for k in 0..n {
        let n_ops = rng.range(2, 8) as usize;
        let script = gen_script(&mut rng, n_ops, k % 5 == 4, k % 3 == 2);
        let o = run_script(&script);
        let ev = to_model_events(&o.trace);
        out.case(&ev, n_ops >= 2);
        out.stat(&format!("ops={}", n_ops));
        out.stat_n("events", o.trace.len() as u64);
        out.m(&format!("conn.trace {}", ev), "accept");
        let (ok, why) = token_oracle(&o.trace);
        out.r(&format!("routing.token-matches-id script#{}", k), ok, &format!("{} ; trace: {}", why, ev));
        let (ok2, why2) = completeness(&o.trace);
        out.r(&format!("routing.search-sees-all-its-responses-in-order script#{}", k), ok2, &format!("{} ; trace: {}", why2, ev));
        out.r(&format!("routing.no-hang-after-driver-end script#{}", k), o.watchdog_stuck.is_empty(), &ev);
        let (ok3, why3) = undisturbed(&o.trace);
        out.r(&format!("routing.operation-not-disturbed script#{}", k), ok3, &format!("{} ; trace: {}", why3, ev));
    }
    wrap_scenarios(thorough, &mut rng, &mut out);
    out.finish("random histories of 2..8 concurrent operations (single-result, searches, abandons) from cloned handles on one connection; scripted server answering in arbitrary order, entries of different searches interleaved, unsolicited/unknown/late IDs, optional timeouts and faults; non-trivial = at least 2 operations; distinct by FNV of the event trace");
}

//! Lane `paged` (C16, also observations for C13): the REAL `PagedResults` adapter (alone, behind and
//! in front of `EntriesOnly`) over the scripted transport; the scripted server reads every
//! SearchRequest the client writes, decodes its controls and feeds the next page.
//! M lines: `stream.run …` (Model.Stream) vs the real outputs, request sequence and scrubs;
//! R lines: the clauses of C16 evaluated in Rust on the real bytes, and the release of every
//! page's message ID / routing entry after the search (read to the end, finished early, timed out
//! or abandoned on a later page).
use crate::fmtx::*;
use crate::lanes::streams::*;
use crate::out::Out;
use crate::rng::Rng;
use ldap3::Scope;

struct PagedCase {
    sc: Scenario,
    size: i32,
    others: Vec<ReqCtl>,
    /// pages the client is expected to consume (index of the stop page + 1)
    consumed: usize,
    dup_paging: bool,
}

fn cookie_pattern(rng: &mut Rng, k: usize) -> Vec<u8> {
    match rng.below(6) {
        0 => vec![k as u8 + 1],
        1 => vec![0],
        2 => vec![0; 4],
        3 => {
            let mut v = rng.bytes(300);
            v[0] = k as u8;
            v
        }
        4 => rng.bytes(16),
        _ => format!("cookie-{}", k).into_bytes(),
    }
}

/// a result set of `total` entries cut into pages of `size`; `stop`: how the last page says so
fn gen_case(rng: &mut Rng, toks: &mut Toks, chain: Vec<A>, total: usize, size: i32, calls_mode: u64) -> PagedCase {
    let per = size.max(1) as usize;
    let n_pages = if total == 0 { 1 } else { (total + per - 1) / per };
    let mut pages = vec![];
    let mut left = total;
    let noise = rng.chance(1, 3);
    let stop_without_control = rng.chance(1, 6);
    let dup_paging = rng.chance(1, 25);
    // an empty first page followed by more (a server may do that): one case in eight
    let empty_first = total > 0 && rng.chance(1, 8);
    let mut consumed = 0;
    let mut k = 0;
    while k < n_pages + empty_first as usize {
        let mut script = vec![];
        let here = if empty_first && k == 0 { 0 } else { left.min(per) };
        for _ in 0..here {
            if noise && rng.chance(1, 4) {
                let kind = if rng.chance(1, 2) { K::R } else { K::I };
                script.push(Recv::Item(mk_item(kind, toks, vec![])));
            }
            let ctls = if noise && rng.chance(1, 5) { gen_ctls(rng, toks) } else { vec![] };
            script.push(Recv::Item(mk_item(K::E, toks, ctls)));
        }
        left -= here;
        let last = k + 1 == n_pages + empty_first as usize;
        let mut ctls = vec![];
        if rng.chance(1, 3) {
            ctls.extend(gen_ctls(rng, toks));
        }
        if !(last && stop_without_control) {
            let cookie = if last { vec![] } else { cookie_pattern(rng, k) };
            ctls.push(RespCtl { paged: true, cookie: Some(cookie), tok: total as u64 });
            if dup_paging && last {
                ctls.push(RespCtl { paged: true, cookie: Some(if rng.chance(1, 2) { vec![] } else { vec![7] }), tok: 1 });
            }
        }
        if rng.chance(1, 3) {
            ctls.extend(gen_ctls(rng, toks));
        }
        let rc = if last { *rng.pick(&[0u32, 0, 0, 4, 11]) } else { 0 };
        script.push(Recv::Done(Done { rc, refs: vec![], ctls, tok: toks.next() }));
        pages.push(Page::Script(script));
        consumed += 1;
        k += 1;
    }
    // a page the client must never ask for
    if rng.chance(1, 2) {
        pages.push(Page::Script(vec![Recv::Item(mk_item(K::E, toks, vec![])), Recv::Done(Done { rc: 0, refs: vec![], ctls: vec![], tok: toks.next() })]));
    }
    let others: Vec<ReqCtl> = if rng.chance(1, 2) { (0..rng.range(1, 3)).map(|_| ReqCtl::Other(rng.range(1, 900))).collect() } else { vec![] };
    let handle = Handle {
        ctrls: if others.is_empty() && rng.chance(1, 2) { None } else { Some(others.clone()) },
        tmo: rng.chance(1, 5),
        opts: if rng.chance(1, 2) { Some(rng.range(1, 2000)) } else { None },
    };
    let v = ref_view(&chain, &pages);
    let mut calls = vec![];
    match calls_mode {
        // read to the end, look at the state, finish, and again
        0 => {
            for _ in 0..v.steps.len() + 1 {
                calls.push(Call::Next);
            }
            calls.extend([Call::State, Call::Next, Call::Finish, Call::State, Call::Finish]);
        }
        // stop somewhere (model correspondence; the early finish() is judged in lane streams)
        _ => {
            let upto = rng.below(v.steps.len() as u64 + 1) as usize;
            for _ in 0..upto {
                calls.push(Call::Next);
                if rng.chance(1, 6) {
                    calls.push(Call::State);
                }
            }
            calls.extend([Call::Finish, Call::Next, Call::State]);
        }
    }
    PagedCase { sc: Scenario { chain, handle, qtok: rng.range(1, 9), filter_ok: true, pages, calls }, size, others, consumed, dup_paging }
}

fn released(o: &Obs) -> (bool, String) {
    (o.in_use.is_empty() && o.last_maps == "r=[] s=[]", format!("in_use={:?} maps={}", o.in_use, o.last_maps))
}

/// cookies the follow-up requests must carry: those of the consumed pages but the last
fn expected_cookies(pages: &[Page], consumed: usize) -> Vec<Vec<u8>> {
    let mut v = vec![vec![]];
    for p in pages.iter().take(consumed.saturating_sub(1)) {
        if let Page::Script(l) = p {
            for r in l {
                if let Recv::Done(d) = r {
                    if let Some(c) = d.ctls.iter().find(|c| c.paged) {
                        v.push(c.cookie.clone().unwrap_or_default());
                    }
                }
            }
        }
    }
    v
}

fn c16_clauses(out: &mut Out, pc: &PagedCase, o: &Obs) {
    let sc = &pc.sc;
    let chain = chain_text(&sc.chain);
    let tail = format!("chain={} size={} pages={}", chain, pc.size, pages_text(&sc.pages));
    // entries: concatenation of the pages' items as the chain presents them, each once, then none
    let v = ref_view(&sc.chain, &sc.pages);
    let want: Vec<String> = v.steps.iter().map(|(_, i)| format!("some:{}", item_out(i))).collect();
    let got: Vec<String> = o.outputs.iter().filter(|s| s.starts_with("some:")).cloned().collect();
    out.r(&format!("paged.entries-concatenation-each-once chain={}", chain), want == got && o.panicked.is_none(), &format!("want {:?} got {:?} panic {:?} ; {}", want, got, o.panicked, tail));
    // requests
    let cookies = expected_cookies(&sc.pages, pc.consumed);
    let mut ok = o.reqs.len() == cookies.len();
    let mut why = format!("{} requests, expected {}", o.reqs.len(), cookies.len());
    for (k, r) in o.reqs.iter().enumerate() {
        let mut want = pc.others.clone();
        want.push(ReqCtl::Paged(pc.size, cookies.get(k).cloned().unwrap_or_default()));
        if r.ctls.as_ref() != Some(&want) {
            ok = false;
            why = format!("request {} carries {:?}, expected {:?}", k, r.ctls, want);
            break;
        }
        if r.op != o.reqs[0].op {
            ok = false;
            why = format!("request {} differs from the first in base/scope/filter/attributes/options: {} vs {}", k, hex(&r.op), hex(&o.reqs[0].op));
            break;
        }
        if r.id != k as i64 + 1 {
            ok = false;
            why = format!("request {} has message ID {}", k, r.id);
            break;
        }
    }
    out.r(&format!("paged.request-sequence chain={}", chain), ok, &format!("{} ; {}", why, tail));
    out.r(&format!("paged.stops-at-first-empty-cookie chain={}", chain), o.reqs.len() == pc.consumed, &format!("{} requests for {} pages up to the first empty cookie ; {}", o.reqs.len(), pc.consumed, tail));
    // options as given on every request
    let want_o = format!("/o{}/", match sc.handle.opts { Some(t) => t.to_string(), None => String::from("-") });
    out.r(&format!("paged.options-repeated chain={}", chain), o.reqs.iter().all(|r| r.text.contains(&want_o)), &format!("{:?} ; {}", o.reqs.iter().map(|r| r.text.clone()).collect::<Vec<_>>(), tail));
    // final result
    if let Ending::Done(d) = &v.ending {
        let mut refs = d.refs.clone();
        for (g, _) in &v.steps {
            refs.extend(g.iter().cloned());
        }
        refs.extend(v.end_gain.iter().cloned());
        let want = format!("res:{}/{}/{}/t{}", d.rc, hexlist(&refs), ctls_text(&d.ctls), d.tok);
        let got = o.outputs.iter().find(|s| s.starts_with("res:")).cloned().unwrap_or_default();
        out.r(&format!("paged.final-result-is-last-pages chain={}", chain), want == got, &format!("want {} got {} ; {}", want, got, tail));
        if !pc.dup_paging {
            out.r(&format!("paged.final-result-has-no-paging-control chain={}", chain), !got.contains("g"), &format!("got {} ; {}", got, tail));
        } else {
            out.stat("dup-paging-control");
        }
    }
    let (rel, d) = released(o);
    out.r(&format!("paged.ids-released-after-read-to-end chain={}", chain), rel, &format!("{} ; {}", d, tail));
}

/// later-page scenarios: pages 1..k-1 complete with cookies, page k in flight
fn later_page_pages(toks: &mut Toks, k: usize, per: usize, page_k: Vec<Recv>) -> Vec<Page> {
    let mut pages = vec![];
    for p in 0..k - 1 {
        let mut script: Vec<Recv> = (0..per).map(|_| Recv::Item(mk_item(K::E, toks, vec![]))).collect();
        script.push(Recv::Done(Done { rc: 0, refs: vec![], ctls: vec![RespCtl { paged: true, cookie: Some(vec![p as u8 + 1, 0xee]), tok: 0 }], tok: toks.next() }));
        pages.push(Page::Script(script));
    }
    pages.push(Page::Script(page_k));
    pages
}

fn later_page_checks(out: &mut Out, what: &str, chain: &[A], k: usize, o: &Obs, want_scrubs: Option<usize>) {
    let chain_t = chain_text(chain);
    let d0 = format!("page={} reqs={:?} scrubs={:?} abandons={:?} outputs={:?}", k, o.reqs.iter().map(|r| r.id).collect::<Vec<_>>(), o.scrubs, o.abandons, o.outputs);
    let (rel, d) = released(o);
    out.r(&format!("paged.later-page-{}-ids-released chain={}", what, chain_t), rel && o.panicked.is_none(), &format!("{} ; {}", d, d0));
    let cur = o.reqs.get(k - 1).map(|r| r.id);
    out.r(&format!("paged.later-page-{}-request-count chain={}", what, chain_t), o.reqs.len() == k, &d0);
    if let Some(n) = want_scrubs {
        let ok = o.scrubs.len() == n && o.scrubs.iter().all(|s| Some(*s) == cur);
        out.r(&format!("paged.later-page-{}-scrub-names-page-in-flight chain={}", what, chain_t), ok, &d0);
    }
}

fn later_page_cases(out: &mut Out, rng: &mut Rng, toks: &mut Toks, thorough: bool) {
    let chains = [vec![A::P(3)], vec![A::E, A::P(3)], vec![A::P(3), A::E]];
    let reps = if thorough { 24 } else { 2 };
    for chain in &chains {
        for k in 2..=4usize {
            for _ in 0..reps {
                let per = rng.range(1, 3) as usize;
                // items of page k delivered before the silence, and how many of them the caller reads
                // (at least one: the next() that crosses the page boundary returns an item of page k)
                let in_k = rng.range(1, 3) as usize;
                let read_k = rng.range(1, in_k as u64) as usize;
                // (a) finish() in the middle of page k, the server silent for the rest of that page
                let page_k: Vec<Recv> = (0..in_k).map(|_| Recv::Item(mk_item(K::E, toks, vec![]))).collect();
                let pages = later_page_pages(toks, k, per, page_k);
                let mut calls = vec![Call::Next; (k - 1) * per + read_k];
                calls.extend([Call::Finish, Call::State]);
                let sc = Scenario { chain: chain.clone(), handle: Handle::default(), qtok: 2, filter_ok: true, pages, calls };
                let o = check_scenario(out, "paged", &sc, true);
                out.case(&scenario_request(&sc, "-"), true);
                out.stat("later-page.finish-early");
                later_page_checks(out, "finish-early", chain, k, &o, Some(1));
                // (b) the per-next() time-out fires on page k
                let mut page_k: Vec<Recv> = (0..in_k).map(|_| Recv::Item(mk_item(K::E, toks, vec![]))).collect();
                page_k.push(Recv::Timeout);
                let pages = later_page_pages(toks, k, per, page_k);
                let mut calls = vec![Call::Next; (k - 1) * per + in_k + 1];
                let with_finish = rng.chance(1, 2);
                calls.push(Call::State);
                if with_finish {
                    calls.push(Call::Finish);
                }
                let sc = Scenario { chain: chain.clone(), handle: Handle { tmo: true, ..Handle::default() }, qtok: 2, filter_ok: true, pages, calls };
                let o = check_scenario(out, "paged", &sc, true);
                out.case(&scenario_request(&sc, "-"), true);
                out.stat("later-page.timeout");
                later_page_checks(out, "timeout", chain, k, &o, Some(if with_finish { 2 } else { 1 }));
                out.r(
                    &format!("paged.later-page-timeout-reported chain={}", chain_text(chain)),
                    o.outputs.iter().any(|s| s == "err:timeout") && o.outputs.iter().any(|s| s == "error"),
                    &format!("{:?}", o.outputs),
                );
                // (c) last_id() read during page k, that ID abandoned from another handle
                let page_k: Vec<Recv> = (0..in_k).map(|_| Recv::Item(mk_item(K::E, toks, vec![]))).collect();
                let pages = later_page_pages(toks, k, per, page_k);
                let reads = (k - 1) * per + 1;
                let chain2 = chain.clone();
                let then_finish = rng.chance(1, 2);
                let o = run_in_rt(&pages, false, move |mut ctx: Ctx| async move {
                    let lim = 60;
                    let started = with_server(&mut ctx.server, ctx.ldap.streaming_search_with(adapters_of(&chain2), "dc=q2", Scope::Subtree, filter_of(true), ATTRS.to_vec()), lim).await;
                    let Some(Ok(mut stream)) = started else {
                        ctx.obs.borrow_mut().outputs.push(String::from("start-failed"));
                        return ctx;
                    };
                    for _ in 0..reads {
                        let r = with_server(&mut ctx.server, stream.next(), lim).await;
                        let txt = match r {
                            Some(Ok(Some(re))) => format!("some:{}", client_item_text(&re)),
                            Some(Ok(None)) => String::from("none"),
                            Some(Err(e)) => format!("err:{}", err_word(&e)),
                            None => String::from("pending"),
                        };
                        ctx.obs.borrow_mut().outputs.push(txt);
                    }
                    let id = stream.ldap_handle().last_id();
                    ctx.obs.borrow_mut().notes.push((String::from("last_id"), id.to_string()));
                    let mut other = ctx.ldap.clone();
                    let r = with_server(&mut ctx.server, other.abandon(id), lim).await;
                    ctx.obs.borrow_mut().outputs.push(format!("abandon:{}", match r { Some(Ok(())) => String::from("ok"), Some(Err(e)) => err_word(&e), None => String::from("pending") }));
                    settle(&mut ctx.server).await;
                    if then_finish {
                        let r = with_server(&mut ctx.server, stream.finish(), lim).await;
                        ctx.obs.borrow_mut().outputs.push(match r { Some(r) => format!("res:{}", client_res_text(&r)), None => String::from("pending") });
                    }
                    drop(stream);
                    ctx
                });
                out.case(&format!("later-page.abandon {} k={} per={} {}", chain_text(chain), k, per, pages_text(&pages)), true);
                out.stat("later-page.abandon");
                later_page_checks(out, "abandon", chain, k, &o, None);
                let cur = o.reqs.get(k - 1).map(|r| r.id);
                let last_id: Option<i64> = o.notes.iter().find(|n| n.0 == "last_id").and_then(|n| n.1.parse().ok());
                let d0 = format!("last_id={:?} page-{} request id={:?} abandons={:?} outputs={:?}", last_id, k, cur, o.abandons, o.outputs);
                out.r(&format!("paged.later-page-last-id-is-current-pages-request chain={}", chain_text(chain)), last_id.is_some() && last_id == cur, &d0);
                out.r(&format!("paged.later-page-abandon-names-page-in-flight chain={}", chain_text(chain)), o.abandons.len() == 1 && o.abandons.first().copied() == cur, &d0);
            }
        }
    }
}

/// The same scenario against a SLOW server: one response frame every 600 ms of virtual time under a per-`next()`
/// time-out of 1000 ms.  Every single wait stays below the time-out (the timer restarts with every item and with
/// every page), so nothing may change — but the waits add up across an item, a page's final result and the next
/// page's first item, which is what a deadline carried over from one wait to the next would trip over.
fn slow_server_rerun(out: &mut Out, sc: &Scenario, fast: &Obs) {
    SERVER_DELAY_MS.with(|d| d.set(600));
    let slow = check_scenario(out, "paged", sc, false);
    SERVER_DELAY_MS.with(|d| d.set(0));
    out.stat("slow-server");
    out.r(
        &format!("paged.slow-server-below-the-timeout-changes-nothing chain={}", chain_text(&sc.chain)),
        slow.outputs == fast.outputs && slow.reqs.len() == fast.reqs.len(),
        &format!("fast server: {:?} ({} requests); one frame per 600 ms, time-out 1000 ms: {:?} ({} requests); pages={}", fast.outputs, fast.reqs.len(), slow.outputs, slow.reqs.len(), pages_text(&sc.pages)),
    );
}

pub fn run(thorough: bool, mut rng: Rng, mut out: Out) {
    let mut toks = Toks(1000);
    let chains = [vec![0u8], vec![1, 0], vec![0, 1]];
    let mk_chain = |c: &Vec<u8>, size: i32| -> Vec<A> { c.iter().map(|x| if *x == 0 { A::P(size) } else { A::E }).collect() };
    // 0. corpus: three pages of two entries read to the end with a per-item time-out, slow server (seed C12f)
    for w in 0..3 {
        let mut pc = gen_case(&mut rng, &mut toks, mk_chain(&chains[w], 2), 6, 2, 0);
        pc.sc.handle.tmo = true;
        let o = check_scenario(&mut out, "paged", &pc.sc, false);
        slow_server_rerun(&mut out, &pc.sc, &o);
        out.case(&format!("corpus slow-server {}", scenario_request(&pc.sc, "-")), true);
    }
    // 1. result-set sizes 0..50 x page sizes 1..10 and one larger than the total; chain rotates
    //    (all three chains on every combination when thorough)
    let mut idx = 0usize;
    for total in 0..=50usize {
        let mut sizes: Vec<i32> = (1..=10).collect();
        sizes.push(total as i32 + 7);
        for size in sizes {
            let which: Vec<usize> = if thorough { vec![0, 1, 2] } else { vec![idx % 3] };
            idx += 1;
            for w in which {
                let chain = mk_chain(&chains[w], size);
                let mode = if idx % 4 == 3 { 1 } else { 0 };
                let pc = gen_case(&mut rng, &mut toks, chain, total, size, mode);
                let o = check_scenario(&mut out, "paged", &pc.sc, false);
                if pc.sc.handle.tmo && total <= 12 {
                    slow_server_rerun(&mut out, &pc.sc, &o);
                }
                out.case(&scenario_request(&pc.sc, "-"), true);
                out.stat(&format!("pages={}", pc.consumed.min(9)));
                out.stat(if mode == 0 { "read-to-end" } else { "stopped-early" });
                if mode == 0 {
                    c16_clauses(&mut out, &pc, &o);
                } else {
                    let (rel, d) = released(&o);
                    out.r(&format!("paged.ids-released-after-early-finish chain={}", chain_text(&pc.sc.chain)), rel, &format!("{} ; pages={}", d, pages_text(&pc.sc.pages)));
                }
            }
        }
    }
    // 2. a caller-supplied paging control: rejected when the search starts, nothing is sent
    for k in 0..(if thorough { 1200 } else { 40 }) {
        let size = rng.range(1, 10) as i32;
        let chain = mk_chain(&chains[k % 3], size);
        let mut cs: Vec<ReqCtl> = (0..rng.below(3)).map(|_| ReqCtl::Other(rng.range(1, 900))).collect();
        let pos = rng.below(cs.len() as u64 + 1) as usize;
        cs.insert(pos, ReqCtl::Paged(rng.range(0, 50) as i32, if rng.chance(1, 2) { vec![] } else { rng.bytes(5) }));
        let pages = vec![Page::Script(vec![Recv::Item(mk_item(K::E, &mut toks, vec![])), Recv::Done(Done { rc: 0, refs: vec![], ctls: vec![], tok: toks.next() })])];
        let sc = Scenario { chain: chain.clone(), handle: Handle { ctrls: Some(cs), tmo: false, opts: None }, qtok: 1, filter_ok: rng.chance(9, 10), pages, calls: vec![Call::Next, Call::Finish] };
        let o = check_scenario(&mut out, "paged", &sc, false);
        out.case(&scenario_request(&sc, "-"), true);
        out.stat("caller-paging-control");
        out.r(
            &format!("paged.caller-paging-control-rejected chain={}", chain_text(&chain)),
            o.outputs == vec![String::from("err:init")] && o.reqs.is_empty() && o.in_use.is_empty(),
            &format!("outputs {:?} requests {} in_use {:?}", o.outputs, o.reqs.len(), o.in_use),
        );
    }
    // 3. follow-up page cannot be submitted (connection lost after a page) / disconnect / silence in a later page
    for k in 0..(if thorough { 1800 } else { 60 }) {
        let size = 2;
        let chain = mk_chain(&chains[k % 3], size);
        let mut pages = vec![];
        let n_before = rng.range(1, 3) as usize;
        for p in 0..n_before {
            let mut script: Vec<Recv> = (0..2).map(|_| Recv::Item(mk_item(K::E, &mut toks, vec![]))).collect();
            script.push(Recv::Done(Done { rc: 0, refs: vec![], ctls: vec![RespCtl { paged: true, cookie: Some(vec![p as u8 + 1]), tok: 5 }], tok: toks.next() }));
            pages.push(Page::Script(script));
        }
        let mode = rng.below(4);
        match mode {
            0 => {
                // the server closes right after the Done of the last complete page
                if let Some(Page::Script(l)) = pages.last_mut() {
                    l.push(Recv::Closed);
                }
                pages.push(Page::Fail);
            }
            1 => pages.push(Page::Script(vec![Recv::Item(mk_item(K::E, &mut toks, vec![])), Recv::Closed])),
            2 => pages.push(Page::Script(vec![Recv::Item(mk_item(K::E, &mut toks, vec![]))])), // then silence
            _ => {} // the server never answers the follow-up request
        }
        let n_calls = 2 * n_before + 3;
        let mut calls = vec![Call::Next; n_calls];
        calls.extend([Call::State, Call::Finish, Call::State]);
        let sc = Scenario { chain, handle: Handle::default(), qtok: 1, filter_ok: true, pages, calls };
        // strict: items, then the error (or silence), state Error, finish() = rc 88 (C10 clauses)
        check_scenario(&mut out, "paged", &sc, true);
        out.case(&scenario_request(&sc, "-"), true);
        out.stat(&format!("later-page-fault={}", match mode { 0 => "cannot-submit", 1 => "disconnect", 2 => "silence", _ => "no-answer" }));
    }
    // 4. a paging control without a value: `raw.parse()` panics (caller side) — model correspondence
    for k in 0..(if thorough { 150 } else { 9 }) {
        let chain = mk_chain(&chains[k % 3], 2);
        let pages = vec![Page::Script(vec![Recv::Item(mk_item(K::E, &mut toks, vec![])), Recv::Done(Done { rc: 0, refs: vec![], ctls: vec![RespCtl { paged: true, cookie: None, tok: 0 }], tok: toks.next() })])];
        let sc = Scenario { chain, handle: Handle::default(), qtok: 1, filter_ok: true, pages, calls: vec![Call::Next, Call::Next, Call::Finish] };
        check_scenario(&mut out, "paged", &sc, false);
        out.case(&scenario_request(&sc, "-"), true);
        out.stat("paging-control-without-value");
    }
    // 5. non-default search options + caller controls + a stream time-out, at least three pages: every
    //    SearchRequest on the wire decodes to the same request, the paging cookie apart
    for k in 0..(if thorough { 300 } else { 12 }) {
        let size = rng.range(1, 4) as i32;
        let chain = mk_chain(&chains[k % 3], size);
        let n_pages = 3 + k % 3;
        let mut pages = vec![];
        for p in 0..n_pages {
            let mut script: Vec<Recv> = (0..size as usize).map(|_| Recv::Item(mk_item(K::E, &mut toks, vec![]))).collect();
            let cookie = if p + 1 == n_pages { vec![] } else { cookie_pattern(&mut rng, p) };
            script.push(Recv::Done(Done { rc: 0, refs: vec![], ctls: vec![RespCtl { paged: true, cookie: Some(cookie), tok: 77 }], tok: toks.next() }));
            pages.push(Page::Script(script));
        }
        let others = vec![ReqCtl::Other(rng.range(1, 900)), ReqCtl::Other(rng.range(1, 900))];
        // deref = Always (3), typesonly = true, sizelimit = 500, timelimit = 30
        let handle = Handle { ctrls: Some(others.clone()), tmo: true, opts: Some(opts_token(3, true, 500, 30)) };
        let mut calls = vec![Call::Next; n_pages * size as usize + 1];
        calls.extend([Call::State, Call::Finish]);
        let sc = Scenario { chain: chain.clone(), handle, qtok: 4, filter_ok: true, pages: pages.clone(), calls };
        let o = check_scenario(&mut out, "paged", &sc, false);
        out.case(&scenario_request(&sc, "-"), true);
        out.stat("options-controls-timeout");
        let pc = PagedCase { sc, size, others: others.clone(), consumed: n_pages, dup_paging: false };
        c16_clauses(&mut out, &pc, &o);
        let want_fields = format!("base=dc=q4 scope=2 deref=3 sizeLimit=500 timeLimit=30 typesOnly=-1 filter={} attrs=[cn,sn]", "(P 2 7 6f626a656374436c617373)");
        for (p, r) in o.reqs.iter().enumerate() {
            let others_here: Vec<ReqCtl> = r.ctls.clone().unwrap_or_default().into_iter().filter(|c| !matches!(c, ReqCtl::Paged(..))).collect();
            let cookie_here: Option<Vec<u8>> = r.ctls.as_ref().and_then(|cs| cs.iter().find_map(|c| if let ReqCtl::Paged(_, ck) = c { Some(ck.clone()) } else { None }));
            let want_cookie: Vec<u8> = if p == 0 { vec![] } else { expected_cookies(&pages, n_pages).get(p).cloned().unwrap_or_default() };
            let ok = r.fields == want_fields && r.fields == o.reqs[0].fields && others_here == others && cookie_here == Some(want_cookie.clone());
            out.r(
                &format!("paged.followup-repeats-request page={} chain={}", p + 1, chain_text(&chain)),
                ok,
                &format!("request {} decodes to {} controls {:?} ; expected {} with {:?} and cookie {}", p + 1, r.fields, r.ctls, want_fields, others, hex(&want_cookie)),
            );
        }
        out.r(&format!("paged.followup-request-count chain={}", chain_text(&chain)), o.reqs.len() == n_pages, &format!("{} requests for {} pages", o.reqs.len(), n_pages));
    }
    // 6. a later page in flight when the caller stops: finish(), time-out, abandon of last_id()
    later_page_cases(&mut out, &mut rng, &mut toks, thorough);
    out.finish("real PagedResults adapter (chains [Paged], [EntriesOnly,Paged], [Paged,EntriesOnly]) against a scripted server that decodes every SearchRequest and feeds the next page: result-set sizes 0..50 x page sizes 1..10 and total+7 (chain rotating; all three when thorough), cookies of 1 / 4 zero / 16 / 300 bytes / text, empty first page, last page with empty cookie or without the control, references / intermediates / per-item controls mixed in, other response controls around the paging control, caller controls / search options / time-out; three quarters read to the end (C16 clauses from the real bytes + ID release), one quarter stopped early; caller-supplied paging control; lost connection / silence on a later page; paging control without value; later page in flight: early finish, per-next time-out, abandon of last_id() from another handle. non-trivial = every case; distinct by FNV of the canonical scenario");
}

//! Lane `timeouts` (C12, also C13): timed operations on a paused clock.
use crate::out::Out;
use crate::rng::Rng;
use crate::scen::*;

/// F15 witness: a request that times out while it is still waiting in the op queue (the driver is
/// blocked in a socket write); afterwards the scrub and the request are both ready for `select!`.
pub fn f15_script() -> Vec<Step> {
    vec![
        Step::StallWrites(true),
        Step::Issue { kind: OpKind::Single, tmo_ms: None }, // op 0 (id 1): the driver blocks writing it
        Step::Settle,
        Step::Issue { kind: OpKind::Single, tmo_ms: Some(1) }, // op 1 (id 2): waits in the queue
        Step::Settle,
        Step::Tick(2), // op 1 times out: scrub(2) queued
        Step::Settle,
        Step::StallWrites(false), // driver resumes: scrub arm and op arm are both ready
        Step::Settle,
        Step::Send { id: 1, op: 11, good: true },
        Step::Settle,
        Step::Table,
    ]
}

pub fn run(thorough: bool, _rng: Rng, mut out: Out) {
    let n = if thorough { 400 } else { 60 };
    let mut leaked = 0;
    for k in 0..n {
        let o = run_script(&f15_script());
        let ev = to_model_events(&o.trace);
        out.case(&format!("{} #{}", ev, k), true);
        out.m(&format!("conn.trace {}", ev), "accept");
        // quiescent at the end: both callers have their answer, queues drained
        let last_maps = o.trace.iter().rev().find(|t| t.starts_with("drv maps")).cloned().unwrap_or_default();
        let tbl = o.trace.iter().rev().find(|t| t.starts_with("tbl")).cloned().unwrap_or_default();
        let clean = last_maps == "drv maps r=[] s=[]" && tbl.ends_with("[]");
        if !clean {
            leaked += 1;
        }
        out.r("leaks.scrub-overtakes-request quiescent ⇒ no routing state, no reserved ID", clean, &format!("{} | {} | {}", last_maps, tbl, ev));
    }
    out.stat_n("f15.leaked-runs", leaked);
    out.finish("timeout scripts on the paused clock; non-trivial = all");
}

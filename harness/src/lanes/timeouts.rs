//! Lane `timeouts` (C12, also C13): timed operations on a paused clock.
use crate::out::Out;
use crate::rng::Rng;
use crate::scen::*;

/// F15 witness: a request that times out while it is still waiting in the op queue (the driver is
/// blocked in a socket write); afterwards the scrub and the request are both ready for `select!`.
pub fn f15_script() -> Vec<Step> {
    vec![
        Step::StallWrites(true),
        Step::Issue { kind: OpKind::Single, tmo_ms: None }, // op 0 (id 1): the driver blocks writing it
        Step::Settle,
        Step::Issue { kind: OpKind::Single, tmo_ms: Some(1) }, // op 1 (id 2): waits in the queue
        Step::Settle,
        Step::Tick(2), // op 1 times out: scrub(2) queued
        Step::Settle,
        Step::StallWrites(false), // driver resumes: scrub arm and op arm are both ready
        Step::Settle,
        Step::Send { id: 1, op: 11, good: true },
        Step::Settle,
        Step::Table,
    ]
}

/// the timeout law read off a trace, independently of the model:
/// * `timeout` only at or after issue time + T, and only if no response for the op's ID had been
///   consumed by the driver before that moment; a response consumed strictly before the deadline
///   is what the caller gets;
/// * after a timeout and once the scrub is handled the ID is not in the table;
/// * a response arriving after the timeout is delivered to nobody.
fn judge(out: &mut Out, label: &str, trace: &[String]) {
    let mut now: u64 = 0;
    struct O { t0: u64, tmo: Option<u64>, id: Option<String>, kind: String, resolved: Option<(u64, String)>, resp_at: Option<u64> }
    let mut ops: Vec<O> = vec![];
    let mut opq: Vec<usize> = vec![];
    let mut ok = true;
    let mut why = String::new();
    let mut tok_id: std::collections::HashMap<String, String> = Default::default();
    let mut timed_out_ids: Vec<String> = vec![];
    let mut scrubbed: Vec<String> = vec![];
    for t in trace {
        let w: Vec<&str> = t.split(' ').collect();
        match (w[0], w.get(1).copied().unwrap_or("")) {
            ("tick", _) => now += w[1].parse::<u64>().unwrap_or(0),
            ("cli", "issue") => {
                ops.push(O { t0: now, tmo: w[4].parse().ok(), id: None, kind: w[3].to_string(), resolved: None, resp_at: None });
                opq.push(ops.len() - 1);
            }
            ("drv", "op") => {
                if !opq.is_empty() {
                    let i = opq.remove(0);
                    ops[i].id = Some(w[2].to_string());
                }
            }
            ("srv", "send") => {
                tok_id.insert(w[4].to_string(), w[2].to_string());
            }
            ("drv", "resp") => {
                for o in ops.iter_mut() {
                    if o.id.as_deref() == Some(w[2]) && o.resolved.is_none() && o.resp_at.is_none() && o.kind == "single" {
                        o.resp_at = Some(now);
                    }
                }
            }
            ("drv", "scrub") => scrubbed.push(w[2].to_string()),
            ("cli", "done") => {
                let i: usize = w[2].parse().unwrap_or(0);
                if i < ops.len() {
                    ops[i].resolved = Some((now, w[3].to_string()));
                    let o = &ops[i];
                    if w[3] == "timeout" {
                        if let Some(id) = &o.id {
                            timed_out_ids.push(id.clone());
                        }
                        match o.tmo {
                            Some(t) if now >= o.t0 + t => {}
                            _ => {
                                ok = false;
                                why = format!("op {} timed out at {} but was issued at {} with timeout {:?}", i, now, o.t0, o.tmo);
                            }
                        }
                        if o.kind == "single" && o.resp_at.is_some() {
                            ok = false;
                            why = format!("op {} timed out although its response had been routed at t={:?}", i, o.resp_at);
                        }
                    }
                    if let Some(tok) = w[3].strip_prefix("frame:") {
                        if tok_id.get(tok) != o.id.as_ref() {
                            ok = false;
                            why = format!("op {} got token {} sent under another ID", i, tok);
                        }
                    }
                }
            }
            ("tbl", _) => {
                // IDs whose scrub has been handled must be gone
                for id in &scrubbed {
                    if timed_out_ids.contains(id) && t.contains(&format!("[{},", id)) || t.contains(&format!(",{},", id)) || t.contains(&format!(",{}]", id)) || t.ends_with(&format!("[{}]", id)) {
                        // re-allocation is impossible in these scripts (IDs only grow), so presence = not released
                        ok = false;
                        why = format!("ID {} still in the table after its scrub: {}", id, t);
                    }
                }
            }
            _ => {}
        }
    }
    // a timed operation whose response never came and whose deadline passed long ago must have resolved
    for (i, o) in ops.iter().enumerate() {
        if let (Some(t), None) = (o.tmo, &o.resolved) {
            if now >= o.t0 + t + 1 && o.kind == "single" {
                ok = false;
                why = format!("op {} (timeout {}) still pending at t={} although issued at {}", i, t, now, o.t0);
            }
        }
    }
    out.r(&format!("timeouts.law {}", label), ok, &format!("{} | {}", why, to_model_events(trace)));
}

pub fn run(thorough: bool, mut rng: Rng, mut out: Out) {
    let n15 = if thorough { 1000 } else { 30 };
    for k in 0..n15 {
        let o = run_script(&f15_script());
        let ev = to_model_events(&o.trace);
        out.case(&format!("{} #{}", ev, k), true);
        out.m(&format!("conn.trace {}", ev), "accept");
        let (clean, d) = crate::lanes::leaks::quiescent_clean(&o.trace);
        out.r("timeouts.scrub-overtakes-request leaves nothing", clean, &format!("{} | {}", d, ev));
    }
    // the timed-out operation's ID is reusable and the connection keeps serving: the ID of an operation
    // (single or search) that timed out while still queued behind a stalled write is handed out again
    // (counter rewound through the hook, the table is the library's own) to a single operation, whose
    // response must reach it.  R-oracle only (the rewind is not a model event).
    let nreuse = if thorough { 600 } else { 24 };
    for k in 0..nreuse {
        let kind = if k % 2 == 0 { OpKind::Search } else { OpKind::Single };
        let sc = vec![
            Step::StallWrites(true),
            Step::Issue { kind: OpKind::Single, tmo_ms: None }, // op 0 (id 1): the driver blocks writing it
            Step::Settle,
            Step::Issue { kind: kind.clone(), tmo_ms: Some(1) }, // op 1 (id 2): times out in the queue
            Step::Settle,
            Step::Tick(2),
            Step::Settle,
            Step::StallWrites(false),
            Step::Settle,
            Step::Send { id: 1, op: 11, good: true },
            Step::Settle,
            Step::Rewind(2),
            Step::Issue { kind: OpKind::Single, tmo_ms: None }, // op 2 gets id 2 again
            Step::Settle,
            Step::Send { id: 2, op: 11, good: true },
            Step::Settle,
            Step::Issue { kind: OpKind::Single, tmo_ms: None }, // op 3 (id 3): the connection still serves
            Step::Settle,
            Step::Send { id: 3, op: 11, good: true },
            Step::Settle,
            Step::Table,
        ];
        let o = run_script(&sc);
        let got2 = o.trace.iter().any(|t| t.starts_with("cli done 2 frame:"));
        let got3 = o.trace.iter().any(|t| t.starts_with("cli done 3 frame:"));
        let to1 = o.trace.iter().any(|t| t == "cli done 1 timeout");
        let id2 = o.trace.iter().filter(|t| t.starts_with("drv op 2 ")).count();
        out.case(&format!("reuse-after-timeout {:?} #{}", kind, k), true);
        out.r(
            &format!("timeouts.id-reusable-and-connection-serves-after-queued-timeout kind={:?}", kind),
            to1 && got2 && got3,
            &format!("op1 timeout={} op2(reused id 2) got its response={} op3 got its response={} requests under id 2={} | {}", to1, got2, got3, id2, o.trace.join(" ; ")),
        );
    }
    // grid: timeout T x reply arrival relative to the deadline x order of (send, advance) at the tie
    for &t in &[1u64, 10, 1000, 3_600_000] {
        for arrival in ["before", "at-send-first", "at-tick-first", "after", "never"] {
            for companions in 0..3 {
                let mut sc = vec![];
                for _ in 0..companions {
                    sc.push(Step::Issue { kind: OpKind::Single, tmo_ms: None });
                }
                let id = companions as i64 + 1;
                sc.push(Step::Issue { kind: OpKind::Single, tmo_ms: Some(t) });
                sc.push(Step::Settle);
                match arrival {
                    "before" => {
                        if t > 1 {
                            sc.push(Step::Tick(t - 1));
                            sc.push(Step::Settle);
                        }
                        sc.push(Step::Send { id, op: 11, good: true });
                        sc.push(Step::Settle);
                        sc.push(Step::Tick(2));
                    }
                    "at-send-first" => {
                        if t > 1 {
                            sc.push(Step::Tick(t - 1));
                            sc.push(Step::Settle);
                        }
                        sc.push(Step::Send { id, op: 11, good: true });
                        sc.push(Step::Tick(1));
                    }
                    "at-tick-first" => {
                        sc.push(Step::Tick(t));
                        sc.push(Step::Send { id, op: 11, good: true });
                    }
                    "after" => {
                        sc.push(Step::Tick(t + 1));
                        sc.push(Step::Settle);
                        sc.push(Step::Table);
                        sc.push(Step::Send { id, op: 11, good: true }); // late reply: must reach nobody
                    }
                    _ => {
                        sc.push(Step::Tick(t));
                        sc.push(Step::Settle);
                        sc.push(Step::Tick(t));
                    }
                }
                sc.push(Step::Settle);
                sc.push(Step::Table);
                // the connection keeps serving others and later operations
                for c in 0..companions {
                    sc.push(Step::Send { id: c as i64 + 1, op: 11, good: true });
                }
                sc.push(Step::Issue { kind: OpKind::Single, tmo_ms: None });
                sc.push(Step::Settle);
                sc.push(Step::Send { id: companions as i64 + 2, op: 11, good: true });
                sc.push(Step::Settle);
                sc.push(Step::Table);
                let o = run_script(&sc);
                let ev = to_model_events(&o.trace);
                let label = format!("T={} arrival={} companions={}", t, arrival, companions);
                out.case(&label, true);
                out.stat(&format!("arrival.{}", arrival));
                out.m(&format!("conn.trace {}", ev), "accept");
                judge(&mut out, &label, &o.trace);
                // usable afterwards: the later operation got its answer
                let later = format!("cli done {} frame:", companions + 1);
                out.r(&format!("timeouts.connection-usable {}", label), o.trace.iter().any(|x| x.starts_with(&later)) && (0..companions).all(|c| o.trace.iter().any(|x| x.starts_with(&format!("cli done {} frame:", c)))), &ev);
                if arrival == "after" || arrival == "never" {
                    out.r(&format!("timeouts.fires {}", label), o.trace.iter().any(|x| x == &format!("cli done {} timeout", companions)), &ev);
                }
                if arrival == "before" {
                    out.r(&format!("timeouts.early-reply-wins {}", label), o.trace.iter().any(|x| x.starts_with(&format!("cli done {} frame:", companions))), &ev);
                }
            }
        }
    }
    // timed searches: the timer restarts with every next() call
    for &t in &[10u64, 1000] {
        for gap in [t - 1, t, t + 1] {
            let mut sc = vec![Step::Issue { kind: OpKind::Search, tmo_ms: Some(t) }, Step::Settle];
            for _ in 0..3 {
                sc.push(Step::Next(0));
                sc.push(Step::Tick(gap));
                sc.push(Step::Settle);
                sc.push(Step::Send { id: 1, op: 4, good: false });
                sc.push(Step::Settle);
            }
            sc.push(Step::Finish(0));
            sc.push(Step::Settle);
            sc.push(Step::Table);
            let o = run_script(&sc);
            let ev = to_model_events(&o.trace);
            let label = format!("search T={} gap={}", t, gap);
            out.case(&label, true);
            out.m(&format!("conn.trace {}", ev), "accept");
            let nitems = o.trace.iter().filter(|x| x.starts_with("cli next 0") && x.contains("item:entry")).count();
            let timed_out = o.trace.iter().any(|x| x.starts_with("cli next 0") && x.ends_with("timeout"));
            // gaps below T: all three items arrive although the total time exceeds T; gap >= T: the first next() times out
            let good = if gap < t { nitems == 3 && !timed_out } else { timed_out && nitems == 0 };
            out.r(&format!("timeouts.search-timer-restarts {}", label), good, &ev);
            let (clean, d) = crate::lanes::leaks::quiescent_clean(&o.trace);
            out.r(&format!("timeouts.search-leaves-nothing {}", label), clean, &d);
        }
    }
    // random mixes of timed and untimed operations
    let n = if thorough { 80000 } else { 1500 };
    for k in 0..n {
        let n_ops = rng.range(2, 8) as usize;
        let script = crate::lanes::routing::gen_script_ex(&mut rng, n_ops, false, true, true, k % 5 == 0);
        let o = run_script(&script);
        let ev = to_model_events(&o.trace);
        out.case(&ev, true);
        out.m(&format!("conn.trace {}", ev), "accept");
        judge(&mut out, &format!("random#{}", k), &o.trace);
    }
    out.finish("paused-clock scripts: timeouts T in {1ms,10ms,1s,1h} x reply arrival {T-1, T with either order of send/advance, T+1, never} x 0..2 untimed companions; timed searches with item gaps T-1, T, T+1; random mixes of timed/untimed operations incl. stalled writes; the F15 witness; non-trivial = all; distinct by label/trace");
}

//! Lane `timeouts` (C12, also C13): timed operations on a paused clock.
use crate::out::Out;
use crate::rng::Rng;
use crate::scen::*;

/// F15 witness: a request that times out while it is still waiting in the op queue (the driver is
/// blocked in a socket write); afterwards the scrub and the request are both ready for `select!`.
pub fn f15_script() -> Vec<Step> {
    vec![
        Step::StallWrites(true),
        Step::Issue { kind: OpKind::Single, tmo_ms: None }, // op 0 (id 1): the driver blocks writing it
        Step::Settle,
        Step::Issue { kind: OpKind::Single, tmo_ms: Some(1) }, // op 1 (id 2): waits in the queue
        Step::Settle,
        Step::Tick(2), // op 1 times out: scrub(2) queued
        Step::Settle,
        Step::StallWrites(false), // driver resumes: scrub arm and op arm are both ready
        Step::Settle,
        Step::Send { id: 1, op: 11, good: true },
        Step::Settle,
        Step::Table,
    ]
}

/// the timeout law read off a trace, independently of the model:
/// * `timeout` only at or after issue time + T, and only if no response for the op's ID had been
///   consumed by the driver before that moment; a response consumed strictly before the deadline
///   is what the caller gets;
/// * after a timeout and once the scrub is handled the ID is not in the table;
/// * a response arriving after the timeout is delivered to nobody.
fn judge(out: &mut Out, label: &str, trace: &[String]) {
    let mut now: u64 = 0;
    struct O { t0: u64, tmo: Option<u64>, id: Option<String>, kind: String, resolved: Option<(u64, String)>, resp_at: Option<u64> }
    let mut ops: Vec<O> = vec![];
    let mut opq: Vec<usize> = vec![];
    let mut ok = true;
    let mut why = String::new();
    let mut tok_id: std::collections::HashMap<String, String> = Default::default();
    let mut timed_out_ids: Vec<String> = vec![];
    let mut scrubbed: Vec<String> = vec![];
    for t in trace {
        let w: Vec<&str> = t.split(' ').collect();
        match (w[0], w.get(1).copied().unwrap_or("")) {
            ("tick", _) => now += w[1].parse::<u64>().unwrap_or(0),
            ("cli", "issue") => {
                ops.push(O { t0: now, tmo: w[4].parse().ok(), id: None, kind: w[3].to_string(), resolved: None, resp_at: None });
                opq.push(ops.len() - 1);
            }
            ("drv", "op") => {
                if !opq.is_empty() {
                    let i = opq.remove(0);
                    ops[i].id = Some(w[2].to_string());
                }
            }
            ("srv", "send") => {
                tok_id.insert(w[4].to_string(), w[2].to_string());
            }
            ("drv", "resp") => {
                for o in ops.iter_mut() {
                    if o.id.as_deref() == Some(w[2]) && o.resolved.is_none() && o.resp_at.is_none() && o.kind == "single" {
                        o.resp_at = Some(now);
                    }
                }
            }
            ("drv", "scrub") => scrubbed.push(w[2].to_string()),
            ("cli", "done") => {
                let i: usize = w[2].parse().unwrap_or(0);
                if i < ops.len() {
                    ops[i].resolved = Some((now, w[3].to_string()));
                    let o = &ops[i];
                    if w[3] == "timeout" {
                        if let Some(id) = &o.id {
                            timed_out_ids.push(id.clone());
                        }
                        match o.tmo {
                            Some(t) if now >= o.t0 + t => {}
                            _ => {
                                ok = false;
                                why = format!("op {} timed out at {} but was issued at {} with timeout {:?}", i, now, o.t0, o.tmo);
                            }
                        }
                        if o.kind == "single" && o.resp_at.is_some() {
                            ok = false;
                            why = format!("op {} timed out although its response had been routed at t={:?}", i, o.resp_at);
                        }
                    }
                    if let Some(tok) = w[3].strip_prefix("frame:") {
                        if tok_id.get(tok) != o.id.as_ref() {
                            ok = false;
                            why = format!("op {} got token {} sent under another ID", i, tok);
                        }
                    }
                }
            }
            ("tbl", _) => {
                // IDs whose scrub has been handled must be gone
                for id in &scrubbed {
                    if timed_out_ids.contains(id) && t.contains(&format!("[{},", id)) || t.contains(&format!(",{},", id)) || t.contains(&format!(",{}]", id)) || t.ends_with(&format!("[{}]", id)) {
                        // re-allocation is impossible in these scripts (IDs only grow), so presence = not released
                        ok = false;
                        why = format!("ID {} still in the table after its scrub: {}", id, t);
                    }
                }
            }
            _ => {}
        }
    }
    // a timed operation whose response never came and whose deadline passed long ago must have resolved
    for (i, o) in ops.iter().enumerate() {
        if let (Some(t), None) = (o.tmo, &o.resolved) {
            if now >= o.t0 + t + 1 && o.kind == "single" {
                ok = false;
                why = format!("op {} (timeout {}) still pending at t={} although issued at {}", i, t, now, o.t0);
            }
        }
    }
    out.r(&format!("timeouts.law {}", label), ok, &format!("{} | {}", why, to_model_events(trace)));
}


/// what the server puts into a timed search's channel
#[derive(Clone, Copy, Debug, PartialEq)]
pub enum Elem {
    Item,
    Done,
    Closed,
}

/// A whole-stream timing script for the real `SearchStream`: elements with absolute arrival times
/// (virtual ms), the times at which the caller asks for `next()` (requests queue up: a call starts
/// when it is requested AND the previous one has returned), the order of (send, clock) at each arrival.
pub struct TStream {
    pub tmo: Option<u64>,
    /// true: the frame is handed to the transport before the clock reaches the arrival instant, so the
    /// driver routes it in the same instant before the timer is looked at; false: clock first, then the frame
    pub send_first: bool,
    pub t0: u64,
    pub elems: Vec<(u64, Elem)>,
    pub next_reqs: Vec<u64>,
}

impl TStream {
    /// the steps: the clock is moved from probe instant to probe instant (every event time e and
    /// e+1, e+T-1, e+T, e+T+1; every single ms when T <= 10) with a settle at each, so that the
    /// virtual time at which a call returns can be read off the trace without assuming any deadline
    pub fn steps(&self) -> (Vec<Step>, usize) {
        let tx = self.tmo.unwrap_or(10);
        let mut ev: Vec<u64> = vec![self.t0];
        ev.extend(self.elems.iter().map(|e| e.0));
        ev.extend(self.next_reqs.iter().copied());
        let last = *ev.iter().max().unwrap();
        let horizon = last + 3 * tx + 2;
        let mut inst: std::collections::BTreeSet<u64> = Default::default();
        for e in &ev {
            for x in [*e, e + 1, e + tx - 1, e + tx, e + tx + 1] {
                inst.insert(x);
            }
        }
        if tx <= 10 {
            for x in 0..=horizon {
                inst.insert(x);
            }
        }
        inst.insert(horizon);
        let mut sc = vec![Step::Issue { kind: OpKind::Search, tmo_ms: self.tmo }, Step::Settle];
        let mut cur = 0u64;
        let mut n_next = 0usize;
        for x in inst {
            let sends: Vec<Step> = self
                .elems
                .iter()
                .filter(|e| e.0 == x)
                .map(|e| match e.1 {
                    Elem::Item => Step::Send { id: 1, op: 4, good: false },
                    Elem::Done => Step::Send { id: 1, op: 5, good: true },
                    Elem::Closed => Step::Close,
                })
                .collect();
            if self.send_first {
                sc.extend(sends);
                if x > cur {
                    sc.push(Step::Tick(x - cur));
                }
            } else {
                if x > cur {
                    sc.push(Step::Tick(x - cur));
                }
                sc.extend(sends);
            }
            sc.push(Step::Settle);
            cur = x;
            let mut asked = false;
            if x == self.t0 {
                sc.push(Step::Next(0));
                n_next += 1;
                asked = true;
            }
            for _ in self.next_reqs.iter().filter(|r| **r == x) {
                sc.push(Step::Next(0));
                n_next += 1;
                asked = true;
            }
            if asked {
                sc.push(Step::Settle);
            }
        }
        (sc, n_next)
    }
}

/// what the real stream did, read off the trace: (outcome, virtual time of return, deadline word) of every
/// returned next() of op 0 (at most `n_next`: the runner's own closing next() is not the script's), and the tokens sent
pub fn tstream_observed(trace: &[String], n_next: usize) -> (Vec<(String, u64, String)>, Vec<String>) {
    let mut now = 0u64;
    let mut rets = vec![];
    let mut toks = vec![];
    for t in trace {
        let w: Vec<&str> = t.split(' ').collect();
        match (w[0], w.get(1).copied().unwrap_or("")) {
            ("tick", _) => now += w[1].parse::<u64>().unwrap_or(0),
            ("srv", "send") => toks.push(w[4].to_string()),
            ("cli", "next") if w[2] == "0" && rets.len() < n_next => {
                let txt = if let Some(k) = w[4].strip_prefix("item:entry:") {
                    format!("item:{}", k)
                } else if let Some(k) = w[4].strip_prefix("item:done:") {
                    format!("done:{}", k)
                } else {
                    w[4].to_string()
                };
                rets.push((txt, now, w[3].to_string()));
            }
            _ => {}
        }
    }
    (rets, toks)
}

/// run one whole-stream timing script on the real code; M line against the timed stream model, R oracles
fn tstream_case(out: &mut Out, ts: &TStream, eager: bool, with_conn_model: bool) {
    let (sc, n_next) = ts.steps();
    let o = run_script(&sc);
    let (rets, toks) = tstream_observed(&o.trace, n_next);
    // the channel as the model sees it: arrival times from the script, tokens from the trace
    let mut ti = 0;
    let chan: Vec<String> = ts
        .elems
        .iter()
        .map(|(a, k)| match k {
            Elem::Closed => format!("{}:c", a),
            Elem::Item | Elem::Done => {
                let tok = toks.get(ti).cloned().unwrap_or_else(|| String::from("0"));
                ti += 1;
                format!("{}:{}{}", a, if *k == Elem::Item { "i" } else { "d" }, tok)
            }
        })
        .collect();
    // start of every call = its deadline - T (the runner logs start + T); think time = next start - this return
    let mut t0 = ts.t0;
    let mut think: Vec<u64> = vec![];
    let mut starts_ok = true;
    let mut starts: Vec<u64> = vec![];
    if let Some(t) = ts.tmo {
        for (k, r) in rets.iter().enumerate() {
            match r.2.parse::<u64>() {
                Ok(dl) if dl >= t => {
                    let start = dl - t;
                    starts.push(start);
                    if k == 0 {
                        t0 = start;
                    } else if start >= rets[k - 1].1 {
                        think.push(start - rets[k - 1].1);
                    } else {
                        starts_ok = false;
                    }
                }
                _ => starts_ok = false,
            }
        }
    }
    while think.last() == Some(&0) {
        think.pop();
    }
    let mut got: Vec<String> = rets.iter().map(|r| format!("{}@{}", r.0, r.1)).collect();
    let terminal = rets.last().map(|r| !r.0.starts_with("item:")).unwrap_or(false);
    if !terminal && rets.len() < n_next {
        // a call that was started and never returned
        got.push(format!("hang@{}", rets.last().map(|r| r.1 + think.get(rets.len() - 1).copied().unwrap_or(0)).unwrap_or(t0)));
    }
    let req = format!(
        "tstream.run {} {} {} {}{}",
        match ts.tmo { Some(t) => t.to_string(), None => String::from("-") },
        if ts.send_first { "i" } else { "t" },
        t0,
        if chan.is_empty() { String::from("-") } else { chan.join(",") },
        if think.is_empty() { String::new() } else { format!(" {}", think.iter().map(|x| x.to_string()).collect::<Vec<_>>().join(",")) }
    );
    out.case(&req, true);
    out.stat(&format!("tstream.T={}", match ts.tmo { Some(t) => t.to_string(), None => String::from("none") }));
    out.stat(if eager { "tstream.caller=eager" } else { "tstream.caller=lazy" });
    out.stat(if ts.send_first { "tstream.order=send-first" } else { "tstream.order=clock-first" });
    out.stat(&format!("tstream.items={}", ts.elems.len()));
    out.m(&req, &got.join(";"));
    if with_conn_model {
        out.m(&format!("conn.trace {}", to_model_events(&o.trace)), "accept");
    }
    let detail = format!("{} -> {}", req, got.join(";"));
    // every call started when the previous one had returned (or later)
    out.r("timeouts.search-calls-in-sequence", starts_ok && (!eager || (t0 == ts.t0 && think.is_empty())), &detail);
    // a time-out is returned at exactly the deadline of ITS call, anything else not after it
    let mut at_deadline = true;
    for r in &rets {
        if let Ok(dl) = r.2.parse::<u64>() {
            if (r.0 == "timeout" && r.1 != dl) || (r.0 != "timeout" && r.1 > dl) {
                at_deadline = false;
            }
        } else if r.0 == "timeout" {
            at_deadline = false;
        }
    }
    out.r("timeouts.search-timeout-at-its-calls-deadline", at_deadline, &detail);
    // the restart law judged from the gaps alone (caller calls back at once): all elements are delivered
    // in order if every gap is below T, not all if some gap exceeds T (a gap of exactly T may go either way);
    // the number delivered is the number of elements before the first gap >= T or the first gap > T
    if eager {
        let mut gaps = vec![];
        let mut prev = ts.t0;
        for e in &ts.elems {
            gaps.push(e.0 - prev);
            prev = e.0;
        }
        let delivered = rets.iter().filter(|r| r.0 != "timeout").count();
        let in_order = rets.iter().filter(|r| r.0 != "timeout").zip(chan.iter()).all(|(r, c)| {
            let kind = c.split(':').nth(1).unwrap_or("");
            let expect = if kind == "c" { String::from("closed") } else if let Some(k) = kind.strip_prefix('i') { format!("item:{}", k) } else { format!("done:{}", &kind[1..]) };
            r.0 == expect
        });
        let good = match ts.tmo {
            None => delivered == ts.elems.len() && in_order && !rets.iter().any(|r| r.0 == "timeout"),
            Some(t) => {
                let all_below = gaps.iter().all(|g| *g < t);
                let some_above = gaps.iter().any(|g| *g > t);
                let first_ge = gaps.iter().position(|g| *g >= t).unwrap_or(gaps.len());
                let first_gt = gaps.iter().position(|g| *g > t).unwrap_or(gaps.len());
                let all_delivered = delivered == ts.elems.len() && !rets.iter().take(ts.elems.len()).any(|r| r.0 == "timeout");
                let iff_ok = if all_below { all_delivered } else if some_above { !all_delivered } else { true };
                in_order && (delivered == first_ge || delivered == first_gt) && iff_ok
            }
        };
        out.r("timeouts.search-timer-restarts-general", good, &format!("gaps {:?} | {}", gaps, detail));
    }
}

pub fn run(thorough: bool, mut rng: Rng, mut out: Out) {
    let n15 = if thorough { 1000 } else { 30 };
    for k in 0..n15 {
        let o = run_script(&f15_script());
        let ev = to_model_events(&o.trace);
        out.case(&format!("{} #{}", ev, k), true);
        out.m(&format!("conn.trace {}", ev), "accept");
        let (clean, d) = crate::lanes::leaks::quiescent_clean(&o.trace);
        out.r("timeouts.scrub-overtakes-request leaves nothing", clean, &format!("{} | {}", d, ev));
    }
    // the timed-out operation's ID is reusable and the connection keeps serving: the ID of an operation
    // (single or search) that timed out while still queued behind a stalled write is handed out again
    // (counter rewound through the hook, the table is the library's own) to a single operation, whose
    // response must reach it.  R-oracle only (the rewind is not a model event).
    let nreuse = if thorough { 600 } else { 24 };
    for k in 0..nreuse {
        let kind = if k % 2 == 0 { OpKind::Search } else { OpKind::Single };
        let sc = vec![
            Step::StallWrites(true),
            Step::Issue { kind: OpKind::Single, tmo_ms: None }, // op 0 (id 1): the driver blocks writing it
            Step::Settle,
            Step::Issue { kind: kind.clone(), tmo_ms: Some(1) }, // op 1 (id 2): times out in the queue
            Step::Settle,
            Step::Tick(2),
            Step::Settle,
            Step::StallWrites(false),
            Step::Settle,
            Step::Send { id: 1, op: 11, good: true },
            Step::Settle,
            Step::Rewind(2),
            Step::Issue { kind: OpKind::Single, tmo_ms: None }, // op 2 gets id 2 again
            Step::Settle,
            Step::Send { id: 2, op: 11, good: true },
            Step::Settle,
            Step::Issue { kind: OpKind::Single, tmo_ms: None }, // op 3 (id 3): the connection still serves
            Step::Settle,
            Step::Send { id: 3, op: 11, good: true },
            Step::Settle,
            Step::Table,
        ];
        let o = run_script(&sc);
        let got2 = o.trace.iter().any(|t| t.starts_with("cli done 2 frame:"));
        let got3 = o.trace.iter().any(|t| t.starts_with("cli done 3 frame:"));
        let to1 = o.trace.iter().any(|t| t == "cli done 1 timeout");
        let id2 = o.trace.iter().filter(|t| t.starts_with("drv op 2 ")).count();
        out.case(&format!("reuse-after-timeout {:?} #{}", kind, k), true);
        out.r(
            &format!("timeouts.id-reusable-and-connection-serves-after-queued-timeout kind={:?}", kind),
            to1 && got2 && got3,
            &format!("op1 timeout={} op2(reused id 2) got its response={} op3 got its response={} requests under id 2={} | {}", to1, got2, got3, id2, o.trace.join(" ; ")),
        );
    }
    // grid: timeout T x reply arrival relative to the deadline x order of (send, advance) at the tie
    for &t in &[1u64, 10, 1000, 3_600_000] {
        for arrival in ["before", "at-send-first", "at-tick-first", "after", "never"] {
            for companions in 0..3 {
                let mut sc = vec![];
                for _ in 0..companions {
                    sc.push(Step::Issue { kind: OpKind::Single, tmo_ms: None });
                }
                let id = companions as i64 + 1;
                sc.push(Step::Issue { kind: OpKind::Single, tmo_ms: Some(t) });
                sc.push(Step::Settle);
                match arrival {
                    "before" => {
                        if t > 1 {
                            sc.push(Step::Tick(t - 1));
                            sc.push(Step::Settle);
                        }
                        sc.push(Step::Send { id, op: 11, good: true });
                        sc.push(Step::Settle);
                        sc.push(Step::Tick(2));
                    }
                    "at-send-first" => {
                        if t > 1 {
                            sc.push(Step::Tick(t - 1));
                            sc.push(Step::Settle);
                        }
                        sc.push(Step::Send { id, op: 11, good: true });
                        sc.push(Step::Tick(1));
                    }
                    "at-tick-first" => {
                        sc.push(Step::Tick(t));
                        sc.push(Step::Send { id, op: 11, good: true });
                    }
                    "after" => {
                        sc.push(Step::Tick(t + 1));
                        sc.push(Step::Settle);
                        sc.push(Step::Table);
                        sc.push(Step::Send { id, op: 11, good: true }); // late reply: must reach nobody
                    }
                    _ => {
                        sc.push(Step::Tick(t));
                        sc.push(Step::Settle);
                        sc.push(Step::Tick(t));
                    }
                }
                sc.push(Step::Settle);
                sc.push(Step::Table);
                // the connection keeps serving others and later operations
                for c in 0..companions {
                    sc.push(Step::Send { id: c as i64 + 1, op: 11, good: true });
                }
                sc.push(Step::Issue { kind: OpKind::Single, tmo_ms: None });
                sc.push(Step::Settle);
                sc.push(Step::Send { id: companions as i64 + 2, op: 11, good: true });
                sc.push(Step::Settle);
                sc.push(Step::Table);
                let o = run_script(&sc);
                let ev = to_model_events(&o.trace);
                let label = format!("T={} arrival={} companions={}", t, arrival, companions);
                out.case(&label, true);
                out.stat(&format!("arrival.{}", arrival));
                out.m(&format!("conn.trace {}", ev), "accept");
                judge(&mut out, &label, &o.trace);
                // usable afterwards: the later operation got its answer
                let later = format!("cli done {} frame:", companions + 1);
                out.r(&format!("timeouts.connection-usable {}", label), o.trace.iter().any(|x| x.starts_with(&later)) && (0..companions).all(|c| o.trace.iter().any(|x| x.starts_with(&format!("cli done {} frame:", c)))), &ev);
                if arrival == "after" || arrival == "never" {
                    out.r(&format!("timeouts.fires {}", label), o.trace.iter().any(|x| x == &format!("cli done {} timeout", companions)), &ev);
                }
                if arrival == "before" {
                    out.r(&format!("timeouts.early-reply-wins {}", label), o.trace.iter().any(|x| x.starts_with(&format!("cli done {} frame:", companions))), &ev);
                }
            }
        }
    }
    // timed searches: the timer restarts with every next() call
    for &t in &[10u64, 1000] {
        for gap in [t - 1, t, t + 1] {
            let mut sc = vec![Step::Issue { kind: OpKind::Search, tmo_ms: Some(t) }, Step::Settle];
            for _ in 0..3 {
                sc.push(Step::Next(0));
                sc.push(Step::Tick(gap));
                sc.push(Step::Settle);
                sc.push(Step::Send { id: 1, op: 4, good: false });
                sc.push(Step::Settle);
            }
            sc.push(Step::Finish(0));
            sc.push(Step::Settle);
            sc.push(Step::Table);
            let o = run_script(&sc);
            let ev = to_model_events(&o.trace);
            let label = format!("search T={} gap={}", t, gap);
            out.case(&label, true);
            out.m(&format!("conn.trace {}", ev), "accept");
            let nitems = o.trace.iter().filter(|x| x.starts_with("cli next 0") && x.contains("item:entry")).count();
            let timed_out = o.trace.iter().any(|x| x.starts_with("cli next 0") && x.ends_with("timeout"));
            // gaps below T: all three items arrive although the total time exceeds T; gap >= T: the first next() times out
            let good = if gap < t { nitems == 3 && !timed_out } else { timed_out && nitems == 0 };
            out.r(&format!("timeouts.search-timer-restarts {}", label), good, &ev);
            let (clean, d) = crate::lanes::leaks::quiescent_clean(&o.trace);
            out.r(&format!("timeouts.search-leaves-nothing {}", label), clean, &d);
        }
    }
    // the same over whole streams, compared call by call with the timed stream model (`tstream.run`):
    // 1..6 elements, gaps from {1, T-1, T, T+1, 3T}, both orders of (frame, clock) at every arrival.
    // A generator of its own (derived from the lane's, which is left as it was for the blocks below).
    let mut trng = Rng(rng.0 ^ 0x7473_7472_6561_6d31);
    let gaps_of = |t: u64| [1, t - 1, t, t + 1, 3 * t];
    // exhaustive: T = 10, up to 3 items, every gap sequence, both orders, caller calls back at once
    for n in 1..=3usize {
        let g = gaps_of(10);
        for code in 0..5usize.pow(n as u32) {
            for send_first in [true, false] {
                let mut c = code;
                let mut at = 0u64;
                let mut elems = vec![];
                for _ in 0..n {
                    at += g[c % 5];
                    c /= 5;
                    elems.push((at, Elem::Item));
                }
                let ts = TStream { tmo: Some(10), send_first, t0: 0, elems, next_reqs: vec![0; n] };
                tstream_case(&mut out, &ts, true, n == 3 && code % 7 == 0);
            }
        }
    }
    let nts = if thorough { 12000 } else { 400 };
    for k in 0..nts {
        let tmo = match trng.below(6) {
            0 => None,
            1 | 2 => Some(1000u64),
            _ => Some(10u64),
        };
        let tx = tmo.unwrap_or(10);
        let g = gaps_of(tx);
        let n = trng.range(1, 6) as usize;
        let t0 = *trng.pick(&[0u64, 0, 3, tx + 2]);
        let send_first = trng.chance(1, 2);
        let mut at = t0;
        let mut elems = vec![];
        for i in 0..n {
            // mostly gaps below T so that long streams occur; the last element may be the result or the loss of the sender
            let gap = if trng.chance(1, 2) { *trng.pick(&[1, tx - 1, tx - 1]) } else { *trng.pick(&g) };
            at += gap;
            let kind = if i + 1 == n { *trng.pick(&[Elem::Item, Elem::Item, Elem::Done, Elem::Closed]) } else { Elem::Item };
            elems.push((at, kind));
        }
        let eager = tmo.is_none() || trng.chance(2, 3);
        let mut next_reqs = vec![];
        if eager {
            next_reqs = vec![t0; n];
        } else {
            // a slow caller: the call after element k is asked for some time after k arrived
            for e in &elems {
                next_reqs.push(e.0 + *trng.pick(&[0, 1, tx / 2, tx - 1, tx, tx + 1]));
            }
            let last = next_reqs.iter().copied().max().unwrap_or(t0).max(at) + 1;
            for _ in 0..=n {
                next_reqs.push(last);
            }
        }
        let ts = TStream { tmo, send_first, t0, elems, next_reqs };
        tstream_case(&mut out, &ts, eager, k % 10 == 0);
    }
    // random mixes of timed and untimed operations
    let n = if thorough { 80000 } else { 1500 };
    for k in 0..n {
        let n_ops = rng.range(2, 8) as usize;
        let script = crate::lanes::routing::gen_script_ex(&mut rng, n_ops, false, true, true, k % 5 == 0);
        let o = run_script(&script);
        let ev = to_model_events(&o.trace);
        out.case(&ev, true);
        out.m(&format!("conn.trace {}", ev), "accept");
        judge(&mut out, &format!("random#{}", k), &o.trace);
    }
    out.finish("paused-clock scripts: timeouts T in {1ms,10ms,1s,1h} x reply arrival {T-1, T with either order of send/advance, T+1, never} x 0..2 untimed companions; timed searches with item gaps T-1, T, T+1; whole timed streams (1..6 elements, gaps from {1,T-1,T,T+1,3T}, T in {10ms,1s,none}, both orders of frame/clock at every arrival, prompt and slow callers; exhaustive for T=10 up to 3 items) compared call by call with the timed stream model; random mixes of timed/untimed operations incl. stalled writes; the F15 witness; non-trivial = all; distinct by label/trace");
}

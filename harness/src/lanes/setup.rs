//! Lane `setup` (stub).
use crate::out::Out;
use crate::rng::Rng;

pub fn run(_thorough: bool, _rng: Rng, out: Out) {
    out.finish("stub lane: nothing generated yet");
}

//! Lane `setup` (C18): connection set-up — the REAL `LdapConnAsync::with_settings` (per-case
//! current-thread tokio runtime) and the REAL `LdapConn::with_settings`, under `catch_unwind`,
//! against loopback listeners on ephemeral ports (IPv4, IPv6), listeners on the default ports
//! 389 / 636 when they can be bound, temp-dir Unix sockets, pre-opened TCP / Unix / `Invalid`
//! streams and black-hole peers (accept, read, never answer: the time-out has to fire during the
//! StartTLS exchange or the TLS handshake, not only during connect).
//!
//! Observation per case (nothing of it is derived from the model): Ok / error kind / time-out /
//! hang (outer guard) / panic; WHICH listener got a connection (listener threads, made
//! deterministic by a sentinel connection per listener after the call); WHAT arrived there first
//! (nothing but our own Unbind = plain, the StartTLS request, a TLS ClientHello); elapsed time.
//! After an Ok the lane sends an Unbind through the returned handle, so the endpoint that the
//! connection is really attached to is observed, also for pre-opened streams.
//!
//! M lines: `setup.run <url.scheme() hex> <url.host_str()> <url.port()> <starttls> <timeout> <stream> <env>`
//!          (fed with the real `Url::parse` results; <env> = the listeners as the lane set them up)
//!          vs the observed outcome; `setup.plan …` vs the observed dispatch error.
//! R lines: the property's table evaluated in Rust from the generator's own knowledge of the case
//!          (`setup.table`), no panic, elapsed time bounded by the time-out (all schemes), sync and
//!          async agree, unparsable URLs are `UrlParsing`, the socket path is the decoded BYTES
//!          (`setup.ldapi-path-bytes`, F20), set-up fails by itself when the peer closes on the
//!          StartTLS request (`setup.starttls-peer-closes-fails`, F21).
//! TLS success paths need certificates and belong to C17: for ldaps / StartTLS only the arrival of
//! the ClientHello / the StartTLS request at the right listener is checked.
use crate::fmtx::hex;
use crate::out::{guarded, Out};
use crate::rng::Rng;
use ldap3::{LdapConn, LdapConnAsync, LdapConnSettings, LdapError, StdStream};
use std::io::{Read, Write};
use std::net::{TcpListener, TcpStream, ToSocketAddrs};
use std::os::unix::ffi::OsStrExt;
use std::os::unix::net::{UnixListener, UnixStream};
use std::panic::AssertUnwindSafe;
use std::path::PathBuf;
use std::sync::{Arc, Condvar, Mutex};
use std::time::{Duration, Instant};
use url::Url;

const T_MS: u64 = 50; // the conn_timeout under test where it is expected to fire (and for every ldapi case)
const LONG_MS: u64 = 3000; // the conn_timeout of cases that end by themselves: it must not fire
const SLACK_MS: u64 = 200; // scheduling slack allowed on top of the time-out
const GUARD_MS: u64 = 400; // outer guard: no answer by then = `hang`
const HOLD_MS: u64 = 5000; // a peer closes a connection after this long at the latest (safety net)
const ATTEMPTS: usize = 3; // a case whose observation is off its expectation is re-observed (timing noise)

/// How slow this machine is right now, measured with the very work that delays a time-out of an
/// ldaps / StartTLS set-up: the synchronous construction of the TLS connector inside the timed future
/// (`TlsConnector::builder().build()` loads the trust store; 15-60 ms on an idle machine, several
/// hundred ms when every core is busy).  Measured only when an observation came out late; the time
/// limits stretch with it, so that a loaded machine makes the lane slower, not wrong - a set-up that
/// really hangs still never comes back, and a time-out that is not applied is still a `hang`.
static LAG_MS: std::sync::atomic::AtomicU64 = std::sync::atomic::AtomicU64::new(0);

fn probe_lag() -> u64 {
    let t = std::time::Instant::now();
    let _ = native_tls::TlsConnector::builder().build();
    let ms = t.elapsed().as_millis() as u64;
    let prev = LAG_MS.load(std::sync::atomic::Ordering::Relaxed);
    let now = ms.max(prev / 2);
    LAG_MS.store(now, std::sync::atomic::Ordering::Relaxed);
    now
}

fn lag() -> u64 {
    LAG_MS.load(std::sync::atomic::Ordering::Relaxed)
}

fn slack_ms() -> u64 {
    SLACK_MS + 4 * lag()
}

fn guard_ms() -> u64 {
    GUARD_MS + 8 * lag()
}
const PRE_UNIX_ID: usize = 99;

// ---------------------------------------------------------------------------------------------
// listeners

#[derive(Clone, Copy, PartialEq, Debug)]
enum Beh {
    /// accept, read, never answer
    Hole,
    /// StartTLS request → ExtendedResponse with resultCode 52; TLS ClientHello → bytes that are no TLS
    Nak,
    /// closes the connection as soon as anything arrives (F21: StartTLS used to wait forever)
    Close,
}

struct ConnRec {
    ep: usize,
    peer_port: u16,
    bytes: Vec<u8>,
    done: bool,
    sentinel: bool,
    reported: bool,
}

struct Shared {
    recs: Mutex<Vec<ConnRec>>,
    cv: Condvar,
    /// bumped by the lane to make every peer drop its connections (after a `hang`)
    epoch: std::sync::atomic::AtomicU64,
}

trait Sock: Read + Write + Send + 'static {
    fn set_rto(&self, d: Duration);
}
impl Sock for TcpStream {
    fn set_rto(&self, d: Duration) {
        let _ = self.set_read_timeout(Some(d));
    }
}
impl Sock for UnixStream {
    fn set_rto(&self, d: Duration) {
        let _ = self.set_read_timeout(Some(d));
    }
}

fn handler<S: Sock>(mut s: S, idx: usize, beh: Beh, sh: Arc<Shared>) {
    let t0 = Instant::now();
    let epoch = sh.epoch.load(std::sync::atomic::Ordering::SeqCst);
    s.set_rto(Duration::from_millis(10));
    let mut buf = [0u8; 4096];
    let mut answered = false;
    loop {
        match s.read(&mut buf) {
            Ok(0) => break,
            Ok(n) => {
                let mut g = sh.recs.lock().unwrap();
                g[idx].bytes.extend_from_slice(&buf[..n]);
                let all = g[idx].bytes.clone();
                if all.starts_with(b"SYNC") {
                    g[idx].sentinel = true;
                    drop(g);
                    let _ = s.write_all(b"ACK");
                    break;
                }
                drop(g);
                if beh == Beh::Close {
                    break;
                }
                if beh == Beh::Nak && !answered {
                    if all[0] == 0x30 && all.len() >= 5 {
                        answered = true;
                        // LDAPMessage { messageID, extendedResp { resultCode unavailable(52), "", "" } }
                        let id = all[4];
                        let _ = s.write_all(&[0x30, 0x0c, 0x02, 0x01, id, 0x78, 0x07, 0x0a, 0x01, 0x34, 0x04, 0x00, 0x04, 0x00]);
                    } else if all[0] == 0x16 {
                        answered = true;
                        let _ = s.write_all(b"HTTP/1.0 400 this is not TLS\r\n\r\n");
                    }
                }
            }
            Err(e) if e.kind() == std::io::ErrorKind::WouldBlock || e.kind() == std::io::ErrorKind::TimedOut => {}
            Err(_) => break,
        }
        if t0.elapsed() >= Duration::from_millis(HOLD_MS) || sh.epoch.load(std::sync::atomic::Ordering::SeqCst) != epoch {
            break;
        }
    }
    let mut g = sh.recs.lock().unwrap();
    g[idx].done = true;
    drop(g);
    sh.cv.notify_all();
}

fn register(sh: &Arc<Shared>, ep: usize, peer_port: u16) -> usize {
    let mut g = sh.recs.lock().unwrap();
    g.push(ConnRec { ep, peer_port, bytes: vec![], done: false, sentinel: false, reported: false });
    g.len() - 1
}

struct TcpEp {
    id: usize,
    addr: std::net::SocketAddr,
    beh: Beh,
    /// the host texts of a URL that lead here
    names: Vec<String>,
}

struct UnixEp {
    id: usize,
    path: Vec<u8>,
}

fn spawn_tcp(l: TcpListener, id: usize, beh: Beh, sh: Arc<Shared>) {
    std::thread::spawn(move || {
        for c in l.incoming() {
            if let Ok(c) = c {
                let port = c.peer_addr().map(|a| a.port()).unwrap_or(0);
                let idx = register(&sh, id, port);
                let sh2 = sh.clone();
                std::thread::spawn(move || handler(c, idx, beh, sh2));
            }
        }
    });
}

fn spawn_unix(l: UnixListener, id: usize, sh: Arc<Shared>) {
    std::thread::spawn(move || {
        for c in l.incoming() {
            if let Ok(c) = c {
                let idx = register(&sh, id, 0);
                let sh2 = sh.clone();
                std::thread::spawn(move || handler(c, idx, Beh::Hole, sh2));
            }
        }
    });
}

struct World {
    sh: Arc<Shared>,
    tcp: Vec<TcpEp>,
    unix: Vec<UnixEp>,
    dir: PathBuf,
    v6: bool,
    default_ports: bool,
    /// a bound Unix socket whose backlog is full (nobody accepts), if that state could be reached
    full_path: Option<Vec<u8>>,
    _full_keep: Vec<tokio::net::UnixStream>,
    _full_listener: Option<UnixListener>,
}

impl World {
    fn tcp_by_name(&self, host: &str, port: u32) -> Option<&TcpEp> {
        self.tcp.iter().find(|e| e.addr.port() as u32 == port && e.names.iter().any(|n| n == host))
    }
    fn unix_by_path(&self, path: &[u8]) -> Option<&UnixEp> {
        self.unix.iter().find(|e| e.path == path)
    }
    fn ep(&self, id: usize) -> &TcpEp {
        self.tcp.iter().find(|e| e.id == id).unwrap()
    }
    /// the environment as the Lean driver reads it
    fn env_text(&self, pre_tcp: Option<usize>, pre_unix: bool) -> String {
        let mut v = vec![];
        for e in &self.tcp {
            for n in &e.names {
                v.push(format!("t:{}:{}:{}", hex(n.as_bytes()), e.addr.port(), e.id));
            }
            let b = match e.beh {
                Beh::Hole => "n:n",
                Beh::Nak | Beh::Close => "f:f",
            };
            v.push(format!("p:{}:{}", e.id, b));
        }
        for e in &self.unix {
            v.push(format!("u:{}:{}", hex(&e.path), e.id));
        }
        if let Some(id) = pre_tcp {
            v.push(format!("pt:{}", id));
        }
        if pre_unix {
            v.push(format!("pu:{}", PRE_UNIX_ID));
        }
        v.join(",")
    }

    /// make every connection that reached a listener so far visible in `recs`, wait for the
    /// handlers to see the end of them, and hand the records over
    fn settle(&self) -> Vec<ConnRec> {
        for e in &self.tcp {
            if let Ok(mut s) = TcpStream::connect(e.addr) {
                let _ = s.set_read_timeout(Some(Duration::from_millis(1000)));
                let _ = s.write_all(b"SYNC");
                let mut b = [0u8; 3];
                let _ = s.read_exact(&mut b);
            }
        }
        for e in &self.unix {
            if let Ok(mut s) = UnixStream::connect(std::ffi::OsStr::from_bytes(&e.path)) {
                let _ = s.set_read_timeout(Some(Duration::from_millis(1000)));
                let _ = s.write_all(b"SYNC");
                let mut b = [0u8; 3];
                let _ = s.read_exact(&mut b);
            }
        }
        let deadline = Instant::now() + Duration::from_millis(1500);
        let mut g = self.sh.recs.lock().unwrap();
        while g.iter().any(|r| !r.done) && Instant::now() < deadline {
            let (g2, _) = self.sh.cv.wait_timeout(g, Duration::from_millis(20)).unwrap();
            g = g2;
        }
        let mut res = vec![];
        for r in g.iter_mut() {
            if !r.sentinel && !r.reported {
                r.reported = true;
                res.push(ConnRec { ep: r.ep, peer_port: r.peer_port, bytes: r.bytes.clone(), done: r.done, sentinel: false, reported: true });
            }
        }
        // indices are held by running handlers: only drop the records when all are done
        if g.iter().all(|r| r.done) {
            g.clear();
        }
        res
    }

    /// make every peer drop its connections
    fn abort(&self) {
        self.sh.epoch.fetch_add(1, std::sync::atomic::Ordering::SeqCst);
    }
}

fn build_world(out: &mut Out) -> World {
    let sh = Arc::new(Shared { recs: Mutex::new(vec![]), cv: Condvar::new(), epoch: std::sync::atomic::AtomicU64::new(0) });
    let mut tcp = vec![];
    let localhost_v4 = ("localhost", 9).to_socket_addrs().map(|mut it| it.any(|a| a.ip() == std::net::Ipv4Addr::LOCALHOST)).unwrap_or(false);
    let localhost_v6 = ("localhost", 9).to_socket_addrs().map(|mut it| it.any(|a| a.ip() == std::net::Ipv6Addr::LOCALHOST)).unwrap_or(false);
    let mut names4 = vec![String::from("127.0.0.1")];
    if localhost_v4 {
        names4.push(String::from("localhost"));
        names4.push(String::from("LocalHost"));
    } else {
        out.stat("env.localhost-not-ipv4");
    }
    let add = |addr: &str, id: usize, beh: Beh, names: Vec<String>, tcp: &mut Vec<TcpEp>| -> bool {
        match TcpListener::bind(addr) {
            Ok(l) => {
                let a = l.local_addr().unwrap();
                spawn_tcp(l, id, beh, sh.clone());
                tcp.push(TcpEp { id, addr: a, beh, names });
                true
            }
            Err(_) => false,
        }
    };
    assert!(add("127.0.0.1:0", 1, Beh::Hole, names4.clone(), &mut tcp));
    assert!(add("127.0.0.1:0", 2, Beh::Nak, names4.clone(), &mut tcp));
    assert!(add("127.0.0.1:0", 6, Beh::Close, names4.clone(), &mut tcp));
    let mut names6 = vec![String::from("[::1]")];
    if localhost_v6 {
        names6.push(String::from("localhost"));
        names6.push(String::from("LocalHost"));
    }
    let v6 = add("[::1]:0", 3, Beh::Hole, names6, &mut tcp);
    if !v6 {
        out.stat("env.no-ipv6-loopback");
    }
    // default ports: only if both can be bound (root, nothing else there)
    let d1 = add("127.0.0.1:389", 4, Beh::Hole, names4.clone(), &mut tcp);
    let d2 = d1 && add("127.0.0.1:636", 5, Beh::Hole, names4.clone(), &mut tcp);
    let default_ports = d1 && d2;
    out.stat(if default_ports { "env.default-ports-bound" } else { "env.default-ports-not-bindable" });

    let dir = std::env::temp_dir().join(format!("l3v{}", std::process::id()));
    let _ = std::fs::remove_dir_all(&dir);
    std::fs::create_dir_all(&dir).expect("temp dir");
    let mut unix = vec![];
    let names: Vec<(usize, Vec<u8>)> = vec![
        (10, b"s1".to_vec()),
        (11, b"s 2".to_vec()),
        (12, "s\u{fc}3".as_bytes().to_vec()),
        (13, b"s%414".to_vec()),
        (14, b"n\xff".to_vec()),        // not UTF-8
        (15, "n\u{fffd}".as_bytes().to_vec()), // what decode_utf8_lossy makes of it
        (16, b"S1".to_vec()),
        (17, b"slapd-localhost:3890.sock".to_vec()), // a colon that belongs to the path (reaches the URL only as %3A)
    ];
    for (id, n) in names {
        let mut p = dir.as_os_str().as_bytes().to_vec();
        p.push(b'/');
        p.extend_from_slice(&n);
        match UnixListener::bind(std::ffi::OsStr::from_bytes(&p)) {
            Ok(l) => {
                spawn_unix(l, id, sh.clone());
                unix.push(UnixEp { id, path: p });
            }
            Err(_) => out.stat(&format!("env.unix-bind-failed.{}", id)),
        }
    }
    // a listener that never accepts, backlog filled by non-blocking connects until the kernel says EAGAIN
    let mut full_path = None;
    let mut keep = vec![];
    let mut full_listener = None;
    {
        let mut p = dir.as_os_str().as_bytes().to_vec();
        p.extend_from_slice(b"/full");
        if let Ok(l) = UnixListener::bind(std::ffi::OsStr::from_bytes(&p)) {
            let rt = tokio::runtime::Builder::new_current_thread().enable_all().build().unwrap();
            let pp = PathBuf::from(std::ffi::OsStr::from_bytes(&p));
            let reached = rt.block_on(async {
                for _ in 0..9000 {
                    match tokio::net::UnixStream::connect(&pp).await {
                        Ok(s) => keep.push(s),
                        Err(e) => return e.kind() == std::io::ErrorKind::WouldBlock,
                    }
                }
                false
            });
            // the streams stay registered with a dropped runtime; they are only kept open
            std::mem::forget(rt);
            if reached {
                full_path = Some(p);
                full_listener = Some(l);
                out.stat("env.unix-backlog-full-reached");
            } else {
                keep.clear();
                out.stat("env.unix-backlog-full-not-reached");
            }
        }
    }
    World { sh, tcp, unix, dir, v6, default_ports, full_path, _full_keep: keep, _full_listener: full_listener }
}

// ---------------------------------------------------------------------------------------------
// cases

#[derive(Clone, Copy, PartialEq, Debug)]
enum Stream {
    None,
    Tcp(usize), // pre-opened, connected to that endpoint
    Unix,       // UnixStream::pair
    Invalid,    // a clone of settings that hold a stream
}

impl Stream {
    fn word(self) -> &'static str {
        match self {
            Stream::None => "none",
            Stream::Tcp(_) => "tcp",
            Stream::Unix => "unix",
            Stream::Invalid => "invalid",
        }
    }
}

#[derive(Clone, Copy, PartialEq, Debug)]
enum Sch {
    Ldap,
    Ldaps,
    Ldapi,
    Other,
}

/// what the generator knows about a URL it composed
#[derive(Clone, Debug)]
struct Parts {
    sch: Sch,
    scheme_lc: String,
    /// `None` = no authority at all; `Some("")` = empty authority
    host: Option<String>,
    port: Option<u32>,
}

#[derive(Clone, Debug)]
struct Case {
    url: String,
    /// `None` for free-form URL text (only model correspondence, no-panic and parse-error oracles)
    parts: Option<Parts>,
    starttls: bool,
    timeout: Option<u64>,
    stream: Stream,
}

#[derive(Clone, Copy, PartialEq, Debug)]
enum Api {
    Async,
    Sync,
}

/// the observation, in the driver's vocabulary
#[derive(Clone, PartialEq, Debug)]
struct Obs {
    text: String,
    elapsed_ms: u64,
    panicked: bool,
}

enum Raw {
    Ok,
    Err(String),
    Timeout,
    Hang,
}

fn err_word(e: &LdapError) -> Raw {
    match e {
        LdapError::UnknownScheme(s) => Raw::Err(format!("UnknownScheme:{}", hex(s.as_bytes()))),
        LdapError::EmptyUnixPath => Raw::Err("EmptyUnixPath".into()),
        LdapError::PortInUnixPath => Raw::Err("PortInUnixPath".into()),
        LdapError::MismatchedStreamType => Raw::Err("MismatchedStreamType".into()),
        LdapError::Io { .. } => Raw::Err("Io".into()),
        LdapError::Timeout { .. } => Raw::Timeout,
        LdapError::LdapResult { .. } => Raw::Err("StartTls".into()),
        LdapError::NativeTLS { .. } => Raw::Err("Tls".into()),
        LdapError::UrlParsing { .. } => Raw::Err("UrlParsing".into()),
        other => {
            let d = format!("{:?}", other);
            Raw::Err(d.split(|c: char| !c.is_alphanumeric()).next().unwrap_or("Other").to_string())
        }
    }
}

fn classify_first(b: &[u8]) -> &'static str {
    const OID: &[u8] = b"1.3.6.1.4.1.1466.20037";
    if b.is_empty() {
        "none"
    } else if b.len() >= 7 && b[0] == 0x30 && b[1] == 0x05 && b[5] == 0x42 {
        "none" // our own Unbind through the returned handle: nothing was sent before it
    } else if b[0] == 0x30 && b.windows(OID.len()).any(|w| w == OID) {
        "starttls"
    } else if b.len() >= 2 && b[0] == 0x16 && b[1] == 0x03 {
        "hello"
    } else {
        "other"
    }
}

struct Made {
    settings: LdapConnSettings,
    pre_port: Option<u16>,
    pair_end: Option<UnixStream>,
}

fn make_settings(w: &World, c: &Case) -> Made {
    let mut s = LdapConnSettings::new().set_starttls(c.starttls);
    if let Some(t) = c.timeout {
        s = s.set_conn_timeout(Duration::from_millis(t));
    }
    let mut pre_port = None;
    let mut pair_end = None;
    match c.stream {
        Stream::None => {}
        Stream::Tcp(id) => {
            let st = TcpStream::connect(w.ep(id).addr).expect("pre-open tcp");
            pre_port = st.local_addr().ok().map(|a| a.port());
            s = s.set_std_stream(StdStream::Tcp(st));
        }
        Stream::Unix => {
            let (a, b) = UnixStream::pair().expect("socketpair");
            pair_end = Some(b);
            s = s.set_std_stream(StdStream::Unix(a));
        }
        Stream::Invalid => {
            // "cloning the enum will produce the Invalid variant"
            let (a, _b) = UnixStream::pair().expect("socketpair");
            let holder = LdapConnSettings::new().set_std_stream(StdStream::Unix(a));
            let cloned = holder.clone();
            let mut t = cloned.set_starttls(c.starttls);
            if let Some(tt) = c.timeout {
                t = t.set_conn_timeout(Duration::from_millis(tt));
            }
            s = t;
        }
    }
    Made { settings: s, pre_port, pair_end }
}

fn observe(w: &World, c: &Case, api: Api) -> Obs {
    let made = make_settings(w, c);
    let settings = made.settings;
    let url = c.url.clone();
    let t0 = Instant::now();
    let mut est_ms: u64 = 0;
    let res: Result<Raw, String> = match api {
        Api::Async => {
            let rt = tokio::runtime::Builder::new_current_thread().enable_all().build().expect("runtime");
            let est = &mut est_ms;
            let r = guarded(AssertUnwindSafe(|| {
                rt.block_on(async {
                    let r = tokio::time::timeout(Duration::from_millis(guard_ms()), LdapConnAsync::with_settings(settings, &url)).await;
                    *est = t0.elapsed().as_millis() as u64;
                    match r {
                        Err(_) => Raw::Hang,
                        Ok(Err(e)) => err_word(&e),
                        Ok(Ok((conn, mut ldap))) => {
                            ldap3::drive!(conn);
                            let _ = tokio::time::timeout(Duration::from_millis(200), ldap.unbind()).await;
                            Raw::Ok
                        }
                    }
                })
            }));
            drop(rt);
            r
        }
        Api::Sync => {
            // the blocking call cannot be abandoned, so it runs on a thread of its own; a call that
            // has not come back when the guard expires is a `hang` (the thread is left behind)
            let (tx, rx) = std::sync::mpsc::channel();
            std::thread::spawn(move || {
                let r = guarded(AssertUnwindSafe(|| {
                    let r = LdapConn::with_settings(settings, &url);
                    let est = t0.elapsed().as_millis() as u64;
                    match r {
                        Ok(mut conn) => {
                            let _ = conn.unbind();
                            (Raw::Ok, est)
                        }
                        Err(e) => (err_word(&e), est),
                    }
                }));
                let _ = tx.send(r);
            });
            match rx.recv_timeout(Duration::from_millis(guard_ms())) {
                Ok(Ok((raw, est))) => {
                    est_ms = est;
                    Ok(raw)
                }
                Ok(Err(p)) => Err(p),
                Err(_) => {
                    est_ms = t0.elapsed().as_millis() as u64;
                    Ok(Raw::Hang)
                }
            }
        }
    };
    if res.is_err() {
        est_ms = t0.elapsed().as_millis() as u64;
    }
    if matches!(res, Ok(Raw::Hang)) {
        w.abort();
    }
    let recs = w.settle();
    // who was contacted
    let mut contacts: Vec<(String, &'static str)> = vec![];
    for r in &recs {
        let pre = made.pre_port.is_some() && made.pre_port == Some(r.peer_port) && r.peer_port != 0;
        if pre && r.bytes.is_empty() {
            continue; // the lane's own pre-opened connection, never written to
        }
        let kind = if r.ep >= 10 { "unix" } else { "tcp" };
        contacts.push((format!("{}:{}", kind, r.ep), classify_first(&r.bytes)));
    }
    if let Some(mut b) = made.pair_end {
        let _ = b.set_read_timeout(Some(Duration::from_millis(100)));
        let mut got = vec![];
        let mut buf = [0u8; 512];
        loop {
            match b.read(&mut buf) {
                Ok(0) => break,
                Ok(n) => got.extend_from_slice(&buf[..n]),
                Err(_) => break,
            }
        }
        if !got.is_empty() {
            contacts.push((format!("unix:{}", PRE_UNIX_ID), classify_first(&got)));
        }
    }
    contacts.sort();
    let (contact, first) = if contacts.is_empty() {
        (String::from("none"), "none")
    } else if contacts.len() == 1 {
        (contacts[0].0.clone(), contacts[0].1)
    } else {
        (contacts.iter().map(|c| c.0.clone()).collect::<Vec<_>>().join("+"), contacts[0].1)
    };
    let text = match &res {
        Err(_) => String::from("panic"),
        Ok(Raw::Ok) => format!("ok {} first={}", contact, first),
        // an error after the peer was contacted is named after the step it broke (the raw kinds —
        // LdapResult, Io, ResultRecv, NativeTLS, … — are slice C17's business)
        Ok(Raw::Err(k)) if contact.starts_with("tcp:") && first == "starttls" && !k.contains("Stream") && !k.contains("Unix") && !k.contains("Scheme") => format!("err StartTls {} first={}", contact, first),
        Ok(Raw::Err(k)) if contact.starts_with("tcp:") && first == "hello" && !k.contains("Stream") && !k.contains("Unix") && !k.contains("Scheme") => format!("err Tls {} first={}", contact, first),
        Ok(Raw::Err(k)) => format!("err {} {} first={}", k, contact, first),
        Ok(Raw::Timeout) => format!("timeout {} first={}", contact, first),
        Ok(Raw::Hang) => format!("hang {} first={}", contact, first),
    };
    Obs { text, elapsed_ms: est_ms, panicked: res.is_err() }
}

// ---------------------------------------------------------------------------------------------
// the property's table, evaluated from what the generator knows (independent of the Lean model)

fn pct_decode(s: &[u8]) -> Vec<u8> {
    fn hv(c: u8) -> Option<u8> {
        match c {
            b'0'..=b'9' => Some(c - b'0'),
            b'a'..=b'f' => Some(c - b'a' + 10),
            b'A'..=b'F' => Some(c - b'A' + 10),
            _ => None,
        }
    }
    let mut o = vec![];
    let mut i = 0;
    while i < s.len() {
        if s[i] == b'%' && i + 2 < s.len() {
            if let (Some(a), Some(b)) = (hv(s[i + 1]), hv(s[i + 2])) {
                o.push(a * 16 + b);
                i += 3;
                continue;
            }
        }
        o.push(s[i]);
        i += 1;
    }
    o
}

/// the outcome a peer of the given behaviour leads to
fn peer_outcome(beh: Beh, secure: &str, timeout: Option<u64>, contact: &str) -> String {
    let first = match secure {
        "starttls" => "starttls",
        "tls" => "hello",
        _ => "none",
    };
    if secure == "none" {
        return format!("ok {} first=none", contact);
    }
    match beh {
        Beh::Hole => {
            if timeout.is_some() {
                format!("timeout {} first={}", contact, first)
            } else {
                format!("hang {} first={}", contact, first)
            }
        }
        Beh::Nak | Beh::Close => format!("err {} {} first={}", if secure == "starttls" { "StartTls" } else { "Tls" }, contact, first),
    }
}

/// `strict_path`: the property text ("the percent-decoded Unix socket path") taken at the byte
/// level — what is expected.  `false` looks a non-UTF-8 path up the way `decode_utf8_lossy` rewrote
/// it before /repo 4abae7f (finding F20); it only serves to tell which cases are F20 witnesses.
fn table(w: &World, c: &Case, p: &Parts, strict_path: bool) -> String {
    match p.sch {
        Sch::Other => format!("err UnknownScheme:{} none first=none", hex(p.scheme_lc.as_bytes())),
        Sch::Ldap | Sch::Ldaps => {
            let secure = if p.sch == Sch::Ldaps { "tls" } else if c.starttls { "starttls" } else { "none" };
            match c.stream {
                Stream::Unix | Stream::Invalid => String::from("err MismatchedStreamType none first=none"),
                Stream::Tcp(id) => peer_outcome(w.ep(id).beh, secure, c.timeout, &format!("tcp:{}", id)),
                Stream::None => {
                    let host = match p.host.as_deref() {
                        None | Some("") => "localhost",
                        Some(h) => h,
                    };
                    let port = p.port.unwrap_or(if p.sch == Sch::Ldaps { 636 } else { 389 });
                    match w.tcp_by_name(host, port) {
                        None => String::from("err Io none first=none"),
                        Some(e) => peer_outcome(e.beh, secure, c.timeout, &format!("tcp:{}", e.id)),
                    }
                }
            }
        }
        Sch::Ldapi => match c.stream {
            Stream::Unix => format!("ok unix:{} first=none", PRE_UNIX_ID),
            Stream::Tcp(_) | Stream::Invalid => String::from("err MismatchedStreamType none first=none"),
            Stream::None => {
                let h = p.host.clone().unwrap_or_default();
                if h.is_empty() {
                    String::from("err EmptyUnixPath none first=none")
                } else if h.contains(':') || p.port.is_some() {
                    String::from("err PortInUnixPath none first=none")
                } else {
                    let mut path = pct_decode(h.as_bytes());
                    if !strict_path {
                        path = String::from_utf8_lossy(&path).as_bytes().to_vec();
                    }
                    match w.unix_by_path(&path) {
                        Some(e) => format!("ok unix:{} first=none", e.id),
                        None => String::from("err Io none first=none"),
                    }
                }
            }
        },
    }
}

// ---------------------------------------------------------------------------------------------

fn opt_hex(s: Option<&str>) -> String {
    match s {
        None => String::from("none"),
        Some(x) => hex(x.as_bytes()),
    }
}

fn pct_all(b: &[u8], lower: bool) -> String {
    b.iter().map(|x| if lower { format!("%{:02x}", x) } else { format!("%{:02X}", x) }).collect()
}

/// percent-encode what cannot stand in a URL host, leave the rest
fn pct_min(b: &[u8]) -> String {
    let mut s = String::new();
    for &x in b {
        if x.is_ascii_alphanumeric() || b"-._~".contains(&x) {
            s.push(x as char);
        } else {
            s.push_str(&format!("%{:02X}", x));
        }
    }
    s
}

struct Budget {
    hang: usize,
    timeout: usize,
    tls: usize,
}

pub fn run(thorough: bool, mut rng: Rng, mut out: Out) {
    let mut w = build_world(&mut out);
    let port_hole = w.tcp[0].addr.port() as u32;
    let port_nak = w.tcp[1].addr.port() as u32;
    let port_close = w.ep(6).addr.port() as u32;
    let port_v6 = if w.v6 { Some(w.ep(3).addr.port() as u32) } else { None };
    // a port on which nothing listens: bind, note, close
    let dead_port = TcpListener::bind("127.0.0.1:0").map(|l| l.local_addr().unwrap().port() as u32).unwrap_or(1);

    let mut cases: Vec<Case> = vec![];
    let settings_matrix = |starttls_opts: &[bool], streams: &[Stream]| -> Vec<(bool, Option<u64>, Stream)> {
        let mut v = vec![];
        for &st in starttls_opts {
            for to in [None, Some(T_MS)] {
                for &sm in streams {
                    v.push((st, to, sm));
                }
            }
        }
        v
    };
    let all_streams = [Stream::None, Stream::Tcp(1), Stream::Tcp(2), Stream::Tcp(6), Stream::Unix, Stream::Invalid];

    // ---- TCP schemes: scheme spelling × host form × port form × settings
    let schemes: Vec<(&str, Sch)> = vec![("ldap", Sch::Ldap), ("ldaps", Sch::Ldaps), ("LDAP", Sch::Ldap), ("LdapS", Sch::Ldaps)];
    let mut hosts: Vec<Option<&str>> = vec![Some("127.0.0.1"), Some("localhost"), Some("LocalHost"), Some("")];
    if w.v6 {
        hosts.push(Some("[::1]"));
    }
    hosts.push(Some("no-such-host.invalid"));
    for (stext, sch) in &schemes {
        for h in &hosts {
            let mut ports: Vec<Option<u32>> = vec![Some(port_hole), Some(port_nak), Some(port_close), None, Some(dead_port), Some(0), Some(65535)];
            if let (Some("[::1]"), Some(p6)) = (h, port_v6) {
                ports = vec![Some(p6), None, Some(port_hole)];
            }
            if *h == Some("") {
                // an empty authority cannot carry a port (the url crate rejects `ldap://:389`)
                ports = vec![None];
            }
            if *h == Some("no-such-host.invalid") {
                ports = vec![Some(port_hole)];
            }
            for p in ports {
                if p.is_none() && !w.default_ports {
                    out.stat("skipped.default-port-case");
                    continue;
                }
                let upper = *stext != stext.to_lowercase();
                let odd_host = matches!(h, Some("LocalHost") | Some("no-such-host.invalid"));
                let odd_port = matches!(p, Some(0) | Some(65535)) || p == Some(dead_port);
                let streams: &[Stream] = if upper || odd_host || odd_port { &[Stream::None, Stream::Tcp(1)] } else { &all_streams };
                let sts: &[bool] = if *sch == Sch::Ldaps && (upper || odd_host || odd_port) { &[true] } else { &[false, true] };
                for (st, to, sm) in settings_matrix(sts, streams) {
                    let tail = *rng.pick(&["", "/", "/dc=example,dc=org??sub"]);
                    let url = format!("{}://{}{}{}", stext, h.unwrap(), p.map(|x| format!(":{}", x)).unwrap_or_default(), tail);
                    cases.push(Case {
                        url,
                        parts: Some(Parts { sch: *sch, scheme_lc: stext.to_lowercase(), host: h.filter(|x| !x.is_empty()).map(String::from), port: p }),
                        starttls: st,
                        timeout: to,
                        stream: sm,
                    });
                }
            }
        }
        // no authority at all: `ldap:`, `ldap:/`, `ldap:/dc=x`
        for u in ["", "/", "/dc=x"] {
            if !w.default_ports {
                continue;
            }
            for (st, to, sm) in settings_matrix(&[false, true], &[Stream::None, Stream::Tcp(1), Stream::Unix]) {
                cases.push(Case {
                    url: format!("{}:{}", stext, u),
                    parts: Some(Parts { sch: *sch, scheme_lc: stext.to_lowercase(), host: None, port: None }),
                    starttls: st,
                    timeout: to,
                    stream: sm,
                });
            }
        }
    }

    // ---- unknown schemes: whatever the settings are
    for stext in ["http", "ldapx", "lda", "starttls", "ldap+tls", "ldapis", "LDAPX", "unix", "file"] {
        for (st, to, sm) in settings_matrix(&[false, true], &all_streams) {
            let hostpart = if stext == "file" { String::from("") } else { format!("127.0.0.1:{}", port_hole) };
            cases.push(Case {
                url: format!("{}://{}/", stext, hostpart),
                parts: if stext == "file" || stext == "http" {
                    None // special schemes: the url crate normalises them; only correspondence + no-panic
                } else {
                    Some(Parts { sch: Sch::Other, scheme_lc: stext.to_lowercase(), host: Some(format!("127.0.0.1")), port: Some(port_hole) })
                },
                starttls: st,
                timeout: to,
                stream: sm,
            });
        }
    }

    // ---- ldapi: socket paths in every encoding, the error forms, streams
    let unix_streams = [Stream::None, Stream::Unix, Stream::Tcp(1), Stream::Invalid];
    let mut ldapi_hosts: Vec<(String, Option<u32>)> = vec![];
    for e in &w.unix {
        ldapi_hosts.push((pct_min(&e.path), None));
        ldapi_hosts.push((pct_all(&e.path, false), None));
        ldapi_hosts.push((pct_all(&e.path, true), None));
    }
    let mut missing = w.dir.as_os_str().as_bytes().to_vec();
    missing.extend_from_slice(b"/nobody-here");
    ldapi_hosts.push((pct_min(&missing), None));
    if let Some(fp) = &w.full_path {
        ldapi_hosts.push((pct_min(fp), None));
    }
    // broken percent sequences stay as they are
    ldapi_hosts.push((pct_min(&w.dir.as_os_str().as_bytes().to_vec()) + "%2Fs%4", None));
    ldapi_hosts.push((pct_min(&w.unix[0].path), Some(389)));
    ldapi_hosts.push((pct_min(&w.unix[0].path), Some(0)));
    ldapi_hosts.push((String::from("[::1]"), None));
    ldapi_hosts.push((String::from(""), None));
    for stext in ["ldapi", "LDAPI"] {
        for (h, p) in &ldapi_hosts {
            let streams: &[Stream] = if stext == "LDAPI" { &[Stream::None] } else { &unix_streams };
            for (st, to, sm) in settings_matrix(&[false, true], streams) {
                if st && sm != Stream::None && to.is_some() {
                    continue;
                }
                let tail = *rng.pick(&["", "/"]);
                cases.push(Case {
                    url: format!("{}://{}{}{}", stext, h, p.map(|x| format!(":{}", x)).unwrap_or_default(), tail),
                    parts: Some(Parts { sch: Sch::Ldapi, scheme_lc: String::from("ldapi"), host: if h.is_empty() { None } else { Some(h.clone()) }, port: *p }),
                    starttls: st,
                    timeout: to,
                    stream: sm,
                });
            }
        }
        for u in ["", "/", "/tmp/raw/slashes"] {
            for (st, to, sm) in settings_matrix(&[false], &unix_streams) {
                cases.push(Case {
                    url: format!("{}:{}", stext, u),
                    parts: Some(Parts { sch: Sch::Ldapi, scheme_lc: String::from("ldapi"), host: None, port: None }),
                    starttls: st,
                    timeout: to,
                    stream: sm,
                });
            }
        }
    }

    // ---- free-form URL text: unparsable and odd ones
    let dirs = String::from_utf8_lossy(w.dir.as_os_str().as_bytes()).to_string();
    let free: Vec<String> = vec![
        String::from(""),
        String::from("://127.0.0.1/"),
        String::from("127.0.0.1"),
        format!("127.0.0.1:{}", port_hole),
        format!("ldap://127.0.0.1:{}:1/", port_hole),
        String::from("ldap://127.0.0.1:65536/"),
        String::from("ldap://127.0.0.1:-1/"),
        String::from("ldap://127.0.0.1:0x50/"),
        format!("ldap://:{}/", port_hole),
        String::from("ldap://[::1/"),
        String::from("ldap://[::g]/"),
        String::from("ldap://a b/"),
        String::from("ldap://a<b/"),
        String::from("ldap://a%zzb/"),
        String::from("ldap://%/"),
        format!("ldap://user:pw@127.0.0.1:{}/", port_hole),
        format!("ldap://127.0.0.1:{}/#frag", port_hole),
        format!("ldap://127.0.0.1.:{}/", port_hole),
        format!("ldap://127.1:{}/", port_hole),
        format!("ldap://0x7f.0.0.1:{}/", port_hole),
        format!("ldap://2130706433:{}/", port_hole),
        format!("ldap://%31%32%37.0.0.1:{}/", port_hole),
        format!("ldap://xn--nxasmq6b.invalid:{}/", port_hole),
        format!("ldap://\u{e9}.invalid:{}/", port_hole),
        format!("ldap:\\\\127.0.0.1:{}\\", port_hole),
        format!(" ldap://127.0.0.1:{}/ ", port_hole),
        format!("ld\tap://127.0.0.1:{}/", port_hole),
        format!("ldapi://{}/s 2", pct_min(dirs.as_bytes())),
        format!("ldapi://{}%2Fs 2", pct_min(dirs.as_bytes())),
        format!("ldapi://{}/s1", dirs),
        format!("ldapi://{}%2Fs1?x#y", pct_min(dirs.as_bytes())),
        format!("ldapi://u@{}%2Fs1", pct_min(dirs.as_bytes())),
        String::from("ldapi://%00"),
        String::from("ldapi://%2F%00%2Fx"),
        String::from("ldapi://."),
        format!("ldapi://{}", "%2Fa".repeat(60)),
        String::from("ldaps://"),
        String::from("ldap://"),
        String::from("ldap:///"),
        String::from("ldap:////"),
        String::from("ldap:?x"),
        String::from("x:"),
        String::from("1ldap://h/"),
        String::from("ldap"),
    ];
    for u in &free {
        for (st, to, sm) in settings_matrix(&[false, true], &[Stream::None, Stream::Tcp(1), Stream::Unix, Stream::Invalid]) {
            if st != to.is_some() {
                continue; // two settings per stream kind
            }
            if (u.starts_with("ldap://") || u.starts_with("ldaps://") || u.starts_with("ldap:")) && !w.default_ports && !u.contains(&format!(":{}", port_hole)) {
                continue;
            }
            cases.push(Case { url: u.clone(), parts: None, starttls: st, timeout: to, stream: sm });
        }
    }

    // ---- resolver facts for free-form hosts: a host text that the system resolver maps onto one of
    // the listeners is entered into the environment handed to the model (`127.1`, `2130706433`, …)
    for c in &cases {
        if c.parts.is_some() {
            continue;
        }
        if let Ok(Ok(u)) = guarded(|| Url::parse(&c.url)) {
            if let Some(h) = u.host_str() {
                if h.is_empty() {
                    continue;
                }
                for e in w.tcp.iter_mut() {
                    let hp = format!("{}:{}", h, e.addr.port());
                    let hit = hp.to_socket_addrs().map(|mut it| it.any(|a| a == e.addr)).unwrap_or(false);
                    if hit && !e.names.iter().any(|n| n == h) {
                        e.names.push(h.to_string());
                        out.stat("env.resolver-alias");
                    }
                }
            }
        }
    }
    let w = w;

    // ---- order: the corpus of known witnesses first, the rest shuffled; quick runs a prefix
    let close_tag = format!(":{}", port_close);
    let is_corpus = |c: &Case| -> bool {
        let u = c.url.as_str();
        // F21: StartTLS against a peer that closes instead of answering, no time-out
        if c.starttls && c.timeout.is_none() && u.starts_with("ldap://127.0.0.1") && ((c.stream == Stream::None && u.contains(&close_tag)) || c.stream == Stream::Tcp(6)) {
            return true;
        }
        if c.stream != Stream::None || c.starttls {
            return false;
        }
        c.parts.is_none()
            || u == "ldap:///" || u == "ldap://" || u == "ldap:" || u == "ldaps:///" || u == "ldapi:///" || u == "ldapi:"   // F11, empty paths
            || (u.starts_with("ldapi://") && (u.ends_with(":389") || u.ends_with(":389/") || u.ends_with(":0")))          // F14
            || (u.starts_with("ldapi://") && (u.contains("n%FF") || u.contains("full") || u.contains("%2Fs%4")))
            || u.starts_with("ldap://[::1]")
    };
    for i in (1..cases.len()).rev() {
        let j = rng.below(i as u64 + 1) as usize;
        cases.swap(i, j);
    }
    let (mut ordered, rest): (Vec<Case>, Vec<Case>) = cases.into_iter().partition(|c| is_corpus(c));
    out.stat_n("cases.corpus", ordered.len() as u64);
    out.stat_n("cases.generated", (ordered.len() + rest.len()) as u64);
    ordered.extend(rest);
    let cap = if thorough { usize::MAX } else { 560 };
    if ordered.len() > cap {
        ordered.truncate(cap);
    }
    let cases = ordered;

    // ---- run
    // slow classes are budgeted per API: a hang costs GUARD_MS, a time-out T_MS, every TLS attempt the
    // construction of a native-tls connector (tens of ms: it loads the system trust store)
    let mut budget = [
        Budget { hang: if thorough { 40 } else { 3 }, timeout: if thorough { 400 } else { 25 }, tls: if thorough { 600 } else { 30 } },
        Budget { hang: if thorough { 20 } else { 2 }, timeout: if thorough { 400 } else { 25 }, tls: if thorough { 600 } else { 30 } },
    ];
    for c0 in &cases {
        let parsed = guarded(|| Url::parse(&c0.url));
        let parsed = match parsed {
            Ok(p) => p,
            Err(_) => {
                out.r(&format!("env.url-parse-no-panic {}", short(&c0.url)), false, "Url::parse panicked");
                continue;
            }
        };
        // environment assumption: the url crate hands the generator's parts through
        if let (Some(p), Ok(u)) = (&c0.parts, &parsed) {
            let ok = u.scheme() == p.scheme_lc && u.host_str().map(String::from) == p.host && u.port().map(|x| x as u32) == p.port;
            out.r(
                "env.url-parts",
                ok,
                &format!("{}: scheme {:?} host {:?} port {:?}, composed from {:?}", short(&c0.url), u.scheme(), u.host_str(), u.port(), p),
            );
            if !ok {
                continue;
            }
        }
        if let (Some(p), Err(e)) = (&c0.parts, &parsed) {
            out.r("env.url-parts", false, &format!("{}: Url::parse: {} (composed from {:?})", short(&c0.url), e, p));
            continue;
        }
        // what to expect, for budgeting and for the decision to re-observe; for free-form text the
        // parts are read off the parse result (never reported as an oracle)
        let guide_parts: Option<Parts> = match (&c0.parts, &parsed) {
            (Some(p), _) => Some(p.clone()),
            (None, Ok(u)) => Some(Parts {
                sch: match u.scheme() {
                    "ldap" => Sch::Ldap,
                    "ldaps" => Sch::Ldaps,
                    "ldapi" => Sch::Ldapi,
                    _ => Sch::Other,
                },
                scheme_lc: u.scheme().to_string(),
                host: u.host_str().filter(|h| !h.is_empty()).map(String::from),
                port: u.port().map(|p| p as u32),
            }),
            (None, Err(_)) => None,
        };
        // the time-out value: short where it is expected to fire and for every ldapi case (where the
        // property wants it to bound the establishment too), long where the case ends by itself
        let mut c = c0.clone();
        if let (Some(_), Some(gp)) = (c.timeout, &guide_parts) {
            let word = table(&w, &c, gp, true);
            if !word.starts_with("timeout") && gp.sch != Sch::Ldapi {
                c.timeout = Some(LONG_MS);
            }
        }
        let c = &c;
        let guide = guide_parts.as_ref().map(|p| table(&w, c, p, true)).unwrap_or_else(|| String::from("err UrlParsing none first=none"));
        let expected_strict = c.parts.as_ref().map(|p| table(&w, c, p, true));
        let expected_lossy = c.parts.as_ref().map(|p| table(&w, c, p, false));
        // the six model arguments from the REAL parse result
        let model_args = parsed.as_ref().ok().map(|u| {
            format!(
                "{} {} {} {} {} {}",
                hex(u.scheme().as_bytes()),
                opt_hex(u.host_str()),
                u.port().map(|p| p.to_string()).unwrap_or_else(|| String::from("none")),
                if c.starttls { 1 } else { 0 },
                c.timeout.map(|t| t.to_string()).unwrap_or_else(|| String::from("none")),
                c.stream.word()
            )
        });
        let mut async_text: Option<String> = None;
        for (ai, api) in [Api::Async, Api::Sync].into_iter().enumerate() {
            if guide.starts_with("hang") {
                if budget[ai].hang == 0 {
                    out.stat("skipped.hang-budget");
                    continue;
                }
                budget[ai].hang -= 1;
            } else if guide.starts_with("timeout") {
                if budget[ai].timeout == 0 {
                    out.stat("skipped.timeout-budget");
                    continue;
                }
                budget[ai].timeout -= 1;
            } else if guide.ends_with("first=hello") {
                if budget[ai].tls == 0 {
                    out.stat("skipped.tls-budget");
                    continue;
                }
                budget[ai].tls -= 1;
            }
            let api_word = if api == Api::Async { "async" } else { "sync" };
            let canon = format!("{} {} st={} to={:?} stream={}", api_word, c.url, c.starttls, c.timeout, c.stream.word());
            let desc = format!("{} {} st={} to={} stream={:?}", api_word, short(&c.url), c.starttls as u8, c.timeout.map(|t| t.to_string()).unwrap_or_else(|| "none".into()), c.stream);
            if std::env::var("SETUP_TRACE").is_ok() {
                eprintln!("{}", canon);
            }
            let mut obs = observe(&w, c, api);
            for _ in 1..ATTEMPTS {
                let late = c.timeout.map(|t| obs.elapsed_ms > t + slack_ms()).unwrap_or(false);
                if obs.panicked || (obs.text == guide && !late) {
                    break;
                }
                out.stat("reobserved");
                if late || obs.text.starts_with("hang") {
                    // late, or no answer within the guard: find out how slow the machine is before judging
                    if probe_lag() >= 150 {
                        out.stat("machine-loaded");
                    }
                }
                obs = observe(&w, c, api);
            }
            if std::env::var("SETUP_TRACE").is_ok() {
                eprintln!("  -> {} [{} ms]", obs.text, obs.elapsed_ms);
            }
            out.case(&canon, parsed.is_ok());
            match (api, &async_text) {
                (Api::Async, _) => async_text = Some(obs.text.clone()),
                (Api::Sync, Some(a)) => out.r(&format!("setup.sync-async-agree {}", desc), a == &obs.text, &format!("async [{}] sync [{}]", a, obs.text)),
                _ => {}
            }
            let word: Vec<&str> = obs.text.split(' ').collect();
            out.stat(&format!("outcome.{}", if word[0] == "err" { format!("err.{}", word[1].split(':').next().unwrap_or("")) } else { word[0].to_string() }));
            out.stat(&format!("stream.{}", c.stream.word()));
            out.stat(&format!("timeout.{}", c.timeout.map(|t| t.to_string()).unwrap_or_else(|| "none".into())));
            out.r(&format!("setup.no-panic {}", desc), !obs.panicked, "connection set-up panicked");
            match (&parsed, &model_args) {
                (Ok(u), Some(args)) => {
                    out.stat(&format!("scheme.{}", match u.scheme() { "ldap" => "ldap", "ldaps" => "ldaps", "ldapi" => "ldapi", _ => "other" }));
                    let pre_tcp = if let Stream::Tcp(id) = c.stream { Some(id) } else { None };
                    let env = w.env_text(pre_tcp, c.stream == Stream::Unix);
                    out.m(&format!("setup.run {} {}", args, env), &obs.text);
                    if obs.text.starts_with("err ") {
                        let k = word[1];
                        if k.starts_with("UnknownScheme") || k == "EmptyUnixPath" || k == "PortInUnixPath" || k == "MismatchedStreamType" {
                            out.m(&format!("setup.plan {}", args), &format!("err {}", k));
                        }
                    }
                }
                _ => {
                    out.stat("url.unparsable");
                    out.r(&format!("setup.unparsable {}", desc), obs.text == "err UrlParsing none first=none", &format!("got {}", obs.text));
                }
            }
            if let (Some(want), Some(want_lossy)) = (&expected_strict, &expected_lossy) {
                if want == want_lossy {
                    out.r(&format!("setup.table {}", desc), &obs.text == want, &format!("got [{}] want [{}]", obs.text, want));
                } else {
                    // the decoded path is not UTF-8: byte-exact reading of "the percent-decoded Unix socket path"
                    out.stat("ldapi.non-utf8-path");
                    out.r(&format!("setup.ldapi-path-bytes {}", desc), &obs.text == want, &format!("got [{}] want [{}] (lossy reading predicts [{}])", obs.text, want, want_lossy));
                }
            }
            if c.timeout.is_none() && guide.starts_with("err StartTls tcp:6") {
                // F21 (fixed in 13ff832): the peer closes on the StartTLS request; without a time-out the
                // set-up has to fail by itself
                out.r(&format!("setup.starttls-peer-closes-fails {}", desc), obs.text.starts_with("err "), &format!("got [{}] after {} ms", obs.text, obs.elapsed_ms));
            }
            if let (Some(t), true) = (c.timeout, obs.text.starts_with("timeout")) {
                // observation: the time-out is cooperative; the synchronous construction of the TLS
                // connector inside the timed future delays it
                let over = obs.elapsed_ms.saturating_sub(t);
                let bucket = if over <= 10 { "le10" } else if over <= 50 { "le50" } else if over <= 100 { "le100" } else { "gt100" };
                out.stat(&format!("timeout-overshoot-ms.{}.{}", if obs.text.ends_with("first=hello") { "tls" } else { "other" }, bucket));
            }
            if let Some(t) = c.timeout {
                // "a connection timeout bounds the whole establishment" — every scheme, ldapi included
                out.r(
                    &format!("setup.timeout-bounds {}", desc),
                    obs.panicked || obs.elapsed_ms <= t + slack_ms(),
                    &format!("establishment took {} ms with conn_timeout {} ms (slack {} ms; TLS connector construction currently takes {} ms): {}", obs.elapsed_ms, t, slack_ms(), lag(), obs.text),
                );
                if obs.text.starts_with("timeout") {
                    out.r(&format!("setup.timeout-not-early {}", desc), obs.elapsed_ms + 2 >= t, &format!("Timeout after {} ms < {} ms", obs.elapsed_ms, t));
                }
            }
        }
    }
    // F25: a name lookup that never completes (the resolver /etc/resolv.conf points at does not
    // answer).  tokio resolves names on a blocking thread that cannot be cancelled; the time-out must
    // bound the establishment all the same, in BOTH APIs.  Only possible where this process can play
    // the silent resolver: resolv.conf says 127.0.0.1 and UDP port 53 can be bound.
    let resolv = std::fs::read_to_string("/etc/resolv.conf").unwrap_or_default();
    let local_dns = resolv.lines().filter(|l| l.trim_start().starts_with("nameserver")).all(|l| l.contains("127.0.0.1")) && resolv.contains("nameserver");
    match (local_dns, std::net::UdpSocket::bind("127.0.0.1:53")) {
        (true, Ok(_silent_resolver)) => {
            for api in [Api::Async, Api::Sync] {
                let c = Case { url: String::from("ldap://needs-a-dns-lookup.example:389/"), parts: None, starttls: false, timeout: Some(T_MS), stream: Stream::None };
                let api_word = if api == Api::Async { "async" } else { "sync" };
                let obs = observe(&w, &c, api);
                out.case(&format!("slow-resolver {}", api_word), true);
                out.stat("env.silent-resolver");
                out.r(
                    &format!("setup.timeout-bounds-a-name-lookup-that-never-completes {}", api_word),
                    obs.text.starts_with("timeout") && obs.elapsed_ms <= T_MS + slack_ms(),
                    &format!("with conn_timeout {} ms and a resolver that never answers: {} after {} ms", T_MS, obs.text, obs.elapsed_ms),
                );
            }
        }
        _ => out.stat("skipped.silent-resolver-not-available"),
    }
    let _ = std::fs::remove_dir_all(&w.dir);
    out.finish("URL text (schemes ldap/ldaps/ldapi in both cases, unknown and special schemes; host absent / empty / IPv4 / IPv6 literal / names / unresolvable; port absent / ephemeral / dead / 0 / 65535; socket paths percent-encoded minimally, fully, lower-case hex, with space, non-ASCII, literal %, non-UTF-8, missing, backlog-full; port-bearing and empty ldapi; ~45 free-form and unparsable URLs) x StartTLS on/off x conn_timeout none/50 ms/3 s x stream none / pre-opened TCP to a silent peer / to a refusing peer / UnixStream::pair / Invalid (cloned settings) x LdapConnAsync / LdapConn; corpus of known witnesses first, then a seeded shuffle (quick: a prefix); non-trivial = the URL parses (set-up dispatch runs); distinct by FNV hash of API + URL + settings");
}

fn short(s: &str) -> String {
    let t: String = s.chars().map(|c| if c == '\t' || c == '\n' || c == '\r' { '?' } else { c }).collect();
    if t.len() > 120 {
        let mut cut = 120;
        while !t.is_char_boundary(cut) {
            cut -= 1;
        }
        format!("{}...", &t[..cut])
    } else {
        t
    }
}

//! Lane `entry` (C15): real `SearchEntry::construct` vs Model.Entry, the C15 property evaluated
//! on the real output, and `std::str::from_utf8` vs Model.Utf8 (`utf8Valid`).
use crate::fmtx::*;
use crate::lanes::ber::spec_enc;
use crate::out::{guarded, Out};
use crate::rng::Rng;
use ldap3::{ResultEntry, SearchEntry};
use lber::parse::parse_tag;
use lber::structure::StructureTag;
use std::collections::BTreeMap;

type Attr = (Vec<u8>, Vec<Vec<u8>>);

#[derive(Clone)]
struct GenEntry {
    dn: Vec<u8>,
    attrs: Vec<Attr>,
}

/// RFC 4511 §4.5.2: [APPLICATION 4] SEQUENCE { objectName, SEQUENCE OF SEQUENCE { type, SET OF value } }
fn attr_tlv(a: &Attr) -> StructureTag {
    cons(0, 16, vec![prim(0, 4, a.0.clone()), cons(0, 17, a.1.iter().map(|v| prim(0, 4, v.clone())).collect())])
}

fn entry_tlv(e: &GenEntry) -> StructureTag {
    cons(1, 4, vec![prim(0, 4, e.dn.clone()), cons(0, 16, e.attrs.iter().map(attr_tlv).collect())])
}

/// Independent UTF-8 acceptance oracle (decode to a scalar value, then RFC 3629 §3: shortest
/// form, no surrogates, at most U+10FFFF) — deliberately a different formulation than the Lean model.
fn spec_utf8(b: &[u8]) -> bool {
    let mut i = 0;
    while i < b.len() {
        let b0 = b[i] as u32;
        let (n, min, init) = if b0 < 0x80 {
            (0, 0, b0)
        } else if b0 & 0xE0 == 0xC0 {
            (1, 0x80, b0 & 0x1F)
        } else if b0 & 0xF0 == 0xE0 {
            (2, 0x800, b0 & 0x0F)
        } else if b0 & 0xF8 == 0xF0 {
            (3, 0x10000, b0 & 0x07)
        } else {
            return false;
        };
        if i + n >= b.len() {
            return false; // truncated
        }
        let mut cp = init;
        for k in 1..=n {
            let c = b[i + k] as u32;
            if c & 0xC0 != 0x80 {
                return false;
            }
            cp = (cp << 6) | (c & 0x3F);
        }
        if cp < min || cp > 0x10FFFF || (0xD800..=0xDFFF).contains(&cp) {
            return false;
        }
        i += n + 1;
    }
    true
}

// ---------------------------------------------------------------- value generators

const EDGE_CHARS: &[u32] = &[0x80, 0x7FF, 0x800, 0xFFF, 0x1000, 0xCFFF, 0xD000, 0xD7FF, 0xE000, 0xFFFD, 0xFFFF, 0x10000, 0x3FFFF, 0x40000, 0xFFFFF, 0x100000, 0x10FFFF, 0xE9, 0x20AC, 0x1F600];

/// hand-written encoder (RFC 3629 table), not std's
fn enc_char(cp: u32, out: &mut Vec<u8>) {
    if cp < 0x80 {
        out.push(cp as u8);
    } else if cp < 0x800 {
        out.push(0xC0 | (cp >> 6) as u8);
        out.push(0x80 | (cp & 0x3F) as u8);
    } else if cp < 0x10000 {
        out.push(0xE0 | (cp >> 12) as u8);
        out.push(0x80 | ((cp >> 6) & 0x3F) as u8);
        out.push(0x80 | (cp & 0x3F) as u8);
    } else {
        out.push(0xF0 | (cp >> 18) as u8);
        out.push(0x80 | ((cp >> 12) & 0x3F) as u8);
        out.push(0x80 | ((cp >> 6) & 0x3F) as u8);
        out.push(0x80 | (cp & 0x3F) as u8);
    }
}

fn rand_scalar(rng: &mut Rng) -> u32 {
    loop {
        let cp = match rng.below(4) {
            0 => *rng.pick(EDGE_CHARS),
            1 => rng.range(0x80, 0x7FF) as u32,
            2 => rng.range(0x800, 0xFFFF) as u32,
            _ => rng.range(0x10000, 0x10FFFF) as u32,
        };
        if !(0xD800..=0xDFFF).contains(&cp) {
            return cp;
        }
    }
}

fn gen_ascii(rng: &mut Rng) -> Vec<u8> {
    let n = rng.below(9) as usize;
    (0..n).map(|_| if rng.chance(1, 12) { *rng.pick(&[0u8, 0x7f, 0x0a, 0x20]) } else { rng.range(0x21, 0x7e) as u8 }).collect()
}

fn gen_multibyte(rng: &mut Rng) -> Vec<u8> {
    let n = rng.range(1, 4);
    let mut v = vec![];
    for _ in 0..n {
        if rng.chance(1, 4) {
            v.push(rng.range(0x21, 0x7e) as u8);
        }
        enc_char(rand_scalar(rng), &mut v);
    }
    v
}

const BAD: &[&[u8]] = &[
    &[0x80], &[0xBF], &[0xA0],                      // lone continuation
    &[0xC0, 0x80], &[0xC1, 0xBF],                   // overlong 2
    &[0xE0, 0x80, 0x80], &[0xE0, 0x9F, 0xBF],       // overlong 3
    &[0xF0, 0x80, 0x80, 0x80], &[0xF0, 0x8F, 0xBF, 0xBF], // overlong 4
    &[0xED, 0xA0, 0x80], &[0xED, 0xBF, 0xBF], &[0xED, 0xB0, 0x80], // surrogates
    &[0xC3], &[0xE2, 0x82], &[0xE2], &[0xF0, 0x9F, 0x98], &[0xF0, 0x9F], &[0xF4], // truncated
    &[0xF4, 0x90, 0x80, 0x80], &[0xF5, 0x80, 0x80, 0x80], // above U+10FFFF
    &[0xF5], &[0xF8], &[0xFB], &[0xFC], &[0xFE], &[0xFF], &[0xF8, 0x88, 0x80, 0x80, 0x80], // never valid
    &[0xC3, 0x28], &[0xE2, 0x28, 0xA1], &[0xE2, 0x82, 0x28], &[0xF0, 0x28, 0x8C, 0xBC], &[0xF0, 0x90, 0x28, 0xBC], // bad continuation
];

fn gen_invalid(rng: &mut Rng) -> Vec<u8> {
    let mut v = vec![];
    if rng.chance(1, 3) {
        v.extend(gen_ascii(rng));
    }
    if rng.chance(1, 5) {
        enc_char(rand_scalar(rng), &mut v);
    }
    let frag = *rng.pick(BAD);
    v.extend_from_slice(frag);
    // a truncated sequence stays invalid only if what follows is not a continuation byte
    if rng.chance(1, 3) {
        v.extend(gen_ascii(rng));
    }
    if rng.chance(1, 6) {
        v.push(rng.range(0xF5, 0xFF) as u8);
    }
    v
}

/// 0 = ascii, 1 = multi-byte, 2 = invalid
fn gen_value(rng: &mut Rng, class: u8) -> Vec<u8> {
    match class {
        0 => gen_ascii(rng),
        1 => gen_multibyte(rng),
        _ => gen_invalid(rng),
    }
}

fn gen_type(rng: &mut Rng, i: usize) -> Vec<u8> {
    let mut v: Vec<u8> = match rng.below(6) {
        0 => b"cn".to_vec(),
        1 => b"jpegPhoto;binary".to_vec(),
        2 => b"objectGUID".to_vec(),
        3 => {
            let mut m = vec![];
            enc_char(rand_scalar(rng), &mut m);
            m
        }
        4 => vec![],
        _ => gen_ascii(rng),
    };
    // make it unique within the entry
    v.extend(format!("{}", i).bytes());
    if i == 0 && rng.chance(1, 10) {
        v.clear(); // the empty attribute description
    }
    v
}

fn gen_dn(rng: &mut Rng) -> Vec<u8> {
    match rng.below(4) {
        0 => vec![],
        1 => b"cn=admin,dc=example,dc=org".to_vec(),
        2 => {
            let mut v = b"cn=".to_vec();
            v.extend(gen_multibyte(rng));
            v
        }
        _ => gen_ascii(rng),
    }
}

fn gen_entry(rng: &mut Rng, max_attrs: u64, max_vals: u64, inv_pct: u64) -> GenEntry {
    let n = rng.below(max_attrs + 1) as usize;
    let mut attrs = vec![];
    for i in 0..n {
        let k = rng.below(max_vals + 1) as usize;
        // attribute flavour: all text, or mixed
        let mixed = rng.below(100) < inv_pct;
        let vals = (0..k)
            .map(|_| {
                let class = if mixed { rng.below(3) as u8 } else { rng.below(2) as u8 };
                gen_value(rng, class)
            })
            .collect();
        attrs.push((gen_type(rng, i), vals));
    }
    GenEntry { dn: gen_dn(rng), attrs }
}

// ---------------------------------------------------------------- running the real code

fn show_map<V: AsRef<[u8]>>(m: &std::collections::HashMap<String, Vec<V>>) -> String {
    let mut ks: Vec<(&[u8], &Vec<V>)> = m.iter().map(|(k, v)| (k.as_bytes(), v)).collect();
    ks.sort_by(|a, b| a.0.cmp(b.0));
    let items: Vec<String> = ks
        .iter()
        .map(|(k, vs)| format!("{}:[{}]", hex(k), vs.iter().map(|v| hex(v.as_ref())).collect::<Vec<_>>().join(",")))
        .collect();
    format!("{{{}}}", items.join(";"))
}

fn show(se: &SearchEntry) -> String {
    format!("ok dn={} text={} bin={}", hex(se.dn.as_bytes()), show_map(&se.attrs), show_map(&se.bin_attrs))
}

fn real_construct(t: &StructureTag) -> Result<SearchEntry, String> {
    let t = t.clone();
    guarded(move || SearchEntry::construct(ResultEntry::new(t)))
}

fn outcome(r: &Result<SearchEntry, String>) -> String {
    match r {
        Ok(se) => show(se),
        Err(_) => String::from("panic"),
    }
}

fn sorted(v: &[Vec<u8>]) -> Vec<Vec<u8>> {
    let mut s = v.to_vec();
    s.sort();
    s
}

/// C15 evaluated on the real output, for an entry with pairwise distinct, valid types:
/// partition (exactly one map), order in the text map, multiset in the binary map, nothing else.
fn c15_oracle(e: &GenEntry, se: &SearchEntry) -> Result<(), String> {
    if se.dn.as_bytes() != &e.dn[..] {
        return Err(format!("dn {}", hex(se.dn.as_bytes())));
    }
    for (a, vals) in &e.attrs {
        let key = match std::str::from_utf8(a) {
            Ok(k) => k,
            Err(_) => return Err(String::from("oracle applied to a non-UTF-8 type")),
        };
        let all_valid = vals.iter().all(|v| spec_utf8(v));
        let t = se.attrs.get(key);
        let b = se.bin_attrs.get(key);
        if all_valid {
            match t {
                Some(ts) if ts.len() == vals.len() && ts.iter().zip(vals).all(|(x, y)| x.as_bytes() == &y[..]) => {}
                _ => return Err(format!("text attribute {} missing or altered", hex(a))),
            }
            if b.is_some() {
                return Err(format!("text attribute {} also in bin_attrs", hex(a)));
            }
        } else {
            if t.is_some() {
                return Err(format!("binary attribute {} in attrs", hex(a)));
            }
            match b {
                Some(bs) if sorted(bs) == sorted(vals) => {}
                _ => return Err(format!("binary attribute {} missing or not the same multiset", hex(a))),
            }
        }
    }
    if se.attrs.len() + se.bin_attrs.len() != e.attrs.len() {
        return Err(String::from("number of keys differs from number of attributes"));
    }
    for k in se.attrs.keys().chain(se.bin_attrs.keys()) {
        if !e.attrs.iter().any(|(a, _)| &a[..] == k.as_bytes()) {
            return Err(format!("foreign key {}", hex(k.as_bytes())));
        }
    }
    Ok(())
}

/// what `C15_duplicates_characterised` says, computed independently
fn dup_oracle(e: &GenEntry, se: &SearchEntry) -> Result<(), String> {
    let mut text: BTreeMap<Vec<u8>, Vec<Vec<u8>>> = BTreeMap::new();
    let mut bin: BTreeMap<Vec<u8>, Vec<Vec<u8>>> = BTreeMap::new();
    for (a, vals) in &e.attrs {
        if vals.iter().all(|v| spec_utf8(v)) {
            text.insert(a.clone(), vals.clone()); // last one wins
        } else {
            let l = bin.entry(a.clone()).or_default();
            l.extend(vals.iter().filter(|v| !spec_utf8(v)).cloned());
            l.extend(vals.iter().filter(|v| spec_utf8(v)).cloned());
        }
    }
    let got_text: BTreeMap<Vec<u8>, Vec<Vec<u8>>> =
        se.attrs.iter().map(|(k, v)| (k.as_bytes().to_vec(), v.iter().map(|s| s.as_bytes().to_vec()).collect())).collect();
    let got_bin: BTreeMap<Vec<u8>, Vec<Vec<u8>>> = se.bin_attrs.iter().map(|(k, v)| (k.as_bytes().to_vec(), v.clone())).collect();
    if se.dn.as_bytes() != &e.dn[..] {
        return Err(String::from("dn"));
    }
    if got_text != text {
        return Err(String::from("text map is not 'last all-text occurrence wins'"));
    }
    if got_bin != bin {
        return Err(String::from("binary map is not the concatenation of (invalid ++ valid) chunks"));
    }
    Ok(())
}

#[derive(PartialEq, Clone, Copy)]
enum Expect {
    /// well-formed: distinct valid types, valid dn -> C15 oracle
    Wf,
    /// valid names, repeated types -> duplicate characterisation
    Dup,
    /// readable shape with odd classes / ids / trailing elements: same result as for the canonical tree
    Lenient,
    Panic,
}

fn short(s: &str) -> String {
    if s.len() < 160 {
        s.to_string()
    } else {
        format!("fnv{:x}", fnv(s.as_bytes()))
    }
}

/// one case: tree `t` that (for everything but `Panic`) reads as entry `e`
fn run_case(out: &mut Out, rng: &mut Rng, tag: &str, e: &GenEntry, t: &StructureTag, exp: Expect, nontrivial: bool) {
    let canon = tlv(t);
    out.case(&canon, nontrivial);
    out.stat(&format!("kind.{}", tag));
    let direct = real_construct(t);
    let got = outcome(&direct);
    out.stat(if direct.is_ok() { "outcome.ok" } else { "outcome.panic" });
    out.m(&format!("entry.construct {}", canon), &got);
    let id = short(&canon);
    match (&direct, exp) {
        (Ok(se), Expect::Wf) => {
            let r = c15_oracle(e, se);
            out.r(&format!("entry.c15 {}", id), r.is_ok(), &format!("{} on {}", r.err().unwrap_or_default(), canon));
            let r = dup_oracle(e, se);
            out.r(&format!("entry.fold {}", id), r.is_ok(), &format!("{} on {}", r.err().unwrap_or_default(), canon));
        }
        (Ok(se), Expect::Dup) | (Ok(se), Expect::Lenient) => {
            let r = dup_oracle(e, se);
            out.r(&format!("entry.dup-characterised {}", id), r.is_ok(), &format!("{} on {}", r.err().unwrap_or_default(), canon));
        }
        (Err(_), Expect::Panic) => out.r(&format!("entry.panics-on-malformed {}", id), true, ""),
        (Ok(_), Expect::Panic) => out.r(&format!("entry.panics-on-malformed {}", id), false, &format!("no panic on {}", canon)),
        (Err(_), _) => out.r(&format!("entry.no-panic {}", id), false, &format!("panic on well-shaped {}", canon)),
    }
    // the same through octets: any definite-length encoding -> real lber parser -> construct
    let bytes = spec_enc(t, rng, true);
    let parsed = guarded(|| parse_tag(&bytes).ok().map(|(rest, p)| (rest.len(), p)));
    match parsed {
        Ok(Some((0, p))) => {
            if bytes.len() <= 400 {
                out.m(&format!("ber.parse {}", hex(&bytes)), &format!("ok {} rest=0", tlv(&p)));
            }
            let via = outcome(&real_construct(&p));
            out.r(&format!("entry.via-octets {}", id), p == *t && via == got, &format!("tree or outcome differs via octets {}", hex(&bytes[..bytes.len().min(80)])));
        }
        _ => out.r(&format!("entry.via-octets {}", id), false, &format!("lber did not parse {}", hex(&bytes[..bytes.len().min(80)]))),
    }
}

/// `Wf` when the types are pairwise distinct, else `Dup`
fn expect_for(e: &GenEntry) -> Expect {
    let mut names: Vec<&Vec<u8>> = e.attrs.iter().map(|a| &a.0).collect();
    names.sort();
    names.dedup();
    if names.len() < e.attrs.len() { Expect::Dup } else { Expect::Wf }
}

fn has_invalid(e: &GenEntry) -> bool {
    e.attrs.iter().any(|(_, vs)| vs.iter().any(|v| !spec_utf8(v)))
}

// ---------------------------------------------------------------- malformed / lenient shapes

fn malformed(rng: &mut Rng, e: &GenEntry) -> (String, StructureTag, Expect, GenEntry) {
    let mut e = e.clone();
    if e.attrs.is_empty() {
        e.attrs.push((b"cn".to_vec(), vec![b"x".to_vec()]));
    }
    let dnp = prim(0, 4, e.dn.clone());
    let mut akids: Vec<StructureTag> = e.attrs.iter().map(attr_tlv).collect();
    let i = rng.below(akids.len() as u64) as usize;
    let (ty, vals) = e.attrs[i].clone();
    let valk: Vec<StructureTag> = vals.iter().map(|v| prim(0, 4, v.clone())).collect();
    let bad = gen_invalid(rng);
    let which = rng.below(20);
    let name;
    let mut exp = Expect::Panic;
    let t = match which {
        0 => { name = "top-id"; cons(1, *rng.pick(&[0u64, 3, 5, 19, 25, 30]), vec![dnp, cons(0, 16, akids)]) }
        1 => { name = "top-primitive"; prim(1, 4, e.dn.clone()) }
        2 => { name = "top-empty"; cons(1, 4, vec![]) }
        3 => { name = "no-attr-list"; cons(1, 4, vec![dnp]) }
        4 => { name = "dn-constructed"; cons(1, 4, vec![cons(0, 4, vec![dnp]), cons(0, 16, akids)]) }
        5 => { name = "attr-list-primitive"; cons(1, 4, vec![dnp, prim(0, 16, vec![0x30, 0x00])]) }
        6 => { name = "dn-not-utf8"; cons(1, 4, vec![prim(0, 4, bad), cons(0, 16, akids)]) }
        7 => { name = "attr-primitive"; akids[i] = prim(0, 16, ty.clone()); cons(1, 4, vec![dnp, cons(0, 16, akids)]) }
        8 => { name = "attr-empty"; akids[i] = cons(0, 16, vec![]); cons(1, 4, vec![dnp, cons(0, 16, akids)]) }
        9 => { name = "type-constructed"; akids[i] = cons(0, 16, vec![cons(0, 4, vec![]), cons(0, 17, valk)]); cons(1, 4, vec![dnp, cons(0, 16, akids)]) }
        10 => { name = "no-values-element"; akids[i] = cons(0, 16, vec![prim(0, 4, ty.clone())]); cons(1, 4, vec![dnp, cons(0, 16, akids)]) }
        11 => { name = "values-primitive"; akids[i] = cons(0, 16, vec![prim(0, 4, ty.clone()), prim(0, 17, vec![])]); cons(1, 4, vec![dnp, cons(0, 16, akids)]) }
        12 => {
            name = "value-constructed";
            let mut vk = valk.clone();
            let j = rng.below(vk.len() as u64 + 1) as usize;
            vk.insert(j, cons(0, 4, vec![prim(0, 4, b"x".to_vec())]));
            akids[i] = cons(0, 16, vec![prim(0, 4, ty.clone()), cons(0, 17, vk)]);
            cons(1, 4, vec![dnp, cons(0, 16, akids)])
        }
        13 => { name = "type-not-utf8"; akids[i] = cons(0, 16, vec![prim(0, 4, bad), cons(0, 17, valk)]); cons(1, 4, vec![dnp, cons(0, 16, akids)]) }
        14 => { name = "swapped"; cons(1, 4, vec![cons(0, 16, akids), dnp]) }
        // ---- shapes the code accepts although they are not RFC 4511 (nothing but the top tag number is checked)
        15 => { name = "lenient-top-class"; exp = Expect::Lenient; cons(*rng.pick(&[0u8, 2, 3]), 4, vec![dnp, cons(0, 16, akids)]) }
        16 => { name = "lenient-trailing"; exp = Expect::Lenient; cons(1, 4, vec![dnp, cons(0, 16, akids), prim(0, 4, b"junk".to_vec()), cons(2, 0, vec![])]) }
        17 => {
            name = "lenient-attr-trailing";
            exp = Expect::Lenient;
            akids[i] = cons(0, 16, vec![prim(0, 4, ty.clone()), cons(0, 17, valk), cons(0, 17, vec![prim(0, 4, vec![0xff])]), prim(0, 4, vec![])]);
            cons(1, 4, vec![dnp, cons(0, 16, akids)])
        }
        18 => {
            name = "lenient-inner-tags";
            exp = Expect::Lenient;
            let vk: Vec<StructureTag> = vals.iter().map(|v| prim(rng.below(4) as u8, rng.below(31), v.clone())).collect();
            akids[i] = cons(rng.below(4) as u8, rng.below(31), vec![prim(rng.below(4) as u8, rng.below(31), ty.clone()), cons(rng.below(4) as u8, rng.below(31), vk)]);
            cons(1, 4, vec![prim(rng.below(4) as u8, rng.below(31), e.dn.clone()), cons(rng.below(4) as u8, rng.below(31), akids)])
        }
        _ => { name = "lenient-empty-attr-list"; exp = Expect::Lenient; e.attrs.clear(); cons(1, 4, vec![dnp, cons(0, 16, vec![])]) }
    };
    (name.to_string(), t, exp, e)
}

// ---------------------------------------------------------------- UTF-8 tie

fn utf8_case(out: &mut Out, b: &[u8], mism: &mut u64) {
    let real = std::str::from_utf8(b).is_ok();
    out.case(&format!("utf8 {}", hex(b)), b.iter().any(|x| *x >= 0x80));
    out.m(&format!("utf8.valid {}", hex(b)), if real { "true" } else { "false" });
    out.stat(if real { "utf8.valid" } else { "utf8.invalid" });
    if spec_utf8(b) != real {
        *mism += 1;
        out.r(&format!("utf8.rfc3629 {}", hex(b)), false, "from_utf8 disagrees with the RFC 3629 oracle");
    }
    // String::from_utf8 (used for DN and attribute type) is the same acceptance
    if String::from_utf8(b.to_vec()).is_ok() != real {
        *mism += 1;
        out.r(&format!("utf8.string {}", hex(b)), false, "String::from_utf8 differs from str::from_utf8");
    }
}

const EDGE2: &[u8] = &[0x7F, 0x80, 0x8F, 0x90, 0x9F, 0xA0, 0xBF, 0xC0];
const EDGE16: &[u8] = &[0x00, 0x41, 0x7F, 0x80, 0x81, 0x8F, 0x90, 0x9F, 0xA0, 0xBF, 0xC0, 0xC2, 0xE0, 0xF0, 0xF4, 0xFF];

fn utf8_tie(thorough: bool, rng: &mut Rng, out: &mut Out) {
    let mut mism = 0u64;
    utf8_case(out, &[], &mut mism);
    for a in 0..=255u8 {
        utf8_case(out, &[a], &mut mism);
    }
    for a in 0..=255u8 {
        for b in 0..=255u8 {
            utf8_case(out, &[a, b], &mut mism);
        }
    }
    out.stat_n("utf8.exhaustive-1-2-byte", 65792);
    if thorough {
        // every 3-byte sequence starting with a 3-byte lead
        for a in 0xE0..=0xEFu8 {
            for b in 0..=255u8 {
                for c in 0..=255u8 {
                    utf8_case(out, &[a, b, c], &mut mism);
                }
            }
        }
    }
    for a in [0xE0u8, 0xE1, 0xEC, 0xED, 0xEE, 0xEF] {
        for b in EDGE2 {
            for c in 0..=255u8 {
                utf8_case(out, &[a, *b, c], &mut mism);
            }
        }
    }
    for a in [0xF0u8, 0xF1, 0xF3, 0xF4, 0xF5] {
        for b in EDGE2 {
            for c in EDGE16 {
                for d in EDGE16 {
                    utf8_case(out, &[a, *b, *c, *d], &mut mism);
                }
            }
            if thorough {
                for c in 0..=255u8 {
                    for d in EDGE16 {
                        utf8_case(out, &[a, *b, c, *d], &mut mism);
                    }
                }
            }
        }
    }
    // a valid multi-byte character followed by every 2-byte tail (state after a complete character)
    for b in EDGE16 {
        for c in EDGE16 {
            utf8_case(out, &[0xC3, 0xA9, *b, *c], &mut mism);
            utf8_case(out, &[0xE2, 0x82, 0xAC, *b, *c], &mut mism);
            utf8_case(out, &[0xF0, 0x9F, 0x98, 0x80, *b, *c], &mut mism);
        }
    }
    let n = if thorough { 200000 } else { 6000 };
    for _ in 0..n {
        let mut v = vec![];
        let parts = rng.range(1, 6);
        for _ in 0..parts {
            match rng.below(5) {
                0 => v.extend(gen_ascii(rng)),
                1 | 2 => v.extend(gen_multibyte(rng)),
                3 => v.extend_from_slice(*rng.pick(BAD)),
                _ => {
                    let k = rng.range(1, 5) as usize;
                    v.extend(rng.bytes(k));
                }
            }
        }
        utf8_case(out, &v, &mut mism);
    }
    out.r("utf8.rfc3629-oracle-and-String-agree-on-all-cases", mism == 0, &format!("{} disagreements (listed above)", mism));
}

// ---------------------------------------------------------------- lane

pub fn run(thorough: bool, mut rng: Rng, mut out: Out) {
    // ---- corpus: fixed witnesses first
    let corpus: Vec<GenEntry> = vec![
        GenEntry { dn: b"cn=a".to_vec(), attrs: vec![] },
        GenEntry { dn: vec![], attrs: vec![(b"cn".to_vec(), vec![])] },
        GenEntry { dn: vec![0x63, 0x6e, 0x3d, 0xc3, 0xa9], attrs: vec![
            (b"cn".to_vec(), vec![b"a".to_vec(), vec![0xc3, 0xa9]]),
            (b"j".to_vec(), vec![b"a".to_vec(), vec![0xff], b"b".to_vec(), vec![0x80]]),
            (b"e".to_vec(), vec![]),
        ] },
        // same value twice, valid and invalid twice: multiset, not set
        GenEntry { dn: b"x".to_vec(), attrs: vec![(b"m".to_vec(), vec![vec![0xff], b"a".to_vec(), vec![0xff], b"a".to_vec()])] },
        GenEntry { dn: b"x".to_vec(), attrs: vec![(vec![], vec![vec![0xed, 0xa0, 0x80]]), (b"b".to_vec(), vec![vec![0xc0, 0x80]])] },
    ];
    for e in &corpus {
        let t = entry_tlv(e);
        run_case(&mut out, &mut rng, "corpus", e, &t, Expect::Wf, true);
    }
    let dup = GenEntry { dn: b"a".to_vec(), attrs: vec![
        (b"t".to_vec(), vec![b"1".to_vec()]), (b"t".to_vec(), vec![b"2".to_vec()]),
        (b"t".to_vec(), vec![vec![0xff], b"3".to_vec()]), (b"t".to_vec(), vec![vec![0xfe]]),
    ] };
    run_case(&mut out, &mut rng, "corpus-dup", &dup, &entry_tlv(&dup), Expect::Dup, true);

    // ---- exhaustive validity patterns: every sequence of <= 4 values over {ascii, multi-byte, invalid}
    let reps = if thorough { 60 } else { 12 };
    for k in 0..=4u32 {
        for code in 0..3u32.pow(k) {
            let pat: Vec<u8> = (0..k).map(|j| ((code / 3u32.pow(j)) % 3) as u8).collect();
            for rep in 0..reps {
                let vals: Vec<Vec<u8>> = pat.iter().map(|c| gen_value(&mut rng, *c)).collect();
                // alone, or in the middle of other attributes
                let mut e = if rep % 2 == 0 { GenEntry { dn: gen_dn(&mut rng), attrs: vec![] } } else { gen_entry(&mut rng, 3, 3, 40) };
                let pos = rng.below(e.attrs.len() as u64 + 1) as usize;
                e.attrs.insert(pos, (b"pattern".to_vec(), vals));
                out.stat(&format!("pattern.len={}", k));
                let t = entry_tlv(&e);
                let exp = expect_for(&e);
                run_case(&mut out, &mut rng, "pattern", &e, &t, exp, pat.contains(&2));
            }
        }
    }
    out.stat_n("pattern.exhaustive-3^k-k<=4", 121);

    // ---- random well-formed entries: 0..12 attributes, 0..8 values
    let n = if thorough { 150000 } else { 12000 };
    for _ in 0..n {
        let inv = *rng.pick(&[0u64, 20, 50, 100]);
        let e = gen_entry(&mut rng, 12, 8, inv);
        out.stat(&format!("attrs={}", e.attrs.len()));
        let t = entry_tlv(&e);
        let nt = has_invalid(&e);
        let exp = expect_for(&e);
        run_case(&mut out, &mut rng, "random", &e, &t, exp, nt);
    }

    // ---- repeated attribute types
    let n = if thorough { 40000 } else { 3000 };
    for _ in 0..n {
        let mut e = gen_entry(&mut rng, 8, 4, 50);
        if e.attrs.len() < 2 {
            e.attrs.push((b"a".to_vec(), vec![gen_value(&mut rng, 0)]));
            e.attrs.push((b"b".to_vec(), vec![gen_value(&mut rng, 2)]));
        }
        let copies = rng.range(1, 4);
        for _ in 0..copies {
            let from = rng.below(e.attrs.len() as u64) as usize;
            let to = rng.below(e.attrs.len() as u64) as usize;
            if from != to {
                e.attrs[to].0 = e.attrs[from].0.clone();
            }
        }
        let exp = expect_for(&e);
        let t = entry_tlv(&e);
        run_case(&mut out, &mut rng, if exp == Expect::Dup { "duplicate-types" } else { "random" }, &e, &t, exp, true);
    }

    // ---- malformed shapes (panic) and non-RFC shapes the code lets through
    let n = if thorough { 40000 } else { 3000 };
    for _ in 0..n {
        let base = gen_entry(&mut rng, 4, 3, 40);
        let (name, t, exp, e) = malformed(&mut rng, &base);
        run_case(&mut out, &mut rng, &name, &e, &t, exp, true);
    }

    // ---- std::str::from_utf8 vs the model's utf8Valid
    utf8_tie(thorough, &mut rng, &mut out);

    out.finish("search result entries with 0..12 attributes of 0..8 values (ASCII / multi-byte incl. the U+0080, U+0800, U+D7FF, U+E000, U+10000, U+10FFFF edges / invalid: lone continuation, overlong, surrogate, truncated, > U+10FFFF, F5..FF), every validity pattern of <= 4 values over {ascii, multi-byte, invalid}, repeated attribute types, 15 malformed and 5 non-RFC-but-accepted shapes; each tree is given to the real construct directly and after encoding with random length forms + real lber parse; UTF-8 acceptance: every 1- and 2-byte sequence, 3-/4-byte sequences on the range edges, random mixtures; non-trivial = entry with an invalid value / repeated type / unusual shape, byte string with a byte >= 0x80; distinct by FNV hash of the canonical input");
}

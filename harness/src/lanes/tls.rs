//! Lane `tls` (C17): TLS establishment of `LdapConnAsync::new_tcp` against a scripted loopback server.
//!
//! Every scenario is one real TCP connection on 127.0.0.1 between the real `LdapConnAsync::with_settings`
//! (native-tls/OpenSSL) and a server thread (`std::net::TcpListener` + `native_tls::TlsAcceptor`) which
//! follows a script: what it answers to the StartTLS request (result code, garbage, nothing, close,
//! reset), which bytes it sends in cleartext behind the response (in the same `write` or in a separate
//! one once the ClientHello has arrived), and how it behaves in the handshake (certificate, stall, close).
//! The server records every byte it receives; the client side records Ok/Err kind, whether the handle
//! runs over TLS (`get_peer_certificate()` is `Some`) and, when establishment succeeds, the result of a
//! `simple_bind` which the server answers INSIDE TLS with a code different from the forged cleartext one.
//!
//!   M tls.run <scheme> <starttls> <no_verify> <connector> <conn_timeout> <early> <chunks> <end> <hs> <cert>
//!         TAB <outcome> writes=<cleartext messages received before the handshake> tls=<0|1>
//!   R the clauses of C17 evaluated on the observations (independent of the model)
//!
//! Timing: scenarios run concurrently; nothing depends on a sleep except (harmlessly) the split of one
//! response over two writes; "separate write behind the response" waits for the ClientHello instead.
//! Stalling scenarios (a silent peer) end by `conn_timeout` (1 s) or, without one, by the lane's own 4 s
//! limit (`hang`).  Corpus witnesses of the repaired defect F21 (peer closes after the request / answers
//! under another message ID: establishment used to wait for ever): `starttls/close-after-request/*`,
//! `starttls/foreign-id*`; strict oracles `tls.peer-closes-after-request-fails-promptly` and
//! `tls.foreign-id-then-success-completes`.
use crate::fmtx::hex;
use crate::out::Out;
use crate::rng::Rng;
use ldap3::{LdapConnAsync, LdapConnSettings, LdapError};
use std::io::{Read, Write};
use std::net::{TcpListener, TcpStream};
use std::sync::{mpsc, Arc, Mutex};
use std::time::Duration;

const CA_PEM: &[u8] = include_bytes!("../../certs/ca.pem");
const GOOD_PEM: &[u8] = include_bytes!("../../certs/good.pem");
const GOOD_KEY: &[u8] = include_bytes!("../../certs/good.key");
const WRONG_PEM: &[u8] = include_bytes!("../../certs/wrongname.pem");
const WRONG_KEY: &[u8] = include_bytes!("../../certs/wrongname.key");
const SELF_PEM: &[u8] = include_bytes!("../../certs/selfsigned.pem");
const SELF_KEY: &[u8] = include_bytes!("../../certs/selfsigned.key");

const STARTTLS_OID: &str = "1.3.6.1.4.1.1466.20037";
const CONN_TIMEOUT_MS: u64 = 1_000;
const OUTER_MS: u64 = 4_000;
const INNER_RC: u32 = 49; // what the server answers to the bind INSIDE TLS
const INNER_TEXT: &str = "inside-tls";

// ---------------------------------------------------------------------------------------------
// BER helpers (server side only; independent of lber)

fn der(tag: u8, body: &[u8]) -> Vec<u8> {
    let mut v = vec![tag];
    let n = body.len();
    if n < 128 {
        v.push(n as u8);
    } else if n < 256 {
        v.extend([0x81, n as u8]);
    } else {
        v.extend([0x82, (n >> 8) as u8, n as u8]);
    }
    v.extend(body);
    v
}

fn uint_octets(mut n: u64) -> Vec<u8> {
    let mut v = vec![];
    loop {
        v.insert(0, (n & 0xff) as u8);
        n >>= 8;
        if n == 0 {
            break;
        }
    }
    if v[0] & 0x80 != 0 {
        v.insert(0, 0);
    }
    v
}

/// LDAPMessage { id, [APPLICATION app] { resultCode, matchedDN "", diagnosticMessage text } }
fn result_msg(id: u64, app: u8, rc: u64, text: &str) -> Vec<u8> {
    let mut body = der(0x0a, &uint_octets(rc));
    body.extend(der(0x04, b""));
    body.extend(der(0x04, text.as_bytes()));
    let mut m = der(0x02, &uint_octets(id));
    m.extend(der(0x60 | app, &body));
    der(0x30, &m)
}

/// SearchResultEntry for `id` with one attribute
fn entry_msg(id: u64, dn: &str) -> Vec<u8> {
    let mut attr = der(0x04, b"cn");
    attr.extend(der(0x31, &der(0x04, b"forged")));
    let mut body = der(0x04, dn.as_bytes());
    body.extend(der(0x30, &der(0x30, &attr)));
    let mut m = der(0x02, &uint_octets(id));
    m.extend(der(0x64, &body));
    der(0x30, &m)
}

fn starttls_request() -> Vec<u8> {
    let mut m = der(0x02, &[1]);
    m.extend(der(0x77, &der(0x80, STARTTLS_OID.as_bytes())));
    der(0x30, &m)
}

/// read exactly one BER element (definite length) from `r`
fn read_element(r: &mut dyn Read) -> std::io::Result<Vec<u8>> {
    let mut h = [0u8; 2];
    r.read_exact(&mut h)?;
    let mut v = h.to_vec();
    let len = if h[1] < 0x80 {
        h[1] as usize
    } else {
        let k = (h[1] & 0x7f) as usize;
        if k == 0 || k > 3 {
            return Err(std::io::Error::new(std::io::ErrorKind::InvalidData, "length form"));
        }
        let mut lb = vec![0u8; k];
        r.read_exact(&mut lb)?;
        v.extend(&lb);
        lb.iter().fold(0usize, |a, b| (a << 8) | *b as usize)
    };
    let mut body = vec![0u8; len];
    r.read_exact(&mut body)?;
    v.extend(body);
    Ok(v)
}

/// split a byte log into leading cleartext BER elements (tag 0x30) and the rest
fn split_cleartext(log: &[u8]) -> (Vec<Vec<u8>>, &[u8]) {
    let mut msgs = vec![];
    let mut rest = log;
    loop {
        if rest.len() < 2 || rest[0] != 0x30 {
            return (msgs, rest);
        }
        let (hl, len) = if rest[1] < 0x80 {
            (2, rest[1] as usize)
        } else {
            let k = (rest[1] & 0x7f) as usize;
            if k == 0 || k > 3 || rest.len() < 2 + k {
                return (msgs, rest);
            }
            (2 + k, rest[2..2 + k].iter().fold(0usize, |a, b| (a << 8) | *b as usize))
        };
        if rest.len() < hl + len {
            return (msgs, rest);
        }
        msgs.push(rest[..hl + len].to_vec());
        rest = &rest[hl + len..];
    }
}

/// `bytes` is a sequence of well-formed TLS records (type 20..23, version 3.x), possibly cut in the last one
fn all_tls_records(mut b: &[u8]) -> bool {
    while !b.is_empty() {
        if b.len() < 5 {
            return (0x14..=0x17).contains(&b[0]);
        }
        if !(0x14..=0x17).contains(&b[0]) || b[1] != 3 || b[2] > 4 {
            return false;
        }
        let n = ((b[3] as usize) << 8) | b[4] as usize;
        if n > 16384 + 2048 {
            return false;
        }
        if b.len() < 5 + n {
            return true;
        }
        b = &b[5 + n..];
    }
    true
}

// ---------------------------------------------------------------------------------------------
// scenario description

#[derive(Clone, Copy, PartialEq, Debug)]
enum Scheme {
    Ldap,
    Ldaps,
}

#[derive(Clone, Copy, PartialEq, Debug)]
enum Connector {
    Default,
    /// caller's connector: test CA added as root; `danger_accept_invalid_certs(flag)`
    Custom(bool),
}

#[derive(Clone, Copy, Debug)]
struct Cfg {
    scheme: Scheme,
    starttls: bool,
    no_verify: bool,
    conn: Connector,
    timeout: bool,
    host: &'static str,
}

impl Cfg {
    fn mode(&self) -> &'static str {
        match (self.scheme, self.starttls) {
            (Scheme::Ldaps, _) => "direct",
            (Scheme::Ldap, true) => "starttls",
            (Scheme::Ldap, false) => "plain",
        }
    }
    /// is certificate verification switched off (by the setting, or by the caller's connector which overrides it)
    fn verify_off(&self) -> bool {
        match self.conn {
            Connector::Default => self.no_verify,
            Connector::Custom(a) => a,
        }
    }
    fn text(&self) -> String {
        format!(
            "{} {} {} {} {}",
            if self.scheme == Scheme::Ldap { "ldap" } else { "ldaps" },
            self.starttls as u8,
            self.no_verify as u8,
            match self.conn {
                Connector::Default => "d",
                Connector::Custom(false) => "c0",
                Connector::Custom(true) => "c1",
            },
            self.timeout as u8
        )
    }
}

#[derive(Clone, Copy, PartialEq, Debug)]
enum Cert {
    Good,
    WrongName,
    SelfSigned,
}

impl Cert {
    /// ground truth handed to the model as the TLS library's parameter: does the chain verify for the
    /// host name (localhost / 127.0.0.1) under the roots the client uses
    fn trusted(self, conn: Connector) -> bool {
        // the library's own (default) connector trusts the test CA too: `run` points OpenSSL's default verify
        // file at it (SSL_CERT_FILE), so that the default connector's NAME check is exercised as well — with an
        // untrusted chain every certificate fails before the name is ever looked at (seeded change C17d)
        let _ = conn;
        self == Cert::Good
    }
    fn identity(self) -> native_tls::Identity {
        let (c, k) = match self {
            Cert::Good => (GOOD_PEM, GOOD_KEY),
            Cert::WrongName => (WRONG_PEM, WRONG_KEY),
            Cert::SelfSigned => (SELF_PEM, SELF_KEY),
        };
        native_tls::Identity::from_pkcs8(c, k).expect("test identity")
    }
    fn name(self) -> &'static str {
        match self {
            Cert::Good => "good",
            Cert::WrongName => "wrongname",
            Cert::SelfSigned => "selfsigned",
        }
    }
}

/// server script
#[derive(Clone, Debug)]
enum Step {
    /// read one LDAPMessage in cleartext
    ReadReq,
    /// wait until the whole request is in the socket, leave it unread
    PeekReq,
    Write(Vec<u8>),
    /// short sleep between the parts of one response
    Pause,
    /// block until the first byte of the ClientHello can be peeked: the client has left the LDAP layer
    AwaitHello,
    /// keep the connection open and silent until the client side is done
    Hold,
    /// TLS handshake with this certificate, then answer one request inside TLS
    Tls(Cert),
    /// plain LDAP: answer one request in cleartext with INNER_RC, then read to the end
    PlainServe,
    // leaving the script = close (FIN, or RST if unread data is pending)
}

#[derive(Clone, Copy, PartialEq, Debug)]
enum End {
    Eof,
    Rst,
    Silent,
}

#[derive(Clone, Copy, PartialEq, Debug)]
enum Hs {
    Ok,
    Fail,
    Stall,
}

#[derive(Clone, Debug)]
struct Scen {
    name: String,
    cfg: Cfg,
    script: Vec<Step>,
    // the same behaviour in the model's terms
    chunks: Vec<Vec<u8>>,
    end: End,
    hs: Hs,
    cert: Cert,
    /// oracle side: is this an establishment that must not yield a handle (and why)
    bad: Option<&'static str>,
    /// forged cleartext frames were placed behind a successful StartTLS response
    forged: bool,
}

impl Scen {
    fn behaviour_text(&self) -> String {
        let chunks = if self.chunks.is_empty() {
            String::from("-")
        } else {
            self.chunks.iter().map(|c| hex(c)).collect::<Vec<_>>().join(",")
        };
        format!(
            "0 {} {} {} {}",
            chunks,
            match self.end {
                End::Eof => "eof",
                End::Rst => "rst",
                End::Silent => "silent",
            },
            match self.hs {
                Hs::Ok => "ok",
                Hs::Fail => "fail",
                Hs::Stall => "stall",
            },
            if self.cert.trusted(self.cfg.conn) { "t" } else { "u" }
        )
    }
}

// ---------------------------------------------------------------------------------------------
// server

#[derive(Debug)]
struct Rec {
    s: TcpStream,
    log: Arc<Mutex<Vec<u8>>>,
}

impl Read for Rec {
    fn read(&mut self, b: &mut [u8]) -> std::io::Result<usize> {
        let n = self.s.read(b)?;
        self.log.lock().unwrap().extend_from_slice(&b[..n]);
        Ok(n)
    }
}

impl Write for Rec {
    fn write(&mut self, b: &[u8]) -> std::io::Result<usize> {
        self.s.write(b)
    }
    fn flush(&mut self) -> std::io::Result<()> {
        self.s.flush()
    }
}

#[derive(Default, Debug)]
struct SrvObs {
    accepted: bool,
    hs_done: bool,
    /// requests read inside TLS (decrypted) or, for PlainServe, in cleartext
    served: Vec<Vec<u8>>,
    note: String,
}

fn serve(listener: TcpListener, script: Vec<Step>, log: Arc<Mutex<Vec<u8>>>, done: mpsc::Receiver<()>) -> SrvObs {
    let mut obs = SrvObs::default();
    listener.set_nonblocking(false).ok();
    let (s, _) = match listener.accept() {
        Ok(x) => x,
        Err(e) => {
            obs.note = format!("accept: {}", e);
            return obs;
        }
    };
    obs.accepted = true;
    s.set_read_timeout(Some(Duration::from_millis(4000))).ok();
    s.set_write_timeout(Some(Duration::from_millis(4000))).ok();
    s.set_nodelay(true).ok();
    let mut rec = Some(Rec { s, log: log.clone() });
    for step in script {
        match step {
            Step::ReadReq => {
                if let Err(e) = read_element(rec.as_mut().unwrap()) {
                    obs.note = format!("readreq: {}", e);
                    return obs;
                }
            }
            Step::PeekReq => {
                let want = starttls_request().len();
                let mut buf = [0u8; 256];
                let t0 = std::time::Instant::now();
                loop {
                    match rec.as_ref().unwrap().s.peek(&mut buf) {
                        Ok(n) if n >= want => {
                            log.lock().unwrap().extend_from_slice(&buf[..n]);
                            break;
                        }
                        Ok(0) => break,
                        Ok(_) => std::thread::sleep(Duration::from_millis(2)),
                        Err(_) => break,
                    }
                    if t0.elapsed() > Duration::from_millis(4000) {
                        break;
                    }
                }
            }
            Step::Write(b) => {
                if let Err(e) = rec.as_mut().unwrap().s.write_all(&b) {
                    obs.note = format!("write: {}", e);
                    return obs;
                }
            }
            Step::Pause => std::thread::sleep(Duration::from_millis(60)),
            Step::AwaitHello => {
                let mut b = [0u8; 1];
                match rec.as_ref().unwrap().s.peek(&mut b) {
                    Ok(n) if n > 0 => {}
                    r => {
                        obs.note = format!("awaithello: {:?}", r);
                        return obs;
                    }
                }
            }
            Step::Hold => {
                let _ = done.recv_timeout(Duration::from_millis(6000));
                // drain what the client sent meanwhile (a ClientHello, if it got that far) into the log
                let r = rec.as_mut().unwrap();
                r.s.set_nonblocking(true).ok();
                let mut b = [0u8; 4096];
                while let Ok(n) = r.read(&mut b) {
                    if n == 0 {
                        break;
                    }
                }
                return obs;
            }
            Step::Tls(cert) => {
                let acc = native_tls::TlsAcceptor::new(cert.identity()).expect("acceptor");
                match acc.accept(rec.take().unwrap()) {
                    Ok(mut tls) => {
                        obs.hs_done = true;
                        // one request inside TLS: answer it with the INNER result
                        if let Ok(req) = read_element(&mut tls) {
                            let id = msg_id(&req).unwrap_or(0);
                            obs.served.push(req);
                            let _ = tls.write_all(&result_msg(id, 1, INNER_RC as u64, INNER_TEXT));
                            // read to the end (unbind, close)
                            while let Ok(m) = read_element(&mut tls) {
                                obs.served.push(m);
                            }
                        }
                    }
                    Err(e) => {
                        obs.note = format!("tls accept: {}", short(&format!("{}", e)));
                    }
                }
                return obs;
            }
            Step::PlainServe => {
                let r = rec.as_mut().unwrap();
                if let Ok(req) = read_element(r) {
                    let id = msg_id(&req).unwrap_or(0);
                    obs.served.push(req);
                    let _ = r.s.write_all(&result_msg(id, 1, INNER_RC as u64, "plain"));
                    while let Ok(m) = read_element(r) {
                        obs.served.push(m);
                    }
                }
                return obs;
            }
        }
    }
    obs
}

fn short(s: &str) -> String {
    s.chars().filter(|c| *c != '\t' && *c != '\n').take(80).collect()
}

fn msg_id(m: &[u8]) -> Option<u64> {
    // 30 len 02 k id…
    let (hl, _) = if m.len() > 1 && m[1] < 0x80 { (2, 0) } else { (2 + (m.get(1)? & 0x7f) as usize, 0) };
    if *m.get(hl)? != 0x02 {
        return None;
    }
    let k = *m.get(hl + 1)? as usize;
    Some(m.get(hl + 2..hl + 2 + k)?.iter().fold(0u64, |a, b| (a << 8) | *b as u64))
}

// ---------------------------------------------------------------------------------------------
// client

#[derive(Debug, Default)]
struct CliObs {
    outcome: String,
    peer_cert: Option<bool>,
    bind: Option<(u32, String)>,
    log_at_return: Vec<u8>,
    /// how long establishment took
    elapsed_ms: u64,
}

fn err_kind(e: &LdapError) -> String {
    match e {
        LdapError::LdapResult { result } => format!("err:LdapResult:{}", result.rc),
        LdapError::ResultRecv { .. } | LdapError::OpSend { .. } => String::from("err:DriverEnded"),
        LdapError::NativeTLS { .. } => String::from("err:NativeTLS"),
        LdapError::Timeout { .. } => String::from("err:Timeout"),
        LdapError::Io { .. } => String::from("err:Io"),
        _ => String::from("err:Other"),
    }
}

/// the caller's connector (built once: loading the system roots takes ~65 ms)
fn custom_connector(accept_invalid: bool) -> native_tls::TlsConnector {
    static C: std::sync::OnceLock<[native_tls::TlsConnector; 2]> = std::sync::OnceLock::new();
    let cs = C.get_or_init(|| {
        let mk = |a: bool| {
            let ca = native_tls::Certificate::from_pem(CA_PEM).expect("ca");
            native_tls::TlsConnector::builder().add_root_certificate(ca).danger_accept_invalid_certs(a).build().expect("connector")
        };
        [mk(false), mk(true)]
    });
    cs[accept_invalid as usize].clone()
}

async fn client(cfg: Cfg, port: u16, log: Arc<Mutex<Vec<u8>>>) -> CliObs {
    let mut obs = CliObs::default();
    let mut settings = LdapConnSettings::new().set_starttls(cfg.starttls).set_no_tls_verify(cfg.no_verify);
    if cfg.timeout {
        settings = settings.set_conn_timeout(Duration::from_millis(CONN_TIMEOUT_MS));
    }
    if let Connector::Custom(accept_invalid) = cfg.conn {
        settings = settings.set_connector(custom_connector(accept_invalid));
    }
    let url = format!("{}://{}:{}", if cfg.scheme == Scheme::Ldap { "ldap" } else { "ldaps" }, cfg.host, port);
    let t0 = std::time::Instant::now();
    let est = tokio::time::timeout(Duration::from_millis(OUTER_MS), LdapConnAsync::with_settings(settings, &url)).await;
    obs.elapsed_ms = t0.elapsed().as_millis() as u64;
    obs.log_at_return = log.lock().unwrap().clone();
    match est {
        Err(_) => obs.outcome = String::from("hang"),
        Ok(Err(e)) => obs.outcome = err_kind(&e),
        Ok(Ok((conn, mut ldap))) => {
            // The session's first request is queued BEFORE the driver first runs (one poll of the
            // bind future), so that whatever the driver finds in its read buffer at that moment
            // competes with a registered request and is not just dropped as unmatched.
            let mut ldap_bind = ldap.clone();
            let bind_fut = ldap_bind.simple_bind("cn=probe", "secret-probe");
            tokio::pin!(bind_fut);
            let mut early: Option<ldap3::result::Result<ldap3::LdapResult>> = None;
            tokio::select! {
                biased;
                r = &mut bind_fut => early = Some(r),
                _ = std::future::ready(()) => {}
            }
            ldap3::drive!(conn);
            let pc = tokio::time::timeout(Duration::from_millis(OUTER_MS), ldap.get_peer_certificate()).await;
            obs.peer_cert = match pc {
                Ok(Ok(c)) => Some(c.is_some()),
                _ => None,
            };
            obs.outcome = match obs.peer_cert {
                Some(true) => String::from("ok-secure"),
                Some(false) => String::from("ok-plain"),
                None => String::from("ok-unknown"),
            };
            let b = match early {
                Some(r) => Ok(r),
                None => tokio::time::timeout(Duration::from_millis(OUTER_MS), &mut bind_fut).await,
            };
            if let Ok(Ok(r)) = b {
                obs.bind = Some((r.rc, r.text.clone()));
            }
            let _ = tokio::time::timeout(Duration::from_millis(500), ldap.unbind()).await;
        }
    }
    obs
}

struct Ran {
    scen: Scen,
    cli: CliObs,
    srv: SrvObs,
    log: Vec<u8>,
}

async fn run_one(scen: Scen, sem: Arc<tokio::sync::Semaphore>) -> Ran {
    // scenarios which wait for a time-out are cheap and run all at once; the others (CPU: the default
    // connector loads the system roots) are throttled so that none of them comes near a time limit
    let stalls = scen.hs == Hs::Stall || scen.end == End::Silent || (scen.end == End::Eof && scen.chunks.is_empty() && scen.cfg.mode() == "starttls");
    let _permit = if stalls { None } else { Some(sem.acquire_owned().await.expect("semaphore")) };
    let listener = TcpListener::bind("127.0.0.1:0").expect("bind");
    let port = listener.local_addr().unwrap().port();
    let log = Arc::new(Mutex::new(Vec::new()));
    let (done_tx, done_rx) = mpsc::channel::<()>();
    let script = scen.script.clone();
    let slog = log.clone();
    let th = std::thread::spawn(move || serve(listener, script, slog, done_rx));
    let cfg = scen.cfg;
    let clog = log.clone();
    // own task: a panic on the caller's task (op_call's `expect`) is an outcome
    let cli = match tokio::spawn(client(cfg, port, clog)).await {
        Ok(o) => o,
        Err(e) => CliObs { outcome: String::from(if e.is_panic() { "panic" } else { "cancelled" }), ..Default::default() },
    };
    drop(done_tx);
    let srv = tokio::task::spawn_blocking(move || th.join().unwrap_or_default()).await.unwrap_or_default();
    let log = log.lock().unwrap().clone();
    Ran { scen, cli, srv, log }
}

// ---------------------------------------------------------------------------------------------
// scenario table

fn cfgs_tls(scheme: Scheme, starttls: bool) -> Vec<Cfg> {
    let mut v = vec![];
    for no_verify in [false, true] {
        for conn in [Connector::Default, Connector::Custom(false), Connector::Custom(true)] {
            v.push(Cfg { scheme, starttls, no_verify, conn, timeout: false, host: "localhost" });
        }
    }
    v
}

fn success_resp() -> Vec<u8> {
    // ExtendedResponse success with the responseName
    let mut body = der(0x0a, &[0]);
    body.extend(der(0x04, b""));
    body.extend(der(0x04, b""));
    body.extend(der(0x8a, STARTTLS_OID.as_bytes()));
    let mut m = der(0x02, &[1]);
    m.extend(der(0x78, &body));
    der(0x30, &m)
}

fn forged_frames() -> Vec<u8> {
    // BindResponse success for the ID the first operation of the session will get (2), and a
    // SearchResultEntry + SearchResultDone for the same ID
    // Many copies: a forged frame that is decoded BEFORE the session's first request is registered
    // is dropped as unmatched, and which of the two happens first is the driver's (random) choice;
    // with 64 copies some are still in the read buffer when the request is registered, if the
    // buffer survived the upgrade at all (seeded change C17-read-buffer-survives-upgrade).
    let mut v = vec![];
    // under the IDs 1..3: whatever ID the session's first request gets, a forged answer is waiting
    for _ in 0..64 {
        for id in 1..=3 {
            v.extend(result_msg(id, 1, 0, "forged-cleartext"));
        }
    }
    v.extend(entry_msg(2, "cn=forged"));
    v.extend(result_msg(2, 5, 0, "forged-cleartext"));
    v
}

fn scenarios(thorough: bool, rng: &mut Rng) -> Vec<Scen> {
    let mut v: Vec<Scen> = vec![];
    let hosts = ["localhost", "127.0.0.1"];
    let st_cfgs = cfgs_tls(Scheme::Ldap, true);
    let mut k = 0usize;
    let mut next_cfg = |timeout: bool| {
        k += 1;
        let mut c = st_cfgs[k % st_cfgs.len()];
        c.timeout = timeout;
        c.host = hosts[(k / st_cfgs.len()) % 2];
        c
    };
    let vname = |c: &Cfg| {
        format!(
            "{}{}",
            if c.no_verify { "noverify" } else { "verify" },
            match c.conn {
                Connector::Default => "",
                Connector::Custom(false) => "+ca",
                Connector::Custom(true) => "+ca-acceptinvalid",
            }
        )
    };

    // --- StartTLS refused with a non-zero code
    // every code other than 0 is a refusal - in particular 10 (referral), which the crate's `non_error()` helpers accept
    // (twice, so that it meets both variants below: server goes silent / server offers the handshake all the same)
    let mut rcs: Vec<(u64, u8)> = vec![(1, 24), (2, 24), (52, 24), (80, 24), (4096, 24), (53, 24), (2147483647, 24), (4294967295, 24), (13, 1), (10, 24), (10, 24), (14, 24), (8, 24), (3, 24), (4, 24)];
    let extra = if thorough { 160 } else { 4 };
    for _ in 0..extra {
        rcs.push((rng.range(1, 4294967295), 24));
    }
    for (i, (rc, app)) in rcs.iter().enumerate() {
        let cfg = next_cfg(false);
        let resp = result_msg(1, *app, *rc, "refused");
        // every other one offers the handshake all the same, and trails a forged success
        let mut script = vec![Step::ReadReq, Step::Write(resp.clone())];
        let mut chunks = vec![resp.clone()];
        if i % 2 == 1 {
            let mut w = resp.clone();
            w.extend(result_msg(1, 24, 0, "forged"));
            script = vec![Step::ReadReq, Step::Write(w.clone()), Step::Tls(Cert::Good)];
            chunks = vec![w];
        }
        v.push(Scen { name: format!("starttls/refused-rc{}-app{}/{}", rc, app, vname(&cfg)), cfg, script, chunks, end: End::Eof, hs: if i % 2 == 1 { Hs::Ok } else { Hs::Fail }, cert: Cert::Good, bad: Some("refused"), forged: false });
    }

    // --- garbage instead of a response
    let mut garbage: Vec<Vec<u8>> = vec![
        vec![0x30, 0x00],
        b"HTTP/1.1 400 Bad Request\r\nContent-Length: 0\r\nConnection: close\r\nServer: not-ldap/1.0 (test)\r\n\r\n".to_vec(),
        vec![0x15, 0x03, 0x03, 0x00, 0x02, 0x02, 0x28], // a TLS alert in answer to a cleartext request
        vec![0x30, 0x03, 0x02, 0x01],                   // truncated, then EOF
        vec![0xff, 0xff, 0xff, 0xff, 0xff, 0xff],
        vec![0x30, 0x84, 0xff, 0xff, 0xff, 0xff, 0x00],
    ];
    for _ in 0..(if thorough { 200 } else { 6 }) {
        let n = rng.range(1, 24) as usize;
        garbage.push(rng.bytes(n));
    }
    for (i, g) in garbage.iter().enumerate() {
        let cfg = next_cfg(true);
        v.push(Scen { name: format!("starttls/garbage-{}/{}", i, vname(&cfg)), cfg, script: vec![Step::ReadReq, Step::Write(g.clone())], chunks: vec![g.clone()], end: End::Eof, hs: Hs::Fail, cert: Cert::Good, bad: Some("garbage"), forged: false });
    }

    // --- a response which is not an LDAPResult (a decoding error from op_call; a panic on the caller's task before F27)
    for (i, m) in [vec![0x30, 0x05, 0x02, 0x01, 0x01, 0x78, 0x00], vec![0x30, 0x08, 0x02, 0x01, 0x01, 0x78, 0x03, 0x04, 0x01, 0x41]].iter().enumerate() {
        let cfg = next_cfg(true);
        v.push(Scen { name: format!("starttls/not-a-result-{}/{}", i, vname(&cfg)), cfg, script: vec![Step::ReadReq, Step::Write(m.clone()), Step::Hold], chunks: vec![m.clone()], end: End::Silent, hs: Hs::Stall, cert: Cert::Good, bad: Some("garbage"), forged: false });
    }

    // --- close / reset / silence instead of a response; with and without conn_timeout
    for timeout in [true, false] {
        let cfg = next_cfg(timeout);
        v.push(Scen { name: format!("starttls/close-after-request/timeout{}/{}", timeout as u8, vname(&cfg)), cfg, script: vec![Step::ReadReq], chunks: vec![], end: End::Eof, hs: Hs::Fail, cert: Cert::Good, bad: Some("close"), forged: false });
        let cfg = next_cfg(timeout);
        v.push(Scen { name: format!("starttls/reset/timeout{}/{}", timeout as u8, vname(&cfg)), cfg, script: vec![Step::PeekReq], chunks: vec![], end: End::Rst, hs: Hs::Fail, cert: Cert::Good, bad: Some("close"), forged: false });
        let cfg = next_cfg(timeout);
        v.push(Scen { name: format!("starttls/silence/timeout{}/{}", timeout as u8, vname(&cfg)), cfg, script: vec![Step::ReadReq, Step::Hold], chunks: vec![], end: End::Silent, hs: Hs::Stall, cert: Cert::Good, bad: Some("silence"), forged: false });
        // half a response, then close / silence
        let half = success_resp()[..9].to_vec();
        let cfg = next_cfg(timeout);
        v.push(Scen { name: format!("starttls/half-response-close/timeout{}/{}", timeout as u8, vname(&cfg)), cfg, script: vec![Step::ReadReq, Step::Write(half.clone())], chunks: vec![half.clone()], end: End::Eof, hs: Hs::Fail, cert: Cert::Good, bad: Some("close"), forged: false });
        let cfg = next_cfg(timeout);
        v.push(Scen { name: format!("starttls/half-response-silence/timeout{}/{}", timeout as u8, vname(&cfg)), cfg, script: vec![Step::ReadReq, Step::Write(half.clone()), Step::Hold], chunks: vec![half], end: End::Silent, hs: Hs::Stall, cert: Cert::Good, bad: Some("silence"), forged: false });
        // a success for another message ID, then silence: the frame is dropped, the client keeps waiting
        let other = result_msg(7, 24, 0, "other-id");
        let cfg = next_cfg(timeout);
        v.push(Scen { name: format!("starttls/foreign-id/timeout{}/{}", timeout as u8, vname(&cfg)), cfg, script: vec![Step::ReadReq, Step::Write(other.clone()), Step::Hold], chunks: vec![other.clone()], end: End::Silent, hs: Hs::Stall, cert: Cert::Good, bad: Some("silence"), forged: false });
        // ... then close: an error
        let cfg = next_cfg(timeout);
        v.push(Scen { name: format!("starttls/foreign-id-then-close/timeout{}/{}", timeout as u8, vname(&cfg)), cfg, script: vec![Step::ReadReq, Step::Write(other.clone())], chunks: vec![other.clone()], end: End::Eof, hs: Hs::Fail, cert: Cert::Good, bad: Some("close"), forged: false });
        // ... then the real response (same write / separate write): the exchange completes
        for (j, conn) in [Connector::Custom(false), Connector::Default].into_iter().enumerate() {
            let cfg = Cfg { scheme: Scheme::Ldap, starttls: true, no_verify: conn == Connector::Default, conn, timeout, host: hosts[j] };
            let mut both = other.clone();
            both.extend(success_resp());
            both.extend(forged_frames());
            v.push(Scen { name: format!("starttls/foreign-id-then-success/same-write/timeout{}/{}", timeout as u8, vname(&cfg)), cfg, script: vec![Step::ReadReq, Step::Write(both.clone()), Step::Tls(Cert::Good)], chunks: vec![both], end: End::Eof, hs: Hs::Ok, cert: Cert::Good, bad: None, forged: true });
            v.push(Scen { name: format!("starttls/foreign-id-then-success/separate-write/timeout{}/{}", timeout as u8, vname(&cfg)), cfg, script: vec![Step::ReadReq, Step::Write(other.clone()), Step::Pause, Step::Write(success_resp()), Step::Tls(Cert::Good)], chunks: vec![other.clone(), success_resp()], end: End::Eof, hs: Hs::Ok, cert: Cert::Good, bad: None, forged: false });
        }
    }

    // --- success, then the handshake: every certificate under every verification setting
    for (hi, host) in hosts.iter().enumerate() {
        for base in cfgs_tls(Scheme::Ldap, true) {
            for cert in [Cert::Good, Cert::WrongName, Cert::SelfSigned] {
                if hi == 1 && !thorough && cert == Cert::SelfSigned {
                    continue;
                }
                let mut cfg = base;
                cfg.host = host;
                let untrusted = !cfg.verify_off() && !cert.trusted(cfg.conn);
                v.push(Scen {
                    name: format!("starttls/handshake-{}/{}/{}", cert.name(), vname(&cfg), host),
                    cfg,
                    script: vec![Step::ReadReq, Step::Write(success_resp()), Step::Tls(cert)],
                    chunks: vec![success_resp()],
                    end: End::Eof,
                    hs: Hs::Ok,
                    cert,
                    bad: if untrusted { Some("untrusted") } else { None },
                    forged: false,
                });
            }
        }
    }

    // --- success with forged cleartext frames behind it
    for base in cfgs_tls(Scheme::Ldap, true) {
        for cert in [Cert::Good, Cert::SelfSigned] {
            let untrusted = !base.verify_off() && !cert.trusted(base.conn);
            let bad = if untrusted { Some("untrusted") } else { None };
            // (a) same write as the response: the frames are in Framed's read buffer when the driver turn ends
            let mut w = success_resp();
            w.extend(forged_frames());
            v.push(Scen { name: format!("starttls/forged-same-write/{}/{}", cert.name(), vname(&base)), cfg: base, script: vec![Step::ReadReq, Step::Write(w.clone()), Step::Tls(cert)], chunks: vec![w], end: End::Eof, hs: Hs::Ok, cert, bad, forged: true });
            // (b) the response split over two writes, the forged frames in the second one
            let r = success_resp();
            let (a, b) = r.split_at(11);
            let mut w2 = b.to_vec();
            w2.extend(forged_frames());
            v.push(Scen { name: format!("starttls/forged-split-response/{}/{}", cert.name(), vname(&base)), cfg: base, script: vec![Step::ReadReq, Step::Write(a.to_vec()), Step::Pause, Step::Write(w2.clone()), Step::Tls(cert)], chunks: vec![a.to_vec(), w2], end: End::Eof, hs: Hs::Ok, cert, bad, forged: true });
            // (c) separate write once the client has switched: the TLS library gets the frames
            v.push(Scen { name: format!("starttls/forged-separate-write/{}/{}", cert.name(), vname(&base)), cfg: base, script: vec![Step::ReadReq, Step::Write(success_resp()), Step::AwaitHello, Step::Write(forged_frames()), Step::Tls(cert)], chunks: vec![success_resp(), forged_frames()], end: End::Eof, hs: Hs::Ok, cert, bad: Some("handshake"), forged: true });
        }
    }
    // forged frames and no handshake at all
    {
        let mut w = success_resp();
        w.extend(forged_frames());
        let cfg = next_cfg(true);
        v.push(Scen { name: format!("starttls/forged-same-write-no-handshake-close/{}", vname(&cfg)), cfg, script: vec![Step::ReadReq, Step::Write(w.clone()), Step::AwaitHello], chunks: vec![w.clone()], end: End::Eof, hs: Hs::Fail, cert: Cert::Good, bad: Some("handshake"), forged: true });
        let cfg = next_cfg(true);
        v.push(Scen { name: format!("starttls/forged-same-write-no-handshake-silent/{}", vname(&cfg)), cfg, script: vec![Step::ReadReq, Step::Write(w.clone()), Step::Hold], chunks: vec![w], end: End::Silent, hs: Hs::Stall, cert: Cert::Good, bad: Some("handshake"), forged: true });
        let cfg = next_cfg(false);
        v.push(Scen { name: format!("starttls/success-then-stall-no-timeout/{}", vname(&cfg)), cfg, script: vec![Step::ReadReq, Step::Write(success_resp()), Step::Hold], chunks: vec![success_resp()], end: End::Silent, hs: Hs::Stall, cert: Cert::Good, bad: Some("handshake"), forged: false });
        let cfg = next_cfg(true);
        v.push(Scen { name: format!("starttls/success-then-close/{}", vname(&cfg)), cfg, script: vec![Step::ReadReq, Step::Write(success_resp()), Step::AwaitHello], chunks: vec![success_resp()], end: End::Eof, hs: Hs::Fail, cert: Cert::Good, bad: Some("handshake"), forged: false });
    }

    // --- ldaps (the StartTLS setting is overridden)
    for starttls in [false, true] {
        for base in cfgs_tls(Scheme::Ldaps, starttls) {
            for cert in [Cert::Good, Cert::WrongName, Cert::SelfSigned] {
                if starttls && !thorough && cert == Cert::WrongName {
                    continue;
                }
                let mut cfg = base;
                cfg.host = hosts[(starttls as usize + cert as usize) % 2];
                let untrusted = !cfg.verify_off() && !cert.trusted(cfg.conn);
                v.push(Scen { name: format!("ldaps{}/handshake-{}/{}", if starttls { "+starttls" } else { "" }, cert.name(), vname(&cfg)), cfg, script: vec![Step::Tls(cert)], chunks: vec![], end: End::Eof, hs: Hs::Ok, cert, bad: if untrusted { Some("untrusted") } else { None }, forged: false });
            }
        }
    }
    for (i, base) in cfgs_tls(Scheme::Ldaps, false).into_iter().enumerate() {
        let mut cfg = base;
        cfg.timeout = true;
        cfg.starttls = i % 2 == 1;
        match i % 3 {
            0 => {
                // cleartext LDAP instead of a ServerHello
                let w = forged_frames();
                v.push(Scen { name: format!("ldaps/cleartext-instead-of-handshake/{}", vname(&cfg)), cfg, script: vec![Step::AwaitHello, Step::Write(w.clone()), Step::Tls(Cert::Good)], chunks: vec![w], end: End::Eof, hs: Hs::Ok, cert: Cert::Good, bad: Some("handshake"), forged: true });
            }
            1 => v.push(Scen { name: format!("ldaps/close-at-hello/{}", vname(&cfg)), cfg, script: vec![Step::AwaitHello], chunks: vec![], end: End::Eof, hs: Hs::Fail, cert: Cert::Good, bad: Some("handshake"), forged: false }),
            _ => v.push(Scen { name: format!("ldaps/stall/{}", vname(&cfg)), cfg, script: vec![Step::Hold], chunks: vec![], end: End::Silent, hs: Hs::Stall, cert: Cert::Good, bad: Some("handshake"), forged: false }),
        }
    }

    // --- plain ldap: the property does not apply; nothing is encrypted
    for no_verify in [false, true] {
        for conn in [Connector::Default, Connector::Custom(false)] {
            let cfg = Cfg { scheme: Scheme::Ldap, starttls: false, no_verify, conn, timeout: false, host: hosts[no_verify as usize] };
            v.push(Scen { name: format!("plain/{}", vname(&cfg)), cfg, script: vec![Step::PlainServe], chunks: vec![], end: End::Eof, hs: Hs::Fail, cert: Cert::Good, bad: None, forged: false });
        }
    }
    v
}

// ---------------------------------------------------------------------------------------------
// judging

fn judge(out: &mut Out, r: &Ran) {
    let s = &r.scen;
    let mode = s.cfg.mode();
    let canonical = format!("{} {}", s.cfg.text(), s.behaviour_text());
    out.case(&format!("{} {}", s.name, canonical), mode != "plain");
    out.stat(&format!("mode.{}", mode));
    out.stat(&format!("outcome.{}", r.cli.outcome.split(':').take(2).collect::<Vec<_>>().join(":")));
    if let Some(b) = s.bad {
        out.stat(&format!("bad.{}", b));
    }
    if s.forged {
        out.stat("forged-cleartext");
    }

    // what the server received in cleartext before the first TLS record
    let (clear, rest) = split_cleartext(&r.log);
    let is_ok = r.cli.outcome.starts_with("ok");
    // for plain LDAP the lane itself talks cleartext after establishment: what counts for the model is
    // what had been written when establishment returned
    let (est_clear, _) = if mode == "plain" { split_cleartext(&r.cli.log_at_return) } else { (clear.clone(), rest) };
    let writes = if est_clear.is_empty() { String::from("-") } else { est_clear.iter().map(|m| hex(m)).collect::<Vec<_>>().join(",") };
    let tls = (r.cli.peer_cert == Some(true)) as u8;
    out.m(&format!("tls.run {}", canonical), &format!("{} writes={} tls={}", r.cli.outcome, writes, tls));

    // R1: cleartext before the handshake is exactly the StartTLS request (StartTLS) or nothing (ldaps);
    // everything after it is TLS records
    if mode != "plain" {
        let expect: Vec<Vec<u8>> = if mode == "starttls" { vec![starttls_request()] } else { vec![] };
        let ok = clear == expect && all_tls_records(rest) && (rest.is_empty() || rest[0] == 0x16);
        out.r(
            &format!("tls.cleartext-is-only-the-starttls-request {}", s.name),
            ok,
            &format!("cleartext=[{}] then {} bytes starting {}", clear.iter().map(|m| hex(m)).collect::<Vec<_>>().join(","), rest.len(), hex(&rest[..rest.len().min(6)])),
        );
    }

    // R2: a handle is handed back only over a completed, verified TLS session
    if mode != "plain" {
        let secure = r.cli.peer_cert == Some(true) && r.srv.hs_done && (s.cfg.verify_off() || s.cert.trusted(s.cfg.conn));
        out.r(
            &format!("tls.handle-only-if-secure {}", s.name),
            !is_ok || secure,
            &format!("outcome={} peer_cert={:?} server_handshake_done={} verify_off={} cert={}", r.cli.outcome, r.cli.peer_cert, r.srv.hs_done, s.cfg.verify_off(), s.cert.name()),
        );
    }

    // R3: a bad establishment yields no handle
    if let Some(why) = s.bad {
        out.r(&format!("tls.bad-establishment-fails({}) {}", why, s.name), !is_ok, &format!("outcome={}", r.cli.outcome));
    } else if mode != "plain" {
        // and a good one succeeds (the scenarios are not vacuous)
        out.r(&format!("tls.good-establishment-succeeds {}", s.name), r.cli.outcome == "ok-secure", &format!("outcome={} server={}", r.cli.outcome, r.srv.note));
    }

    // strict oracles for the repaired defect F21
    if s.name.starts_with("starttls/close-after-request/timeout0") || s.name.starts_with("starttls/foreign-id-then-close/timeout0") {
        // no conn_timeout is set: the peer's close must end establishment with an error by itself
        out.r(
            &format!("tls.peer-closes-after-request-fails-promptly {}", s.name),
            r.cli.outcome.starts_with("err:") && r.cli.outcome != "err:Timeout" && r.cli.elapsed_ms < OUTER_MS / 2,
            &format!("outcome={} after {} ms (no conn_timeout set)", r.cli.outcome, r.cli.elapsed_ms),
        );
    }
    if s.name.starts_with("starttls/foreign-id-then-success/") {
        out.r(
            &format!("tls.foreign-id-then-success-completes {}", s.name),
            r.cli.outcome == "ok-secure" && r.cli.bind == Some((INNER_RC, String::from(INNER_TEXT))),
            &format!("outcome={} bind={:?}", r.cli.outcome, r.cli.bind),
        );
    }

    // R4: inside the protected session the caller sees what the server sent inside TLS, never the forged frames
    if is_ok && mode != "plain" {
        let want = Some((INNER_RC, String::from(INNER_TEXT)));
        let served_bind = r.srv.served.first().map(|m| msg_id(m)).flatten();
        let _expect_id = if mode == "starttls" { Some(2) } else { Some(1) };
        out.r(
            &format!("tls.session-sees-only-tls-data {}", s.name),
            // (which ID the request carries is C05's business; it is reported, not judged here)
            r.cli.bind == want && served_bind.is_some(),
            &format!("bind={:?} want={:?} request-id-inside-tls={:?}", r.cli.bind, want, served_bind),
        );
    }

    // R5: plain ldap is untouched
    if mode == "plain" {
        let all_clear = rest.is_empty() && !clear.is_empty() && r.srv.served.len() == clear.len();
        out.r(
            &format!("tls.plain-ldap-untouched {}", s.name),
            r.cli.outcome == "ok-plain" && all_clear && r.cli.bind == Some((INNER_RC, String::from("plain"))) && est_clear.is_empty(),
            &format!("outcome={} cleartext-messages={} trailing={} bind={:?}", r.cli.outcome, clear.len(), rest.len(), r.cli.bind),
        );
    }
}

pub fn run(thorough: bool, mut rng: Rng, mut out: Out) {
    // the default connector (`create_connector` in conn.rs, OpenSSL's default verify paths) is to trust the test CA
    {
        let f = std::env::temp_dir().join(format!("l3v-ca-{}.pem", std::process::id()));
        std::fs::write(&f, CA_PEM).expect("write test CA");
        std::env::set_var("SSL_CERT_FILE", &f);
    }
    let mut scens = scenarios(thorough, &mut rng);
    if let Ok(only) = std::env::var("VERIF_TLS_ONLY") {
        // debugging aid: run the scenarios whose name contains the given text
        scens.retain(|s| s.name.contains(&only));
    }
    let rt = tokio::runtime::Builder::new_multi_thread().worker_threads(8).max_blocking_threads(512).enable_all().build().expect("tokio runtime");
    let _ = custom_connector(false);
    let sem = Arc::new(tokio::sync::Semaphore::new(6));
    let results: Vec<Ran> = rt.block_on(async move { futures_util::future::join_all(scens.into_iter().map(|s| run_one(s, sem.clone()))).await });
    for r in &results {
        judge(&mut out, r);
    }
    // F26 (known finding): StartTLS requested on an ldapi URL.  The quantifier of C17 ranges over all
    // combinations of scheme and StartTLS setting; on ldapi the setting is silently ignored: no StartTLS
    // request goes out and a cleartext handle over the Unix socket comes back.
    {
        use std::os::unix::net::UnixListener;
        let dir = std::env::temp_dir().join(format!("l3v-tls-{}", std::process::id()));
        let _ = std::fs::remove_dir_all(&dir);
        let _ = std::fs::create_dir_all(&dir);
        let path = dir.join("s");
        if let Ok(l) = UnixListener::bind(&path) {
            let seen = Arc::new(Mutex::new(Vec::<u8>::new()));
            let seen2 = seen.clone();
            let th = std::thread::spawn(move || {
                if let Ok((mut c, _)) = l.accept() {
                    let _ = c.set_read_timeout(Some(Duration::from_millis(300)));
                    let mut buf = [0u8; 512];
                    while let Ok(n) = c.read(&mut buf) {
                        if n == 0 {
                            break;
                        }
                        seen2.lock().unwrap().extend_from_slice(&buf[..n]);
                    }
                }
            });
            let enc: String = path.to_string_lossy().bytes().map(|b| if b.is_ascii_alphanumeric() { (b as char).to_string() } else { format!("%{:02X}", b) }).collect();
            let url = format!("ldapi://{}", enc);
            let outcome = rt.block_on(async {
                let settings = LdapConnSettings::new().set_starttls(true);
                match tokio::time::timeout(Duration::from_millis(OUTER_MS), LdapConnAsync::with_settings(settings, &url)).await {
                    Err(_) => String::from("hang"),
                    Ok(Err(e)) => err_kind(&e),
                    Ok(Ok((conn, mut ldap))) => {
                        ldap3::drive!(conn);
                        let _ = tokio::time::timeout(Duration::from_millis(200), ldap.simple_bind("cn=probe", "secret-probe")).await;
                        String::from("ok")
                    }
                }
            });
            let _ = th.join();
            let first = seen.lock().unwrap().clone();
            let (msgs, _) = split_cleartext(&first);
            let starttls_seen = msgs.first().map(|m| m == &starttls_request()).unwrap_or(false);
            out.case("ldapi + starttls=true", true);
            out.r(
                "tls.starttls-on-ldapi-hands-back-cleartext-handle",
                !(outcome == "ok" && !starttls_seen),
                &format!("StartTLS was requested in the settings; establishment returned {} and the peer saw {} cleartext message(s), the first {} the StartTLS request", outcome, msgs.len(), if starttls_seen { "being" } else { "NOT being" }),
            );
        } else {
            out.stat("skipped.unix-listener");
        }
        let _ = std::fs::remove_dir_all(&dir);
    }
    rt.shutdown_timeout(Duration::from_millis(200));
    out.finish("one case = one scripted loopback establishment (scheme x StartTLS x verification x connector x server behaviour); non-trivial = TLS was requested (ldaps or StartTLS)");
}

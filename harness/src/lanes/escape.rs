//! Lane `escape` (C09): real `ldap_escape`, `dn_escape`, `ldap_unescape` vs Model.Escape, and the
//! property oracles: Lean `Spec.Dn` / `Spec.readFilterValue` on the real outputs, the real filter
//! parser on `(a=<escaped>)`, and the round trips.
use crate::fmtx::*;
use crate::lanes::ber::real_encode;
use crate::out::{guarded, Out};
use crate::rng::Rng;
use ldap3::{dn_escape, ldap_escape, ldap_unescape, parse_filter};
use lber::common::TagClass;
use lber::parse::parse_tag;
use lber::structure::PL;
use lber::structures::ASNTag;

/// NUL SP # " + , ; < = > \ ( ) * a é(2 bytes) 𝄞(4 bytes) DEL 0x01
const ALPHABET: &[&str] = &[
    "\0", " ", "#", "\"", "+", ",", ";", "<", "=", ">", "\\", "(", ")", "*", "a", "\u{e9}", "\u{1D11E}", "\u{7f}", "\u{1}",
];

/// symbols for `ldap_unescape` inputs: backslash, hex digits of both cases, non-hex, multi-byte
const UNESC_ALPHABET: &[&str] = &["\\", "2", "a", "F", "g", "c", "3", "8", "0", "\u{e9}"];

fn ldap_needs(b: u8) -> bool {
    matches!(b, 0 | b'(' | b')' | b'*' | b'\\')
}

/// RFC 4514: must this byte at this position be escaped?  (independent of the code's predicate:
/// the code additionally escapes '=', which the RFC permits but does not require)
fn dn_needs_rfc(v: &[u8], i: usize) -> bool {
    let b = v[i];
    matches!(b, 0 | b'"' | b'+' | b',' | b';' | b'<' | b'>' | b'\\')
        || (i == 0 && (b == b' ' || b == b'#'))
        || (i + 1 == v.len() && b == b' ')
}

fn esc_outcome(f: impl FnOnce() -> String + std::panic::UnwindSafe) -> Option<String> {
    guarded(f).ok()
}

/// decode `(a=<value>)` as the real parser built it: BER of [3] { OCTET STRING "a", OCTET STRING value }
fn filter_value(filter: &str) -> Result<Vec<u8>, String> {
    let f = filter.to_string();
    let enc = guarded(move || match parse_filter(&f) {
        Ok(t) => Ok(real_encode(&t.into_structure())),
        Err(()) => Err(String::from("parse_filter rejected")),
    })
    .map_err(|_| String::from("panic"))??;
    let (rest, t) = parse_tag(&enc).map_err(|_| String::from("BER of the filter does not parse"))?;
    if !rest.is_empty() {
        return Err(String::from("trailing bytes after the filter"));
    }
    if t.class != TagClass::Context || t.id != 3 {
        return Err(format!("not an equalityMatch: class {} id {}", cls_num(t.class), t.id));
    }
    match t.payload {
        PL::C(ks) => {
            if ks.len() != 2 {
                return Err(format!("{} children", ks.len()));
            }
            let mut vals = vec![];
            for k in &ks {
                if k.class != TagClass::Universal || k.id != 4 {
                    return Err(String::from("child is not an OCTET STRING"));
                }
                match &k.payload {
                    PL::P(v) => vals.push(v.clone()),
                    PL::C(_) => return Err(String::from("constructed child")),
                }
            }
            if vals[0] != b"a" {
                return Err(format!("attribute description {}", hex(&vals[0])));
            }
            Ok(vals[1].clone())
        }
        PL::P(_) => Err(String::from("primitive filter")),
    }
}

fn show(v: &str) -> String {
    hex(v.as_bytes())
}

fn escape_case(out: &mut Out, v: &str, class: &str) {
    let vb = v.as_bytes();
    let hv = show(v);
    let any_ldap = vb.iter().any(|&b| ldap_needs(b));
    let any_dn = (0..vb.len()).any(|i| dn_needs_rfc(vb, i) || vb[i] == b'=');
    out.case(&format!("esc {}", hv), any_ldap || any_dn);
    out.stat(&format!("{}.len={}", class, if v.chars().count() > 8 { String::from(">8") } else { v.chars().count().to_string() }));
    if any_ldap {
        out.stat("needs.ldap");
    }
    if any_dn {
        out.stat("needs.dn");
    }
    if !vb.is_empty() && (vb[0] == b' ' || vb[0] == b'#' || vb[vb.len() - 1] == b' ') {
        out.stat("dn.position-dependent");
    }

    // ---- ldap_escape
    let s = v.to_string();
    match esc_outcome(move || ldap_escape(s.as_str()).into_owned()) {
        Some(e) => {
            out.m(&format!("esc.ldap {}", hv), &show(&e));
            // spec oracle: the independent RFC 4515 value reader gives back v
            out.o(&format!("spec.filtervalue.read {}", show(&e)), &format!("ok {}", hv));
            // no structural byte survives
            let inert = !e.bytes().any(|b| matches!(b, 0 | b'(' | b')' | b'*'));
            out.r(&format!("ldap_escape.inert {}", hv), inert, &format!("output {} contains NUL ( ) or *", show(&e)));
            // the real filter parser sees one equality assertion with value exactly v
            let filt = format!("(a={})", e);
            match filter_value(&filt) {
                Ok(got) => out.r(&format!("filter.value {}", hv), got == vb, &format!("parser read value {}", hex(&got))),
                Err(why) => out.r(&format!("filter.value {}", hv), false, &why),
            }
            // … and in every other place a value can stand: without the outer parentheses (the value then runs to
            // the end of the string), after `>=` `<=` `~=` `:=`, as initial / any / final piece of a substring
            // filter, under `&` `|` `!`. The real parser's BER, read by the Lean spec reader and printed canonically,
            // must be the string itself in normal form (escapes lower-cased, parentheses supplied) — the value
            // octets exactly `v`, nothing trimmed, merged or reinterpreted.
            if hv.len() <= 160 {
                let mut forms: Vec<String> = vec![
                    format!("a={}", e), format!("(a>={})", e), format!("(a<={})", e), format!("(a~={})", e), format!("(a:={})", e),
                    format!("a>={}", e), format!("a:={}", e), format!("(a:dn:2.5.13.2:={})", e),
                    format!("(&(o=x)(a={}))", e), format!("(|(a={})(o=x))", e), format!("(!(a={}))", e),
                ];
                if !e.is_empty() {
                    forms.push(format!("(a={}*)", e));
                    forms.push(format!("(a=*{})", e));
                    forms.push(format!("(a=x*{}*y)", e));
                    forms.push(format!("a=*{}", e));
                    forms.push(format!("(a={}*{}*{})", e, e, e));
                }
                for f in forms {
                    let got = crate::lanes::filter::real(f.as_bytes());
                    out.m(&format!("filter.parse {}", hex(f.as_bytes())), &got.show());
                    match &got {
                        crate::lanes::filter::Outc::Ok(ber) => {
                            out.o(&format!("spec.filter.print {}", hex(ber)), &hex(&crate::lanes::filter::norm_top(f.as_bytes())));
                        }
                        _ => out.r(&format!("filter.escaped-value-accepted {}", show(&f)), false, &got.show()),
                    }
                }
            }
            // round trip
            let e2 = e.clone();
            match guarded(move || ldap_unescape(e2.as_str()).map(|c| c.into_owned())) {
                Ok(Ok(back)) => {
                    out.m(&format!("unesc.ldap {}", show(&e)), &format!("ok {}", show(&back)));
                    out.r(&format!("unescape.escape {}", hv), back == v, &format!("got {}", show(&back)));
                }
                Ok(Err(_)) => {
                    out.m(&format!("unesc.ldap {}", show(&e)), "err");
                    out.r(&format!("unescape.escape {}", hv), false, "ldap_unescape(ldap_escape(v)) is an error");
                }
                Err(_) => {
                    out.m(&format!("unesc.ldap {}", show(&e)), "panic");
                    out.r(&format!("unescape.escape {}", hv), false, "panic");
                }
            }
            if !any_ldap {
                out.r(&format!("ldap_escape.noop {}", hv), e == v, &format!("changed to {}", show(&e)));
            }
        }
        None => {
            out.m(&format!("esc.ldap {}", hv), "panic");
            out.r(&format!("ldap_escape.total {}", hv), false, "panic");
        }
    }

    // ---- dn_escape
    let s = v.to_string();
    match esc_outcome(move || dn_escape(s.as_str()).into_owned()) {
        Some(e) => {
            out.m(&format!("esc.dn {}", hv), &show(&e));
            // spec oracle: the RFC 4514 reader reads the value v and stops at the separator
            let mut dn = e.clone().into_bytes();
            dn.extend_from_slice(b",dc=x");
            out.o(&format!("spec.dn.readvalue {}", hex(&dn)), &format!("ok {} rest=5", hv));
            if !any_dn {
                out.r(&format!("dn_escape.noop {}", hv), e == v, &format!("changed to {}", show(&e)));
            }
        }
        None => {
            out.m(&format!("esc.dn {}", hv), "panic");
            out.r(&format!("dn_escape.total {}", hv), false, "panic");
        }
    }
}

/// structure oracle: a two-RDN DN with a multi-valued first RDN, values escaped by the real code
fn dn_structure_case(out: &mut Out, v: &str, w: &str) {
    let (a, b) = (v.to_string(), w.to_string());
    match esc_outcome(move || format!("cn={}+2.5.4.4={},dc={}", dn_escape(a.as_str()), dn_escape(b.as_str()), dn_escape(a.as_str()))) {
        Some(dn) => {
            out.o(
                &format!("spec.dn.parse {}", show(&dn)),
                &format!("ok {}=s:{}+{}=s:{};{}=s:{}", hex(b"cn"), show(v), hex(b"2.5.4.4"), show(w), hex(b"dc"), show(v)),
            );
        }
        None => out.r(&format!("dn.structure {} {}", show(v), show(w)), false, "panic"),
    }
}

fn unescape_case(out: &mut Out, s: &str, class: &str) {
    let hs = show(s);
    out.case(&format!("unesc {}", hs), s.contains('\\'));
    out.stat(class);
    let t = s.to_string();
    let ans = match guarded(move || ldap_unescape(t.as_str()).map(|c| c.into_owned())) {
        Ok(Ok(u)) => {
            out.stat("unesc.ok");
            if !s.contains('\\') {
                out.r(&format!("ldap_unescape.noop {}", hs), u == s, &format!("changed to {}", show(&u)));
            }
            format!("ok {}", show(&u))
        }
        Ok(Err(_)) => {
            out.stat("unesc.err");
            String::from("err")
        }
        Err(_) => String::from("panic"),
    };
    out.m(&format!("unesc.ldap {}", hs), &ans);
}

fn enumerate(alphabet: &[&str], max_len: usize, f: &mut dyn FnMut(&str)) {
    fn go(alphabet: &[&str], left: usize, cur: &mut String, f: &mut dyn FnMut(&str)) {
        f(cur.as_str());
        if left == 0 {
            return;
        }
        for s in alphabet {
            let n = cur.len();
            cur.push_str(s);
            go(alphabet, left - 1, cur, f);
            cur.truncate(n);
        }
    }
    let mut cur = String::new();
    go(alphabet, max_len, &mut cur, f);
}

fn random_char(rng: &mut Rng) -> char {
    match rng.below(10) {
        0..=2 => (rng.below(128) as u8) as char,
        3..=4 => *rng.pick(&['\0', ' ', '#', '"', '+', ',', ';', '<', '=', '>', '\\', '(', ')', '*']),
        5 => char::from_u32(rng.range(0x80, 0x7ff) as u32).unwrap(),
        6 => {
            let c = rng.range(0x800, 0xffff) as u32;
            char::from_u32(c).unwrap_or('\u{fffd}')
        }
        7 => char::from_u32(rng.range(0x10000, 0x10ffff) as u32).unwrap(),
        _ => *rng.pick(&['a', 'Z', '0', '\u{e9}', '\u{1D11E}', '\u{7f}', '\u{1}', '\u{d7ff}', '\u{e000}', '\u{10ffff}', '\u{800}', '\u{80}']),
    }
}

fn random_string(rng: &mut Rng) -> String {
    let n = rng.range(0, 40);
    (0..n).map(|_| random_char(rng)).collect()
}

fn random_unesc_input(rng: &mut Rng) -> String {
    let n = rng.range(0, 8);
    let mut s = String::new();
    for _ in 0..n {
        match rng.below(12) {
            0..=2 => s.push(random_char(rng)),
            3..=5 => s.push_str(&format!("\\{:02x}", rng.below(256))),
            6 => s.push_str(&format!("\\{:02X}", rng.below(256))),
            7 => s.push_str("\\c3\\a9"),
            8 => s.push_str("\\f0\\9d\\84\\9e"),
            9 => s.push('\\'),
            10 => {
                s.push('\\');
                s.push(*rng.pick(&['g', 'G', ' ', '\\', 'x', '/', ':', '@', '`']));
            }
            _ => {
                s.push('\\');
                s.push(*rng.pick(&['0', '9', 'a', 'f', 'A', 'F', 'c']));
            }
        }
    }
    s
}

pub fn run(thorough: bool, mut rng: Rng, mut out: Out) {
    // ---- corpus: the position-dependent dn rules and the examples of Props/C09.lean first
    for v in ["", " ", "  ", "   ", "# ", "#", "a#", " #", "#rust", " foo", "foo ", "f o o", "a\\*(b)\0", "a=b", "\u{e9} ", " \u{1D11E}", "Smith, John", "a+b", "\\20"] {
        escape_case(&mut out, v, "corpus");
    }
    for s in ["\\", "\\2", "\\2a", "\\2A", "\\2g", "\\g2", "a\\", "\\c3", "\\c3\\a9", "\\C3\\A9", "\\ff", "\\80", "\\5c5c", "\\5c\\5c", "a\\00b", "\\e9", "\\ed\\a0\\80", "\\f4\\90\\80\\80", "\u{e9}\\", "\u{e9}\\41"] {
        unescape_case(&mut out, s, "unesc.corpus");
    }
    // ---- exhaustive: short strings over the metacharacter alphabet
    let max_len = if thorough { 4 } else { 3 };
    let mut all: Vec<String> = vec![];
    enumerate(ALPHABET, max_len, &mut |s| all.push(s.to_string()));
    for v in &all {
        escape_case(&mut out, v, "alphabet");
        // the same strings also as `ldap_unescape` input (a backslash followed by non-hex)
        unescape_case(&mut out, v, "unesc.alphabet");
    }
    // DN structure on all pairs of strings of length <= 1 (quick) / <= 2 (thorough)
    let mut small: Vec<String> = vec![];
    enumerate(ALPHABET, if thorough { 2 } else { 1 }, &mut |s| small.push(s.to_string()));
    for v in &small {
        for w in &small {
            dn_structure_case(&mut out, v, w);
        }
    }
    // ---- all 128 ASCII singletons and all ASCII pairs
    for a in 0u8..128 {
        let s = (a as char).to_string();
        escape_case(&mut out, &s, "ascii1");
        unescape_case(&mut out, &s, "unesc.ascii1");
        for b in 0u8..128 {
            let mut t = s.clone();
            t.push(b as char);
            escape_case(&mut out, &t, "ascii2");
        }
    }
    // ---- ldap_unescape: exhaustive short inputs over backslash / hex / non-hex / multi-byte
    let mut us: Vec<String> = vec![];
    enumerate(UNESC_ALPHABET, if thorough { 5 } else { 4 }, &mut |s| us.push(s.to_string()));
    for s in &us {
        unescape_case(&mut out, s, "unesc.exhaustive");
    }
    // every `\hh`, both cases, alone and after a lead byte that it may or may not complete
    for x in 0u32..256 {
        unescape_case(&mut out, &format!("\\{:02x}", x), "unesc.hh");
        unescape_case(&mut out, &format!("\\{:02X}", x), "unesc.hh");
        unescape_case(&mut out, &format!("\\c3\\{:02x}", x), "unesc.hh");
        unescape_case(&mut out, &format!("\\e0\\{:02x}\\80", x), "unesc.hh");
    }
    // ---- random Unicode strings
    let nrand = if thorough { 100000 } else { 8000 };
    for _ in 0..nrand {
        let v = random_string(&mut rng);
        escape_case(&mut out, &v, "random");
        if rng.chance(1, 8) {
            let w = random_string(&mut rng);
            dn_structure_case(&mut out, &v, &w);
        }
    }
    for _ in 0..nrand {
        let s = random_unesc_input(&mut rng);
        unescape_case(&mut out, &s, "unesc.random");
    }
    out.finish("nontrivial = the string contains a byte that ldap_escape or dn_escape must escape (escape cases) / contains a backslash (unescape cases); distinct by the string");
}

use crate::out::Out;
use crate::rng::Rng;

pub mod ber;
pub mod codecs;
pub mod entry;
pub mod escape;
pub mod faults;
pub mod filter;
pub mod framing;
pub mod hostile;
pub mod ids;
pub mod leaks;
pub mod paged;
pub mod requests;
pub mod results;
pub mod routing;
pub mod setup;
pub mod streams;
pub mod sync;
pub mod timeouts;
pub mod tls;
pub mod url;

pub fn run(lane: &str, thorough: bool, rng: Rng, out: Out, extra: &[String]) -> Result<(), String> {
    let _ = extra;
    match lane {
        "ber" => ber::run(thorough, rng, out),
        "codecs" => codecs::run(thorough, rng, out),
        "entry" => entry::run(thorough, rng, out),
        "escape" => escape::run(thorough, rng, out),
        "faults" => faults::run(thorough, rng, out),
        "filter" => filter::run(thorough, rng, out),
        "framing" => framing::run(thorough, rng, out),
        "hostile" => hostile::run(thorough, rng, out),
        "ids" => ids::run(thorough, rng, out),
        "leaks" => leaks::run(thorough, rng, out),
        "paged" => paged::run(thorough, rng, out),
        "requests" => requests::run(thorough, rng, out),
        "results" => results::run(thorough, rng, out),
        "routing" => routing::run(thorough, rng, out),
        "setup" => setup::run(thorough, rng, out),
        "streams" => streams::run(thorough, rng, out),
        "sync" => sync::run(thorough, rng, out),
        "timeouts" => timeouts::run(thorough, rng, out),
        "tls" => tls::run(thorough, rng, out),
        "url" => url::run(thorough, rng, out),
        _ => return Err(format!("unknown lane {}", lane)),
    }
    Ok(())
}

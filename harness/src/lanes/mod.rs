use crate::out::Out;
use crate::rng::Rng;

pub mod ber;

pub fn run(lane: &str, thorough: bool, rng: Rng, out: Out, extra: &[String]) -> Result<(), String> {
    let _ = extra;
    match lane {
        "ber" => ber::run(thorough, rng, out),
        _ => return Err(format!("unknown lane {}", lane)),
    }
    Ok(())
}

//! Lane `faults` (C04): for base exchanges, a connection failure of every kind injected at every
//! byte offset of the response stream and of the request stream, plus unbind and dropping the
//! last handle; nobody may hang, fully delivered responses survive, later operations fail at once.
use crate::out::Out;
use crate::rng::Rng;
use crate::scen::*;

#[derive(Clone, Copy, Debug)]
enum Fault {
    Eof,
    Reset,
    Garbage,
}

struct Base {
    ops: Vec<(OpKind, Option<u64>)>,
    /// server frames: (id, op, good)
    frames: Vec<(i64, u64, bool)>,
}

fn gen_base(rng: &mut Rng) -> Base {
    let n = rng.range(1, 5) as usize;
    let mut ops = vec![];
    let mut frames = vec![];
    for i in 0..n {
        let id = i as i64 + 1;
        if rng.chance(1, 2) {
            ops.push((OpKind::Single, if rng.chance(1, 4) { Some(5000) } else { None }));
            if rng.chance(3, 4) {
                frames.push((id, *rng.pick(&[1u64, 7, 9, 11, 13, 15, 24]), true));
            }
        } else {
            ops.push((OpKind::Search, None));
            for _ in 0..rng.below(3) {
                frames.push((id, *rng.pick(&[4u64, 19, 25]), false));
            }
            if rng.chance(1, 2) {
                frames.push((id, 5, true));
            }
        }
    }
    // interleave frames of different operations, keeping per-id order
    for _ in 0..frames.len() {
        let a = rng.below(frames.len() as u64) as usize;
        if a + 1 < frames.len() && frames[a].0 != frames[a + 1].0 {
            frames.swap(a, a + 1);
        }
    }
    Base { ops, frames }
}

/// script: issue everything, send the first `cut` bytes of the response stream, inject the fault
fn script_resp_cut(b: &Base, cut: usize, fault: Fault, chunk: usize) -> (Vec<Step>, usize) {
    let mut steps = vec![Step::MaxRead(chunk)];
    for (k, t) in &b.ops {
        steps.push(Step::Issue { kind: k.clone(), tmo_ms: *t });
    }
    steps.push(Step::Settle);
    let mut off = 0usize;
    let mut tok = 500u64;
    let mut total = 0usize;
    let mut mid = false;
    for (id, op, good) in &b.frames {
        tok += 1;
        let bytes = frame_bytes(*id, *op, *good, tok);
        total += bytes.len();
        if off + bytes.len() <= cut {
            steps.push(Step::Raw { bytes: bytes.clone(), log: format!("srv send {} {} {} {}", id, op, tok, if *good { 1 } else { 0 }) });
        } else if off < cut {
            steps.push(Step::Raw { bytes: bytes[..cut - off].to_vec(), log: String::new() });
            mid = true;
        }
        off += bytes.len();
    }
    steps.push(Step::Settle);
    for (i, (k, _)) in b.ops.iter().enumerate() {
        if matches!(k, OpKind::Search) {
            steps.push(Step::Next(i));
        }
    }
    steps.push(Step::Settle);
    match fault {
        Fault::Eof => steps.push(if mid { Step::CloseMidFrame } else { Step::Close }),
        Fault::Reset => steps.push(Step::Reset),
        Fault::Garbage => {
            if mid {
                steps.push(Step::CloseMidFrame)
            } else {
                steps.push(Step::Garbage)
            }
        }
    }
    steps.push(Step::Settle);
    // streams still open when the fault hits: what had been routed to them, then end-of-stream — never a hang
    for (i, (k, _)) in b.ops.iter().enumerate() {
        if matches!(k, OpKind::Search) {
            for _ in 0..3 {
                steps.push(Step::Next(i));
                steps.push(Step::Settle);
            }
        }
    }
    // a later operation on the dead connection fails immediately
    steps.push(Step::Issue { kind: OpKind::Single, tmo_ms: None });
    steps.push(Step::Settle);
    (steps, total)
}

fn judge(out: &mut Out, label: &str, o: &Outcome, n_ops: usize, expect_driver_end: bool) {
    let ev = to_model_events(&o.trace);
    out.m(&format!("conn.trace {}", ev), "accept");
    let ended = o.trace.iter().any(|t| t.starts_with("drv result"));
    if expect_driver_end {
        out.r(&format!("faults.driver-ends {}", label), ended, &ev);
    }
    let (okc, whyc) = crate::lanes::routing::completeness(&o.trace);
    out.r(&format!("faults.streams-get-what-was-routed-then-end-of-stream {}", label), okc, &format!("{} ; {}", whyc, ev));
    // every issued operation's future resolved; no stream left waiting
    let done: std::collections::HashSet<String> = o.trace.iter().filter(|t| t.starts_with("cli done ")).map(|t| t.split(' ').nth(2).unwrap().to_string()).collect();
    let issued = o.trace.iter().filter(|t| t.starts_with("cli issue ")).count();
    out.r(&format!("faults.nobody-hangs {}", label), o.watchdog_stuck.is_empty() && done.len() == issued && issued >= n_ops, &format!("issued {} resolved {} stuck {:?} | {}", issued, done.len(), o.watchdog_stuck, ev));
    // responses fully delivered before the fault are returned; the rest fail; nothing is fabricated
    let mut delivered: std::collections::HashMap<String, String> = Default::default(); // id -> token (single results routed)
    let mut id_of_op: std::collections::HashMap<String, String> = Default::default();
    let mut opq: Vec<String> = vec![];
    let mut toks: std::collections::HashMap<String, (String, String)> = Default::default(); // tok -> (id, op)
    let mut resp_seen: Vec<String> = vec![];
    let mut ok = true;
    let mut why = String::new();
    let mut after_end = false;
    for t in &o.trace {
        let w: Vec<&str> = t.split(' ').collect();
        match (w[0], w.get(1).copied().unwrap_or("")) {
            ("cli", "issue") => {
                opq.push(w[2].to_string());
                if after_end {
                    id_of_op.insert(w[2].to_string(), String::from("dead"));
                }
            }
            ("drv", "op") => {
                if !opq.is_empty() {
                    id_of_op.insert(opq.remove(0), w[2].to_string());
                }
            }
            ("srv", "send") => {
                toks.insert(w[4].to_string(), (w[2].to_string(), w[3].to_string()));
            }
            ("drv", "resp") => resp_seen.push(w[2].to_string()),
            ("drv", "result") => after_end = true,
            ("cli", "done") => {
                let r = w[3];
                if let Some(tok) = r.strip_prefix("frame:") {
                    match toks.get(tok) {
                        Some((id, _)) if Some(id) == id_of_op.get(w[2]) && resp_seen.contains(id) => {
                            delivered.insert(id.clone(), tok.to_string());
                        }
                        _ => {
                            ok = false;
                            why = format!("op {} returned token {} that was not received for its ID", w[2], tok);
                        }
                    }
                }
                if id_of_op.get(w[2]).map(|s| s == "dead").unwrap_or(false) && r != "opsenderr" {
                    ok = false;
                    why = format!("operation issued after the driver ended returned {}", r);
                }
            }
            _ => {}
        }
    }
    out.r(&format!("faults.delivered-survive-rest-fail {}", label), ok, &format!("{} | {}", why, ev));
}

pub fn run(thorough: bool, mut rng: Rng, mut out: Out) {
    // the driver is blocked inside a write (the peer has stopped reading) when the peer closes / resets:
    // the pending write fails, the driver ends, everybody waiting is released
    for (name, fault) in [("close", Step::Close), ("reset", Step::Reset)] {
        for queued in 0..3usize {
            let mut sc = vec![Step::StallWrites(true), Step::Issue { kind: OpKind::Single, tmo_ms: None }, Step::Settle];
            for q in 0..queued {
                sc.push(Step::Issue { kind: if q % 2 == 0 { OpKind::Search } else { OpKind::Single }, tmo_ms: None });
            }
            sc.push(Step::Settle);
            sc.push(fault.clone());
            sc.push(Step::Settle);
            sc.push(Step::Issue { kind: OpKind::Single, tmo_ms: None });
            sc.push(Step::Settle);
            let o = run_script(&sc);
            let label = format!("blocked-in-write then {} queued={}", name, queued);
            out.case(&label, true);
            out.stat("fault.PeerGoneWhileBlockedInWrite");
            judge(&mut out, &label, &o, 1 + queued, true);
        }
    }
    // A search whose entries nobody reads must not stall the connection: with `n` entries of search #0 routed
    // and unread (the caller is busy — e.g. it works on each entry with another operation on a clone of the
    // handle), an operation issued afterwards is sent, answered and completes; when the server then goes away
    // everything still pending fails and nobody hangs.  (The driver is the one task that reads the socket: if it
    // ever waits for a stream's consumer, neither answers nor EOF are seen.)
    for n in [1usize, 100, 255, 256, 257, 300, 700, 2000] {
        for fault in [None, Some(Step::Close), Some(Step::Reset)] {
            let mut sc = vec![Step::Issue { kind: OpKind::Search, tmo_ms: None }, Step::Settle];
            for _ in 0..n {
                sc.push(Step::Send { id: 1, op: 4, good: false });
            }
            sc.push(Step::Settle);
            sc.push(Step::Next(0));                                              // one entry taken, the rest unread
            sc.push(Step::Settle);
            sc.push(Step::Issue { kind: OpKind::Single, tmo_ms: None });        // op 1, id 2
            sc.push(Step::Settle);
            sc.push(Step::Send { id: 2, op: 11, good: true });
            sc.push(Step::Settle);
            sc.push(Step::Issue { kind: OpKind::Search, tmo_ms: None });        // op 2, id 3
            sc.push(Step::Issue { kind: OpKind::Single, tmo_ms: Some(60_000) }); // op 3, id 4: answered only if no fault follows
            sc.push(Step::Settle);
            sc.push(Step::Send { id: 3, op: 4, good: false });
            sc.push(Step::Settle);
            sc.push(Step::Next(2));
            sc.push(Step::Settle);
            let has_fault = fault.is_some();
            if !has_fault {
                sc.push(Step::Send { id: 4, op: 11, good: true });              // without a fault everybody is answered
                sc.push(Step::Settle);
            }
            if let Some(f) = fault.clone() {
                sc.push(f);
                sc.push(Step::Settle);
                sc.push(Step::Issue { kind: OpKind::Single, tmo_ms: None });
                sc.push(Step::Settle);
            }
            let o = run_script(&sc);
            let label = format!("{} unread entries of a search, then other operations{}", n, match &fault { None => "", Some(Step::Close) => ", then close", _ => ", then reset" });
            out.case(&label, true);
            out.stat("fault.UnreadSearchItems");
            if n <= 300 {
                judge(&mut out, &label, &o, if has_fault { 5 } else { 4 }, has_fault);
            }
            let served = o.trace.iter().any(|t| t.starts_with("cli done 1 frame:"))
                && o.trace.iter().any(|t| t.starts_with("cli next 2 ") && t.contains("item:entry:"));
            out.r(&format!("faults.unread-search-items-do-not-stall-the-connection {}", label), served,
                  &format!("{:?}", o.trace.iter().filter(|t| t.starts_with("cli ")).collect::<Vec<_>>()));
            if has_fault {
                let ended = o.trace.iter().any(|t| t.starts_with("drv result"));
                let failed = o.trace.iter().any(|t| t.starts_with("cli done 3 ") && !t.contains("frame:"));
                out.r(&format!("faults.connection-loss-is-seen-despite-unread-items {}", label), ended && failed && o.watchdog_stuck.is_empty(),
                      &format!("driver-ended={} op3-failed={} stuck={:?}", ended, failed, o.watchdog_stuck));
            }
        }
    }
    // corpus (F27): a frame that is not an LDAPResult under the ID of a single-result operation — an RFC-legal
    // IntermediateResponse (25) to an extended operation, a SearchResultEntry (4) under the wrong ID, a result
    // whose body is malformed — must fail that operation with an error (not panic its caller's task), leave the
    // connection serving the others, and a result frame that follows under the same ID is nobody's
    for (n, bad_op) in [25u64, 4, 19, 11, 24].iter().enumerate() {
        let sc = vec![
            Step::Issue { kind: OpKind::Single, tmo_ms: None },
            Step::Issue { kind: OpKind::Single, tmo_ms: if n % 2 == 0 { None } else { Some(5000) } },
            Step::Settle,
            Step::Send { id: 1, op: *bad_op, good: false },
            Step::Settle,
            Step::Send { id: 1, op: 11, good: true },
            Step::Send { id: 2, op: 11, good: true },
            Step::Settle,
            Step::Issue { kind: OpKind::Single, tmo_ms: None },
            Step::Settle,
            Step::Send { id: 3, op: 11, good: true },
            Step::Settle,
        ];
        let o = run_script(&sc);
        let label = format!("corpus F27 non-result frame (op {}) under a single operation's ID", bad_op);
        out.case(&label, true);
        out.stat("fault.NonResultFrameForSingleOp");
        judge(&mut out, &label, &o, 3, false);
        let dones: Vec<&String> = o.trace.iter().filter(|t| t.starts_with("cli done ")).collect();
        let first = dones.iter().find(|t| t.starts_with("cli done 0 ")).map(|t| t.as_str()).unwrap_or("cli done 0 <never>");
        out.r(&format!("faults.non-result-frame-is-an-error-not-a-panic {}", label), first == "cli done 0 decode", first);
        let others_ok = dones.iter().filter(|t| t.starts_with("cli done 1 frame:") || t.starts_with("cli done 2 frame:")).count() == 2;
        out.r(&format!("faults.connection-serves-the-others {}", label), others_ok, &format!("{:?}", dones));
    }
    // corpus (C11, driver level): under the ID of a running SEARCH, a protocolOp that is neither an entry /
    // reference / intermediate response nor a well-formed SearchResultDone ends the connection with an error that
    // every pending operation observes (model: routeSearch / classify = none; C11_bad_search_frame_ends_connection)
    for (bad_op, good) in [(11u64, true), (1, true), (0, false), (26, false), (3, true), (5, false), (24, true)] {
        for with_item in [false, true] {
            let mut sc = vec![
                Step::Issue { kind: OpKind::Search, tmo_ms: None },
                Step::Issue { kind: OpKind::Single, tmo_ms: None },
                Step::Issue { kind: OpKind::Search, tmo_ms: Some(5000) },
                Step::Settle,
            ];
            if with_item {
                sc.push(Step::Send { id: 1, op: 4, good: false });
                sc.push(Step::Send { id: 3, op: 19, good: false });
                sc.push(Step::Settle);
            }
            sc.push(Step::Next(0));
            sc.push(Step::Settle);
            sc.push(Step::Send { id: 1, op: bad_op, good });
            sc.push(Step::Settle);
            for _ in 0..2 {
                sc.push(Step::Next(0));
                sc.push(Step::Next(2));
                sc.push(Step::Settle);
            }
            sc.push(Step::Issue { kind: OpKind::Single, tmo_ms: None });
            sc.push(Step::Settle);
            let o = run_script(&sc);
            let label = format!("corpus bad frame (op {} good={}) under a search's ID, items-before={}", bad_op, good, with_item);
            out.case(&label, true);
            out.stat("fault.BadFrameForSearch");
            judge(&mut out, &label, &o, 4, true);
            out.r(&format!("faults.bad-search-frame-ends-the-connection-with-an-error {}", label), o.trace.iter().any(|t| t == "drv result err"), &to_model_events(&o.trace));
        }
    }
    // corpus (C04): Unbind, the server does NOT close, and another operation is issued: it fails at once
    // (the sink is closed), nobody hangs
    for pending_before in [false, true] {
        let mut sc = vec![];
        if pending_before {
            sc.push(Step::Issue { kind: OpKind::Single, tmo_ms: None });
            sc.push(Step::Settle);
        }
        sc.push(Step::Issue { kind: OpKind::Unbind, tmo_ms: None });
        sc.push(Step::Settle);
        sc.push(Step::Issue { kind: OpKind::Single, tmo_ms: None });
        sc.push(Step::Settle);
        sc.push(Step::Issue { kind: OpKind::Search, tmo_ms: None });
        sc.push(Step::Settle);
        let o = run_script(&sc);
        let label = format!("corpus unbind without server close, then more operations; pending-before={}", pending_before);
        out.case(&label, true);
        out.stat("fault.UnbindNoClose");
        judge(&mut out, &label, &o, 3 + pending_before as usize, false);
        let n0 = if pending_before { 2 } else { 1 };
        let later_failed = (n0..n0 + 2).all(|i| o.trace.iter().any(|t| t.starts_with(&format!("cli done {} ", i)) && !t.contains("frame:") && !t.ends_with(" ack")));
        out.r(&format!("faults.operations-after-unbind-fail-at-once {}", label), later_failed, &to_model_events(&o.trace));
        out.r(&format!("faults.unbind-closes-transport {}", label), o.net.is_shutdown(), "write side not shut down");
    }
    let nbase = if thorough { 240 } else { 20 };
    for bi in 0..nbase {
        let b = gen_base(&mut rng);
        let (_, total) = script_resp_cut(&b, 0, Fault::Eof, 0);
        let step = if thorough { 1 } else { 1 + total / 40 };
        let mut cut = 0;
        while cut <= total {
            for fault in [Fault::Eof, Fault::Reset, Fault::Garbage] {
                let chunk = *rng.pick(&[0usize, 1, 3, 16]);
                let (sc, _) = script_resp_cut(&b, cut, fault, chunk);
                let o = run_script(&sc);
                let label = format!("base#{} ops={} resp-cut={}/{} {:?} chunk={}", bi, b.ops.len(), cut, total, fault, chunk);
                out.case(&label, true);
                out.stat(&format!("fault.{:?}", fault));
                judge(&mut out, &label, &o, b.ops.len(), true);
            }
            cut += step;
        }
        // write failures at every byte offset of the request stream
        let mut sc0 = vec![];
        for (k, t) in &b.ops {
            sc0.push(Step::Issue { kind: k.clone(), tmo_ms: *t });
        }
        sc0.push(Step::Settle);
        let o0 = run_script(&sc0);
        let wtotal = o0.net.total_written();
        let wstep = if thorough { 1 } else { 1 + wtotal / 25 };
        let mut w = 0;
        while w < wtotal {
            let mut sc = vec![Step::FailWriteAt(w)];
            sc.extend(sc0.clone());
            sc.push(Step::Issue { kind: OpKind::Single, tmo_ms: None });
            sc.push(Step::Settle);
            let o = run_script(&sc);
            let label = format!("base#{} ops={} write-fail-at={}/{}", bi, b.ops.len(), w, wtotal);
            out.case(&label, true);
            out.stat("fault.WriteFail");
            judge(&mut out, &label, &o, b.ops.len(), true);
            w += wstep;
        }
        // unbind at every script position; the server closes on unbind (RFC 4511 §4.3)
        for pos in 0..=b.ops.len() {
            let mut sc = vec![];
            for (i, (k, t)) in b.ops.iter().enumerate() {
                if i == pos {
                    sc.push(Step::Issue { kind: OpKind::Unbind, tmo_ms: None });
                    sc.push(Step::Settle);
                }
                sc.push(Step::Issue { kind: k.clone(), tmo_ms: *t });
            }
            if pos == b.ops.len() {
                sc.push(Step::Issue { kind: OpKind::Unbind, tmo_ms: None });
            }
            sc.push(Step::Settle);
            sc.push(Step::Close);
            sc.push(Step::Settle);
            let o = run_script(&sc);
            let label = format!("base#{} ops={} unbind-at={}", bi, b.ops.len(), pos);
            out.case(&label, true);
            out.stat("fault.Unbind");
            judge(&mut out, &label, &o, b.ops.len() + 1, true);
            out.r(&format!("faults.unbind-closes-transport {}", label), o.net.is_shutdown() && o.net.is_dropped(), "write side not shut down / transport not dropped");
        }
        // dropping the last handle when nothing is pending ends the driver and drops the transport
        let mut sc = vec![];
        for (i, (k, t)) in b.ops.iter().enumerate() {
            if matches!(k, OpKind::Single) {
                sc.push(Step::Issue { kind: k.clone(), tmo_ms: *t });
                sc.push(Step::Settle);
                sc.push(Step::Send { id: sc.iter().filter(|s| matches!(s, Step::Issue { .. })).count() as i64, op: 11, good: true });
                sc.push(Step::Settle);
            }
            let _ = i;
        }
        sc.push(Step::DropHandles);
        sc.push(Step::Settle);
        let o = run_script(&sc);
        let label = format!("base#{} drop-last-handle", bi);
        out.case(&label, true);
        out.stat("fault.DropHandles");
        judge(&mut out, &label, &o, 0, true);
        out.r(&format!("faults.drop-closes-transport {}", label), o.net.is_dropped(), "transport not dropped");
    }
    out.finish("base exchanges of 1..4 concurrent operations (single-result with/without timeout, searches mid-stream); EOF / reset / undecodable bytes injected at byte offsets of the response stream (every offset in thorough, ~40 offsets per exchange in quick) under read chunk sizes {all,1,3,16}; write failure at byte offsets of the request stream; unbind at every script position; drop of the last handle; virtual-time watchdog; non-trivial = all; distinct by label");
}

//! Lane `framing` (C06): the frame decoder fed the same byte stream under different segmentations.
use crate::fmtx::*;
use crate::gen::*;
use crate::lanes::ber::{real_encode, spec_enc};
use crate::lanes::hostile::ctrls_text_real;
use crate::out::{guarded, Out};
use crate::rng::Rng;
use bytes::BytesMut;
use lber::structure::StructureTag;
use lber::structures::Tag;

/// what `FramedRead` does with successive reads: append, decode until `None`; stop at an error
pub fn feed_real(chunks: &[&[u8]]) -> (Vec<String>, usize, bool) {
    let mut buf = BytesMut::new();
    let mut frames = vec![];
    let mut err = false;
    for c in chunks {
        if err {
            break;
        }
        buf.extend_from_slice(c);
        loop {
            match ldap3::verif::verif_decode(&mut buf) {
                Ok(Some((id, (tag, ctrls)))) => {
                    let t = match tag {
                        Tag::StructureTag(t) => tlv(&t),
                        _ => String::from("(non-structure)"),
                    };
                    frames.push(format!("{}:{}:{}", id, t, ctrls_text_real(&ctrls)));
                }
                Ok(None) => break,
                Err(_) => {
                    err = true;
                    break;
                }
            }
        }
    }
    (frames, if err { 0 } else { buf.len() }, err)
}

fn show(r: &(Vec<String>, usize, bool)) -> String {
    format!("frames=[{}] buf={} err={}", r.0.join(";"), r.1, if r.2 { 1 } else { 0 })
}

fn split_at<'a>(s: &'a [u8], cuts: &[usize]) -> Vec<&'a [u8]> {
    let mut v = vec![];
    let mut p = 0;
    for &c in cuts {
        v.push(&s[p..c]);
        p = c;
    }
    v.push(&s[p..]);
    v
}

fn expected_frame(m: &StructureTag) -> String {
    // envelope(id, op, ctls) as built by gen.rs: [INTEGER id, op, optional [0] controls]
    if let lber::structure::PL::C(ks) = &m.payload {
        let idb = match &ks[0].payload { lber::structure::PL::P(b) => b.clone(), _ => vec![] };
        let mut id: i64 = if idb[0] & 0x80 != 0 { -1 } else { 0 };
        for b in idb {
            id = (id << 8) | b as i64;
        }
        let ctl = if ks.len() > 2 {
            if let lber::structure::PL::C(cs) = &ks[2].payload {
                let parts: Vec<String> = cs
                    .iter()
                    .map(|c| {
                        if let lber::structure::PL::C(f) = &c.payload {
                            let oid = match &f[0].payload { lber::structure::PL::P(b) => b.clone(), _ => vec![] };
                            let mut crit = false;
                            let mut val: Option<Vec<u8>> = None;
                            for x in &f[1..] {
                                if x.id == 1 {
                                    if let lber::structure::PL::P(b) = &x.payload { crit = b[0] != 0; }
                                } else if let lber::structure::PL::P(b) = &x.payload {
                                    val = Some(b.clone());
                                }
                            }
                            format!("{}:{}:{}:{}", hex(&oid), if crit { 1 } else { 0 }, match val { Some(v) => hex(&v), None => String::from("none") }, known_name(&oid))
                        } else {
                            String::from("?")
                        }
                    })
                    .collect();
                format!("[{}]", parts.join(","))
            } else {
                String::from("[]")
            }
        } else {
            String::from("[]")
        };
        return format!("{}:{}:{}", id, tlv(&ks[1]), ctl);
    }
    String::from("?")
}

fn check_stream(out: &mut Out, rng: &mut Rng, msgs: &[StructureTag], encs: &[Vec<u8>], thorough: bool, label: &str) {
    let stream: Vec<u8> = encs.concat();
    let expected: Vec<String> = msgs.iter().map(expected_frame).collect();
    let n = stream.len();
    let mut cutsets: Vec<Vec<usize>> = vec![vec![], (1..n).collect()];
    if n >= 2 && n <= if thorough { 15 } else { 12 } {
        // all 2^(n-1) partitions
        for mask in 0..(1u32 << (n - 1)) {
            cutsets.push((1..n).filter(|i| mask & (1 << (i - 1)) != 0).collect());
        }
        out.stat("streams.all-partitions");
    } else {
        for i in 1..n {
            if n <= 4000 || i % 97 == 0 || encs.iter().scan(0, |a, e| { *a += e.len(); Some(*a) }).any(|b| (b as i64 - i as i64).abs() <= 2) {
                cutsets.push(vec![i]);
            }
        }
        let pairs = if thorough { 3000 } else { 150 };
        if n <= 300 {
            for _ in 0..pairs {
                let a = rng.range(1, n as u64 - 1) as usize;
                let b = rng.range(1, n as u64 - 1) as usize;
                if a != b {
                    cutsets.push(vec![a.min(b), a.max(b)]);
                }
            }
        }
        for _ in 0..10 {
            let k = rng.range(1, 8);
            let mut cs: Vec<usize> = (0..k).map(|_| rng.range(1, n.max(2) as u64 - 1) as usize).collect();
            cs.sort_unstable();
            cs.dedup();
            cutsets.push(cs);
        }
    }
    let mut mlines = 0;
    for cuts in cutsets {
        let chunks = split_at(&stream, &cuts);
        let st2 = stream.clone();
        let cuts2 = cuts.clone();
        crate::out::mark(&format!("framing stream={} cuts={:?}", hex(&stream), cuts));
        let got = match guarded(move || feed_real(&split_at(&st2, &cuts2))) {
            Ok(g) => g,
            Err(_) => (vec![String::from("panic")], 0, true),
        };
        let canon = format!("{} {:?}", hex(&stream[..n.min(40)]), cuts);
        out.case(&canon, !cuts.is_empty());
        let ok = got.0 == expected && got.1 == 0 && !got.2;
        out.r(&format!("framing.chunking-independent {} len={} cuts={:?}", label, n, if cuts.len() > 8 { cuts[..8].to_vec() } else { cuts.clone() }), ok,
              &format!("stream {} got {} frames buf={} err={}", hex(&stream[..n.min(60)]), got.0.len(), got.1, got.2));
        if n <= 600 && mlines < 40 {
            mlines += 1;
            let req = format!("frame.feed {}", chunks.iter().map(|c| hex(c)).collect::<Vec<_>>().join(" "));
            out.m(&req, &show(&got));
        }
    }
    // truncated stream: exactly the complete messages, the rest stays buffered
    for _ in 0..4 {
        let k = rng.below(n as u64 + 1) as usize;
        let got = feed_real(&[&stream[..k]]);
        let mut end = 0;
        let mut want = vec![];
        for (e, x) in encs.iter().zip(expected.iter()) {
            if end + e.len() <= k {
                end += e.len();
                want.push(x.clone());
            } else {
                break;
            }
        }
        out.r(&format!("framing.exactly-complete-ones {} len={} cut={}", label, n, k), got.0 == want && got.1 == k - end && !got.2, &format!("got {} frames, buf {}", got.0.len(), got.1));
        if n <= 600 {
            out.m(&format!("frame.feed {}", hex(&stream[..k])), &show(&got));
        }
    }
}

/// End to end through the REAL `Framed<_, LdapCodec>` of a live connection (scripted transport, one read
/// per chunk): a search's response stream — entries of different sizes and the final result — is delivered to
/// the caller identically under every segmentation.  (`feed_real` above re-enacts FramedRead's loop around the
/// decoder entry point, which builds its parser per call; this section covers state that lives in the codec or
/// in the connection between reads.)
fn e2e(thorough: bool, rng: &mut Rng, out: &mut Out) {
    use crate::scen::{run_script, OpKind, Step};
    let nstreams = if thorough { 60 } else { 8 };
    for si in 0..nstreams {
        let k = rng.range(1, 4) as usize;
        // entry sizes: one clearly longer than the others so that short messages follow a long split one
        let mut frames: Vec<Vec<u8>> = vec![];
        let mut want: Vec<String> = vec![];
        for j in 0..k {
            let pad = if j == 0 { rng.range(40, 300) as usize } else { rng.below(30) as usize };
            let tok = 700 + j as u64;
            let body = cons(1, *rng.pick(&[4u64, 19, 25]), vec![
                prim(0, 4, format!("tok{}", tok).into_bytes()),
                cons(0, 16, vec![cons(0, 16, vec![prim(0, 4, b"a".to_vec()), cons(0, 17, vec![prim(0, 4, vec![0x61; pad])])])]),
            ]);
            frames.push(real_encode(&cons(0, 16, vec![prim(0, 2, vec![1]), body])));
            want.push(format!("item:entry:{}", tok));
        }
        frames.push(crate::scen::result_frame(1, 5, 799));
        want.push(String::from("item:done:799"));
        let stream: Vec<u8> = frames.concat();
        let n = stream.len();
        let bounds: Vec<usize> = frames.iter().scan(0, |a, f| { *a += f.len(); Some(*a) }).collect();
        let mut cutsets: Vec<Vec<usize>> = vec![vec![], (1..n).collect(), bounds[..bounds.len() - 1].to_vec()];
        // the first (long) message across two reads, completed alone / together with everything that follows
        let f0 = frames[0].len();
        for c in [1usize, 2, f0 / 2, f0 - 1] {
            cutsets.push(vec![c]);
            cutsets.push(vec![c, f0]);
            let mut v = vec![c];
            v.extend(bounds.iter().filter(|b| **b < n));
            v.sort_unstable(); v.dedup();
            cutsets.push(v);
        }
        for _ in 0..(if thorough { 12 } else { 4 }) {
            let kk = rng.range(1, 6);
            let mut cs: Vec<usize> = (0..kk).map(|_| rng.range(1, n as u64 - 1) as usize).collect();
            cs.sort_unstable(); cs.dedup();
            cutsets.push(cs);
        }
        for cuts in cutsets {
            let mut sc = vec![Step::Issue { kind: OpKind::Search, tmo_ms: None }, Step::Settle];
            let chunks = split_at(&stream, &cuts);
            for c in &chunks {
                if !c.is_empty() {
                    sc.push(Step::Raw { bytes: c.to_vec(), log: String::new() });
                    sc.push(Step::Settle);
                }
            }
            for _ in 0..want.len() {
                sc.push(Step::Next(0));
                sc.push(Step::Settle);
            }
            sc.push(Step::Close);
            sc.push(Step::Settle);
            crate::out::mark(&format!("framing.e2e stream={} cuts={:?}", hex(&stream), cuts));
            let o = run_script(&sc);
            let got: Vec<String> = o.trace.iter().filter(|t| t.starts_with("cli next 0 ")).map(|t| t.split(' ').nth(4).unwrap_or("?").to_string()).collect();
            let label = format!("stream#{} msgs={} len={} cuts={:?}", si, frames.len(), n, if cuts.len() > 8 { cuts[..8].to_vec() } else { cuts.clone() });
            out.case(&format!("e2e {}", label), !cuts.is_empty());
            out.stat("e2e.runs");
            out.r(&format!("framing.e2e-delivery-independent-of-segmentation {}", label), got == want,
                  &format!("expected {:?} got {:?} (stream {})", want, got, hex(&stream[..n.min(80)])));
        }
    }
}

pub fn run(thorough: bool, mut rng: Rng, mut out: Out) {
    // single messages: every proper prefix is "need more" and leaves the buffer untouched
    let nsingle = if thorough { 3000 } else { 300 };
    for _ in 0..nsingle {
        let m = gen_any_msg(&mut rng);
        let e = if rng.chance(1, 2) { real_encode(&m) } else { spec_enc(&m, &mut rng, true) };
        out.case(&hex(&e), true);
        let mut bad = None;
        for k in 0..e.len() {
            let mut buf = BytesMut::from(&e[..k]);
            match ldap3::verif::verif_decode(&mut buf) {
                Ok(None) if buf.len() == k => {}
                _ => {
                    bad = Some(k);
                    break;
                }
            }
        }
        out.stat_n("prefixes", e.len() as u64);
        out.r(&format!("framing.prefix-needs-more {}", hex(&e[..e.len().min(80)])), bad.is_none(), &format!("prefix of length {:?} of {}", bad, hex(&e)));
        if e.len() < 300 {
            let k = rng.below(e.len() as u64) as usize;
            out.m(&format!("env.dec {}", hex(&e[..k])), "needmore");
        }
    }
    // tiny streams: exhaustive partitions
    let ntiny = if thorough { 60 } else { 12 };
    for _ in 0..ntiny {
        // the smallest real messages: DelResponse-like results with empty strings (14 bytes), unbind-like
        let m = envelope(rng.range(1, 100) as i64, prim(1, *rng.pick(&[2u64, 10, 11]), rng.bytes_below(4)), &None);
        let e = real_encode(&m);
        check_stream(&mut out, &mut rng, &[m], &[e], thorough, "tiny");
    }
    // sequences of 1..6 messages
    let nseq = if thorough { 800 } else { 60 };
    for _ in 0..nseq {
        let k = rng.range(1, 6) as usize;
        let msgs: Vec<StructureTag> = (0..k).map(|_| gen_any_msg(&mut rng)).collect();
        let encs: Vec<Vec<u8>> = msgs.iter().map(|m| if rng.chance(2, 3) { real_encode(m) } else { spec_enc(m, &mut rng, true) }).collect();
        out.stat(&format!("seq.len={}", k));
        check_stream(&mut out, &mut rng, &msgs, &encs, thorough, "seq");
    }
    // big messages: around the 8 KiB initial read buffer of Framed and up to 70 KiB (1.1 MiB in thorough)
    let mut sizes = vec![8000usize, 8192, 8193, 20000, 70000];
    if thorough {
        sizes.push(1_100_000);
    }
    for sz in sizes {
        let big = envelope(7, cons(1, 4, vec![prim(0, 4, b"cn=big".to_vec()), cons(0, 16, vec![cons(0, 16, vec![prim(0, 4, b"jpegPhoto".to_vec()), cons(0, 17, vec![prim(0, 4, vec![0xab; sz])])])])]), &None);
        let small = resp_msg(&gen_resp(&mut rng));
        let msgs = vec![small.clone(), big, small];
        let encs: Vec<Vec<u8>> = msgs.iter().map(real_encode).collect();
        out.stat("big.streams");
        check_stream(&mut out, &mut rng, &msgs, &encs, thorough, "big");
    }
    e2e(thorough, &mut rng, &mut out);
    out.finish("streams of 1..6 generated LDAP messages (all response kinds, minimal and non-minimal length forms, sizes 7 B .. 70 KiB, 1.1 MiB in thorough) cut into read chunks: all 2^(n-1) partitions for streams <= 12 (15 thorough) bytes, every single cut, random pairs and k-cuts, one byte at a time, all at once; every proper prefix of every single message; non-trivial = at least one cut; distinct by FNV of (stream prefix, cuts)");
}

//! Lane `url` (C20): `ldap3::get_url_params` behind the real `url::Url::parse` vs Model.Url, the
//! environment assumption (the `url` crate hands path/query through unchanged) and the RFC 4516
//! round-trip / error oracles.
//!
//! Every URL is produced by this lane's OWN RFC 4516 formatter (`encode_comps` / `fmt_raw`, tied to
//! the Lean `Spec.format` by O lines), goes through the real `Url::parse`, then through the real
//! `get_url_params`.
use crate::fmtx::{fnv, hex};
use crate::out::{guarded, Out};
use crate::rng::Rng;
use ldap3::{get_url_params, LdapError, LdapUrlExt, Scope};
use url::Url;

// ---------------------------------------------------------------------------------------------
// RFC 4516 formatter (independent of ldap3 and of the percent-encoding crate)

#[derive(Clone, Copy, PartialEq, Debug)]
enum Style {
    Strict,
    StrictLc,
    Minimal,
    MinimalLc,
}

impl Style {
    fn name(self) -> &'static str {
        match self {
            Style::Strict => "strict",
            Style::StrictLc => "strict-lc",
            Style::Minimal => "minimal",
            Style::MinimalLc => "minimal-lc",
        }
    }
    fn upper(self) -> bool {
        matches!(self, Style::Strict | Style::Minimal)
    }
    fn minimal(self) -> bool {
        matches!(self, Style::Minimal | Style::MinimalLc)
    }
}

const STYLES: &[Style] = &[Style::Strict, Style::StrictLc, Style::Minimal, Style::MinimalLc];

fn unreserved(b: u8) -> bool {
    b.is_ascii_alphanumeric() || b == b'-' || b == b'.' || b == b'_' || b == b'~'
}

/// sub-delims plus `:` `@` `/`, never `?`
fn rfc_raw(b: u8) -> bool {
    unreserved(b) || b"!$&'()*+,;=:@/".contains(&b)
}

#[derive(Clone, Copy)]
enum Pos {
    Dn,
    Filter,
    Val,
}

fn pct_encode(style: Style, pos: Pos, s: &[u8]) -> String {
    let mut o = String::new();
    for &b in s {
        let raw = if style.minimal() {
            rfc_raw(b) && !(matches!(pos, Pos::Val) && b == b',')
        } else {
            unreserved(b)
        };
        if raw {
            o.push(b as char);
        } else if style.upper() {
            o.push_str(&format!("%{:02X}", b));
        } else {
            o.push_str(&format!("%{:02x}", b));
        }
    }
    o
}

#[derive(Clone, Debug)]
struct ExtC {
    name: String,
    critical: bool,
    value: Option<String>,
}

#[derive(Clone, Debug)]
struct Comps {
    base: String,
    attrs: Vec<String>,
    scope: Option<u8>,
    filter: Option<String>,
    exts: Vec<ExtC>,
}

/// text of the dn and of the four query fields
#[derive(Clone, Debug)]
struct Raw {
    dn: String,
    attrs: String,
    scope: String,
    filter: String,
    exts: Vec<String>,
}

fn scope_word(s: Option<u8>) -> &'static str {
    match s {
        None => "",
        Some(0) => "base",
        Some(1) => "one",
        _ => "sub",
    }
}

fn fmt_ext_raw(critical: bool, name: &str, val_txt: Option<&str>) -> String {
    let mut o = String::new();
    if critical {
        o.push('!');
    }
    o.push_str(name);
    if let Some(v) = val_txt {
        o.push('=');
        o.push_str(v);
    }
    o
}

fn encode_comps(style: Style, c: &Comps) -> Raw {
    Raw {
        dn: pct_encode(style, Pos::Dn, c.base.as_bytes()),
        attrs: c.attrs.join(","),
        scope: scope_word(c.scope).to_string(),
        filter: match &c.filter {
            None => String::new(),
            Some(f) => pct_encode(style, Pos::Filter, f.as_bytes()),
        },
        exts: c
            .exts
            .iter()
            .map(|e| fmt_ext_raw(e.critical, &e.name, e.value.as_ref().map(|v| pct_encode(style, Pos::Val, v.as_bytes())).as_deref()))
            .collect(),
    }
}

fn min_fields(r: &Raw) -> usize {
    if !r.exts.join(",").is_empty() {
        4
    } else if !r.filter.is_empty() {
        3
    } else if !r.scope.is_empty() {
        2
    } else if !r.attrs.is_empty() {
        1
    } else {
        0
    }
}

/// `keep` = number of query fields written (0 = no `?`)
fn fmt_raw(r: &Raw, slash: bool, keep: usize) -> (String, Option<String>) {
    let path = format!("{}{}", if slash { "/" } else { "" }, r.dn);
    let fields = [r.attrs.clone(), r.scope.clone(), r.filter.clone(), r.exts.join(",")];
    let query = if keep == 0 { None } else { Some(fields[..keep.min(4)].join("?")) };
    (path, query)
}

// ---------------------------------------------------------------------------------------------
// canonical text of outcomes (same as Driver.showUrlResult)

fn show_ok(base: &[u8], attrs: &[Vec<u8>], scope: u8, filter: &[u8], exts: &[(String, Vec<u8>)]) -> String {
    let mut e: Vec<(String, Vec<u8>)> = exts.to_vec();
    e.sort();
    format!(
        "ok base={} attrs=[{}] scope={} filter={} exts=[{}]",
        hex(base),
        attrs.iter().map(|a| hex(a)).collect::<Vec<_>>().join(","),
        scope,
        hex(filter),
        e.iter().map(|(k, v)| format!("{}:{}", k, hex(v))).collect::<Vec<_>>().join(",")
    )
}

fn real_outcome(url: &Url) -> String {
    let u = url.clone();
    match guarded(move || match get_url_params(&u) {
        Ok(p) => {
            let exts: Vec<(String, Vec<u8>)> = p
                .extensions
                .iter()
                .map(|e| match e {
                    LdapUrlExt::Bindname(v) => ("bindname".to_string(), v.as_bytes().to_vec()),
                    LdapUrlExt::XBindpw(v) => ("xbindpw".to_string(), v.as_bytes().to_vec()),
                    LdapUrlExt::Credentials(v) => ("credentials".to_string(), v.as_bytes().to_vec()),
                    LdapUrlExt::SaslMech(v) => ("saslmech".to_string(), v.as_bytes().to_vec()),
                    LdapUrlExt::StartTLS => ("starttls".to_string(), vec![]),
                    LdapUrlExt::Unknown(v) => ("unknown".to_string(), v.as_bytes().to_vec()),
                })
                .collect();
            let attrs: Vec<Vec<u8>> = p.attrs.iter().map(|a| a.as_bytes().to_vec()).collect();
            let scope = match p.scope {
                Scope::Base => 0,
                Scope::OneLevel => 1,
                Scope::Subtree => 2,
            };
            show_ok(p.base.as_bytes(), &attrs, scope, p.filter.as_bytes(), &exts)
        }
        Err(LdapError::DecodingUTF8) => "err DecodingUTF8".to_string(),
        Err(LdapError::InvalidScopeString(_)) => "err InvalidScope".to_string(),
        Err(LdapError::UnrecognizedCriticalExtension(_)) => "err UnrecognizedCritical".to_string(),
        Err(_) => "err Other".to_string(),
    }) {
        Ok(s) => s,
        Err(_) => "panic".to_string(),
    }
}

// ---------------------------------------------------------------------------------------------
// a case: the text that is written and, independently, what RFC 4516 + the property text say must
// come back (`None` = "this piece is not valid UTF-8 after percent-decoding" / "not a scope word")

#[derive(Clone, Debug)]
struct ExtT {
    txt: String,
    name: String,
    critical: bool,
    val: Option<Vec<u8>>,
}

#[derive(Clone, Debug)]
struct Case {
    dn_txt: String,
    dn_val: Option<Vec<u8>>,
    attrs_txt: String,
    attrs_val: Vec<Vec<u8>>,
    scope_txt: String,
    scope_val: Option<u8>,
    filter_txt: String,
    filter_val: Option<Vec<u8>>,
    exts: Vec<ExtT>,
}

const DEFAULT_FILTER: &[u8] = b"(objectClass=*)";

/// independent classification of extension types: names case-insensitively, OIDs as written
fn kind_of(name: &str) -> Option<&'static str> {
    match name {
        "1.3.6.1.4.1.10094.1.5.1" => Some("credentials"),
        "1.3.6.1.4.1.10094.1.5.2" => Some("saslmech"),
        "1.3.6.1.4.1.1466.20037" => Some("starttls"),
        _ => {
            if name.eq_ignore_ascii_case("bindname") {
                Some("bindname")
            } else if name.eq_ignore_ascii_case("x-bindpw") {
                Some("xbindpw")
            } else {
                None
            }
        }
    }
}

fn case_of(style: Style, c: &Comps) -> Case {
    let r = encode_comps(style, c);
    Case {
        dn_txt: r.dn,
        dn_val: Some(c.base.as_bytes().to_vec()),
        attrs_txt: r.attrs,
        attrs_val: if c.attrs.is_empty() { vec![b"*".to_vec()] } else { c.attrs.iter().map(|a| a.as_bytes().to_vec()).collect() },
        scope_txt: r.scope,
        scope_val: Some(c.scope.unwrap_or(2)),
        filter_txt: r.filter,
        filter_val: Some(c.filter.as_ref().map(|f| f.as_bytes().to_vec()).unwrap_or(DEFAULT_FILTER.to_vec())),
        exts: c
            .exts
            .iter()
            .zip(r.exts.iter())
            .map(|(e, t)| ExtT {
                txt: t.clone(),
                name: e.name.clone(),
                critical: e.critical,
                val: Some(e.value.as_ref().map(|v| v.as_bytes().to_vec()).unwrap_or_default()),
            })
            .collect(),
    }
}

impl Case {
    fn raw(&self) -> Raw {
        Raw {
            dn: self.dn_txt.clone(),
            attrs: self.attrs_txt.clone(),
            scope: self.scope_txt.clone(),
            filter: self.filter_txt.clone(),
            exts: self.exts.iter().map(|e| e.txt.clone()).collect(),
        }
    }
    /// the errors the property text attaches to this URL (any of them is a correct answer when
    /// several apply; which one wins is the model's business, checked by the M line)
    fn errors(&self) -> Vec<&'static str> {
        let mut v = vec![];
        if self.dn_val.is_none() || self.filter_val.is_none() || self.exts.iter().any(|e| e.val.is_none()) {
            v.push("err DecodingUTF8");
        }
        if self.scope_val.is_none() {
            v.push("err InvalidScope");
        }
        if self.exts.iter().any(|e| e.critical && kind_of(&e.name).is_none()) {
            v.push("err UnrecognizedCritical");
        }
        v
    }
    /// the components with defaults, first extension of a kind, unknown non-critical dropped
    fn expected_ok(&self) -> String {
        let mut exts: Vec<(String, Vec<u8>)> = vec![];
        for e in &self.exts {
            if let Some(k) = kind_of(&e.name) {
                if !exts.iter().any(|(k2, _)| k2 == k) {
                    let v = if k == "starttls" { vec![] } else { e.val.clone().unwrap_or_default() };
                    exts.push((k.to_string(), v));
                }
            }
        }
        show_ok(
            self.dn_val.as_deref().unwrap_or(&[]),
            &self.attrs_val,
            self.scope_val.unwrap_or(2),
            self.filter_val.as_deref().unwrap_or(&[]),
            &exts,
        )
    }
}

// ---------------------------------------------------------------------------------------------
// generators

const ALPHABET: &[&str] = &[
    "?", ",", "=", "%", "#", " ", "/", "é", "𝄞", "+", "!", "a", "b", "c", "d", "n", "o", "x", "Z", "0", "1", "7", "(", ")", "*", "&", "|", "\\", "\"", "<", ">", ";", ":", "@", ".", "-",
    "_", "~", "ü", "€", "日", "\u{7f}", "\t", "'", "[", "]", "{", "}", "^", "`", "$", "%41", "%zz", "%c3", "..", "\u{10ffff}", "\u{80}",
];

fn gen_text(rng: &mut Rng, max: u64) -> String {
    let n = rng.below(max + 1);
    let mut s = String::new();
    for _ in 0..n {
        s.push_str(*rng.pick(ALPHABET));
    }
    s
}

fn gen_dn(rng: &mut Rng) -> String {
    match rng.below(10) {
        0 => String::new(),
        1..=4 => {
            // RDN-shaped
            let n = rng.range(1, 3);
            (0..n)
                .map(|_| format!("{}={}", rng.pick(&["cn", "ou", "o", "dc", "uid", "2.5.4.3"]), gen_text(rng, 5)))
                .collect::<Vec<_>>()
                .join(",")
        }
        _ => gen_text(rng, 8),
    }
}

fn gen_filter(rng: &mut Rng) -> String {
    match rng.below(4) {
        0 => format!("({}={})", rng.pick(&["cn", "sn", "objectClass"]), gen_text(rng, 5)),
        1 => format!("(&(cn={})(|(sn=*{}*)(!(o={}))))", gen_text(rng, 3), gen_text(rng, 2), gen_text(rng, 2)),
        _ => {
            let mut s = gen_text(rng, 8);
            if s.is_empty() {
                s.push('(');
            }
            s
        }
    }
}

const ATTR_CHARS: &[u8] = b"abcdefghijklmnopqrstuvwxyzABCDEFGHIJKLMNOPQRSTUVWXYZ0123456789-.;";

fn gen_attr(rng: &mut Rng) -> String {
    match rng.below(8) {
        0 => "*".to_string(),
        1 => "+".to_string(),
        2 => "1.1".to_string(),
        3 => rng.pick(&["cn", "sn", "objectClass", "userCertificate;binary", "cn;lang-de;lang-en", "2.5.4.3"]).to_string(),
        _ => {
            let n = rng.range(1, 8);
            (0..n).map(|_| *rng.pick(ATTR_CHARS) as char).collect()
        }
    }
}

const OID_CRED: &str = "1.3.6.1.4.1.10094.1.5.1";
const OID_MECH: &str = "1.3.6.1.4.1.10094.1.5.2";
const OID_TLS: &str = "1.3.6.1.4.1.1466.20037";

fn mixed_case(rng: &mut Rng, s: &str) -> String {
    s.chars().map(|c| if rng.chance(1, 2) { c.to_ascii_uppercase() } else { c }).collect()
}

const UNKNOWN_NAMES: &[&str] = &[
    "x-foo", "1.2.3.4", "bindnam", "bindname2", "", "e-bindname", "x-bindpwd", "xbindpw", "1.3.6.1.4.1.10094.1.5.3", "1.3.6.1.4.1.1466.2003", "1.3.6.1.4.1.1466.200370",
    "1.3.6.1.4.1.10094.1.5.10", "BIND-NAME", "x_bindpw", "b", "X",
];

fn gen_ext_name(rng: &mut Rng) -> String {
    match rng.below(12) {
        0 => "bindname".to_string(),
        1 => mixed_case(rng, "bindname"),
        2 => "x-bindpw".to_string(),
        3 => mixed_case(rng, "x-bindpw"),
        4 => OID_CRED.to_string(),
        5 => OID_MECH.to_string(),
        6 => OID_TLS.to_string(),
        7 => "BINDNAME".to_string(),
        8 => "X-BINDPW".to_string(),
        _ => rng.pick(UNKNOWN_NAMES).to_string(),
    }
}

fn gen_ext(rng: &mut Rng, allow_unknown_critical: bool) -> ExtC {
    let name = gen_ext_name(rng);
    let known = kind_of(&name);
    let critical = if known.is_none() && !allow_unknown_critical { false } else { rng.chance(1, 2) };
    let value = if known == Some("starttls") {
        None
    } else {
        match rng.below(5) {
            0 => None,
            1 => Some(String::new()),
            2 => Some(rng.pick(&["EXTERNAL", "GSSAPI", "secret", "cn=Manager,dc=example,dc=com"]).to_string()),
            _ => Some(gen_text(rng, 6)),
        }
    };
    ExtC { name, critical, value }
}

/// components with the given present/omitted pattern (bit 0 attrs, 1 scope, 2 filter, 3 extensions)
fn gen_comps(rng: &mut Rng, pattern: u8, allow_unknown_critical: bool, allow_dups: bool) -> Comps {
    let attrs = if pattern & 1 != 0 { (0..rng.range(1, 4)).map(|_| gen_attr(rng)).collect() } else { vec![] };
    let scope = if pattern & 2 != 0 { Some(rng.below(3) as u8) } else { None };
    let filter = if pattern & 4 != 0 { Some(gen_filter(rng)) } else { None };
    let mut exts: Vec<ExtC> = vec![];
    if pattern & 8 != 0 {
        let n = rng.range(1, 4);
        while (exts.len() as u64) < n {
            let e = gen_ext(rng, allow_unknown_critical);
            if !allow_dups {
                if let Some(k) = kind_of(&e.name) {
                    if exts.iter().any(|x| kind_of(&x.name) == Some(k)) {
                        continue;
                    }
                }
            }
            exts.push(e);
        }
        // a list whose text is empty is an omitted list: keep the pattern honest
        if exts.len() == 1 && exts[0].name.is_empty() && !exts[0].critical && exts[0].value.is_none() {
            exts[0].name = "x-foo".to_string();
        }
    }
    Comps { base: gen_dn(rng), attrs, scope, filter, exts }
}

fn canon_comps(c: &Comps) -> String {
    format!(
        "{} {} {} {} {}",
        hex(c.base.as_bytes()),
        if c.attrs.is_empty() { "n".to_string() } else { c.attrs.iter().map(|a| hex(a.as_bytes())).collect::<Vec<_>>().join(",") },
        match c.scope {
            None => "n".to_string(),
            Some(s) => s.to_string(),
        },
        match &c.filter {
            None => "n".to_string(),
            Some(f) => hex(f.as_bytes()),
        },
        if c.exts.is_empty() {
            "n".to_string()
        } else {
            c.exts
                .iter()
                .map(|e| {
                    format!(
                        "{}:{}:{}",
                        if e.critical { "c" } else { "o" },
                        hex(e.name.as_bytes()),
                        match &e.value {
                            None => "n".to_string(),
                            Some(v) => hex(v.as_bytes()),
                        }
                    )
                })
                .collect::<Vec<_>>()
                .join(";")
        }
    )
}

// ---------------------------------------------------------------------------------------------
// running one URL

const HOSTS: &[&str] = &["host", "ldap.example.com:389", "[::1]:636", "", "10.0.0.1"];

/// a path the `url` crate is known to rewrite: RFC 3986 §5.2.4 dot-segment removal (`.`, `..`,
/// also spelled `%2e`).  The only documented exception to the environment assumption.
fn has_dot_segment(path: &str) -> bool {
    path.split('/').any(|seg| {
        let s = seg.to_ascii_lowercase().replace("%2e", ".");
        s == "." || s == ".."
    })
}

struct Ran {
    got: String,
    verbatim: bool,
}

/// format, parse with the real `Url::parse`, call the real `get_url_params`; emits the M line and the
/// environment R line.  `None` = the URL did not parse.
fn run_url(out: &mut Out, rng: &mut Rng, label: &str, path: &str, query: Option<&str>) -> Option<Ran> {
    let mut host = *rng.pick(HOSTS);
    if host.is_empty() && (path.starts_with("//") || path.is_empty()) {
        host = "host"; // "ldap:////x" and "ldap://?q" mean something else to a URL parser
    }
    let scheme = *rng.pick(&["ldap", "ldaps", "ldapi", "ldap"]);
    let s = format!("{}://{}{}{}", scheme, host, path, query.map(|q| format!("?{}", q)).unwrap_or_default());
    let url = match guarded({
        let s = s.clone();
        move || Url::parse(&s)
    }) {
        Ok(Ok(u)) => u,
        Ok(Err(e)) => {
            out.stat("env.url-parse-error");
            out.r(&format!("env.url-parses {} {}", label, short(&s)), false, &format!("Url::parse: {}", e));
            return None;
        }
        Err(_) => {
            out.r(&format!("env.url-parses {} {}", label, short(&s)), false, "Url::parse panicked");
            return None;
        }
    };
    // the model's `panic` outcome needs a non-ASCII query (C20_no_panic_on_ascii_query)
    if !url.query().unwrap_or("").is_ascii() || !url.path().is_ascii() {
        out.r(&format!("env.url-text-is-ascii {}", label), false, &format!("path() = {:?}, query() = {:?}", url.path(), url.query()));
    }
    let verbatim = url.path() == path && url.query() == query;
    if verbatim {
        out.r("env.url-crate-verbatim", true, "");
    } else {
        out.stat("env.url-crate-rewrote");
        // documented exception: dot-segment removal; anything else is an unexpected failure of the assumption
        let documented = has_dot_segment(path) && url.query() == query;
        if documented {
            out.stat("env.url-crate-rewrote.dot-segment");
        }
        out.r(
            &format!("env.url-crate-rewrote-only-dot-segments {} {}", label, short(&s)),
            documented,
            &format!("path() = {:?}, query() = {:?}", url.path(), url.query()),
        );
    }
    let got = real_outcome(&url);
    out.m(
        &format!("url.params {} {}", hex(url.path().as_bytes()), url.query().map(|q| hex(q.as_bytes())).unwrap_or("none".to_string())),
        &got,
    );
    out.stat(if got.starts_with("ok") { "outcome.ok" } else if got == "panic" { "outcome.panic" } else { &got });
    Some(Ran { got, verbatim })
}

fn short(s: &str) -> String {
    if s.len() <= 240 && s.is_ascii() && !s.contains('\t') && !s.contains('\n') {
        s.to_string()
    } else {
        format!("fnv{:x}", fnv(s.as_bytes()))
    }
}

/// one case: every legal (or the given) amount of omission; M, env and oracle lines
fn run_case(out: &mut Out, rng: &mut Rng, label: &str, case: &Case, keeps: &[usize], slash: bool) {
    let raw = case.raw();
    for &keep in keeps {
        let (path, query) = fmt_raw(&raw, slash, keep);
        let ran = match run_url(out, rng, label, &path, query.as_deref()) {
            Some(r) => r,
            None => continue,
        };
        if !ran.verbatim {
            continue; // the url crate rewrote the text: the round-trip oracle does not apply
        }
        let errs = case.errors();
        let desc = format!("{} {}{}", label, short(&path), query.as_ref().map(|q| format!("?{}", short(q))).unwrap_or_default());
        if errs.is_empty() {
            let want = case.expected_ok();
            out.r(&format!("url.roundtrip {}", desc), ran.got == want, &format!("got {} want {}", ran.got, want));
        } else {
            out.r(&format!("url.error {}", desc), errs.contains(&ran.got.as_str()), &format!("got {} want one of {:?}", ran.got, errs));
        }
    }
}

fn legal_keeps(raw: &Raw) -> Vec<usize> {
    (min_fields(raw)..=4).collect()
}

fn needs_encoding(s: &str) -> bool {
    s.bytes().any(|b| !unreserved(b))
}

fn structured(out: &mut Out, rng: &mut Rng, label: &str, style: Style, c: &Comps, o_line: bool) {
    let case = case_of(style, c);
    let raw = case.raw();
    let canon = format!("{} {}", style.name(), canon_comps(c));
    out.case(&canon, needs_encoding(&c.base) || c.filter.as_deref().map(needs_encoding).unwrap_or(false) || !c.exts.is_empty());
    let keeps = legal_keeps(&raw);
    if o_line {
        // the lane's formatter is the Lean `Spec.format` (the function the theorems are about)
        for &keep in &keeps {
            let (p, q) = fmt_raw(&raw, true, keep);
            out.o(
                &format!("spec.url.format {} 1 {} {}", style.name(), keep, canon_comps(c)),
                &format!("path={} query={}", hex(p.as_bytes()), q.map(|q| hex(q.as_bytes())).unwrap_or("none".to_string())),
            );
        }
    }
    run_case(out, rng, label, &case, &keeps, true);
    if c.base.is_empty() && min_fields(&raw) == 0 {
        out.stat("omit.no-slash");
        if o_line {
            let (p, q) = fmt_raw(&raw, false, 0);
            out.o(
                &format!("spec.url.format {} 0 0 {}", style.name(), canon_comps(c)),
                &format!("path={} query={}", hex(p.as_bytes()), q.map(|q| hex(q.as_bytes())).unwrap_or("none".to_string())),
            );
        }
        run_case(out, rng, label, &case, &[0], false);
    }
}

/// percent sequences injected as text: (text, decoded bytes or None when the result is not UTF-8)
const INJECT: &[(&str, Option<&[u8]>)] = &[
    ("%ff", None),
    ("%FF", None),
    ("%c3", None),
    ("%c3%28", None),
    ("%e2%82", None),
    ("%f0%9f%92", None),
    ("%ed%a0%80", None),
    ("%c0%af", None),
    ("%f4%90%80%80", None),
    ("%80", None),
    ("%bf", None),
    ("%fe", None),
    ("%g1", Some(b"%g1")),
    ("%1g", Some(b"%1g")),
    ("%zz", Some(b"%zz")),
    ("%%41", Some(b"%A")),
    ("%25ff", Some(b"%ff")),
    ("%c3%a9", Some("é".as_bytes())),
    ("%C3%a9", Some("é".as_bytes())),
    ("%e2%82%ac", Some("€".as_bytes())),
    ("%f0%9d%84%9e", Some("𝄞".as_bytes())),
    ("%F4%8F%BF%BF", Some("\u{10ffff}".as_bytes())),
    ("%00", Some(b"\0")),
    ("%7f", Some(b"\x7f")),
];

/// incomplete sequences: kept literally, provided no hex digit follows
const INCOMPLETE: &[&str] = &["%", "%2", "%c", "%%", "%%2"];

/// (text, decoded) of `prefix ++ injected ++ suffix`
fn inject(rng: &mut Rng, style: Style, pos: Pos) -> (String, Option<Vec<u8>>, &'static str) {
    let pre = gen_text(rng, 3);
    let mut txt = pct_encode(style, pos, pre.as_bytes());
    let mut val = pre.as_bytes().to_vec();
    if rng.chance(1, 4) {
        let inc = *rng.pick(INCOMPLETE);
        txt.push_str(inc);
        val.extend(inc.as_bytes());
        if rng.chance(1, 2) {
            let suf = format!("x{}", gen_text(rng, 2));
            txt.push_str(&pct_encode(style, pos, suf.as_bytes()));
            val.extend(suf.as_bytes());
        }
        (txt, Some(val), "incomplete")
    } else {
        let (t, d) = *rng.pick(INJECT);
        txt.push_str(t);
        let suf = gen_text(rng, 3);
        txt.push_str(&pct_encode(style, pos, suf.as_bytes()));
        match d {
            Some(d) => {
                val.extend(d);
                val.extend(suf.as_bytes());
                (txt, Some(val), "valid-or-literal")
            }
            None => (txt, None, "not-utf8"),
        }
    }
}

const BAD_SCOPES: &[&str] = &[
    "BASE", "Base", "One", "SUB", "subtree", "onelevel", "base%20", "bas", "b", "0", "1", "2", "%62ase", "b%61se", "one,sub", "base=1", "sub!", "sube", "%20", "*", "baseone", "o%6ee", "sub%00",
    "children", "subordinates",
];

pub fn run(thorough: bool, mut rng: Rng, mut out: Out) {
    let rng = &mut rng;
    let out_ref = &mut out;
    // ---- corpus: RFC 4516 §4 examples, the crate's doc example, witnesses
    let corpus: &[(&str, Option<&str>)] = &[
        ("/o=University%20of%20Michigan,c=US", None),
        ("/o=University%20of%20Michigan,c=US", Some("postalAddress")),
        ("/o=University%20of%20Michigan,c=US", Some("?sub?(cn=Babs%20Jensen)")),
        ("/c=GB", Some("objectClass?one")),
        ("/o=Question%3f,c=US", Some("mail")),
        ("/o=University%20of%20Michigan,c=US", Some("??sub?(cn=Babs%20Jensen)")),
        ("/o=An%20Example%5C2C%20Inc.,c=US", None),
        ("/", Some("??sub??e-bindname=cn=Manager%2cdc=example%2cdc=com")),
        ("/", Some("??sub??!e-bindname=cn=Manager%2cdc=example%2cdc=com")),
        ("/", Some("???1.3.6.1.4.1.10094.1.5.2=EXTERNAL")),
        ("/", Some("???bindname=cn=Manager%2cdc=example%2cdc=com,x-bindpw=secret")),
        ("/", Some("???1.3.6.1.4.1.1466.20037")),
        ("/", Some("???!1.3.6.1.4.1.1466.20037=ignored")),
        ("", None),
        ("/", None),
        ("/", Some("")),
        ("/", Some("?")),
        ("/", Some("??")),
        ("/", Some("???")),
        ("/", Some("????")),
        ("/", Some("?????")),
        ("/", Some("???,")),
        ("/", Some("???!")),
        ("/", Some("???!=")),
        ("/", Some("???=")),
        ("/", Some("???,,bindname=a,,")),
        ("/", Some("???bindname=a=b=c")),
        ("/", Some("???bindname=a?b")),
        ("/", Some("???!!bindname=a")),
        ("/", Some("cn,,sn")),
        ("/", Some(",")),
        ("/", Some("%63n")),
        ("//", None),
        ("//dc=x", None),
        ("/%2f", None),
        ("/%ff", None),
        ("/dc=x", Some("?base?%ff")),
        ("/dc=x", Some("???x-foo=%ff")),
        ("/dc=x", Some("???!x-foo,bindname=%ff")),
        ("/dc=x", Some("???bindname=%ff,!x-foo")),
        ("/dc=x", Some("?bad?%ff?!x-foo")),
        ("/%ff", Some("?bad")),
    ];
    for (p, q) in corpus {
        out_ref.case(&format!("corpus {} {:?}", p, q), true);
        out_ref.stat("stream.corpus");
        run_url(out_ref, rng, "corpus", p, *q);
    }
    // the documented exception to the environment assumption, as explicit cases
    for p in ["/.", "/..", "/%2e", "/%2E%2e", "/a/../b", "/cn=a/./b", "/./x", "/../.."] {
        out_ref.case(&format!("dotseg {}", p), true);
        out_ref.stat("stream.dot-segment");
        run_url(out_ref, rng, "dotseg", p, None);
    }

    let rounds = if thorough { 400 } else { 50 };
    // ---- structured: every present/omitted pattern, every legal amount of omission, every style
    for round in 0..rounds {
        for pattern in 0u8..16 {
            for &style in STYLES {
                let c = gen_comps(rng, pattern, false, false);
                out_ref.stat(&format!("pattern={:04b}", pattern));
                out_ref.stat("stream.structured");
                structured(out_ref, rng, "wf", style, &c, round % 4 == 0);
            }
        }
    }
    // ---- extension matrix: recognised/unknown x critical/non-critical, duplicates, mixed case
    let names: Vec<String> = {
        let mut v: Vec<String> = vec!["bindname", "BindName", "BINDNAME", "bINDNAMe", "x-bindpw", "X-BindPW", "X-BINDPW", OID_CRED, OID_MECH, OID_TLS].iter().map(|s| s.to_string()).collect();
        v.extend(UNKNOWN_NAMES.iter().map(|s| s.to_string()));
        v
    };
    for name in &names {
        for critical in [false, true] {
            for value in [None, Some(""), Some("v"), Some("a,b=c?d é%")] {
                if kind_of(name) == Some("starttls") && value.is_some() {
                    continue; // probed separately (value is dropped)
                }
                let e = ExtC { name: name.clone(), critical, value: value.map(|v| v.to_string()) };
                if e.name.is_empty() && !e.critical && e.value.is_none() {
                    continue;
                }
                for &style in &[Style::Strict, Style::MinimalLc] {
                    let c = Comps { base: "dc=x".to_string(), attrs: vec![], scope: None, filter: None, exts: vec![e.clone()] };
                    out_ref.stat("stream.ext-matrix");
                    out_ref.stat(&format!("ext.{}.{}", if kind_of(name).is_some() { "recognised" } else { "unknown" }, if critical { "critical" } else { "noncritical" }));
                    structured(out_ref, rng, "ext1", style, &c, true);
                }
            }
        }
    }
    // pairs: every ordered pair of a representative of each class (incl. duplicates of a kind)
    let reps: Vec<(String, bool)> = {
        let mut v = vec![];
        for n in ["bindname", "BINDname", "x-bindpw", "X-bindPW", OID_CRED, OID_MECH, OID_TLS, "x-foo", "1.2.3", ""] {
            for c in [false, true] {
                v.push((n.to_string(), c));
            }
        }
        v
    };
    let mut vi = 0;
    for (n1, c1) in &reps {
        for (n2, c2) in &reps {
            let mk = |n: &String, c: bool, vi: &mut usize| {
                *vi += 1;
                let value = if kind_of(n) == Some("starttls") { None } else { Some(format!("v{}", *vi)) };
                ExtC { name: n.clone(), critical: c, value }
            };
            let e1 = mk(n1, *c1, &mut vi);
            let e2 = mk(n2, *c2, &mut vi);
            if kind_of(n1).is_some() && kind_of(n1) == kind_of(n2) {
                out_ref.stat("ext.duplicate-kind");
            }
            let c = Comps { base: String::new(), attrs: vec![], scope: None, filter: None, exts: vec![e1, e2] };
            out_ref.stat("stream.ext-pairs");
            structured(out_ref, rng, "ext2", Style::Strict, &c, false);
        }
    }
    // random lists with duplicates and unknown critical ones
    for _ in 0..rounds * 25 {
        let pattern = 8 | rng.below(8) as u8;
        let c = gen_comps(rng, pattern, true, true);
        let style = *rng.pick(STYLES);
        let kinds: Vec<_> = c.exts.iter().filter_map(|e| kind_of(&e.name)).collect();
        if (1..kinds.len()).any(|i| kinds[..i].contains(&kinds[i])) {
            out_ref.stat("ext.duplicate-kind");
        }
        if c.exts.iter().any(|e| e.critical && kind_of(&e.name).is_none()) {
            out_ref.stat("ext.has-unknown-critical");
        }
        out_ref.stat("stream.ext-random");
        structured(out_ref, rng, "extn", style, &c, false);
    }
    // ---- invalid scope words
    for _ in 0..rounds {
        for w in BAD_SCOPES {
            let pattern = rng.below(16) as u8;
            let c = gen_comps(rng, pattern, false, false);
            let style = *rng.pick(STYLES);
            let mut case = case_of(style, &c);
            case.scope_txt = w.to_string();
            case.scope_val = None;
            out_ref.case(&format!("badscope {} {} {}", w, style.name(), canon_comps(&c)), true);
            out_ref.stat("stream.bad-scope");
            let keeps = legal_keeps(&case.raw());
            run_case(out_ref, rng, "badscope", &case, &keeps, true);
        }
    }
    // ---- broken / literal / valid percent sequences in base, filter, extension values
    for _ in 0..rounds * 40 {
        let pattern = rng.below(16) as u8;
        let c = gen_comps(rng, pattern, false, true);
        let style = *rng.pick(STYLES);
        let mut case = case_of(style, &c);
        let whr = rng.below(3);
        let kind;
        match whr {
            0 => {
                let (t, v, k) = inject(rng, style, Pos::Dn);
                case.dn_txt = t;
                case.dn_val = v;
                kind = k;
                out_ref.stat("pct.in-base");
            }
            1 => {
                let (mut t, mut v, k) = inject(rng, style, Pos::Filter);
                if t.is_empty() {
                    t = "x".to_string();
                    v = Some(b"x".to_vec());
                }
                case.filter_txt = t;
                case.filter_val = v;
                kind = k;
                out_ref.stat("pct.in-filter");
            }
            _ => {
                let (t, v, k) = inject(rng, style, Pos::Val);
                let name = gen_ext_name(rng);
                let critical = kind_of(&name).is_some() && rng.chance(1, 2);
                let e = ExtT { txt: fmt_ext_raw(critical, &name, Some(&t)), name: name.clone(), critical, val: v };
                let at = rng.below(case.exts.len() as u64 + 1) as usize;
                case.exts.insert(at, e);
                kind = k;
                out_ref.stat(&format!("pct.in-ext-value.{}", kind_of(&name).unwrap_or("unknown")));
            }
        }
        out_ref.stat(&format!("pct.{}", kind));
        let raw = case.raw();
        out_ref.case(&format!("pct {} {:?}", style.name(), raw), true);
        out_ref.stat("stream.percent");
        let keeps = legal_keeps(&raw);
        run_case(out_ref, rng, "pct", &case, &keeps, true);
    }
    // ---- probes of the WFC hypotheses: inputs outside WFC, with the behaviour the Spec comments document
    {
        let base = Comps { base: "dc=x".to_string(), attrs: vec![], scope: None, filter: None, exts: vec![] };
        let probe = |out: &mut Out, rng: &mut Rng, name: &str, f: &dyn Fn(&mut Case)| {
            let mut case = case_of(Style::Strict, &base);
            f(&mut case);
            out.case(&format!("probe {}", name), true);
            out.stat(&format!("probe.{}", name));
            let keeps = legal_keeps(&case.raw());
            run_case(out, rng, &format!("probe.{}", name), &case, &keeps, true);
        };
        // attribute descriptions are NOT percent-decoded
        probe(out_ref, rng, "attr.pct-not-decoded", &|c| {
            c.attrs_txt = "%63n,s%6E".to_string();
            c.attrs_val = vec![b"%63n".to_vec(), b"s%6E".to_vec()];
        });
        // an empty entry of the attribute list is returned as an empty name
        probe(out_ref, rng, "attr.empty-list-entry", &|c| {
            c.attrs_txt = "cn,,sn,".to_string();
            c.attrs_val = vec![b"cn".to_vec(), vec![], b"sn".to_vec(), vec![]];
        });
        // a present-but-empty filter reads as the default filter
        probe(out_ref, rng, "filter.empty", &|c| {
            c.attrs_txt = "cn".to_string();
            c.attrs_val = vec![b"cn".to_vec()];
            c.scope_txt = "one".to_string();
            c.scope_val = Some(1);
            c.filter_txt = String::new();
            c.filter_val = Some(DEFAULT_FILTER.to_vec());
            c.exts = vec![ExtT { txt: "x-foo".to_string(), name: "x-foo".to_string(), critical: false, val: Some(vec![]) }];
        });
        // extension types are NOT percent-decoded: `%62indname` is an unknown extension
        probe(out_ref, rng, "ext.name-pct-not-decoded", &|c| {
            c.exts = vec![ExtT { txt: "%62indname=v".to_string(), name: "%62indname".to_string(), critical: false, val: Some(b"v".to_vec()) }];
        });
        probe(out_ref, rng, "ext.name-pct-not-decoded-critical", &|c| {
            c.exts = vec![ExtT { txt: "!%62indname=v".to_string(), name: "%62indname".to_string(), critical: true, val: Some(b"v".to_vec()) }];
        });
        // a percent-encoded `!` is not a criticality mark
        probe(out_ref, rng, "ext.pct-bang-not-critical", &|c| {
            c.exts = vec![ExtT { txt: "%21x-foo=v".to_string(), name: "%21x-foo".to_string(), critical: false, val: Some(b"v".to_vec()) }];
        });
        // StartTLS with a value: value dropped
        probe(out_ref, rng, "ext.starttls-value-dropped", &|c| {
            c.exts = vec![ExtT { txt: format!("{}=abc", OID_TLS), name: OID_TLS.to_string(), critical: true, val: Some(b"abc".to_vec()) }];
        });
        // a not-UTF-8 value is an error even in an extension that would be ignored, and in StartTLS
        probe(out_ref, rng, "ext.ignored-ext-bad-value-is-error", &|c| {
            c.exts = vec![ExtT { txt: "x-foo=%ff".to_string(), name: "x-foo".to_string(), critical: false, val: None }];
        });
        probe(out_ref, rng, "ext.starttls-bad-value-is-error", &|c| {
            c.exts = vec![ExtT { txt: format!("{}=%ff", OID_TLS), name: OID_TLS.to_string(), critical: false, val: None }];
        });
        // the scope word is matched case-sensitively and not percent-decoded
        probe(out_ref, rng, "scope.uppercase-rejected", &|c| {
            c.scope_txt = "BASE".to_string();
            c.scope_val = None;
        });
    }
    // ---- malformed stream: arbitrary printable text as path and query (model vs code only)
    let nrand = if thorough { 60000 } else { 6000 };
    for _ in 0..nrand {
        let path = format!("/{}", rand_text(rng, 10));
        let query = if rng.chance(1, 8) { None } else { Some(rand_text(rng, 24)) };
        out_ref.case(&format!("rand {} {:?}", path, query), query.is_some());
        out_ref.stat("stream.random-text");
        // through the url crate, which may rewrite it; compare model and code on what it returned
        let s = format!("ldap://host{}{}", path, query.as_ref().map(|q| format!("?{}", q)).unwrap_or_default());
        if let Ok(Ok(url)) = guarded({
            let s = s.clone();
            move || Url::parse(&s)
        }) {
            if url.path() != path || url.query() != query.as_deref() {
                out_ref.stat("random-text.url-crate-rewrote");
            }
            out_ref.r("env.url-text-is-ascii", url.query().unwrap_or("").is_ascii() && url.path().is_ascii(), &short(&s));
            let got = real_outcome(&url);
            out_ref.stat(if got.starts_with("ok") { "outcome.ok" } else if got == "panic" { "outcome.panic" } else { &got });
            out_ref.m(
                &format!("url.params {} {}", hex(url.path().as_bytes()), url.query().map(|q| hex(q.as_bytes())).unwrap_or("none".to_string())),
                &got,
            );
            out_ref.r("url.no-panic", got != "panic", &short(&s));
        } else {
            out_ref.stat("random-text.unparsable");
        }
    }
    out.finish("components from a Unicode-heavy alphabet (? , = % # SP / e-acute G-clef + ! ...), all 16 present/omitted patterns x every legal number of written query fields x 4 percent-encoding styles, extension matrix (recognised/unknown x critical/non-critical x value forms, all ordered pairs incl. duplicate kinds, mixed-case names), invalid scope words, broken/literal/valid percent sequences injected into base, filter and extension values, WFC-hypothesis probes, random printable path/query text; every URL through the real Url::parse; non-trivial = some component needs percent-encoding or an extension is present; distinct by FNV hash of style + components");
}

const RAND_TOKENS: &[&str] = &[
    "?", "?", "?", ",", ",", "=", "!", "%", "%4", "%41", "%c3%a9", "%ff", "%2c", "%3f", "%3d", "%21", "base", "one", "sub", "bindname", "x-bindpw", "BindName", OID_CRED, OID_MECH, OID_TLS, "a", "b", "cn",
    "(", ")", "*", "é", " ", "#", "/", "..", ".", "\\", "+", "x-foo", "1.2", "-", "_", "~", "'", "\"", "&", ";", ":", "@", "[", "]", "𝄞",
];

fn rand_text(rng: &mut Rng, max: u64) -> String {
    let n = rng.below(max + 1);
    let mut s = String::new();
    for _ in 0..n {
        s.push_str(*rng.pick(RAND_TOKENS));
    }
    s
}

//! Lane `sync` (C14): the REAL `LdapConn` / `EntryStream` against the REAL `Ldap` / `SearchStream`.
//!
//! A scripted LDAP server (plain thread on one end of a `UnixStream::pair()`; answers by script: result
//! codes, entries/referrals, paged-results cookies, silence, disconnect) is talked to twice with the same
//! random script of API calls: once through the sync façade (`LdapConn::from_url_with_settings` with
//! `StdStream::Unix`), once through the async API (`LdapConnAsync::from_url_with_settings` on a
//! current-thread runtime, `ldap3::drive!`).  One macro (`exec_op!`) expands to both call sequences, so the
//! two runs differ in nothing but `LdapConn`/`EntryStream` vs `Ldap`/`SearchStream` (+ `.await`).
//! Silence and disconnect are asked for by a marker inside the request (`zzsilent`, `zzdisconnect`), so that they hit
//! exactly the operation the script put a short timeout on / waits for; everything else is scripted by position.
//! Only non-awaiting calls follow an `unbind()`: an awaited call there races with the server's EOF inside the
//! driver's `tokio::select!` (random choice, same in both APIs).  A mismatch must reproduce in 3 attempts.
//!   R  sync.wire     the two wire transcripts (every byte the server received, split into messages) are identical
//!   R  sync.results  the canonical results / errors / stream items / ids are identical, call by call
//!   R  sync.watchdog neither run had to be ended by the server's idle watchdog
//!   M  sync.row <Owner>.<fn>   the lane's own reading of /repo/src/sync.rs = the row of the regenerated Lean table
//!   M  sync.faithful           = true
use crate::fmtx::*;
use crate::lanes::hostile::outer_total;
use crate::out::Out;
use crate::rng::Rng;
use ldap3::adapters::{Adapter, EntriesOnly, PagedResults};
use ldap3::controls::RawControl;
use ldap3::exop::{Exop, WhoAmI};
use ldap3::result::{CompareResult, ExopResult};
use ldap3::{
    DerefAliases, LdapConn, LdapConnAsync, LdapConnSettings, LdapError, LdapResult, Mod, ResultEntry, Scope, SearchOptions,
    SearchResult, StdStream,
};
use std::collections::HashSet;
use std::io::{Read, Write};
use std::os::unix::net::UnixStream;
use std::time::Duration;

/// client timeout used together with a silent server (real time)
const SHORT_MS: u64 = 150;
/// the server gives up on a client that sends nothing for this long (a hung call)
const WATCHDOG: Duration = Duration::from_secs(4);

/* ---------- server script ---------- */

#[derive(Clone, Debug, PartialEq)]
enum End {
    /// final response with this result code; `cookie`: a Paged Results response control with this cookie
    Done { rc: u8, cookie: Option<Vec<u8>>, extra_ctrl: bool },
    Silence,
    Disconnect,
}

/// what the server does with the k-th request that wants a response
#[derive(Clone, Debug, PartialEq)]
struct Beh {
    /// Search only: entries (and one referral) sent first
    entries: u8,
    referral: bool,
    end: End,
}

const OK: Beh = Beh { entries: 0, referral: false, end: End::Done { rc: 0, cookie: None, extra_ctrl: false } };

fn beh_text(b: &Beh) -> String {
    let e = match &b.end {
        End::Done { rc, cookie, extra_ctrl } => format!(
            "rc{}{}{}",
            rc,
            match cookie { Some(c) => format!("+cookie:{}", hex(c)), None => String::new() },
            if *extra_ctrl { "+ctrl" } else { "" }
        ),
        End::Silence => String::from("silence"),
        End::Disconnect => String::from("disconnect"),
    };
    if b.entries > 0 || b.referral { format!("{}e{}{}", b.entries, if b.referral { "+ref," } else { "," }, e) } else { e }
}

fn t(tag: u8, content: &[u8]) -> Vec<u8> {
    let mut v = vec![tag];
    let n = content.len();
    if n < 128 {
        v.push(n as u8);
    } else if n < 256 {
        v.extend([0x81, n as u8]);
    } else {
        v.extend([0x82, (n >> 8) as u8, n as u8]);
    }
    v.extend_from_slice(content);
    v
}

fn cat(parts: &[Vec<u8>]) -> Vec<u8> {
    parts.concat()
}

fn ldap_result(rc: u8) -> Vec<u8> {
    let (m, tx): (&[u8], String) = if rc == 0 { (b"", String::new()) } else { (b"dc=matched", format!("diagnostic {}", rc)) };
    let mut v = cat(&[t(0x0a, &[rc]), t(0x04, m), t(0x04, tx.as_bytes())]);
    if rc == 10 {
        v.extend(t(0xa3, &cat(&[t(0x04, b"ldap://a.example/dc=r"), t(0x04, b"ldap://b.example/")])));
    }
    v
}

fn resp_ctrls(cookie: &Option<Vec<u8>>, extra: bool) -> Option<Vec<u8>> {
    let mut cs = vec![];
    if extra {
        cs.push(t(0x30, &cat(&[t(0x04, b"1.3.6.1.4.1.99999.1"), t(0x01, &[0xff]), t(0x04, b"\x00val")])));
    }
    if let Some(c) = cookie {
        let val = t(0x30, &cat(&[t(0x02, &[0]), t(0x04, c)]));
        cs.push(t(0x30, &cat(&[t(0x04, b"1.2.840.113556.1.4.319"), t(0x04, &val)])));
    }
    if cs.is_empty() { None } else { Some(t(0xa0, &cs.concat())) }
}

fn envelope(idtlv: &[u8], op: Vec<u8>, ctrls: Option<Vec<u8>>) -> Vec<u8> {
    let mut body = idtlv.to_vec();
    body.extend(op);
    if let Some(c) = ctrls {
        body.extend(c);
    }
    t(0x30, &body)
}

pub struct Served {
    msgs: Vec<Vec<u8>>,
    watchdog: bool,
    used: usize,
    silenced: usize,
}

/// a request containing these bytes gets its entries (if it is a Search) but never a final response
const SILENT: &[u8] = b"zzsilent";
/// a request containing these bytes gets its entries (if it is a Search), then the server closes the connection.
/// (Asked for by the request and not by position, like silence: the generator makes the client WAIT for the end of
/// exactly this operation.  A disconnect the client does not wait for races with its next call inside the driver's
/// `tokio::select!`, which picks at random between "new operation" and "EOF" -- in both APIs alike.)
const DISCONNECT: &[u8] = b"zzdisconnect";

/// the scripted server: returns every message received
fn serve(mut sock: UnixStream, behs: Vec<Beh>) -> Served {
    let _ = sock.set_read_timeout(Some(WATCHDOG));
    let mut acc: Vec<u8> = vec![];
    let mut out = Served { msgs: vec![], watchdog: false, used: 0, silenced: 0 };
    let mut buf = vec![0u8; 1 << 16];
    let mut n_search = 0u32;
    'conn: loop {
        let n = match sock.read(&mut buf) {
            Ok(0) => break,
            Ok(n) => n,
            Err(e) if e.kind() == std::io::ErrorKind::WouldBlock || e.kind() == std::io::ErrorKind::TimedOut => {
                out.watchdog = true;
                break;
            }
            Err(_) => break,
        };
        acc.extend_from_slice(&buf[..n]);
        while let Some(total) = outer_total(&acc) {
            if acc.len() < total {
                break;
            }
            let msg: Vec<u8> = acc.drain(..total).collect();
            let hdr = if msg[1] < 0x80 { 2 } else { 2 + (msg[1] & 0x7f) as usize };
            let idlen = msg[hdr + 1] as usize;
            let idtlv = msg[hdr..hdr + 2 + idlen].to_vec();
            let op = msg[hdr + 2 + idlen];
            out.msgs.push(msg);
            let resp_tag = match op {
                0x60 => 0x61,
                0x63 => 0x65,
                0x66 => 0x67,
                0x68 => 0x69,
                0x4a => 0x6b,
                0x6c => 0x6d,
                0x6e => 0x6f,
                0x77 => 0x78,
                _ => continue, // Unbind, Abandon, anything else: no response, no behaviour used up
            };
            let mut beh = behs.get(out.used).cloned().unwrap_or(OK);
            out.used += 1;
            // silence is asked for by the request itself (a marker in its DN / base / value), not by position: the
            // operation it hits is then certainly the one the client put a short timeout on
            if out.msgs.last().map(|m| m.windows(SILENT.len()).any(|w| w == SILENT)).unwrap_or(false) {
                beh.end = End::Silence;
                out.silenced += 1;
            }
            if out.msgs.last().map(|m| m.windows(DISCONNECT.len()).any(|w| w == DISCONNECT)).unwrap_or(false) {
                beh.end = End::Disconnect;
            }
            let mut bytes = vec![];
            if op == 0x63 {
                n_search += 1;
                for i in 0..beh.entries {
                    let dn = format!("cn=e{},ou=s{},dc=example", i, n_search);
                    let attrs = cat(&[
                        t(0x30, &cat(&[t(0x04, b"cn"), t(0x31, &t(0x04, format!("e{}", i).as_bytes()))])),
                        t(0x30, &cat(&[t(0x04, b"jpegPhoto;binary"), t(0x31, &cat(&[t(0x04, &[0xff, 0x00, i]), t(0x04, b"")]))])),
                    ]);
                    bytes.extend(envelope(&idtlv, t(0x64, &cat(&[t(0x04, dn.as_bytes()), t(0x30, &attrs)])), None));
                    if beh.referral && i == 0 {
                        bytes.extend(envelope(&idtlv, t(0x73, &t(0x04, b"ldap://ref.example/dc=x??sub")), None));
                    }
                }
                if beh.referral && beh.entries == 0 {
                    bytes.extend(envelope(&idtlv, t(0x73, &t(0x04, b"ldap://ref.example/dc=x??sub")), None));
                }
            }
            match &beh.end {
                End::Done { rc, cookie, extra_ctrl } => {
                    let mut body = ldap_result(*rc);
                    if op == 0x77 && *rc == 0 {
                        body.extend(t(0x8b, b"dn:cn=who,dc=example"));
                    }
                    bytes.extend(envelope(&idtlv, t(resp_tag, &body), resp_ctrls(cookie, *extra_ctrl)));
                    // a client that has gone away (unbind + close while answers are still on their way) is no reason
                    // to stop recording what it sent
                    let _ = sock.write_all(&bytes);
                }
                End::Silence => {
                    let _ = sock.write_all(&bytes);
                }
                End::Disconnect => {
                    let _ = sock.write_all(&bytes);
                    break 'conn;
                }
            }
        }
    }
    let _ = sock.shutdown(std::net::Shutdown::Both);
    if !acc.is_empty() {
        out.msgs.push(acc);
    }
    out
}

/* ---------- client script ---------- */

#[derive(Clone, Debug)]
struct RC {
    oid: String,
    crit: bool,
    val: Option<Vec<u8>>,
}

#[derive(Clone, Debug)]
struct Opts {
    deref: u8,
    types_only: bool,
    time: i32,
    size: i32,
}

#[derive(Clone, Debug)]
struct Srch {
    base: String,
    scope: u8,
    filter: String,
    attrs: Vec<String>,
}

#[derive(Clone, Debug)]
enum Ad {
    /// `streaming_search`
    Plain,
    /// `streaming_search_with(EntriesOnly::new(), …)`
    Entries,
    /// `streaming_search_with(PagedResults::new(n), …)`
    Paged(i32),
    /// `streaming_search_with(vec![Box EntriesOnly, Box PagedResults(n)], …)`: the `Vec` instance of `IntoAdapterVec`
    Chain(i32),
    /// `streaming_search_with(vec![], …)`
    Empty,
}

#[derive(Clone, Debug)]
enum Act {
    Next,
    LastId,
}

#[derive(Clone, Debug)]
enum AbId {
    Last,
    Fixed(i32),
}

#[derive(Clone, Debug)]
enum Op {
    Wc(Vec<RC>),
    Wt(u64),
    Wo(Opts),
    Bind { dn: String, pw: String },
    SaslExt,
    Search(Srch),
    Stream { s: Srch, ad: Ad, acts: Vec<Act>, finish: bool },
    Add { dn: String, attrs: Vec<(Vec<u8>, Vec<Vec<u8>>)> },
    Compare { dn: String, attr: String, val: Vec<u8> },
    Delete { dn: String },
    Modify { dn: String, mods: Vec<(u8, Vec<u8>, Vec<Vec<u8>>)> },
    ModDn { dn: String, rdn: String, del: bool, sup: Option<String> },
    WhoAmI,
    Exop { name: String, val: Option<Vec<u8>> },
    Abandon(AbId),
    Unbind,
    IsClosed,
    LastId,
    PeerCert,
}

fn vals_text(vs: &[Vec<u8>]) -> String {
    vs.iter().map(|v| hex(v)).collect::<Vec<_>>().join(",")
}

fn srch_text(s: &Srch) -> String {
    format!("{:?} {} {:?} {:?}", s.base, s.scope, s.filter, s.attrs)
}

fn op_text(o: &Op) -> String {
    match o {
        Op::Wc(cs) => format!(
            "with_controls[{}]",
            cs.iter().map(|c| format!("{}:{}:{}", c.oid, c.crit as u8, c.val.as_ref().map(|v| hex(v)).unwrap_or(String::from("none")))).collect::<Vec<_>>().join(",")
        ),
        Op::Wt(ms) => format!("with_timeout({}ms)", ms),
        Op::Wo(o) => format!("with_search_options({},{},{},{})", o.deref, o.types_only as u8, o.time, o.size),
        Op::Bind { dn, pw } => format!("simple_bind({:?},{:?})", dn, pw),
        Op::SaslExt => String::from("sasl_external_bind()"),
        Op::Search(s) => format!("search({})", srch_text(s)),
        Op::Stream { s, ad, acts, finish } => format!(
            "streaming_search[{:?}]({}){{{}{}}}",
            ad,
            srch_text(s),
            acts.iter().map(|a| match a { Act::Next => "next", Act::LastId => "last_id" }).collect::<Vec<_>>().join(","),
            if *finish { ";finish" } else { ";drop" }
        ),
        Op::Add { dn, attrs } => format!("add({:?},[{}])", dn, attrs.iter().map(|(n, vs)| format!("{}={}", hex(n), vals_text(vs))).collect::<Vec<_>>().join(";")),
        Op::Compare { dn, attr, val } => format!("compare({:?},{:?},{})", dn, attr, hex(val)),
        Op::Delete { dn } => format!("delete({:?})", dn),
        Op::Modify { dn, mods } => format!("modify({:?},[{}])", dn, mods.iter().map(|(k, n, vs)| format!("{}:{}={}", k, hex(n), vals_text(vs))).collect::<Vec<_>>().join(";")),
        Op::ModDn { dn, rdn, del, sup } => format!("modifydn({:?},{:?},{},{:?})", dn, rdn, del, sup),
        Op::WhoAmI => String::from("extended(WhoAmI)"),
        Op::Exop { name, val } => format!("extended({:?},{})", name, val.as_ref().map(|v| hex(v)).unwrap_or(String::from("none"))),
        Op::Abandon(AbId::Last) => String::from("abandon(last_id())"),
        Op::Abandon(AbId::Fixed(i)) => format!("abandon({})", i),
        Op::Unbind => String::from("unbind()"),
        Op::IsClosed => String::from("is_closed()"),
        Op::LastId => String::from("last_id()"),
        Op::PeerCert => String::from("get_peer_certificate()"),
    }
}

fn op_kind(o: &Op) -> &'static str {
    match o {
        Op::Wc(_) => "with_controls",
        Op::Wt(_) => "with_timeout",
        Op::Wo(_) => "with_search_options",
        Op::Bind { .. } => "simple_bind",
        Op::SaslExt => "sasl_external_bind",
        Op::Search(_) => "search",
        Op::Stream { ad: Ad::Plain, .. } => "streaming_search",
        Op::Stream { ad: Ad::Entries, .. } => "streaming_search_with(EntriesOnly)",
        Op::Stream { ad: Ad::Paged(_), .. } => "streaming_search_with(PagedResults)",
        Op::Stream { ad: Ad::Chain(_), .. } => "streaming_search_with(vec![EntriesOnly,PagedResults])",
        Op::Stream { ad: Ad::Empty, .. } => "streaming_search_with(vec![])",
        Op::Add { .. } => "add",
        Op::Compare { .. } => "compare",
        Op::Delete { .. } => "delete",
        Op::Modify { .. } => "modify",
        Op::ModDn { .. } => "modifydn",
        Op::WhoAmI | Op::Exop { .. } => "extended",
        Op::Abandon(_) => "abandon",
        Op::Unbind => "unbind",
        Op::IsClosed => "is_closed",
        Op::LastId => "last_id",
        Op::PeerCert => "get_peer_certificate",
    }
}

/* ---------- canonical results ---------- */

fn err_text(e: &LdapError) -> String {
    let d = format!("{:?}", e);
    let word = d.split(|c: char| !c.is_alphanumeric()).next().unwrap_or("?").to_string();
    match e {
        LdapError::Io { source } => format!("err:Io:{:?}", source.kind()),
        LdapError::LdapResult { result } => format!("err:LdapResult:{}", result.rc),
        _ => format!("err:{}", word),
    }
}

fn res_text(r: &LdapResult) -> String {
    format!(
        "rc={} m={:?} t={:?} refs={:?} ctrls=[{}]",
        r.rc,
        r.matched,
        r.text,
        r.refs,
        r.ctrls.iter().map(|c| format!("{:?}/{}:{}:{}", c.0, c.1.ctype, c.1.crit as u8, c.1.val.as_ref().map(|v| hex(v)).unwrap_or(String::from("none")))).collect::<Vec<_>>().join(",")
    )
}

fn entry_text(e: &ResultEntry) -> String {
    format!("{}#{}", tlv(&e.0), e.1.len())
}

fn lres(r: Result<LdapResult, LdapError>) -> String {
    match r {
        Ok(r) => res_text(&r),
        Err(e) => err_text(&e),
    }
}

fn cres(r: Result<CompareResult, LdapError>) -> String {
    lres(r.map(|c| c.0))
}

fn xres(r: Result<ExopResult, LdapError>) -> String {
    match r {
        Ok(ExopResult(x, r)) => format!("exop={:?}/{} {}", x.name, x.val.as_ref().map(|v| hex(v)).unwrap_or(String::from("none")), res_text(&r)),
        Err(e) => err_text(&e),
    }
}

fn sres(r: Result<SearchResult, LdapError>) -> String {
    match r {
        Ok(SearchResult(es, r)) => format!("entries=[{}] {}", es.iter().map(entry_text).collect::<Vec<_>>().join(";"), res_text(&r)),
        Err(e) => err_text(&e),
    }
}

fn ures(r: Result<(), LdapError>) -> String {
    match r {
        Ok(()) => String::from("ok"),
        Err(e) => err_text(&e),
    }
}

fn next_text(r: Result<Option<ResultEntry>, LdapError>) -> String {
    match r {
        Ok(Some(e)) => format!("item:{}", entry_text(&e)),
        Ok(None) => String::from("end"),
        Err(e) => err_text(&e),
    }
}

fn cert_text(r: Result<Option<Vec<u8>>, LdapError>) -> String {
    match r {
        Ok(Some(c)) => format!("cert:{}", hex(&c)),
        Ok(None) => String::from("no-cert"),
        Err(e) => err_text(&e),
    }
}

/* ---------- arguments ---------- */

fn raw(c: &RC) -> RawControl {
    RawControl { ctype: c.oid.clone(), crit: c.crit, val: c.val.clone() }
}

fn scope_of(n: u8) -> Scope {
    match n {
        0 => Scope::Base,
        1 => Scope::OneLevel,
        _ => Scope::Subtree,
    }
}

fn sopts(o: &Opts) -> SearchOptions {
    let d = match o.deref {
        0 => DerefAliases::Never,
        1 => DerefAliases::Searching,
        2 => DerefAliases::Finding,
        _ => DerefAliases::Always,
    };
    SearchOptions::new().deref(d).typesonly(o.types_only).timelimit(o.time).sizelimit(o.size)
}

fn add_arg(attrs: &[(Vec<u8>, Vec<Vec<u8>>)]) -> Vec<(Vec<u8>, HashSet<Vec<u8>>)> {
    attrs.iter().map(|(n, vs)| (n.clone(), vs.iter().cloned().collect())).collect()
}

fn mod_arg(mods: &[(u8, Vec<u8>, Vec<Vec<u8>>)]) -> Vec<Mod<Vec<u8>>> {
    mods.iter()
        .map(|(k, n, vs)| {
            let set: HashSet<Vec<u8>> = vs.iter().cloned().collect();
            match k {
                0 => Mod::Add(n.clone(), set),
                1 => Mod::Delete(n.clone(), set),
                2 => Mod::Replace(n.clone(), set),
                _ => Mod::Increment(n.clone(), vs.first().cloned().unwrap_or_default()),
            }
        })
        .collect()
}

type Chain<'a> = Vec<Box<dyn Adapter<'a, String, Vec<String>> + 'a>>;

fn chain<'a>(n: i32) -> Chain<'a> {
    vec![Box::new(EntriesOnly::new()), Box::new(PagedResults::new(n))]
}

fn no_adapters<'a>() -> Chain<'a> {
    vec![]
}

/* ---------- ONE definition of "run this call", expanded for both APIs ---------- */

macro_rules! sync_finish { ($st:ident) => { $st.result() }; }
macro_rules! async_finish { ($st:ident) => { $st.finish().await }; }
macro_rules! sync_stream_id { ($st:ident) => { $st.last_id() }; }
macro_rules! async_stream_id { ($st:ident) => { $st.ldap_handle().last_id() }; }

macro_rules! exec_op {
    ($h:ident, $op:expr, [$($aw:tt)*], $finish:ident, $stream_id:ident) => {
        match $op {
            Op::Wc(cs) => {
                if cs.len() == 1 && cs[0].val.is_none() {
                    $h.with_controls(raw(&cs[0])); // the single-control form of IntoRawControlVec
                } else {
                    $h.with_controls(cs.iter().map(raw).collect::<Vec<_>>());
                }
                String::from("-")
            }
            Op::Wt(ms) => {
                $h.with_timeout(Duration::from_millis(*ms));
                String::from("-")
            }
            Op::Wo(o) => {
                $h.with_search_options(sopts(o));
                String::from("-")
            }
            Op::Bind { dn, pw } => lres($h.simple_bind(dn, pw)$($aw)*),
            Op::SaslExt => lres($h.sasl_external_bind()$($aw)*),
            Op::Search(s) => sres($h.search(&s.base, scope_of(s.scope), &s.filter, s.attrs.clone())$($aw)*),
            Op::Stream { s, ad, acts, finish } => {
                let (b, sc, f, at) = (s.base.as_str(), scope_of(s.scope), s.filter.as_str(), s.attrs.clone());
                let opened = match ad {
                    Ad::Plain => $h.streaming_search(b, sc, f, at)$($aw)*,
                    Ad::Entries => $h.streaming_search_with(EntriesOnly::new(), b, sc, f, at)$($aw)*,
                    Ad::Paged(n) => $h.streaming_search_with(PagedResults::new(*n), b, sc, f, at)$($aw)*,
                    Ad::Chain(n) => $h.streaming_search_with(chain(*n), b, sc, f, at)$($aw)*,
                    Ad::Empty => $h.streaming_search_with(no_adapters(), b, sc, f, at)$($aw)*,
                };
                match opened {
                    Err(e) => format!("open:{}", err_text(&e)),
                    Ok(mut st) => {
                        let mut items = vec![String::from("open:ok")];
                        for a in acts {
                            match a {
                                Act::Next => items.push(next_text(st.next()$($aw)*)),
                                Act::LastId => items.push(format!("id={}", $stream_id!(st))),
                            }
                        }
                        if *finish {
                            let r = $finish!(st);
                            items.push(format!("finish:{}", res_text(&r)));
                        } else {
                            drop(st);
                            items.push(String::from("dropped"));
                        }
                        items.join(" ; ")
                    }
                }
            }
            Op::Add { dn, attrs } => lres($h.add(dn, add_arg(attrs))$($aw)*),
            Op::Compare { dn, attr, val } => cres($h.compare(dn, attr, val.clone())$($aw)*),
            Op::Delete { dn } => lres($h.delete(dn)$($aw)*),
            Op::Modify { dn, mods } => lres($h.modify(dn, mod_arg(mods))$($aw)*),
            Op::ModDn { dn, rdn, del, sup } => lres($h.modifydn(dn, rdn, *del, sup.as_deref())$($aw)*),
            Op::WhoAmI => xres($h.extended(WhoAmI)$($aw)*),
            Op::Exop { name, val } => xres($h.extended(Exop { name: Some(name.clone()), val: val.clone() })$($aw)*),
            Op::Abandon(AbId::Last) => {
                let id = $h.last_id();
                format!("id={} {}", id, ures($h.abandon(id)$($aw)*))
            }
            Op::Abandon(AbId::Fixed(i)) => ures($h.abandon(*i)$($aw)*),
            Op::Unbind => ures($h.unbind()$($aw)*),
            Op::IsClosed => format!("closed={}", $h.is_closed()),
            Op::LastId => format!("id={}", $h.last_id()),
            Op::PeerCert => cert_text($h.get_peer_certificate()$($aw)*),
        }
    };
}

pub struct Obs {
    results: Vec<String>,
    served: Served,
}

fn the_url() -> url::Url {
    url::Url::parse("ldapi://ignored").expect("url")
}

fn run_sync(script: &[Op], behs: &[Beh]) -> Result<Obs, String> {
    let (client, server) = UnixStream::pair().map_err(|e| e.to_string())?;
    let behs = behs.to_vec();
    let srv = std::thread::spawn(move || serve(server, behs));
    let settings = LdapConnSettings::new().set_std_stream(StdStream::Unix(client));
    let mut conn = LdapConn::from_url_with_settings(settings, &the_url()).map_err(|e| format!("sync connect: {:?}", e))?;
    let mut results = vec![];
    for op in script {
        let h = &mut conn;
        results.push(exec_op!(h, op, [], sync_finish, sync_stream_id));
    }
    drop(conn);
    let served = srv.join().map_err(|_| String::from("server thread panicked"))?;
    Ok(Obs { results, served })
}

fn run_async(script: &[Op], behs: &[Beh]) -> Result<Obs, String> {
    let (client, server) = UnixStream::pair().map_err(|e| e.to_string())?;
    let behs = behs.to_vec();
    let srv = std::thread::spawn(move || serve(server, behs));
    let rt = tokio::runtime::Builder::new_current_thread().enable_all().build().map_err(|e| e.to_string())?;
    let results = rt.block_on(async {
        let settings = LdapConnSettings::new().set_std_stream(StdStream::Unix(client));
        let (conn, mut ldap) = LdapConnAsync::from_url_with_settings(settings, &the_url()).await.map_err(|e| format!("async connect: {:?}", e))?;
        ldap3::drive!(conn);
        let mut results = vec![];
        for op in script {
            let h = &mut ldap;
            results.push(exec_op!(h, op, [.await], async_finish, async_stream_id));
        }
        Ok::<_, String>(results)
    });
    drop(rt);
    let served = srv.join().map_err(|_| String::from("server thread panicked"))?;
    Ok(Obs { results: results?, served })
}

/* ---------- generators ---------- */

const FILTERS: &[&str] = &["(objectClass=*)", "(cn=abc)", "(&(a=b)(!(c=d)))", "(|(cn=a*b*c)(sn>=x))", "(cn=\\2a\\00\\ff)", "(uid:dn:caseIgnoreMatch:=x)"];
const BAD_FILTERS: &[&str] = &["(", "(cn=a", "", "(cn)"];
const RCS: &[u8] = &[1, 2, 3, 4, 5, 6, 7, 10, 11, 16, 19, 20, 21, 32, 34, 48, 49, 50, 51, 52, 53, 64, 65, 68, 80, 118, 120];

fn gen_str(rng: &mut Rng) -> String {
    match rng.below(12) {
        0 => String::new(),
        1 => String::from("cn=\u{e9}\u{1d11e},dc=x"),
        2 => String::from_utf8(crate::gen::utf8_string(rng, 10)).unwrap_or_default(),
        _ => format!("cn=u{},ou=p{},dc=example,dc=org", rng.below(1000), rng.below(10)),
    }
}

fn gen_bytes(rng: &mut Rng) -> Vec<u8> {
    match rng.below(8) {
        0 => vec![],
        1 => vec![0],
        2 => vec![0xff, 0xfe, 0x80],
        3 => vec![b'x'; 300],
        _ => rng.bytes_below(12),
    }
}

fn gen_ctrls(rng: &mut Rng) -> Vec<RC> {
    let n = rng.below(4) as usize;
    (0..n)
        .map(|_| RC {
            oid: if rng.chance(1, 8) { String::from("1.2.840.113556.1.4.319") } else { format!("1.3.6.1.4.1.{}.{}", rng.below(70000), rng.below(9)) },
            crit: rng.chance(1, 2),
            val: if rng.chance(1, 2) { Some(gen_bytes(rng)) } else { None },
        })
        .collect()
}

fn gen_srch(rng: &mut Rng) -> Srch {
    Srch {
        base: gen_str(rng),
        scope: rng.below(3) as u8,
        filter: if rng.chance(1, 15) { rng.pick(BAD_FILTERS).to_string() } else { rng.pick(FILTERS).to_string() },
        attrs: (0..rng.below(3)).map(|i| if rng.chance(1, 4) { String::from("*") } else { format!("attr{}", i) }).collect(),
    }
}

/// put the silence marker into the request; false if the operation has no place for it
fn mark(op: &mut Op, marker: &[u8]) -> bool {
    let m = |s: &mut String| { *s = format!("o={},{}", std::str::from_utf8(marker).unwrap(), s); true };
    match op {
        Op::Bind { dn, .. } | Op::Add { dn, .. } | Op::Compare { dn, .. } | Op::Delete { dn } | Op::Modify { dn, .. } | Op::ModDn { dn, .. } => m(dn),
        Op::Search(s) | Op::Stream { s, .. } => m(&mut s.base),
        Op::Exop { val, .. } => { *val = Some(marker.to_vec()); true }
        _ => false,
    }
}

/// how one request ends (silence is not scripted by position: see `mark_silent`)
fn gen_end(rng: &mut Rng, _silent: bool, cookie: Option<Vec<u8>>) -> End {
    match rng.below(40) {
        0..=7 => End::Done { rc: *rng.pick(RCS), cookie: None, extra_ctrl: rng.chance(1, 3) },
        _ => End::Done { rc: 0, cookie, extra_ctrl: rng.chance(1, 8) },
    }
}

fn gen_search_beh(rng: &mut Rng, silent: bool, cookie: Option<Vec<u8>>) -> Beh {
    Beh { entries: *rng.pick(&[0u8, 0, 1, 1, 2, 3, 5]), referral: rng.chance(1, 6), end: gen_end(rng, silent, cookie) }
}

/// a script and the server's behaviour; `n_silent`: operations that run into the client timeout
fn gen_script(rng: &mut Rng, allow_silence: bool) -> (Vec<Op>, Vec<Beh>, usize) {
    let n = rng.range(1, 12) as usize;
    let mut ops = vec![];
    let mut behs = vec![];
    let mut n_silent = 0;
    let mut disconnected = false;
    let mut unbound = false;
    while ops.len() < n {
        let last = ops.len() + 1 >= n;
        if unbound {
            // An awaited call after `unbind` races with the server's EOF inside the driver's `tokio::select!` (OpSend or
            // ResultRecv, at random, in both APIs): only calls that do not touch the runtime follow an Unbind.
            ops.push(match rng.below(4) { 0 => Op::IsClosed, 1 => Op::LastId, 2 => Op::Wc(gen_ctrls(rng)), _ => Op::Wt(1000) });
            continue;
        }
        match rng.below(30) {
            0..=2 => { ops.push(Op::Wc(gen_ctrls(rng))); continue; }
            3 => { ops.push(Op::Wt(60_000 + rng.below(1000) * 1000)); continue; }
            4..=5 => { ops.push(Op::Wo(Opts { deref: rng.below(4) as u8, types_only: rng.chance(1, 2), time: *rng.pick(&[0, 1, 30, 2147483647]), size: *rng.pick(&[0, 1, 500, 65536]) })); continue; }
            6 => { ops.push(Op::IsClosed); continue; }
            7 => { ops.push(Op::LastId); continue; }
            8 => { ops.push(if rng.chance(1, 3) { Op::PeerCert } else { Op::Abandon(if rng.chance(1, 2) { AbId::Last } else { AbId::Fixed(*rng.pick(&[0, 1, 2, 77, -1, 2147483647])) }) }); continue; }
            9 => { if last || rng.chance(1, 4) { ops.push(Op::Unbind); unbound = true; } else { ops.push(Op::IsClosed); } continue; }
            _ => {}
        }

        // an operation that expects an answer
        let silent = allow_silence && n_silent == 0 && rng.chance(1, 14);
        if silent {
            n_silent += 1;
            ops.push(Op::Wt(SHORT_MS));
            if rng.chance(1, 3) {
                ops.push(Op::Wc(gen_ctrls(rng)));
            }
        }
        let single = |rng: &mut Rng, behs: &mut Vec<Beh>| behs.push(Beh { entries: 0, referral: false, end: gen_end(rng, silent, None) });
        match rng.below(22) {
            0..=1 => { single(rng, &mut behs); ops.push(Op::Bind { dn: gen_str(rng), pw: gen_str(rng) }); }
            2 => { single(rng, &mut behs); ops.push(Op::SaslExt); }
            3..=5 => {
                let s = gen_srch(rng);
                if !BAD_FILTERS.contains(&s.filter.as_str()) {
                    behs.push(gen_search_beh(rng, silent, None));
                }
                ops.push(Op::Search(s));
            }
            6..=11 => {
                let s = gen_srch(rng);
                let ad = match rng.below(9) {
                    0..=2 => Ad::Plain,
                    3..=4 => Ad::Entries,
                    5..=6 => Ad::Paged(*rng.pick(&[1, 2, 100])),
                    7 => Ad::Chain(*rng.pick(&[1, 3])),
                    _ => Ad::Empty,
                };
                let mut total = 0usize;
                if !BAD_FILTERS.contains(&s.filter.as_str()) {
                    let pages = if matches!(ad, Ad::Paged(_) | Ad::Chain(_)) { rng.range(1, 3) } else { 1 };
                    for p in 0..pages {
                        let cookie = if matches!(ad, Ad::Paged(_) | Ad::Chain(_)) {
                            if p + 1 < pages { Some(vec![b'c', p as u8 + 1]) } else if rng.chance(1, 2) { Some(vec![]) } else { None }
                        } else if rng.chance(1, 10) { Some(vec![9, 9]) } else { None };
                        let b = gen_search_beh(rng, silent, cookie);
                        total += b.entries as usize + b.referral as usize + 1;
                        let stop = !matches!(b.end, End::Done { rc: 0, .. });
                        behs.push(b);
                        if stop {
                            break;
                        }
                    }
                }
                let want = match rng.below(4) { 0 => rng.below(total as u64 + 1) as usize, _ => total + rng.below(3) as usize };
                let mut acts = vec![];
                for _ in 0..want {
                    if rng.chance(1, 6) {
                        acts.push(Act::LastId);
                    }
                    acts.push(Act::Next);
                }
                if rng.chance(1, 4) {
                    acts.push(Act::LastId);
                }
                ops.push(Op::Stream { s, ad, acts, finish: rng.chance(5, 6) });
            }
            12..=13 => {
                let attrs: Vec<(Vec<u8>, Vec<Vec<u8>>)> = (0..rng.below(4)).map(|i| (format!("a{}", i).into_bytes(), if rng.chance(1, 10) { vec![] } else { vec![gen_bytes(rng)] })).collect();
                if attrs.iter().all(|(_, vs)| !vs.is_empty()) {
                    single(rng, &mut behs);
                }
                ops.push(Op::Add { dn: gen_str(rng), attrs });
            }
            14 => { single(rng, &mut behs); ops.push(Op::Compare { dn: gen_str(rng), attr: String::from("cn"), val: gen_bytes(rng) }); if let Some(Beh { end: End::Done { rc, .. }, .. }) = behs.last_mut() { if *rc == 0 { *rc = *rng.pick(&[5, 6]); } } }
            15..=16 => { single(rng, &mut behs); ops.push(Op::Delete { dn: gen_str(rng) }); }
            17..=18 => {
                let mods: Vec<(u8, Vec<u8>, Vec<Vec<u8>>)> = (0..rng.below(4))
                    .map(|i| {
                        let k = rng.below(4) as u8;
                        let vs = if k == 3 || rng.chance(4, 5) { vec![gen_bytes(rng)] } else { vec![] };
                        (k, format!("m{}", i).into_bytes(), vs)
                    })
                    .collect();
                if mods.iter().all(|(k, _, vs)| *k != 0 || !vs.is_empty()) {
                    single(rng, &mut behs);
                }
                ops.push(Op::Modify { dn: gen_str(rng), mods });
            }
            19 => { single(rng, &mut behs); ops.push(Op::ModDn { dn: gen_str(rng), rdn: format!("cn=n{}", rng.below(100)), del: rng.chance(1, 2), sup: if rng.chance(1, 2) { Some(gen_str(rng)) } else { None } }); }
            _ => {
                single(rng, &mut behs);
                ops.push(if rng.chance(2, 3) { Op::WhoAmI } else { Op::Exop { name: format!("1.3.6.1.4.1.4203.1.11.{}", rng.below(9)), val: if rng.chance(1, 2) { Some(gen_bytes(rng)) } else { None } } });
            }
        }
        if silent {
            if let Some(op) = ops.last_mut() {
                mark(op, SILENT);
            }
        } else if !disconnected && rng.chance(1, 25) {
            if let Some(op) = ops.last_mut() {
                if mark(op, DISCONNECT) {
                    disconnected = true;
                    // the client reads the stream to its (bitter) end
                    if let Op::Stream { acts, finish, .. } = op {
                        *acts = vec![Act::Next; 9];
                        *finish = true;
                    }
                }
            }
        }
    }
    (ops, behs, n_silent)
}

/* ---------- comparing ---------- */

fn wire_text(msgs: &[Vec<u8>]) -> String {
    msgs.iter().map(|m| hex(m)).collect::<Vec<_>>().join(" ")
}

fn short(s: &str) -> String {
    if s.len() > 400 {
        let mut cut = 400;
        while !s.is_char_boundary(cut) {
            cut -= 1;
        }
        format!("{}…({} chars)", &s[..cut], s.len())
    } else {
        s.to_string()
    }
}

fn first_diff(a: &[String], b: &[String]) -> String {
    for (i, (x, y)) in a.iter().zip(b.iter()).enumerate() {
        if x != y {
            return format!("call {}: sync `{}` async `{}`", i, short(x), short(y));
        }
    }
    format!("lengths {} vs {}", a.len(), b.len())
}

fn case(out: &mut Out, label: &str, ops: &[Op], behs: &[Beh], n_silent: usize) {
    let text = format!("{} || server: {}", ops.iter().map(op_text).collect::<Vec<_>>().join(" ; "), behs.iter().map(beh_text).collect::<Vec<_>>().join(" "));
    let text = text.replace('\t', " ");
    let desc = short(&text);
    out.stat(&format!("{}.len{:02}", label, ops.len()));
    for o in ops {
        out.stat(&format!("call.{}", op_kind(o)));
    }
    for b in behs {
        out.stat(&format!("server.{}", match &b.end { End::Done { rc: 0, .. } => "success", End::Done { .. } => "error-code", End::Silence => "silence", End::Disconnect => "disconnect" }));
    }
    let mut attempt = 0;
    loop {
        attempt += 1;
        let s = run_sync(ops, behs);
        let a = run_async(ops, behs);
        let (s, a) = match (s, a) {
            (Ok(s), Ok(a)) => (s, a),
            (s, a) => {
                out.case(&text, false);
                out.r(&format!("sync.completes {}", desc), false, &format!("sync: {:?} async: {:?}", s.err(), a.err()));
                return;
            }
        };
        let wire_ok = s.served.msgs == a.served.msgs;
        let res_ok = s.results == a.results;
        if !(wire_ok && res_ok) && attempt < 3 {
            // a mismatch must be reproducible to count: timing (a spurious 150 ms timeout on a loaded machine, the
            // server's EOF overtaking `is_closed()` after an Unbind) is not a property of the façade
            if std::env::var("VERIF_SYNC_DEBUG").is_ok() {
                eprintln!("RETRY {}\n  results: {}\n  wire equal: {}", text, first_diff(&s.results, &a.results), wire_ok);
            }
            out.stat(if n_silent > 0 { "retried-after-mismatch.short-timeout-script" } else { "retried-after-mismatch.other-script" });
            continue;
        }
        out.case(&text, !s.served.msgs.is_empty());
        out.stat_n("wire.messages", s.served.msgs.len() as u64);
        out.stat_n("server.silenced-requests", s.served.silenced as u64);
        out.stat(if s.served.used == behs.len() { "server.script-used-up" } else { "server.script-partly-used" });
        out.r(&format!("sync.wire {}", desc), wire_ok, &format!("sync [{}] async [{}]", short(&wire_text(&s.served.msgs)), short(&wire_text(&a.served.msgs))));
        out.r(&format!("sync.results {}", desc), res_ok, &first_diff(&s.results, &a.results));
        out.r(&format!("sync.watchdog {}", desc), !s.served.watchdog && !a.served.watchdog, &format!("a call hung until the server's idle watchdog closed the connection; script: {} ; sync results: {}", text, s.results.join(" | ")));
        for r in &s.results {
            out.stat(&format!("outcome.{}", if r.starts_with("err:") || r.starts_with("open:err") { r.split(' ').next().unwrap_or("?").to_string() } else if r.contains("rc=0") || r == "-" || r == "ok" { String::from("ok") } else { String::from("other") }));
        }
        return;
    }
}

/* ---------- the lane's own reading of sync.rs (ties the translator) ---------- */

fn squeeze(s: &str) -> String {
    s.chars().filter(|c| !c.is_whitespace()).collect()
}

fn between<'a>(s: &'a str, a: &str, b: &str) -> Option<&'a str> {
    let i = s.find(a)? + a.len();
    let j = s[i..].find(b)? + i;
    Some(&s[i..j])
}

/// `self.ldap.NAME(ARG);self` with `Ldap::NAME` a one-line modifier `self.FIELD = VALUE; self` in
/// /repo/src/ldap.rs  ->  `assign ldap.FIELD=VALUE[param := ARG]`
fn inline_setter_call(b: &str) -> Option<String> {
    let rest = b.strip_prefix("self.ldap.")?.strip_suffix(";self")?;
    let open = rest.find('(')?;
    let name = &rest[..open];
    if !name.chars().all(|c| c.is_alphanumeric() || c == '_') || !rest.ends_with(')') {
        return None;
    }
    let arg = &rest[open + 1..rest.len() - 1];
    if arg.contains(',') || arg.contains('(') {
        return None;
    }
    let ldap_rs = std::fs::read_to_string("/repo/src/ldap.rs").ok()?;
    let code: String = ldap_rs.lines().map(|l| match l.find("//") { Some(i) => &l[..i], None => l }).collect::<Vec<_>>().join("\n");
    let sq = squeeze(&code);
    let at = sq.find(&format!("pubfn{}(", name)).or_else(|| sq.find(&format!("pubfn{}<", name)))?;
    let sig_and_body = &sq[at..];
    let params = between(sig_and_body, "(&mutself,", ")")?;
    let pname = params.split(':').next()?;
    let body_start = sig_and_body.find('{')? + 1;
    let body_end = sig_and_body[body_start..].find('}')? + body_start;
    let body = &sig_and_body[body_start..body_end];
    let inner = body.strip_prefix("self.")?.strip_suffix(";self")?;
    let eq = inner.find('=')?;
    let (field, value) = (&inner[..eq], &inner[eq + 1..]);
    // substitute the parameter (whole identifier occurrences)
    let mut out = String::new();
    let mut ident = String::new();
    for c in value.chars().chain(std::iter::once(' ')) {
        if c.is_alphanumeric() || c == '_' {
            ident.push(c);
        } else {
            if ident == pname { out.push_str(arg) } else { out.push_str(&ident) }
            ident.clear();
            if c != ' ' { out.push(c) }
        }
    }
    Some(format!("assign ldap.{}={}", field, out))
}

/// replace whole-identifier occurrences of `from` by `to` (text without white space)
fn rename_ident(text: &str, from: &str, to: &str) -> String {
    let mut out = String::new();
    let mut ident = String::new();
    for c in text.chars().chain(std::iter::once('\u{0}')) {
        if c.is_alphanumeric() || c == '_' {
            ident.push(c);
        } else {
            if ident == from { out.push_str(to) } else { out.push_str(&ident) }
            ident.clear();
            if c != '\u{0}' { out.push(c) }
        }
    }
    out
}

/// Bring harmless spelling variants of a delegation body (squeezed text) to the canonical one - the
/// same normalisation as translate/sync_table.py: other names for the two local aliases, `async {`,
/// no aliases at all, no async block.
fn normalise_body(owner: &str, b: &str) -> String {
    let (rt_path, recv_path, recv) = if owner == "LdapConn" { ("self.rt", "self.ldap", "ldap") } else { ("self.conn.rt", "self.stream", "stream") };
    let mut b = b.replace("async{", "asyncmove{");
    let pre = format!("letrt=&mut{};let{}=&mut{};", rt_path, recv, recv_path);
    // other alias names
    if b.starts_with("let") && !b.starts_with(&pre) {
        let k1 = format!("=&mut{};let", rt_path);
        let k2 = format!("=&mut{};", recv_path);
        if let Some(i1) = b.find(&k1) {
            let x = b[3..i1].to_string();
            let rest = &b[i1 + k1.len()..];
            if let Some(i2) = rest.find(&k2) {
                let y = rest[..i2].to_string();
                let ident = |s: &str| !s.is_empty() && s.chars().all(|c| c.is_alphanumeric() || c == '_');
                if ident(&x) && ident(&y) && x != y {
                    // `letX` / `letY` are single tokens in squeezed text: rename those first
                    let t = b.replacen(&format!("let{}=", x), "let\u{1}=", 1).replacen(&format!("let{}=", y), "let\u{2}=", 1);
                    let t = rename_ident(&t, &y, "\u{2}");
                    let t = rename_ident(&t, &x, "rt");
                    b = t.replace('\u{1}', "rt").replace('\u{2}', recv);
                }
            }
        }
    }
    // no aliases
    let direct = format!("{}.block_on(asyncmove{{{}.", rt_path, recv_path);
    if b.contains(&direct) && !b.starts_with(&pre) {
        b = format!("{}{}", pre, b.replace(&direct, &format!("rt.block_on(asyncmove{{{}.", recv)));
    }
    // no async block
    let head = format!("{}rt.block_on({}.", pre, recv);
    if b.starts_with(&head) && b.ends_with("))") && !b.contains(".await") {
        let call = &b[head.len()..b.len() - 1];
        b = format!("{}rt.block_on(asyncmove{{{}.{}.await}})", pre, recv, call);
    }
    b
}

/// `(Owner.fn, expected row text)` for every `pub fn` outside cfg(feature) items
fn read_sync_rs(src: &str) -> Vec<(String, String)> {
    let code: String = src.lines().map(|l| match l.find("//") { Some(i) => &l[..i], None => l }).collect::<Vec<_>>().join("\n");
    let split = code.find("pub struct EntryStream").unwrap_or(code.len());
    let mut rows = vec![];
    let mut starts: Vec<usize> = code.match_indices("pub fn ").map(|(i, _)| i).collect();
    starts.push(code.len());
    for w in starts.windows(2) {
        let (i, j) = (w[0], w[1]);
        let owner = if i < split { "LdapConn" } else { "EntryStream" };
        let before = &code[..i];
        let attrs = &before[before.rfind(|c| c == '}' || c == '{').map(|k| k + 1).unwrap_or(0)..];
        if attrs.contains("#[cfg(feature") {
            continue;
        }
        let chunk = &code[i + 7..j];
        let name: String = chunk.chars().take_while(|c| c.is_alphanumeric() || *c == '_').collect();
        let body_start = match chunk.find('{') { Some(k) => k, None => continue };
        let body_end = chunk.rfind('}').unwrap_or(chunk.len());
        // the last `}` of the chunk may close the impl block: take the body up to the last `}` that balances
        let mut depth = 0i32;
        let mut end = body_end;
        for (k, c) in chunk[body_start..].char_indices() {
            if c == '{' { depth += 1; }
            if c == '}' { depth -= 1; if depth == 0 { end = body_start + k; break; } }
        }
        let b = normalise_body(owner, &squeeze(&chunk[body_start + 1..end]));
        let row = if b.contains("runtime::Builder::new_") {
            format!(
                "connect {} {} {}",
                between(&b, "Builder::new_", "()").unwrap_or("?"),
                // `match CALL.await { Ok(p) => p, Err(e) => return Err(e) }` or `CALL.await?`
                between(&b, "=match", ".await").or_else(|| between(&b, "let(conn,ldap)=", ".await?")).unwrap_or("?"),
                if b.contains("drive!(conn);") { "driven" } else { "NOT-driven" }
            )
        } else if b.contains("rt.block_on(asyncmove{") {
            let rt = if b.contains("letrt=&mutself.conn.rt;") { "self.conn.rt" } else if b.contains("letrt=&mutself.rt;") { "self.rt" } else { "?" };
            format!(
                "block_on({}) {} -> {}",
                rt,
                between(&b, "rt.block_on(asyncmove{", ".await").unwrap_or("?"),
                if b.contains("Ok(EntryStream{stream,conn:self})") { "entry_stream" } else { "unchanged" }
            )
        } else if b.starts_with("self.ldap.") && b.ends_with(";self") && b.contains('=') {
            format!("assign ldap.{}", &b["self.ldap.".len()..b.len() - ";self".len()])
        } else if let Some(inlined) = inline_setter_call(&b) {
            // `self.ldap.with_x(arg); self` where `Ldap::with_x` is `self.FIELD = VALUE; self`: the same row
            inlined
        } else if let Some(k) = b.find("Self::") {
            let call = &b[k..];
            let call = if b.starts_with("leturl=Url::parse(url)?;") { call.replace("&url", "&Url::parse(url)?") } else { call.to_string() };
            format!("delegate {}", call)
        } else if let Some(rest) = b.strip_prefix("self.stream.ldap_handle().") {
            format!("direct stream.ldap_handle().{}", rest)
        } else if let Some(rest) = b.strip_prefix("self.ldap.") {
            let ident: String = rest.chars().take_while(|c| c.is_alphanumeric() || *c == '_').collect();
            if rest[ident.len()..].starts_with('(') { format!("direct ldap.{}", rest) } else { format!("inline ldap.{}", rest) }
        } else {
            format!("UNREADABLE {}", b)
        };
        rows.push((format!("{}.{}", owner, name), row));
    }
    rows
}

pub fn run(thorough: bool, mut rng: Rng, mut out: Out) {
    // the translator tie
    match std::fs::read_to_string("/repo/src/sync.rs") {
        Ok(src) => {
            let rows = read_sync_rs(&src);
            out.stat_n("table.rows-read-by-the-lane", rows.len() as u64);
            for (k, row) in rows {
                out.m(&format!("sync.row {}", k), &row);
            }
            out.m("sync.faithful", "true");
        }
        Err(e) => out.r("sync.table-source /repo/src/sync.rs", false, &e.to_string()),
    }
    // corpus: one call of every kind against a friendly server, the modifiers before a search, the failure modes
    let s0 = Srch { base: String::from("dc=example"), scope: 2, filter: String::from("(objectClass=*)"), attrs: vec![String::from("cn")] };
    let e3 = Beh { entries: 3, referral: true, end: End::Done { rc: 0, cookie: None, extra_ctrl: false } };
    let page = |c: &[u8]| Beh { entries: 2, referral: false, end: End::Done { rc: 0, cookie: Some(c.to_vec()), extra_ctrl: false } };
    let ctrl = RC { oid: String::from("2.16.840.1.113730.3.4.2"), crit: true, val: None };
    let corpus: Vec<(Vec<Op>, Vec<Beh>, usize)> = vec![
        (
            vec![
                Op::Bind { dn: String::from("cn=admin,dc=example"), pw: String::from("secret") }, Op::SaslExt, Op::Search(s0.clone()),
                Op::Add { dn: String::from("cn=a,dc=example"), attrs: vec![(b"cn".to_vec(), vec![b"a".to_vec()])] },
                Op::Compare { dn: String::from("cn=a,dc=example"), attr: String::from("cn"), val: b"a".to_vec() },
                Op::Modify { dn: String::from("cn=a,dc=example"), mods: vec![(2, b"sn".to_vec(), vec![b"x".to_vec()]), (1, b"description".to_vec(), vec![])] },
                Op::ModDn { dn: String::from("cn=a,dc=example"), rdn: String::from("cn=b"), del: true, sup: Some(String::from("ou=p,dc=example")) },
                Op::Delete { dn: String::from("cn=b,ou=p,dc=example") }, Op::WhoAmI, Op::LastId, Op::Abandon(AbId::Last), Op::PeerCert, Op::IsClosed, Op::Unbind, Op::IsClosed, Op::LastId,
            ],
            vec![OK, OK, e3.clone(), OK, Beh { entries: 0, referral: false, end: End::Done { rc: 6, cookie: None, extra_ctrl: true } }, OK, OK, OK, OK],
            0,
        ),
        (
            vec![
                Op::Wc(vec![ctrl.clone()]), Op::Wt(90_000), Op::Wo(Opts { deref: 3, types_only: true, time: 7, size: 9 }),
                Op::Stream { s: s0.clone(), ad: Ad::Plain, acts: vec![Act::Next, Act::LastId, Act::Next, Act::Next, Act::Next, Act::Next, Act::Next], finish: true },
                Op::Search(s0.clone()),
            ],
            vec![e3.clone(), e3.clone()],
            0,
        ),
        (
            vec![Op::Wc(vec![ctrl.clone(), RC { oid: String::from("1.2.3"), crit: false, val: Some(vec![]) }]), Op::Stream { s: s0.clone(), ad: Ad::Paged(2), acts: vec![Act::Next; 9], finish: true }, Op::LastId, Op::Delete { dn: String::from("o=x") }],
            vec![page(b"c1"), page(b"c2"), page(b""), OK],
            0,
        ),
        (
            vec![Op::Stream { s: s0.clone(), ad: Ad::Chain(3), acts: vec![Act::Next, Act::Next, Act::LastId, Act::Next, Act::Next, Act::Next, Act::Next], finish: true }, Op::Stream { s: s0.clone(), ad: Ad::Entries, acts: vec![Act::Next], finish: false }, Op::Stream { s: s0.clone(), ad: Ad::Empty, acts: vec![], finish: true }],
            vec![Beh { referral: true, ..page(b"k") }, e3.clone(), e3.clone(), e3.clone()],
            0,
        ),
        (
            vec![Op::Wc(vec![RC { oid: String::from("1.2.840.113556.1.4.319"), crit: false, val: None }]), Op::Stream { s: s0.clone(), ad: Ad::Paged(5), acts: vec![Act::Next], finish: true }, Op::Delete { dn: String::from("o=x") }],
            vec![OK],
            0,
        ),
        (
            vec![Op::Wt(SHORT_MS), Op::Delete { dn: String::from("o=zzsilent") }, Op::LastId, Op::Abandon(AbId::Last), Op::Delete { dn: String::from("o=after") }, Op::IsClosed],
            vec![OK, OK],
            1,
        ),
        (
            vec![Op::Wt(SHORT_MS), Op::Stream { s: Srch { base: String::from("ou=zzsilent,dc=example"), ..s0.clone() }, ad: Ad::Plain, acts: vec![Act::Next, Act::Next, Act::Next, Act::Next], finish: true }, Op::Search(s0.clone())],
            vec![Beh { entries: 2, referral: false, end: End::Done { rc: 0, cookie: None, extra_ctrl: false } }, e3.clone()],
            1,
        ),
        (
            vec![Op::Delete { dn: String::from("o=1") }, Op::Search(Srch { base: String::from("ou=zzdisconnect,dc=example"), ..s0.clone() }), Op::IsClosed, Op::Delete { dn: String::from("o=2") }, Op::Stream { s: s0.clone(), ad: Ad::Plain, acts: vec![Act::Next], finish: true }, Op::Unbind, Op::IsClosed],
            vec![OK, Beh { entries: 1, referral: false, end: End::Done { rc: 0, cookie: None, extra_ctrl: false } }],
            0,
        ),
        (
            vec![Op::Add { dn: String::from("o=x"), attrs: vec![(b"cn".to_vec(), vec![])] }, Op::Wc(vec![ctrl.clone()]), Op::Search(Srch { filter: String::from("(cn="), ..s0.clone() }), Op::Delete { dn: String::from("o=x") }],
            vec![Beh { entries: 0, referral: false, end: End::Done { rc: 32, cookie: None, extra_ctrl: false } }],
            0,
        ),
    ];
    for (ops, behs, ns) in &corpus {
        case(&mut out, "corpus", ops, behs, *ns);
    }
    let n = if thorough { 6_000 } else { 300 };
    for i in 0..n {
        // silence costs real time: about one script in seven (quick) may contain one silent operation
        let allow = thorough || i % 2 == 0;
        let (ops, behs, ns) = gen_script(&mut rng, allow);
        case(&mut out, "script", &ops, &behs, ns);
    }
    out.finish("scripts of 1..12 calls (+ a short-timeout prefix for a silent server) over the whole LdapConn/EntryStream surface: simple_bind, sasl_external_bind, search, streaming_search / streaming_search_with (EntriesOnly, PagedResults with 1..3 pages, a boxed adapter vector, an empty vector) with next/last_id/result-or-drop, add, compare, delete, modify, modifydn, extended (WhoAmI and raw), abandon, unbind, last_id, is_closed, get_peer_certificate, with_controls/with_timeout/with_search_options in random combination; locally refused calls (empty value sets, unparsable filters); scripted server: success, 27 error codes (referral with URIs), entries + referrals, response controls, paging cookies, silence (client timeout 150 ms), disconnect mid-operation; each script run through LdapConn/EntryStream and through Ldap/SearchStream on separate Unix socket pairs; non-trivial = at least one message reached the server; distinct by FNV of the script text");
}

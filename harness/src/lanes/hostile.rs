//! Lane `hostile` (C11, decoder level): arbitrary and mutated server bytes through the real frame
//! decoder (`verif_decode`), compared with Model.Envelope.decodeInner; oracles: no panic, an
//! outer-complete frame is decided, clearly malformed envelopes are rejected.
use crate::fmtx::*;
use crate::gen::*;
use crate::lanes::ber::{real_encode, spec_enc};
use crate::out::{guarded, Out};
use crate::rng::Rng;
use bytes::BytesMut;
use ldap3::controls::Control;
use lber::structure::{StructureTag, PL};
use lber::structures::Tag;

pub fn ctrls_text_real(cs: &[Control]) -> String {
    let parts: Vec<String> = cs
        .iter()
        .map(|c| {
            format!(
                "{}:{}:{}:{}",
                hex(c.1.ctype.as_bytes()),
                if c.1.crit { 1 } else { 0 },
                match &c.1.val { Some(v) => hex(v), None => String::from("none") },
                match c.0 { Some(t) => format!("{:?}", t), None => String::from("-") }
            )
        })
        .collect();
    format!("[{}]", parts.join(","))
}

/// run the real decoder once on `bs`; canonical outcome + bytes consumed
pub fn decode_outcome(bs: &[u8]) -> String {
    crate::out::mark(&format!("env.dec {}", hex(bs)));
    let input = bs.to_vec();
    match guarded(move || {
        let mut buf = BytesMut::from(&input[..]);
        let before = buf.len();
        match ldap3::verif::verif_decode(&mut buf) {
            Ok(None) => {
                if buf.len() != before { String::from("needmore-but-consumed") } else { String::from("needmore") }
            }
            Err(_) => String::from("error"),
            Ok(Some((id, (tag, ctrls)))) => {
                let t = match tag {
                    Tag::StructureTag(t) => tlv(&t),
                    _ => String::from("(non-structure)"),
                };
                format!("frame {} {} {} consumed={}", id, t, ctrls_text_real(&ctrls), before - buf.len())
            }
        }
    }) {
        Ok(s) => s,
        Err(_) => String::from("panic"),
    }
}

/// independent reading of the outer header (X.690): Some(total length) if identifier and length
/// octets are present and definite with at most 8 length octets
pub fn outer_total(bs: &[u8]) -> Option<usize> {
    if bs.len() < 2 {
        return None;
    }
    let l = bs[1];
    if l < 0x80 {
        return Some(2 + l as usize);
    }
    let k = (l & 0x7f) as usize;
    if k > 8 || bs.len() < 2 + k {
        return None;
    }
    let mut n: u128 = 0;
    for b in &bs[2..2 + k] {
        n = (n << 8) | *b as u128;
    }
    if n > (1 << 40) {
        return None;
    }
    Some(2 + k + n as usize)
}

fn clearly_not_envelope(t: &StructureTag) -> bool {
    // strict subset of "not an LDAPMessage": outer primitive, wrong tag number, fewer than two
    // elements, first element not a primitive universal INTEGER, controls [0] primitive
    if t.id != 16 {
        return true;
    }
    match &t.payload {
        PL::P(_) => true,
        PL::C(ks) => {
            if ks.len() < 2 {
                return true;
            }
            let first_ok = cls_num(ks[0].class) == 0 && ks[0].id == 2 && matches!(ks[0].payload, PL::P(_));
            let last = &ks[ks.len() - 1];
            let ctl_prim = cls_num(last.class) == 2 && last.id == 0 && matches!(last.payload, PL::P(_));
            (ks.len() == 2 && !first_ok) || ctl_prim
        }
    }
}

thread_local! {
    static CASE_NO: std::cell::Cell<u64> = std::cell::Cell::new(0);
    static DRIVE_EVERY: std::cell::Cell<u64> = std::cell::Cell::new(0);
}

/// Driver level: the same hostile bytes sent to a LIVE connection (real `Framed`, real driver loop) with three
/// operations pending — a single-result operation, a search mid-stream, a timed single — under whose IDs (1..3)
/// half of the samples are re-addressed.  Whatever the bytes are: no task panics, nobody hangs, and bytes the
/// decoder rejects end the connection with an error that every pending operation observes.
fn drive_case(out: &mut Out, label: &str, bs: &[u8], decoder_says: &str, readdress: Option<u8>) {
    use crate::scen::{run_script, to_model_events, OpKind, Step};
    let mut bytes = bs.to_vec();
    if let Some(id) = readdress {
        if bytes.len() > 4 && bytes[0] == 0x30 && bytes[1] < 0x80 && bytes[2] == 0x02 && bytes[3] == 0x01 {
            bytes[4] = id;
        }
    }
    let decoder_says = if readdress.is_some() { decode_outcome(&bytes) } else { decoder_says.to_string() };
    crate::out::mark(&format!("hostile.drive {}", hex(&bytes)));
    let sc = vec![
        Step::Issue { kind: OpKind::Single, tmo_ms: None },
        Step::Issue { kind: OpKind::Search, tmo_ms: None },
        Step::Issue { kind: OpKind::Single, tmo_ms: Some(3_600_000) },
        Step::Settle,
        Step::Send { id: 2, op: 4, good: false },
        Step::Settle,
        Step::Raw { bytes: bytes.clone(), log: String::new() },
        Step::Settle,
        Step::Next(1),
        Step::Settle,
        Step::CloseMidFrame,
        Step::Settle,
    ];
    let o = run_script(&sc);
    let ev = to_model_events(&o.trace);
    let short = if bytes.len() > 80 { format!("{}…({} bytes)", hex(&bytes[..80]), bytes.len()) } else { hex(&bytes) };
    out.stat(&format!("drive.{}", decoder_says.split(' ').next().unwrap_or("?")));
    let panicked = o.trace.iter().any(|t| t.starts_with("cli done ") && t.ends_with(" panic"));
    let ended = o.trace.iter().any(|t| t.starts_with("drv result"));
    let done = o.trace.iter().filter(|t| t.starts_with("cli done ")).count();
    out.r(&format!("hostile.drive-no-panic-nobody-hangs {} {}", label, short), !panicked && ended && o.watchdog_stuck.is_empty() && done == 3,
          &format!("panicked={} driver-ended={} resolved={}/3 stuck={:?} ; {}", panicked, ended, done, o.watchdog_stuck, ev));
    if decoder_says == "error" {
        // rejected by the decoder: the driver must have ended with an error BEFORE the peer went away
        let pos_err = o.trace.iter().position(|t| t == "drv result err");
        let pos_close = o.trace.iter().position(|t| t == "srv garbage");
        out.r(&format!("hostile.drive-undecodable-ends-connection {} {}", label, short), pos_err.is_some() && (pos_close.is_none() || pos_err < pos_close), &ev);
    }
}

fn case(out: &mut Out, label: &str, bs: &[u8], tree: Option<&StructureTag>) {
    let got = decode_outcome(bs);
    let every = DRIVE_EVERY.with(|d| d.get());
    let no = CASE_NO.with(|c| { c.set(c.get() + 1); c.get() });
    if every > 0 && no % every == 0 && bs.len() <= 4000 {
        // re-addressed to the pending operations (1..3), to nobody (9), as an unsolicited notification (0), or as it is
        let k = no / every;
        drive_case(out, label, bs, &got, match k % 6 { 0 => Some(1), 1 => None, 2 => Some(2), 3 => Some(0), 4 => Some(3), _ => Some(9) });
    }
    let h = hex(bs);
    out.case(&h, bs.len() >= 2);
    out.stat(&format!("{}.{}", label, got.split(' ').next().unwrap_or("?")));
    if bs.len() <= 3000 {
        out.m(&format!("env.dec {}", h), &got);
    }
    let short = if h.len() > 160 { format!("{}…({} bytes)", &h[..160], bs.len()) } else { h.clone() };
    out.r(&format!("hostile.no-panic {} {}", label, short), got != "panic" && got != "needmore-but-consumed", &got);
    if let Some(total) = outer_total(bs) {
        if bs.len() >= total {
            out.r(&format!("hostile.outer-complete-decided {} {}", label, short), got != "needmore", "frame complete by its outer length but decoder waits for more");
        }
    }
    if let Some(t) = tree {
        if clearly_not_envelope(t) {
            out.r(&format!("hostile.non-envelope-rejected {} {}", label, short), got == "error", &got);
        }
    }
}

pub fn run(thorough: bool, mut rng: Rng, mut out: Out) {
    // one case in `DRIVE_EVERY` also goes through a live connection (about 400 in quick, 8000 in thorough)
    DRIVE_EVERY.with(|d| d.set(if thorough { 60 } else { 110 }));
    // corpus: witnesses of F1..F5
    // … and the three rejection branches of the envelope extraction that the coverage run (tools/coverage.sh) found
    // no quick-tier case reached: only the AD-workaround element [10]; only a controls element [0]; an empty INTEGER
    // as message ID
    for w in ["3000", "300702010161020a05", "300c02010161070a010004000400a0073005040131010 0", "30",
              "30028a00", "3002a000", "3005a0008a0130", "30040200 6100", "3007020061008a00"] {
        let w: String = w.chars().filter(|c| *c != ' ').collect();
        case(&mut out, "corpus", &unhex(&w), None);
    }
    // unsolicited notifications (message ID 0) and frames for nobody (ID 9) whose ENVELOPE is fine and whose body
    // is not a well-formed LDAPResult / ExtendedResponse: the driver has nobody to hand them to and must neither
    // interpret them nor die of them — all driven through a live connection with three operations pending
    {
        let bodies: Vec<(&str, StructureTag)> = vec![
            ("extended response without matchedDN and text", cons(1, 24, vec![prim(0, 10, vec![0x34])])),
            ("empty extended response", cons(1, 24, vec![])),
            ("primitive extended response", prim(1, 24, vec![1, 2, 3])),
            ("notice of disconnection, well-formed", cons(1, 24, vec![prim(0, 10, vec![52]), prim(0, 4, vec![]), prim(0, 4, b"bye".to_vec()), prim(2, 10, b"1.3.6.1.4.1.1466.20036".to_vec())])),
            ("notice of disconnection, text not UTF-8", cons(1, 24, vec![prim(0, 10, vec![52]), prim(0, 4, vec![]), prim(0, 4, vec![0xff, 0xfe]), prim(2, 10, b"1.3.6.1.4.1.1466.20036".to_vec())])),
            ("notice of disconnection, code not an ENUMERATED", cons(1, 24, vec![prim(0, 4, vec![52]), prim(0, 4, vec![]), prim(0, 4, vec![])])),
            ("notice with a constructed result code", cons(1, 24, vec![cons(0, 10, vec![]), prim(0, 4, vec![]), prim(0, 4, vec![])])),
            ("bind response with one element", cons(1, 1, vec![prim(0, 10, vec![0])])),
            ("search result done, empty", cons(1, 5, vec![])),
            ("search entry", cons(1, 4, vec![prim(0, 4, b"cn=x".to_vec()), cons(0, 16, vec![])])),
            ("intermediate response", cons(1, 25, vec![prim(2, 0, b"1.2".to_vec())])),
            ("unknown application tag 30", cons(1, 30, vec![prim(0, 10, vec![0]), prim(0, 4, vec![]), prim(0, 4, vec![])])),
            ("result with a referral that is not a sequence", cons(1, 24, vec![prim(0, 10, vec![10]), prim(0, 4, vec![]), prim(0, 4, vec![]), prim(2, 3, vec![1])])),
        ];
        for (name, body) in bodies {
            for id in [0u8, 9] {
                let msg = cons(0, 16, vec![prim(0, 2, vec![id]), body.clone()]);
                let bs = real_encode(&msg);
                let got = decode_outcome(&bs);
                out.stat("drive.notification-corpus");
                drive_case(&mut out, &format!("unsolicited id={} {}", id, name), &bs, &got, None);
                case(&mut out, "notification", &bs, Some(&msg));
            }
        }
    }
    // controls with odd criticality / value shapes (F2)
    for ctl in [
        cons(0, 16, vec![prim(0, 4, b"1".to_vec()), prim(0, 1, vec![])]),
        cons(0, 16, vec![prim(0, 4, b"1".to_vec()), cons(0, 1, vec![])]),
        cons(0, 16, vec![prim(0, 4, b"1".to_vec()), prim(0, 4, vec![1]), prim(0, 4, vec![2])]),
        cons(0, 16, vec![prim(0, 4, b"1".to_vec()), prim(0, 1, vec![1]), cons(0, 4, vec![])]),
        cons(0, 16, vec![prim(0, 4, vec![0xff, 0xfe])]),
        cons(0, 16, vec![cons(0, 4, vec![])]),
        cons(0, 16, vec![]),
        prim(0, 16, vec![]),
        cons(0, 16, vec![prim(0, 4, b"1".to_vec()), prim(0, 2, vec![1])]),
        cons(0, 16, vec![prim(0, 4, b"1".to_vec()), prim(2, 1, vec![9]), prim(1, 4, vec![7])]),
    ] {
        let msg = cons(0, 16, vec![prim(0, 2, vec![1]), cons(1, 7, vec![prim(0, 10, vec![0]), prim(0, 4, vec![]), prim(0, 4, vec![])]), cons(2, 0, vec![ctl])]);
        case(&mut out, "oddctl", &real_encode(&msg), Some(&msg));
    }
    // deep nesting: depth 1..N (the lber depth limit is 64)
    let deep: &[usize] = if thorough { &[1, 30, 62, 63, 64, 65, 66, 100, 1000, 10000, 100000, 250000] } else { &[1, 62, 63, 64, 65, 66, 200, 5000, 100000] };
    for &d in deep {
        // d nested "30 84 xx xx xx xx" headers built by hand (no recursion in the generator)
        let mut bs: Vec<u8> = vec![];
        for i in 0..d {
            let inner = (d - 1 - i) * 6;
            bs.extend([0x30, 0x84]);
            bs.extend((inner as u32).to_be_bytes());
        }
        let got = decode_outcome(&bs);
        out.case(&format!("deep {}", d), true);
        out.stat(&format!("deep.{}", got.split(' ').next().unwrap_or("?")));
        if bs.len() <= 3000 {
            out.m(&format!("env.dec {}", hex(&bs)), &got);
        }
        out.r(&format!("hostile.deep-nesting depth={}", d), got == "error", &got);
    }
    // (ii) every single-field mutation of valid messages
    let nbase = if thorough { 400 } else { 40 };
    for _ in 0..nbase {
        let msg = gen_any_msg(&mut rng);
        let enc = real_encode(&msg);
        case(&mut out, "valid", &enc, Some(&msg));
        for (name, m) in tree_mutations(&msg) {
            let label = format!("tree.{}", name.split('@').next().unwrap_or("?").trim_end_matches(char::is_numeric));
            let e = if rng.chance(1, 4) { spec_enc(&m, &mut rng, true) } else { real_encode(&m) };
            case(&mut out, &label, &e, Some(&m));
        }
        // byte-level: each length/any octet mutated
        for i in 0..enc.len().min(200) {
            for v in [enc[i].wrapping_sub(1), enc[i].wrapping_add(1), 0x00, 0x80, 0x81, 0x84, 0x88, 0x89, 0xff, 0x7f] {
                if v != enc[i] {
                    let mut e = enc.clone();
                    e[i] = v;
                    case(&mut out, "byte.set", &e, None);
                }
            }
            let mut e = enc.clone();
            e.truncate(i);
            case(&mut out, "byte.truncate", &e, None);
            if i % 7 == 0 {
                let mut e = enc.clone();
                e.remove(i);
                case(&mut out, "byte.remove", &e, None);
                let mut e = enc.clone();
                e.insert(i, rng.next() as u8);
                case(&mut out, "byte.insert", &e, None);
            }
        }
    }
    // (iii) 9+ length octets and other length oddities
    for k in [1usize, 2, 7, 8, 9, 10, 16, 100, 126, 127] {
        for fill in [0x00u8, 0x01, 0xff] {
            let mut bs = vec![0x30, 0x80 | k as u8];
            bs.extend(vec![fill; k]);
            bs.extend([0x02, 0x01, 0x01, 0x61, 0x00]);
            case(&mut out, "lenoctets", &bs, None);
            let mut bs2 = vec![0x30, 0x80 | k as u8];
            bs2.extend(vec![0x00; k - 1]);
            bs2.push(5);
            bs2.extend([0x02, 0x01, 0x01, 0x61, 0x00]);
            case(&mut out, "lenoctets", &bs2, None);
        }
    }
    // (i) random bytes biased to BER-looking headers
    let nrand = if thorough { 400000 } else { 15000 };
    for _ in 0..nrand {
        let n = rng.below(40) as usize;
        let mut b = rng.bytes(n);
        if n > 2 && rng.chance(3, 4) {
            b[0] = *rng.pick(&[0x30u8, 0x30, 0x30, 0x70, 0x10, 0xb0]);
            b[1] = if rng.chance(1, 2) { (n - 2) as u8 } else { *rng.pick(&[0u8, 1, 5, 0x7f, 0x80, 0x81, 0x82, 0x88, 0x89, 0xff]) };
            if n > 5 && rng.chance(1, 2) {
                b[2] = 0x02;
                b[3] = 0x01;
            }
        }
        case(&mut out, "random", &b, None);
    }
    out.finish("random bytes (BER-biased headers), every single-node tree mutation (class, tag number, drop/duplicate/swap child, empty primitive, primitive<->constructed) and every single-octet mutation/truncation of generated valid LDAP messages of all response kinds, 1..127 length octets, nesting depths 1..250000; non-trivial = at least 2 octets; distinct by FNV of the input bytes");
}

//! Lane `requests` (C02): the REAL `Ldap` handle over an in-memory transport (`tokio::io::duplex`),
//! a scripted server which answers every request with a minimal success response and hands every
//! byte the client wrote to the lane.
//!   O  spec.req.dec <hex of the REAL bytes>   = `<id> <ctrls> <request asked>` (value sets sorted)
//!   M  req.enc <id> <ctrls> <request, sets in the wire order observed>  = hex of the REAL bytes
//!   M  handle.run <script>                    = observed transcript (messages + handle fields per call)
//!   R  the one-shot law evaluated here on the observed transcript; nothing sent by refused calls
use crate::fmtx::*;
use crate::lanes::hostile::outer_total;
use crate::out::Out;
use crate::rng::Rng;
use futures_util::FutureExt;
use ldap3::controls::RawControl;
use ldap3::exop::Exop;
use ldap3::{DerefAliases, Ldap, LdapConnAsync, LdapError, Mod, Scope, SearchOptions};
use lber::parse::parse_tag;
use lber::structure::{StructureTag, PL};
use std::collections::{BTreeMap, HashSet};
use std::panic::AssertUnwindSafe;
use std::time::Duration;
use tokio::io::{AsyncReadExt, AsyncWriteExt};

/// valid filter strings with the RFC 4511 Filter element they denote (written by hand from RFC 4515/4511)
const FILTERS: &[(&str, &str)] = &[
    ("(objectClass=*)", "(P 2 7 6f626a656374436c617373)"),
    ("(cn=abc)", "(C 2 3 (P 0 4 636e) (P 0 4 616263))"),
    ("(&(a=b)(!(c=d)))", "(C 2 0 (C 2 3 (P 0 4 61) (P 0 4 62)) (C 2 2 (C 2 3 (P 0 4 63) (P 0 4 64))))"),
    ("(|(cn=a*b*c)(sn>=x)(sn<=y)(sn~=z))", "(C 2 1 (C 2 4 (P 0 4 636e) (C 0 16 (P 2 0 61) (P 2 1 62) (P 2 2 63))) (C 2 5 (P 0 4 736e) (P 0 4 78)) (C 2 6 (P 0 4 736e) (P 0 4 79)) (C 2 8 (P 0 4 736e) (P 0 4 7a)))"),
    ("(cn=\\2a\\00\\ff)", "(C 2 3 (P 0 4 636e) (P 0 4 2a00ff))"),
    ("(uid=*x)", "(C 2 4 (P 0 4 756964) (C 0 16 (P 2 2 78)))"),
    // extensibleMatch [9] MatchingRuleAssertion { matchingRule [1], type [2], matchValue [3], dnAttributes [4] DEFAULT FALSE }
    ("(cn:=x)", "(C 2 9 (P 2 2 636e) (P 2 3 78))"),
    ("(cn:dn:2.5.13.5:=x)", "(C 2 9 (P 2 1 322e352e31332e35) (P 2 2 636e) (P 2 3 78) (P 2 4 ff))"),
    ("(:caseExactMatch:=Foo)", "(C 2 9 (P 2 1 6361736545786163744d61746368) (P 2 3 466f6f))"),
    ("(:dn:2.5.13.5:=Foo)", "(C 2 9 (P 2 1 322e352e31332e35) (P 2 3 466f6f) (P 2 4 ff))"),
    ("(&(sn:caseIgnoreMatch:=a\\28)(!(:1.2.3:=\\00)))", "(C 2 0 (C 2 9 (P 2 1 6361736549676e6f72654d61746368) (P 2 2 736e) (P 2 3 6128)) (C 2 2 (C 2 9 (P 2 1 312e322e33) (P 2 3 00))))"),
];

const BAD_FILTERS: &[&str] = &["(", "(cn=a", "", "(cn)", "(&(a=b)", "(a=b))"];

#[derive(Clone, Debug, PartialEq)]
pub struct RC {
    oid: Vec<u8>,
    crit: bool,
    val: Option<Vec<u8>>,
}

#[derive(Clone, Debug, PartialEq)]
pub struct Opts {
    deref: i64,
    types_only: bool,
    time: i64,
    size: i64,
}

const DEFAULT_OPTS: Opts = Opts { deref: 0, types_only: false, time: 0, size: 0 };

#[derive(Clone, Debug, PartialEq)]
pub enum Req {
    Bind { dn: Vec<u8>, pw: Vec<u8> },
    SaslExt,
    /// `filter` = tree text; `fsrc` = filter string handed to the API (asked requests only)
    Search { base: Vec<u8>, scope: i64, opts: Opts, attrs: Vec<Vec<u8>>, filter: String, fsrc: String },
    Add { dn: Vec<u8>, attrs: Vec<(Vec<u8>, Vec<Vec<u8>>)> },
    Compare { dn: Vec<u8>, attr: Vec<u8>, val: Vec<u8> },
    Delete { dn: Vec<u8> },
    Modify { dn: Vec<u8>, mods: Vec<(u8, Vec<u8>, Vec<Vec<u8>>)> },
    ModDn { dn: Vec<u8>, rdn: Vec<u8>, del: bool, sup: Option<Vec<u8>> },
    Extended { name: Option<Vec<u8>>, val: Option<Vec<u8>> },
    Unbind,
    Abandon(i64),
}

#[derive(Clone, Debug)]
pub enum Call {
    Wc(usize, Vec<RC>),
    Wt(usize, u64),
    Wo(usize, Opts),
    /// operation; the flag selects `streaming_search` over `search` for a Search
    Op(usize, Req, bool),
    Bad(usize, String),
    Clone(usize, usize),
}

/* ---------- canonical text ---------- */

fn opt_hex(o: &Option<Vec<u8>>) -> String {
    match o {
        Some(v) => hex(v),
        None => String::from("none"),
    }
}

fn vals_text(vs: &[Vec<u8>], sorted: bool) -> String {
    let mut v: Vec<&Vec<u8>> = vs.iter().collect();
    if sorted {
        v.sort();
    }
    v.iter().map(|x| hex(x)).collect::<Vec<_>>().join(",")
}

fn req_text(r: &Req, sorted: bool) -> String {
    match r {
        Req::Bind { dn, pw } => format!("bind {} {}", hex(dn), hex(pw)),
        Req::SaslExt => String::from("saslext"),
        Req::Search { base, scope, opts, attrs, filter, .. } => format!(
            "search {} {} {} {} {} {} {} {}",
            hex(base),
            scope,
            opts.deref,
            opts.size,
            opts.time,
            if opts.types_only { 1 } else { 0 },
            if attrs.is_empty() { String::from("[]") } else { attrs.iter().map(|a| hex(a)).collect::<Vec<_>>().join(",") },
            filter
        ),
        Req::Add { dn, attrs } => format!(
            "add {} {}",
            hex(dn),
            if attrs.is_empty() {
                String::from("[]")
            } else {
                attrs.iter().map(|(n, vs)| format!("{}={}", hex(n), vals_text(vs, sorted))).collect::<Vec<_>>().join(";")
            }
        ),
        Req::Compare { dn, attr, val } => format!("compare {} {} {}", hex(dn), hex(attr), hex(val)),
        Req::Delete { dn } => format!("delete {}", hex(dn)),
        Req::Modify { dn, mods } => format!(
            "modify {} {}",
            hex(dn),
            if mods.is_empty() {
                String::from("[]")
            } else {
                mods.iter().map(|(k, n, vs)| format!("{}:{}={}", k, hex(n), vals_text(vs, sorted))).collect::<Vec<_>>().join(";")
            }
        ),
        Req::ModDn { dn, rdn, del, sup } => format!("moddn {} {} {} {}", hex(dn), hex(rdn), if *del { 1 } else { 0 }, opt_hex(sup)),
        Req::Extended { name, val } => format!("extended {} {}", opt_hex(name), opt_hex(val)),
        Req::Unbind => String::from("unbind"),
        Req::Abandon(i) => format!("abandon {}", i),
    }
}

fn ctrls_text(cs: &Option<Vec<RC>>) -> String {
    match cs {
        None => String::from("none"),
        Some(v) => format!(
            "[{}]",
            v.iter().map(|c| format!("{}:{}:{}", hex(&c.oid), if c.crit { 1 } else { 0 }, opt_hex(&c.val))).collect::<Vec<_>>().join(",")
        ),
    }
}

fn opts_text(o: &Option<Opts>) -> String {
    match o {
        None => String::from("none"),
        Some(o) => format!("{}:{}:{}:{}", o.deref, if o.types_only { 1 } else { 0 }, o.time, o.size),
    }
}

fn tmo_text(t: &Option<u64>) -> String {
    match t {
        None => String::from("none"),
        Some(t) => t.to_string(),
    }
}

fn call_text(c: &Call) -> String {
    match c {
        Call::Wc(h, cs) => format!("wc {} {}", h, ctrls_text(&Some(cs.clone()))),
        Call::Wt(h, t) => format!("wt {} {}", h, t),
        Call::Wo(h, o) => format!("wo {} {} {} {} {}", h, o.deref, if o.types_only { 1 } else { 0 }, o.time, o.size),
        Call::Op(h, r, _) => format!("op {} {}", h, req_text(r, false)),
        Call::Bad(h, _) => format!("bad {}", h),
        Call::Clone(a, b) => format!("clone {} {}", a, b),
    }
}

fn call_handle(c: &Call) -> usize {
    match c {
        Call::Wc(h, _) | Call::Wt(h, _) | Call::Wo(h, _) | Call::Op(h, _, _) | Call::Bad(h, _) => *h,
        Call::Clone(_, d) => *d,
    }
}

/// the API documentation: which calls must fail locally
fn must_reject(r: &Req) -> Option<&'static str> {
    match r {
        Req::Add { attrs, .. } if attrs.iter().any(|(_, vs)| vs.is_empty()) => Some("refused"),
        Req::Modify { mods, .. } if mods.iter().any(|(k, _, vs)| *k == 0 && vs.is_empty()) => Some("refused"),
        Req::Extended { name: None, .. } => Some("panic"),
        _ => None,
    }
}

/* ---------- the harness's own reader of the real bytes (wire order, transcript, Rust oracle) ---------- */

fn twos(v: &[u8]) -> Option<i64> {
    if v.is_empty() || v.len() > 8 {
        return None;
    }
    let mut x: i64 = if v[0] & 0x80 != 0 { -1 } else { 0 };
    for b in v {
        x = (x << 8) | *b as i64;
    }
    Some(x)
}

fn p(t: &StructureTag, c: u8, id: u64) -> Option<&Vec<u8>> {
    match &t.payload {
        PL::P(v) if cls_num(t.class) == c && t.id == id => Some(v),
        _ => None,
    }
}

fn k(t: &StructureTag, c: u8, id: u64) -> Option<&Vec<StructureTag>> {
    match &t.payload {
        PL::C(v) if cls_num(t.class) == c && t.id == id => Some(v),
        _ => None,
    }
}

fn boolean(t: &StructureTag) -> Option<bool> {
    let v = p(t, 0, 1)?;
    if v.len() == 1 {
        Some(v[0] != 0)
    } else {
        None
    }
}

fn attribute(t: &StructureTag) -> Option<(Vec<u8>, Vec<Vec<u8>>)> {
    let ks = k(t, 0, 16)?;
    if ks.len() != 2 {
        return None;
    }
    let name = p(&ks[0], 0, 4)?.clone();
    let vals = k(&ks[1], 0, 17)?.iter().map(|v| p(v, 0, 4).cloned()).collect::<Option<Vec<_>>>()?;
    Some((name, vals))
}

fn decode_op(op: &StructureTag) -> Option<Req> {
    if cls_num(op.class) != 1 {
        return None;
    }
    match (op.id, &op.payload) {
        (0, PL::C(ks)) if ks.len() == 3 => {
            if twos(p(&ks[0], 0, 2)?)? != 3 {
                return None;
            }
            let dn = p(&ks[1], 0, 4)?.clone();
            if let Some(pw) = p(&ks[2], 2, 0) {
                return Some(Req::Bind { dn, pw: pw.clone() });
            }
            let s = k(&ks[2], 2, 3)?;
            if s.len() == 2 && p(&s[0], 0, 4)? == b"EXTERNAL" && p(&s[1], 0, 4)?.is_empty() && dn.is_empty() {
                return Some(Req::SaslExt);
            }
            None
        }
        (2, PL::P(v)) if v.is_empty() => Some(Req::Unbind),
        (3, PL::C(ks)) if ks.len() == 8 => Some(Req::Search {
            base: p(&ks[0], 0, 4)?.clone(),
            scope: twos(p(&ks[1], 0, 10)?)?,
            opts: Opts {
                deref: twos(p(&ks[2], 0, 10)?)?,
                size: twos(p(&ks[3], 0, 2)?)?,
                time: twos(p(&ks[4], 0, 2)?)?,
                types_only: boolean(&ks[5])?,
            },
            filter: tlv(&ks[6]),
            fsrc: String::new(),
            attrs: k(&ks[7], 0, 16)?.iter().map(|a| p(a, 0, 4).cloned()).collect::<Option<Vec<_>>>()?,
        }),
        (6, PL::C(ks)) if ks.len() == 2 => {
            let mut mods = vec![];
            for ch in k(&ks[1], 0, 16)? {
                let c = k(ch, 0, 16)?;
                if c.len() != 2 {
                    return None;
                }
                let kind = twos(p(&c[0], 0, 10)?)?;
                if !(0..=3).contains(&kind) {
                    return None;
                }
                let (n, vs) = attribute(&c[1])?;
                mods.push((kind as u8, n, vs));
            }
            Some(Req::Modify { dn: p(&ks[0], 0, 4)?.clone(), mods })
        }
        (8, PL::C(ks)) if ks.len() == 2 => Some(Req::Add {
            dn: p(&ks[0], 0, 4)?.clone(),
            attrs: k(&ks[1], 0, 16)?.iter().map(attribute).collect::<Option<Vec<_>>>()?,
        }),
        (10, PL::P(v)) => Some(Req::Delete { dn: v.clone() }),
        (12, PL::C(ks)) if ks.len() == 3 || ks.len() == 4 => Some(Req::ModDn {
            dn: p(&ks[0], 0, 4)?.clone(),
            rdn: p(&ks[1], 0, 4)?.clone(),
            del: boolean(&ks[2])?,
            sup: if ks.len() == 4 { Some(p(&ks[3], 2, 0)?.clone()) } else { None },
        }),
        (14, PL::C(ks)) if ks.len() == 2 => {
            let ava = k(&ks[1], 0, 16)?;
            if ava.len() != 2 {
                return None;
            }
            Some(Req::Compare { dn: p(&ks[0], 0, 4)?.clone(), attr: p(&ava[0], 0, 4)?.clone(), val: p(&ava[1], 0, 4)?.clone() })
        }
        (16, PL::P(v)) => Some(Req::Abandon(twos(v)?)),
        (23, PL::C(ks)) if ks.len() == 1 || ks.len() == 2 => Some(Req::Extended {
            name: Some(p(&ks[0], 2, 0)?.clone()),
            val: if ks.len() == 2 { Some(p(&ks[1], 2, 1)?.clone()) } else { None },
        }),
        _ => None,
    }
}

fn decode_ctl(t: &StructureTag) -> Option<RC> {
    let ks = k(t, 0, 16)?;
    let oid = p(ks.first()?, 0, 4)?.clone();
    match ks.len() {
        1 => Some(RC { oid, crit: false, val: None }),
        2 => match boolean(&ks[1]) {
            Some(b) => Some(RC { oid, crit: b, val: None }),
            None => Some(RC { oid, crit: false, val: Some(p(&ks[1], 0, 4)?.clone()) }),
        },
        3 => Some(RC { oid, crit: boolean(&ks[1])?, val: Some(p(&ks[2], 0, 4)?.clone()) }),
        _ => None,
    }
}

pub fn decode_msg(bs: &[u8]) -> Option<(i64, Option<Vec<RC>>, Req)> {
    let (rest, t) = parse_tag(bs).ok()?;
    if !rest.is_empty() {
        return None;
    }
    let ks = k(&t, 0, 16)?;
    if ks.len() != 2 && ks.len() != 3 {
        return None;
    }
    let id = twos(p(&ks[0], 0, 2)?)?;
    let req = decode_op(&ks[1])?;
    let ctrls = if ks.len() == 3 { Some(k(&ks[2], 2, 0)?.iter().map(decode_ctl).collect::<Option<Vec<_>>>()?) } else { None };
    Some((id, ctrls, req))
}

fn same_multiset(a: &[Vec<u8>], b: &[Vec<u8>]) -> bool {
    let mut x: Vec<&Vec<u8>> = a.iter().collect();
    let mut y: Vec<&Vec<u8>> = b.iter().collect();
    x.sort();
    y.sort();
    x == y
}

/// the asked request with every value set in the order seen on the wire (when it is the same set)
fn in_wire_order(asked: &Req, wire: &Req) -> Req {
    match (asked, wire) {
        (Req::Add { dn, attrs }, Req::Add { attrs: w, .. }) if attrs.len() == w.len() => Req::Add {
            dn: dn.clone(),
            attrs: attrs
                .iter()
                .zip(w.iter())
                .map(|((n, vs), (_, ws))| (n.clone(), if same_multiset(vs, ws) { ws.clone() } else { vs.clone() }))
                .collect(),
        },
        (Req::Modify { dn, mods }, Req::Modify { mods: w, .. }) if mods.len() == w.len() => Req::Modify {
            dn: dn.clone(),
            mods: mods
                .iter()
                .zip(w.iter())
                .map(|((kd, n, vs), (_, _, ws))| (*kd, n.clone(), if same_multiset(vs, ws) { ws.clone() } else { vs.clone() }))
                .collect(),
        },
        _ => asked.clone(),
    }
}

/* ---------- running the real handle ---------- */

fn s(b: &[u8]) -> &str {
    std::str::from_utf8(b).expect("generator produces UTF-8 where the API takes &str")
}

fn raw(c: &RC) -> RawControl {
    RawControl { ctype: s(&c.oid).to_string(), crit: c.crit, val: c.val.clone() }
}

fn scope_of(n: i64) -> Scope {
    match n {
        0 => Scope::Base,
        1 => Scope::OneLevel,
        _ => Scope::Subtree,
    }
}

fn deref_of(n: i64) -> DerefAliases {
    match n {
        0 => DerefAliases::Never,
        1 => DerefAliases::Searching,
        2 => DerefAliases::Finding,
        _ => DerefAliases::Always,
    }
}

fn err_word(e: &LdapError) -> String {
    match e {
        LdapError::AddNoValues => String::from("refused"),
        LdapError::FilterParsing => String::from("badfilter"),
        other => format!("err:{}", format!("{:?}", other).split(|c: char| !c.is_alphanumeric()).next().unwrap_or("?")),
    }
}

fn word<T>(r: Result<T, LdapError>) -> String {
    match r {
        Ok(_) => String::from("ok"),
        Err(e) => err_word(&e),
    }
}

async fn do_search(ldap: &mut Ldap, base: &str, scope: Scope, filter: &str, attrs: Vec<String>, streaming: bool) -> String {
    if streaming {
        match ldap.streaming_search(base, scope, filter, attrs).await {
            Ok(mut st) => {
                loop {
                    match st.next().await {
                        Ok(Some(_)) => continue,
                        Ok(None) => break,
                        Err(e) => return err_word(&e),
                    }
                }
                let res = st.finish().await;
                if res.rc == 0 { String::from("ok") } else { format!("err:rc{}", res.rc) }
            }
            Err(e) => err_word(&e),
        }
    } else {
        match ldap.search(base, scope, filter, attrs).await {
            Ok(r) => if r.1.rc == 0 { String::from("ok") } else { format!("err:rc{}", r.1.rc) },
            Err(e) => err_word(&e),
        }
    }
}

async fn do_op(ldap: &mut Ldap, r: &Req, streaming: bool) -> String {
    match r {
        Req::Bind { dn, pw } => word(ldap.simple_bind(s(dn), s(pw)).await),
        Req::SaslExt => word(ldap.sasl_external_bind().await),
        Req::Search { base, scope, attrs, fsrc, .. } => {
            let attrs: Vec<String> = attrs.iter().map(|a| s(a).to_string()).collect();
            do_search(ldap, s(base), scope_of(*scope), fsrc, attrs, streaming).await
        }
        Req::Add { dn, attrs } => {
            let a: Vec<(Vec<u8>, HashSet<Vec<u8>>)> = attrs.iter().map(|(n, vs)| (n.clone(), vs.iter().cloned().collect())).collect();
            word(ldap.add(s(dn), a).await)
        }
        Req::Compare { dn, attr, val } => word(ldap.compare(s(dn), s(attr), val.clone()).await),
        Req::Delete { dn } => word(ldap.delete(s(dn)).await),
        Req::Modify { dn, mods } => {
            let m: Vec<Mod<Vec<u8>>> = mods
                .iter()
                .map(|(kd, n, vs)| {
                    let set: HashSet<Vec<u8>> = vs.iter().cloned().collect();
                    match kd {
                        0 => Mod::Add(n.clone(), set),
                        1 => Mod::Delete(n.clone(), set),
                        2 => Mod::Replace(n.clone(), set),
                        _ => Mod::Increment(n.clone(), vs[0].clone()),
                    }
                })
                .collect();
            word(ldap.modify(s(dn), m).await)
        }
        Req::ModDn { dn, rdn, del, sup } => word(ldap.modifydn(s(dn), s(rdn), *del, sup.as_ref().map(|x| s(x))).await),
        Req::Extended { name, val } => {
            let exop = Exop { name: name.as_ref().map(|n| s(n).to_string()), val: val.clone() };
            match AssertUnwindSafe(ldap.extended(exop)).catch_unwind().await {
                Ok(r) => word(r),
                Err(_) => String::from("panic"),
            }
        }
        Req::Unbind => word(ldap.unbind().await),
        Req::Abandon(i) => word(ldap.abandon(*i as i32).await),
    }
}

#[derive(Clone, Debug, PartialEq)]
pub struct Snap {
    ctrls: Option<Vec<RC>>,
    tmo: Option<u64>,
    opts: Option<Opts>,
}

fn snap(l: &Ldap) -> Snap {
    Snap {
        ctrls: l.controls.as_ref().map(|v| v.iter().map(|c| RC { oid: c.ctype.as_bytes().to_vec(), crit: c.crit, val: c.val.clone() }).collect()),
        tmo: l.timeout.map(|d| d.as_millis() as u64),
        opts: l.search_opts.as_ref().map(|o| Opts { deref: o.deref as i64, types_only: o.typesonly, time: o.timelimit as i64, size: o.sizelimit as i64 }),
    }
}

pub struct Obs {
    /// every message the server received, in order (the last one is the barrier Unbind unless the script unbound)
    msgs: Vec<Vec<u8>>,
    /// per call: outcome word, timeout on the handle just before the call, handle fields just after it
    per_call: Vec<(String, Option<u64>, Snap)>,
    barrier: bool,
}

fn response_for(msg: &[u8]) -> Option<Vec<u8>> {
    // outer header, then the messageID element verbatim, then the protocolOp identifier octet
    let hdr = if msg[1] < 0x80 { 2 } else { 2 + (msg[1] & 0x7f) as usize };
    let idlen = msg[hdr + 1] as usize;
    let idtlv = &msg[hdr..hdr + 2 + idlen];
    let resp = match msg[hdr + 2 + idlen] {
        0x60 => 0x61,
        0x63 => 0x65,
        0x66 => 0x67,
        0x68 => 0x69,
        0x4a => 0x6b,
        0x6c => 0x6d,
        0x6e => 0x6f,
        0x77 => 0x78,
        _ => return None,
    };
    let mut body = idtlv.to_vec();
    body.extend([resp, 0x07, 0x0a, 0x01, 0x00, 0x04, 0x00, 0x04, 0x00]);
    let mut out = vec![0x30, body.len() as u8];
    out.extend(body);
    Some(out)
}

async fn server_task(mut io: tokio::io::DuplexStream) -> Vec<Vec<u8>> {
    let mut acc: Vec<u8> = vec![];
    let mut msgs = vec![];
    let mut buf = vec![0u8; 1 << 16];
    loop {
        let n = match io.read(&mut buf).await {
            Ok(0) | Err(_) => break,
            Ok(n) => n,
        };
        acc.extend_from_slice(&buf[..n]);
        while let Some(total) = outer_total(&acc) {
            if acc.len() < total {
                break;
            }
            let msg: Vec<u8> = acc.drain(..total).collect();
            if let Some(r) = response_for(&msg) {
                if io.write_all(&r).await.is_err() {
                    return msgs;
                }
            }
            msgs.push(msg);
        }
    }
    if !acc.is_empty() {
        msgs.push(acc); // trailing garbage is reported as a message nobody can decode
    }
    msgs
}

const WATCHDOG: Duration = Duration::from_secs(5);

pub fn run_calls(rt: &tokio::runtime::Runtime, calls: &[Call], last_id: i32) -> Result<Obs, String> {
    let r = rt.block_on(async {
        let (client, server) = tokio::io::duplex(1 << 22);
        let (conn, ldap) = LdapConnAsync::verif_pair(Box::new(client));
        ldap.verif_set_msgmap(last_id, &[]);
        let drv = tokio::spawn(async move {
            let _ = conn.drive().await;
        });
        let srv = tokio::spawn(server_task(server));
        let mut handles: BTreeMap<usize, Ldap> = BTreeMap::new();
        handles.insert(0, ldap);
        let mut per_call = vec![];
        let mut unbound = false;
        for c in calls {
            let h = call_handle(c);
            let fut = async {
                match c {
                    Call::Wc(h, cs) => {
                        handles.get_mut(h).unwrap().with_controls(cs.iter().map(raw).collect::<Vec<_>>());
                        (String::from("-"), None)
                    }
                    Call::Wt(h, t) => {
                        handles.get_mut(h).unwrap().with_timeout(Duration::from_millis(*t));
                        (String::from("-"), None)
                    }
                    Call::Wo(h, o) => {
                        let so = SearchOptions::new().deref(deref_of(o.deref)).typesonly(o.types_only).timelimit(o.time as i32).sizelimit(o.size as i32);
                        handles.get_mut(h).unwrap().with_search_options(so);
                        (String::from("-"), None)
                    }
                    Call::Clone(a, b) => {
                        let c = handles.get(a).unwrap().clone();
                        handles.insert(*b, c);
                        (String::from("-"), None)
                    }
                    Call::Bad(h, f) => {
                        let l = handles.get_mut(h).unwrap();
                        let pre = l.timeout.map(|d| d.as_millis() as u64);
                        (do_search(l, "", Scope::Base, f, vec![], false).await, pre)
                    }
                    Call::Op(h, r, streaming) => {
                        let l = handles.get_mut(h).unwrap();
                        let pre = l.timeout.map(|d| d.as_millis() as u64);
                        (do_op(l, r, *streaming).await, pre)
                    }
                }
            };
            let (w, pre) = match tokio::time::timeout(WATCHDOG, fut).await {
                Ok(x) => x,
                Err(_) => return Err(format!("watchdog: call `{}` did not complete", call_text(c))),
            };
            if let Call::Op(_, Req::Unbind, _) = c {
                if w == "ok" {
                    unbound = true;
                }
            }
            per_call.push((w, pre, snap(handles.get(&h).unwrap())));
        }
        // barrier: an Unbind on a fresh clone ends the conversation; the server then sees EOF
        let mut barrier = false;
        if !unbound {
            let mut b = handles.values().next().unwrap().clone();
            match tokio::time::timeout(WATCHDOG, b.unbind()).await {
                Ok(Ok(())) => barrier = true,
                _ => return Err(String::from("barrier unbind failed")),
            }
        }
        drop(handles);
        let msgs = match tokio::time::timeout(WATCHDOG, srv).await {
            Ok(Ok(m)) => m,
            _ => return Err(String::from("watchdog: server task did not see EOF")),
        };
        let _ = tokio::time::timeout(WATCHDOG, drv).await;
        Ok(Obs { msgs, per_call, barrier })
    });
    let _ = ldap3::verif::verif_take_trace();
    r
}

/* ---------- generators ---------- */

fn gen_text(rng: &mut Rng, occasionally_big: bool) -> Vec<u8> {
    match rng.below(40) {
        0 => vec![],
        1 => b"\0".to_vec(),
        2 if occasionally_big => vec![b'a' + rng.below(26) as u8; *rng.pick(&[127usize, 128, 255, 256, 65535, 65536, 71000])],
        3..=8 => format!("cn=u{},ou=p{},dc=example,dc=org", rng.below(1000), rng.below(10)).into_bytes(),
        _ => crate::gen::utf8_string(rng, 24),
    }
}

fn gen_bytes(rng: &mut Rng, occasionally_big: bool) -> Vec<u8> {
    match rng.below(40) {
        0 => vec![],
        1 => vec![0],
        2 => vec![0xff, 0xfe, 0x80],
        3 if occasionally_big => vec![rng.next() as u8; *rng.pick(&[127usize, 128, 255, 256, 65535, 65536, 71680])],
        4..=10 => crate::gen::utf8_string(rng, 12),
        _ => {
            let n = rng.below(20) as usize;
            rng.bytes(n)
        }
    }
}

fn gen_set(rng: &mut Rng, min: usize, big: bool) -> Vec<Vec<u8>> {
    let n = match rng.below(20) {
        0 => 30,
        1..=4 => 0,
        5..=12 => 1,
        _ => rng.range(2, 6) as usize,
    }
    .max(min);
    let mut seen: HashSet<Vec<u8>> = HashSet::new();
    let mut out = vec![];
    let mut tries = 0;
    while out.len() < n && tries < 200 {
        tries += 1;
        let v = gen_bytes(rng, big);
        if seen.insert(v.clone()) {
            out.push(v);
        }
    }
    out
}

fn gen_count(rng: &mut Rng) -> usize {
    match rng.below(40) {
        0 | 1 => 200,
        2 => rng.range(50, 199) as usize,
        3..=5 => 0,
        _ => rng.range(1, 6) as usize,
    }
}

const LIMITS: &[i64] = &[0, 1, 127, 128, 255, 256, 32767, 32768, 65535, 8388607, 8388608, 2147483647, -1, -128, -129, -32768, -32769, -2147483648];

fn gen_limit(rng: &mut Rng) -> i64 {
    if rng.chance(1, 5) { rng.next() as i32 as i64 } else { *rng.pick(LIMITS) }
}

fn gen_opts(rng: &mut Rng) -> Opts {
    Opts { deref: rng.below(4) as i64, types_only: rng.chance(1, 2), time: gen_limit(rng), size: gen_limit(rng) }
}

pub fn gen_ctrls(rng: &mut Rng) -> Vec<RC> {
    let n = rng.below(6) as usize;
    let big = rng.chance(1, 8);
    (0..n)
        .map(|_| RC {
            oid: if rng.chance(1, 6) { crate::gen::utf8_string(rng, 8) } else { format!("1.3.6.1.4.1.{}.{}", rng.below(70000), rng.below(9)).into_bytes() },
            crit: rng.chance(1, 2),
            val: if rng.chance(1, 2) { Some(gen_bytes(rng, big)) } else { None },
        })
        .collect()
}

/// a request the API accepts (`big` allows 70 KiB values and 200 attributes)
fn gen_req(rng: &mut Rng, kind: u64, big: bool) -> Req {
    match kind {
        0 => Req::Bind { dn: gen_text(rng, big), pw: gen_text(rng, big) },
        1 => Req::SaslExt,
        2 => {
            let (fsrc, ftree) = *rng.pick(FILTERS);
            let n = if big { gen_count(rng) } else { rng.below(4) as usize };
            Req::Search {
                base: gen_text(rng, big),
                scope: rng.below(3) as i64,
                opts: DEFAULT_OPTS,
                attrs: (0..n).map(|_| gen_text(rng, false)).collect(),
                filter: ftree.to_string(),
                fsrc: fsrc.to_string(),
            }
        }
        3 => {
            let n = if big { gen_count(rng) } else { rng.below(4) as usize };
            Req::Add { dn: gen_text(rng, big), attrs: (0..n).map(|_| (gen_bytes(rng, false), if big { gen_set(rng, 1, n < 20) } else { vec![gen_bytes(rng, false)] })).collect() }
        }
        4 => Req::Compare { dn: gen_text(rng, big), attr: gen_text(rng, false), val: gen_bytes(rng, big) },
        5 => Req::Delete { dn: gen_text(rng, big) },
        6 => {
            let n = if big { gen_count(rng) } else { rng.below(4) as usize };
            Req::Modify {
                dn: gen_text(rng, big),
                mods: (0..n)
                    .map(|_| {
                        let kd = rng.below(4) as u8;
                        let name = gen_bytes(rng, false);
                        let vs = match kd {
                            3 => vec![gen_bytes(rng, false)],
                            0 => if big { gen_set(rng, 1, n < 20) } else { vec![gen_bytes(rng, false)] },
                            _ => if big { gen_set(rng, 0, n < 20) } else if rng.chance(1, 2) { vec![] } else { vec![gen_bytes(rng, false)] },
                        };
                        (kd, name, vs)
                    })
                    .collect(),
            }
        }
        7 => Req::ModDn { dn: gen_text(rng, big), rdn: gen_text(rng, false), del: rng.chance(1, 2), sup: if rng.chance(1, 2) { Some(gen_text(rng, big)) } else { None } },
        8 => Req::Extended { name: Some(if rng.chance(1, 2) { b"1.3.6.1.4.1.4203.1.11.3".to_vec() } else { gen_text(rng, false) }), val: if rng.chance(1, 2) { Some(gen_bytes(rng, big)) } else { None } },
        9 => Req::Unbind,
        _ => Req::Abandon(gen_limit(rng)),
    }
}

/// a request the API must refuse locally
fn gen_refused(rng: &mut Rng) -> Req {
    match rng.below(5) {
        0 | 1 => {
            let mut attrs: Vec<(Vec<u8>, Vec<Vec<u8>>)> = (0..rng.below(3)).map(|_| (gen_bytes(rng, false), vec![gen_bytes(rng, false)])).collect();
            let at = rng.below(attrs.len() as u64 + 1) as usize;
            attrs.insert(at, (gen_bytes(rng, false), vec![]));
            Req::Add { dn: gen_text(rng, false), attrs }
        }
        2 | 3 => {
            let mut mods: Vec<(u8, Vec<u8>, Vec<Vec<u8>>)> = (0..rng.below(3)).map(|_| (rng.below(3) as u8, gen_bytes(rng, false), vec![gen_bytes(rng, false)])).collect();
            let at = rng.below(mods.len() as u64 + 1) as usize;
            mods.insert(at, (0, gen_bytes(rng, false), vec![]));
            Req::Modify { dn: gen_text(rng, false), mods }
        }
        _ => Req::Extended { name: None, val: if rng.chance(1, 2) { Some(gen_bytes(rng, false)) } else { None } },
    }
}

const LAST_IDS: &[i32] = &[0, 0, 0, 5, 126, 127, 254, 255, 32766, 32767, 65534, 8388606, 8388607, 2147483644];

/* ---------- part A: single requests ---------- */

fn short(sx: &str) -> String {
    if sx.len() > 200 { format!("{}…({} chars)", &sx[..200], sx.len()) } else { sx.to_string() }
}

fn single(out: &mut Out, rt: &tokio::runtime::Runtime, rng: &mut Rng, req: Req, ctrls: Option<Vec<RC>>, opts: Option<Opts>, last_id: i32) {
    let mut calls = vec![];
    if let Some(cs) = &ctrls {
        calls.push(Call::Wc(0, cs.clone()));
    }
    if let Some(o) = &opts {
        calls.push(Call::Wo(0, o.clone()));
    }
    // what is asked, completely: a Search goes out with the options set (or the defaults), any other request ignores them
    let asked = match &req {
        Req::Search { base, scope, attrs, filter, fsrc, .. } => Req::Search {
            base: base.clone(),
            scope: *scope,
            opts: opts.clone().unwrap_or(DEFAULT_OPTS),
            attrs: attrs.clone(),
            filter: filter.clone(),
            fsrc: fsrc.clone(),
        },
        r => r.clone(),
    };
    calls.push(Call::Op(0, req.clone(), rng.chance(1, 2)));
    let id = last_id as i64 + 1;
    let canon = format!("{} {} {}", id, ctrls_text(&ctrls), req_text(&asked, true));
    let kind = canon.split(' ').nth(2).unwrap_or("?").to_string();
    out.case(&canon, true);
    out.stat(&format!("single.{}", kind));
    let nattrs = match &req {
        Req::Add { attrs, .. } => Some(attrs.len()),
        Req::Modify { mods, .. } => Some(mods.len()),
        Req::Search { attrs, .. } => Some(attrs.len()),
        _ => None,
    };
    if let Some(n) = nattrs {
        out.stat(&format!("single.listlen.{}", match n { 0 => "0", 1..=6 => "1-6", 7..=199 => "7-199", _ => "200" }));
    }
    out.stat(&format!("single.ctrls.{}", match &ctrls { None => String::from("none"), Some(v) => v.len().to_string() }));
    let desc = short(&canon);
    let obs = match run_calls(rt, &calls, last_id) {
        Ok(o) => o,
        Err(e) => {
            out.r(&format!("requests.completes {}", desc), false, &e);
            return;
        }
    };
    let outcome = obs.per_call.last().map(|x| x.0.clone()).unwrap_or_default();
    let is_unbind = matches!(req, Req::Unbind);
    let expect_n = if is_unbind { 1 } else { 2 };
    let shape_ok = outcome == "ok" && obs.msgs.len() == expect_n && (is_unbind || obs.barrier);
    out.r(&format!("requests.one-message {}", desc), shape_ok, &format!("outcome={} messages={}", outcome, obs.msgs.len()));
    if obs.msgs.is_empty() {
        return;
    }
    let real = &obs.msgs[0];
    let size_class = match real.len() { 0..=127 => "<128", 128..=255 => "<256", 256..=65535 => "<64K", _ => ">=64K" };
    out.stat(&format!("single.size.{}", size_class));
    // O: the independent reader on the real bytes
    out.o(&format!("spec.req.dec {}", hex(real)), &canon);
    // M: the model's encoder on the request, value sets in the order the real code wrote them
    let wire = decode_msg(real);
    let reexpr = match &wire {
        Some((_, _, w)) => in_wire_order(&asked, w),
        None => asked.clone(),
    };
    out.m(&format!("req.enc {} {} {}", id, ctrls_text(&ctrls), req_text(&reexpr, false)), &hex(real));
    // R: the harness's own reading agrees too (third opinion, cheap)
    let third = match &wire {
        Some((i, c, w)) => *i == id && *c == ctrls && req_text(w, true) == req_text(&asked, true),
        None => false,
    };
    out.r(&format!("requests.rust-reader {}", desc), third, "the lane's own decoder reads something else");
    if !is_unbind && obs.msgs.len() == 2 {
        let b = decode_msg(&obs.msgs[1]);
        let ok = matches!(&b, Some((i, None, Req::Unbind)) if *i == id + 1);
        out.r(&format!("requests.next-op-clean {}", desc), ok, "the operation after it does not have the next ID / carries controls");
    }
}

fn single_refused(out: &mut Out, rt: &tokio::runtime::Runtime, req: Req, last_id: i32) {
    let want = must_reject(&req).unwrap_or("?");
    let text = req_text(&req, false);
    out.case(&format!("refused {}", text), true);
    out.stat(&format!("refused.{}", text.split(' ').next().unwrap_or("?")));
    let calls = vec![Call::Op(0, req.clone(), false)];
    match run_calls(rt, &calls, last_id) {
        Err(e) => out.r(&format!("requests.refused-sends-nothing {}", short(&text)), false, &e),
        Ok(obs) => {
            let w = obs.per_call[0].0.clone();
            // only the barrier was sent, and it got the very next ID: the refused call allocated none
            let only_barrier = obs.msgs.len() == 1 && matches!(decode_msg(&obs.msgs[0]), Some((i, None, Req::Unbind)) if i == last_id as i64 + 1);
            out.r(&format!("requests.refused-sends-nothing {}", short(&text)), w == want && only_barrier, &format!("outcome={} messages={}", w, obs.msgs.len()));
            out.m(&format!("handle.run {}", call_text(&calls[0])), &format!("{} h0={}", w, snap_text(&obs.per_call[0].2)));
        }
    }
}

fn snap_text(sn: &Snap) -> String {
    format!("{}/{}/{}", ctrls_text(&sn.ctrls), tmo_text(&sn.tmo), opts_text(&sn.opts))
}

/* ---------- part B: scripts ---------- */

fn gen_script(rng: &mut Rng) -> Vec<Call> {
    let n = rng.range(1, 12) as usize;
    let mut live: Vec<usize> = vec![0];
    let mut calls = vec![];
    for i in 0..n {
        let h = *rng.pick(&live);
        let c = match rng.below(20) {
            0..=3 => Call::Wc(h, gen_ctrls(rng)),
            4..=5 => Call::Wt(h, 60_000 + rng.below(1000) * 1000),
            6..=8 => Call::Wo(h, gen_opts(rng)),
            9 => {
                let dst = if rng.chance(1, 4) { *rng.pick(&live) } else { live.len() };
                if !live.contains(&dst) {
                    live.push(dst);
                }
                Call::Clone(h, dst)
            }
            10 => Call::Bad(h, rng.pick(BAD_FILTERS).to_string()),
            11..=12 => Call::Op(h, gen_refused(rng), false),
            13..=15 => Call::Op(h, gen_req(rng, 2, false), rng.chance(1, 2)),
            _ => {
                let kind = *rng.pick(&[0u64, 1, 3, 4, 5, 6, 7, 8, 10, 9]);
                if kind == 9 && i + 1 != n {
                    Call::Op(h, gen_req(rng, 5, false), false)
                } else {
                    Call::Op(h, gen_req(rng, kind, false), false)
                }
            }
        };
        calls.push(c);
    }
    calls
}

/// the observed transcript in the driver's format, and the decoded messages per call
fn transcript(calls: &[Call], obs: &Obs) -> (String, Vec<Option<(i64, Option<Vec<RC>>, Req)>>, usize) {
    let n_script_msgs = if obs.barrier { obs.msgs.len().saturating_sub(1) } else { obs.msgs.len() };
    let mut next = 0usize;
    let mut items = vec![];
    let mut per_call_msg = vec![];
    for (c, (w, pre, sn)) in calls.iter().zip(obs.per_call.iter()) {
        let h = call_handle(c);
        let mut m = None;
        let what = match c {
            Call::Op(..) if w == "ok" => {
                if next < n_script_msgs {
                    let d = decode_msg(&obs.msgs[next]);
                    next += 1;
                    let t = match &d {
                        Some((id, cs, r)) => format!("sent {} {} {} {}", id, ctrls_text(cs), tmo_text(pre), req_text(r, false)),
                        None => String::from("sent unreadable"),
                    };
                    m = d;
                    t
                } else {
                    String::from("ok-but-nothing-sent")
                }
            }
            Call::Op(..) => w.clone(),
            Call::Bad(..) => if w == "badfilter" { String::from("-") } else { format!("bad-filter-outcome:{}", w) },
            _ => w.clone(),
        };
        per_call_msg.push(m);
        items.push(format!("{} h{}={}", what, h, snap_text(sn)));
    }
    let extra = n_script_msgs - next;
    let mut t = items.join(" | ");
    if extra > 0 {
        t.push_str(&format!(" | EXTRA-MESSAGES {}", extra));
    }
    (t, per_call_msg, extra)
}

/// The one-shot law on the observed transcript: every invoked operation — sent, refused with AddNoValues,
/// or a Search with an unparsable filter — uses the modifiers up.  The one exception is outside the law
/// (caller contract violation): `extended` with a nameless Exop panics before anything is taken, and a
/// caller catching the unwind finds the modifiers still there.  Returns the first discrepancy.
fn law(calls: &[Call], obs: &Obs, msgs: &[Option<(i64, Option<Vec<RC>>, Req)>], first_id: i64) -> Option<String> {
    let mut pending: BTreeMap<usize, Snap> = BTreeMap::new();
    let empty = Snap { ctrls: None, tmo: None, opts: None };
    let mut id = first_id;
    for (i, c) in calls.iter().enumerate() {
        let h = call_handle(c);
        let cur = pending.get(&h).cloned().unwrap_or(empty.clone());
        match c {
            Call::Wc(_, cs) => { pending.insert(h, Snap { ctrls: Some(cs.clone()), ..cur }); }
            Call::Wt(_, t) => { pending.insert(h, Snap { tmo: Some(*t), ..cur }); }
            Call::Wo(_, o) => { pending.insert(h, Snap { opts: Some(o.clone()), ..cur }); }
            Call::Clone(_, d) => { pending.insert(*d, empty.clone()); }
            Call::Bad(..) => {
                if msgs[i].is_some() || obs.per_call[i].0 != "badfilter" {
                    return Some(format!("call {}: a search with an unparsable filter did something ({})", i, obs.per_call[i].0));
                }
                pending.insert(h, empty.clone());
            }
            Call::Op(_, r, _) => {
                if let Some(want) = must_reject(r) {
                    if msgs[i].is_some() || obs.per_call[i].0 != want {
                        return Some(format!("call {}: a call that must be refused was not ({})", i, obs.per_call[i].0));
                    }
                    if want != "panic" {
                        pending.insert(h, empty.clone());
                    }
                } else {
                    let (mid, mcs, mreq) = match &msgs[i] {
                        Some(x) => x,
                        None => return Some(format!("call {}: no readable message for an accepted operation ({})", i, obs.per_call[i].0)),
                    };
                    if *mid != id {
                        return Some(format!("call {}: message ID {} instead of {}", i, mid, id));
                    }
                    id += 1;
                    if *mcs != cur.ctrls {
                        return Some(format!("call {}: carries controls {} but {} are pending", i, ctrls_text(mcs), ctrls_text(&cur.ctrls)));
                    }
                    if obs.per_call[i].1 != cur.tmo {
                        return Some(format!("call {}: runs with timeout {} but {} is pending", i, tmo_text(&obs.per_call[i].1), tmo_text(&cur.tmo)));
                    }
                    let asked = match r {
                        Req::Search { base, scope, attrs, filter, .. } => Req::Search {
                            base: base.clone(),
                            scope: *scope,
                            opts: cur.opts.clone().unwrap_or(DEFAULT_OPTS),
                            attrs: attrs.clone(),
                            filter: filter.clone(),
                            fsrc: String::new(),
                        },
                        r => r.clone(),
                    };
                    if req_text(mreq, true) != req_text(&asked, true) {
                        return Some(format!("call {}: sent `{}` but `{}` was invoked", i, short(&req_text(mreq, true)), short(&req_text(&asked, true))));
                    }
                    pending.insert(h, empty.clone());
                }
            }
        }
        let exp = pending.get(&h).cloned().unwrap_or(empty.clone());
        if obs.per_call[i].2 != exp {
            return Some(format!("call {}: handle {} holds {} afterwards, the law says {}", i, h, snap_text(&obs.per_call[i].2), snap_text(&exp)));
        }
    }
    None
}

fn script_case(out: &mut Out, rt: &tokio::runtime::Runtime, calls: &[Call], label: &str) {
    let text = calls.iter().map(call_text).collect::<Vec<_>>().join(" | ");
    let nontrivial = calls.iter().any(|c| matches!(c, Call::Op(..))) && calls.iter().any(|c| matches!(c, Call::Wc(..) | Call::Wt(..) | Call::Wo(..)));
    out.case(&text, nontrivial);
    out.stat(&format!("{}.len{:02}", label, calls.len()));
    for c in calls {
        out.stat(&format!("{}.call.{}", label, match c {
            Call::Wc(..) => "with_controls",
            Call::Wt(..) => "with_timeout",
            Call::Wo(..) => "with_search_options",
            Call::Clone(..) => "clone",
            Call::Bad(..) => "search-bad-filter",
            Call::Op(_, r, _) => if must_reject(r).is_some() { "op-refused" } else if matches!(r, Req::Search { .. }) { "op-search" } else { "op-other" },
        }));
    }
    let desc = short(&text);
    let obs = match run_calls(rt, calls, 0) {
        Ok(o) => o,
        Err(e) => {
            out.r(&format!("requests.script-completes {}", desc), false, &e);
            return;
        }
    };
    let (tr, msgs, extra) = transcript(calls, &obs);
    out.m(&format!("handle.run {}", text), &tr);
    // every message of the script also goes through the independent reader (O) — IDs, controls, operation
    let mut k_msg = 0;
    for (i, m) in msgs.iter().enumerate() {
        if let Some((id, cs, r)) = m {
            let _ = i;
            out.o(&format!("spec.req.dec {}", hex(&obs.msgs[k_msg])), &format!("{} {} {}", id, ctrls_text(cs), req_text(r, true)));
            k_msg += 1;
        } else if matches!(&calls[i], Call::Op(..)) && obs.per_call[i].0 == "ok" {
            k_msg += 1;
        }
    }
    let verdict = if extra > 0 {
        Some(format!("{} message(s) on the wire that no call accounts for", extra))
    } else {
        law(calls, &obs, &msgs, 1)
    };
    let has_panic = calls.iter().any(|c| matches!(c, Call::Op(_, r, _) if must_reject(r) == Some("panic")));
    let name = if has_panic { "requests.one-shot-with-panics" } else { "requests.one-shot" };
    match verdict {
        None => out.r(&format!("{} {}", name, desc), true, ""),
        Some(d) => {
            out.stat(&format!("{}.law-fails", label));
            out.r(&format!("{} {}", name, desc), false, &d);
        }
    }
}

pub fn run(thorough: bool, mut rng: Rng, mut out: Out) {
    let rt = tokio::runtime::Builder::new_current_thread().enable_all().build().expect("tokio runtime");
    let rc = |o: &str, crit: bool, val: Option<&[u8]>| RC { oid: o.as_bytes().to_vec(), crit, val: val.map(|v| v.to_vec()) };
    // corpus: the F10 witness (search options before a non-search operation) and the F16 witnesses (modifiers
    // before an add / modify refused with AddNoValues): the law must hold on them now; modifiers before a panicking exop
    let f = |i: usize| Req::Search { base: b"dc=x".to_vec(), scope: 2, opts: DEFAULT_OPTS, attrs: vec![b"cn".to_vec()], filter: FILTERS[i].1.to_string(), fsrc: FILTERS[i].0.to_string() };
    let o1 = Opts { deref: 3, types_only: true, time: 7, size: 9 };
    let corpus: Vec<Vec<Call>> = vec![
        vec![Call::Wo(0, o1.clone()), Call::Op(0, Req::Delete { dn: b"o=x".to_vec() }, false), Call::Op(0, f(0), false)],
        vec![Call::Wc(0, vec![rc("1.2", true, None)]), Call::Op(0, Req::Add { dn: b"o=x".to_vec(), attrs: vec![(b"cn".to_vec(), vec![])] }, false), Call::Op(0, Req::Delete { dn: b"o=x".to_vec() }, false)],
        vec![Call::Wt(0, 500_000), Call::Wo(0, o1.clone()), Call::Op(0, Req::Modify { dn: b"o=x".to_vec(), mods: vec![(0, b"cn".to_vec(), vec![])] }, false), Call::Op(0, f(1), true)],
        vec![Call::Wc(0, vec![rc("1.2", false, Some(b"v"))]), Call::Op(0, Req::Extended { name: None, val: None }, false), Call::Op(0, Req::Compare { dn: b"o=x".to_vec(), attr: b"cn".to_vec(), val: vec![0] }, false)],
        vec![Call::Wc(0, vec![rc("1.2", false, None)]), Call::Wt(0, 90_000), Call::Wo(0, o1.clone()), Call::Bad(0, String::from("(cn=")), Call::Op(0, f(2), false)],
        vec![Call::Wc(0, vec![rc("1.2", false, None)]), Call::Clone(0, 1), Call::Op(1, Req::Delete { dn: b"o=y".to_vec() }, false), Call::Op(0, Req::Delete { dn: b"o=x".to_vec() }, false), Call::Op(0, Req::Delete { dn: b"o=z".to_vec() }, false)],
        vec![Call::Wc(0, vec![]), Call::Wc(0, vec![rc("2.16.840.1.113730.3.4.2", true, None), rc("1.2.3", false, Some(b""))]), Call::Op(0, f(3), true), Call::Op(0, f(4), false), Call::Op(0, Req::Unbind, false)],
        vec![Call::Wo(0, o1.clone()), Call::Op(0, f(5), true), Call::Op(0, f(5), false)],
    ];
    for c in &corpus {
        script_case(&mut out, &rt, c, "corpus");
    }
    // every entry of the hand-written filter table (string -> RFC 4511 Filter element) goes out in a Search once,
    // through both search() and streaming_search(): the filter on the wire is the one ASKED FOR, judged against the
    // table — not against whatever the library's own parser produced
    for i in 0..FILTERS.len() {
        script_case(&mut out, &rt, &[Call::Op(0, f(i), i % 2 == 0)], "corpus-filter");
        script_case(&mut out, &rt, &[Call::Op(0, f(i), i % 2 == 1)], "corpus-filter");
    }
    // part A: single requests of every kind
    let n_single = if thorough { 100_000 } else { 5_000 };
    for i in 0..n_single {
        let kind = (i % 11) as u64;
        let big = rng.chance(1, if thorough { 40 } else { 12 });
        let req = gen_req(&mut rng, kind, big);
        let ctrls = match rng.below(4) {
            0 => None,
            _ => Some(gen_ctrls(&mut rng)),
        };
        let opts = if kind == 2 { if rng.chance(3, 4) { Some(gen_opts(&mut rng)) } else { None } } else if rng.chance(1, 10) { Some(gen_opts(&mut rng)) } else { None };
        let last_id = *rng.pick(LAST_IDS);
        single(&mut out, &rt, &mut rng, req, ctrls, opts, last_id);
    }
    // limits and IDs exhaustively over the table
    for &l in LIMITS {
        for &last in &[0i32, 127, 32767] {
            let o = Opts { deref: l.rem_euclid(4), types_only: l % 2 == 0, time: l, size: -(l + 1) };
            single(&mut out, &rt, &mut rng, f(0), None, Some(o), last);
            single(&mut out, &rt, &mut rng, Req::Abandon(l), None, None, last);
        }
    }
    let n_ref = if thorough { 5_000 } else { 200 };
    for _ in 0..n_ref {
        let r = gen_refused(&mut rng);
        let last_id = *rng.pick(LAST_IDS);
        single_refused(&mut out, &rt, r, last_id);
    }
    // part B: handle-call scripts
    let n_scripts = if thorough { 30_000 } else { 1_500 };
    for _ in 0..n_scripts {
        let sc = gen_script(&mut rng);
        script_case(&mut out, &rt, &sc, "script");
    }
    out.finish("single requests of all 11 kinds through the real Ldap handle on a duplex transport (arbitrary UTF-8 DNs incl. empty/NUL, arbitrary byte values incl. empty/00/non-UTF-8, 0..200 attributes, value sets up to 30, values up to 70 KiB, 0..5 controls incl. Some([]), all scopes/derefs, limits and abandon IDs over a boundary table + random i32, message IDs across the 1/2/3/4-octet boundaries, both search() and streaming_search()); locally refused adds/modifies/exops; scripts of 1..12 handle calls (modifiers in random combination, clones incl. re-cloning onto a live name, refused calls, unparsable filters); non-trivial = a request was issued (scripts: at least one modifier and one operation); distinct by FNV of the canonical text");
}

//! Lane `codecs` (C19): every request control / extended request of ldap3 through its public
//! `From`/`Into` conversion, every response parser on values encoded by the lane's own RFC encoder
//! (random non-minimal length forms), control lists through the real message envelope.
//!   M lines: the Lean model (Model/Codecs.lean, Model/Controls.lean) recomputes the conversion
//!   O lines: the RFC decoder (Spec/Codecs.lean) applied to the REAL emitted value = generated value
//!   R lines: OID / criticality against the RFC constants written here, struct equality on parses
use crate::fmtx::*;
use crate::lanes::ber::spec_enc;
use crate::out::{guarded, Out};
use crate::rng::Rng;
use bytes::BytesMut;
use ldap3::controls::{parse_syncinfo, Assertion, Control, ControlType, EntryState, MakeCritical, ManageDsaIt, MatchedValues, PagedResults, PostRead, PreRead, ProxyAuth, RawControl, ReadEntryResp, RefreshMode, RelaxRules, SyncDone, SyncInfo, SyncRequest, SyncState, TxnSpec};
use ldap3::exop::{EndTxn, EndTxnResp, Exop, PasswordModify, PasswordModifyResp, StartTxn, StartTxnResp, WhoAmI, WhoAmIResp};
use ldap3::{ResultEntry, SearchEntry};
use lber::parse::parse_tag;
use lber::structure::{StructureTag, PL};
use lber::structures::Tag;

// ---- RFC constants (copied from the RFC texts, independent of the crate's constants)
const RFC_PAGED: &str = "1.2.840.113556.1.4.319";
const RFC_SYNC_REQUEST: &str = "1.3.6.1.4.1.4203.1.9.1.1";
const RFC_SYNC_STATE: &str = "1.3.6.1.4.1.4203.1.9.1.2";
const RFC_SYNC_DONE: &str = "1.3.6.1.4.1.4203.1.9.1.3";
const RFC_SYNC_INFO: &str = "1.3.6.1.4.1.4203.1.9.1.4";
const RFC_PRE_READ: &str = "1.3.6.1.1.13.1";
const RFC_POST_READ: &str = "1.3.6.1.1.13.2";
const RFC_ASSERTION: &str = "1.3.6.1.1.12";
const RFC_MATCHED_VALUES: &str = "1.2.826.0.1.3344810.2.3";
const RFC_PROXY_AUTH: &str = "2.16.840.1.113730.3.4.18";
const RFC_TXN_SPEC: &str = "1.3.6.1.1.21.2";
const RFC_TXN_START: &str = "1.3.6.1.1.21.1";
const RFC_TXN_END: &str = "1.3.6.1.1.21.3";
const RFC_MANAGE_DSA_IT: &str = "2.16.840.1.113730.3.4.2";
const RFC_RELAX: &str = "1.3.6.1.4.1.4203.666.5.12";
const RFC_WHOAMI: &str = "1.3.6.1.4.1.4203.1.11.3";
const RFC_PASSMOD: &str = "1.3.6.1.4.1.4203.1.11.1";

const COOKIE_LENS: &[usize] = &[0, 1, 127, 128, 300];
const SIZES: &[i32] = &[0, 1, 127, 128, 255, 256, 32767, 32768, 65535, 65536, 8388607, 8388608, i32::MAX - 1, i32::MAX];

fn opt_hex(v: &Option<Vec<u8>>) -> String {
    match v {
        None => String::from("none"),
        Some(b) => hex(b),
    }
}

fn bit(b: bool) -> &'static str {
    if b { "1" } else { "0" }
}

fn show_raw(rc: &RawControl) -> String {
    format!("oid={} crit={} val={}", hex(rc.ctype.as_bytes()), bit(rc.crit), opt_hex(&rc.val))
}

fn show_exop(e: &Exop) -> String {
    format!("name={} val={}", opt_hex(&e.name.as_ref().map(|s| s.as_bytes().to_vec())), opt_hex(&e.val))
}

fn known_word(k: &Option<ControlType>) -> &'static str {
    match k {
        None => "-",
        Some(ControlType::PagedResults) => "paged",
        Some(ControlType::PostReadResp) => "postread",
        Some(ControlType::PreReadResp) => "preread",
        Some(ControlType::SyncDone) => "syncdone",
        Some(ControlType::SyncState) => "syncstate",
        Some(ControlType::ManageDsaIt) => "managedsait",
        Some(ControlType::MatchedValues) => "matchedvalues",
        Some(_) => "other",
    }
}

fn show_controls(cs: &[Control]) -> String {
    let v: Vec<String> = cs
        .iter()
        .map(|c| format!("{} {} {} {}", known_word(&c.0), hex(c.1.ctype.as_bytes()), bit(c.1.crit), opt_hex(&c.1.val)))
        .collect();
    format!("[{}]", v.join(";"))
}

/// the lane's own expectation of the `CONTROLS` table, from the RFC OIDs of the response controls
fn rfc_known(oid: &str) -> &'static str {
    match oid {
        RFC_PAGED => "paged",
        RFC_POST_READ => "postread",
        RFC_PRE_READ => "preread",
        RFC_SYNC_DONE => "syncdone",
        RFC_SYNC_STATE => "syncstate",
        RFC_MANAGE_DSA_IT => "managedsait",
        RFC_MATCHED_VALUES => "matchedvalues",
        _ => "-",
    }
}

const PALETTE: &[&str] = &["a", "b", "z", "A", "0", "9", "=", ",", " ", "-", ".", ":", "é", "ß", "€", "𝄞", "\u{0}", "*", "(", ")", "\\"];

fn gen_str(rng: &mut Rng) -> String {
    let n = match rng.below(10) {
        0 => 0,
        1..=5 => rng.range(1, 8) as usize,
        6..=7 => rng.range(9, 40) as usize,
        8 => *rng.pick(&[126usize, 127, 128, 129]),
        _ => *rng.pick(&[255usize, 256, 300]),
    };
    let mut s = String::new();
    while s.len() < n {
        let p = *rng.pick(PALETTE);
        if s.len() + p.len() <= n {
            s.push_str(p);
        } else {
            s.push('x');
        }
    }
    s
}

fn gen_cookie(rng: &mut Rng, len: usize) -> Vec<u8> {
    match rng.below(6) {
        0 => vec![0u8; len],
        1 => vec![0xffu8; len],
        _ => rng.bytes(len),
    }
}

fn gen_opt_cookie(rng: &mut Rng) -> Option<Vec<u8>> {
    if rng.chance(1, 3) {
        None
    } else {
        let n = if rng.chance(1, 2) { *rng.pick(COOKIE_LENS) } else { rng.below(20) as usize };
        Some(gen_cookie(rng, n))
    }
}

/// minimal two's complement octets (X.690 §8.3), written independently of lber
fn int_octets(v: i64) -> Vec<u8> {
    let mut b = v.to_be_bytes().to_vec();
    while b.len() > 1 && ((b[0] == 0 && b[1] & 0x80 == 0) || (b[0] == 0xff && b[1] & 0x80 != 0)) {
        b.remove(0);
    }
    b
}

fn octets(v: &[u8]) -> StructureTag {
    prim(0, 4, v.to_vec())
}

/// BOOLEAN DEFAULT `dflt` with value `b`: omitted, or explicit (TRUE as FF or any non-zero octet)
fn bool_opt(rng: &mut Rng, dflt: bool, b: bool) -> Vec<StructureTag> {
    if b == dflt && rng.chance(2, 3) {
        return vec![];
    }
    let x = if !b {
        0u8
    } else if rng.chance(2, 3) {
        0xff
    } else {
        rng.range(1, 255) as u8
    };
    vec![prim(0, 1, vec![x])]
}

fn oid_ok(out: &mut Out, what: &str, rc: &RawControl, oid: &str, crit: bool) {
    out.r(&format!("ctl.oid-crit {} {}", what, oid), rc.ctype == oid && rc.crit == crit,
          &format!("got oid {} crit {}", rc.ctype, rc.crit));
}

/// M (+ critical-wrapper M) and O lines of one request control
fn req_control(out: &mut Out, name: &str, args: &str, rc: &RawControl, crit_rc: Option<&RawControl>, oid: &str, crit: bool, spec_expect: Option<&str>) {
    let a = if args.is_empty() { String::new() } else { format!(" {}", args) };
    out.m(&format!("ctl.enc {}{}", name, a), &show_raw(rc));
    oid_ok(out, name, rc, oid, crit);
    if let Some(c) = crit_rc {
        out.m(&format!("ctl.enc critical {}{}", name, a), &show_raw(c));
        out.r(&format!("ctl.critical-wrapper {}", name), c.crit && c.ctype == rc.ctype && c.val == rc.val, "wrapper changed more than criticality");
    }
    if let Some(e) = spec_expect {
        out.o(&format!("spec.ctl.dec {} {}", name, opt_hex(&rc.val)), e);
    }
}

fn parse_outcome<T>(f: impl FnOnce() -> T + std::panic::UnwindSafe, show: impl Fn(&T) -> String) -> String {
    match guarded(f) {
        Ok(v) => show(&v),
        Err(_) => String::from("panic"),
    }
}

fn show_paged(p: &PagedResults) -> String {
    format!("size={} cookie={}", p.size, hex(&p.cookie))
}

fn show_syncstate(s: &SyncState) -> String {
    let w = match s.state {
        EntryState::Present => "present",
        EntryState::Add => "add",
        EntryState::Modify => "modify",
        EntryState::Delete => "delete",
    };
    format!("state={} uuid={} cookie={}", w, hex(&s.entry_uuid), opt_hex(&s.cookie))
}

fn show_syncdone(s: &SyncDone) -> String {
    format!("cookie={} rd={}", opt_hex(&s.cookie), bit(s.refresh_deletes))
}

fn canon_set<'a>(it: impl Iterator<Item = &'a Vec<u8>>) -> String {
    let mut v: Vec<String> = it.map(|u| hex(u)).collect();
    v.sort();
    v.dedup();
    v.join(",")
}

fn show_syncinfo(s: &SyncInfo) -> String {
    match s {
        SyncInfo::NewCookie(c) => format!("newcookie {}", hex(c)),
        SyncInfo::RefreshDelete { cookie, refresh_done } => format!("refreshdelete cookie={} done={}", opt_hex(cookie), bit(*refresh_done)),
        SyncInfo::RefreshPresent { cookie, refresh_done } => format!("refreshpresent cookie={} done={}", opt_hex(cookie), bit(*refresh_done)),
        SyncInfo::SyncIdSet { cookie, refresh_deletes, sync_uuids } => {
            format!("syncidset cookie={} rd={} uuids=[{}]", opt_hex(cookie), bit(*refresh_deletes), canon_set(sync_uuids.iter()))
        }
    }
}

fn show_endtxn(r: &EndTxnResp) -> String {
    let mid = match r.msg_id {
        None => String::from("none"),
        Some(n) => n.to_string(),
    };
    let upds = match &r.upds_ctrls {
        None => String::from("none"),
        Some(ps) => format!("[{}]", ps.iter().map(|(i, cs)| format!("{}:{}", i, show_controls(cs))).collect::<Vec<_>>().join(",")),
    };
    format!("msg_id={} upds={}", mid, upds)
}

fn rc_of(val: Option<Vec<u8>>) -> RawControl {
    RawControl { ctype: String::from("1.1"), crit: false, val }
}

/// every response parser on one value (`None` = control / exop without a value)
fn parse_all(out: &mut Out, val: &Option<Vec<u8>>) {
    let h = opt_hex(val);
    let v = val.clone();
    out.m(&format!("ctl.parse paged {}", h), &parse_outcome(move || rc_of(v).parse::<PagedResults>(), show_paged));
    let v = val.clone();
    out.m(&format!("ctl.parse syncstate {}", h), &parse_outcome(move || rc_of(v).parse::<SyncState>(), show_syncstate));
    let v = val.clone();
    out.m(&format!("ctl.parse syncdone {}", h), &parse_outcome(move || rc_of(v).parse::<SyncDone>(), show_syncdone));
    let v = val.clone();
    out.m(&format!("exop.parse whoami {}", h), &parse_outcome(move || Exop { name: None, val: v }.parse::<WhoAmIResp>(), |r| format!("authzid={}", hex(r.authzid.as_bytes()))));
    let v = val.clone();
    out.m(&format!("exop.parse starttxn {}", h), &parse_outcome(move || Exop { name: None, val: v }.parse::<StartTxnResp>(), |r| format!("txn_id={}", hex(r.txn_id.as_bytes()))));
    let v = val.clone();
    out.m(&format!("exop.parse passmod {}", h), &parse_outcome(move || Exop { name: None, val: v }.parse::<PasswordModifyResp>(), |r| format!("gen_pass={}", hex(r.gen_pass.as_bytes()))));
    let v = val.clone();
    out.m(&format!("exop.parse endtxn {}", h), &parse_outcome(move || Exop { name: None, val: v }.parse::<EndTxnResp>(), show_endtxn));
    read_entry_case(out, val);
}

/// `ReadEntryResp::parse` = `parse_tag` (modelled here) followed by `SearchEntry::construct` (C15)
fn read_entry_case(out: &mut Out, val: &Option<Vec<u8>>) {
    let h = opt_hex(val);
    let outer = match val {
        None => String::from("panic"),
        Some(v) => match guarded(|| parse_tag(v).map(|(_, t)| t).ok()) {
            Ok(Some(t)) => format!("ok {}", tlv(&t)),
            _ => String::from("panic"),
        },
    };
    out.m(&format!("ctl.parse readentry {}", h), &outer);
    let show = |a: &std::collections::HashMap<String, Vec<String>>, b: &std::collections::HashMap<String, Vec<Vec<u8>>>| {
        let mut x: Vec<String> = a.iter().map(|(k, v)| format!("{}={:?}", k, v)).collect();
        x.sort();
        let mut y: Vec<String> = b.iter().map(|(k, v)| format!("{}={:?}", k, v)).collect();
        y.sort();
        format!("{:?}|{:?}", x, y)
    };
    let v = val.clone();
    let real = parse_outcome(move || rc_of(v).parse::<ReadEntryResp>(), |r| show(&r.attrs, &r.bin_attrs));
    let v = val.clone();
    let composed = parse_outcome(
        move || {
            let v = v.expect("value");
            let t = match parse_tag(&v) {
                Ok((_, t)) => t,
                _ => panic!("parse"),
            };
            SearchEntry::construct(ResultEntry::new(t))
        },
        |se| show(&se.attrs, &se.bin_attrs),
    );
    out.r("readentry = construct . parse_tag", real == composed, &format!("{} vs {}", real, composed));
    // the whole parser against the composed model `parseReadEntryResp` (C19_readEntry_resp)
    let show_map = |pairs: Vec<(&[u8], Vec<String>)>| {
        let mut ks = pairs;
        ks.sort_by(|a, b| a.0.cmp(b.0));
        let items: Vec<String> = ks.iter().map(|(k, vs)| format!("{}:[{}]", hex(k), vs.join(","))).collect();
        format!("{{{}}}", items.join(";"))
    };
    let v = val.clone();
    let full = parse_outcome(move || rc_of(v).parse::<ReadEntryResp>(), |r| {
        let t = show_map(r.attrs.iter().map(|(k, vs)| (k.as_bytes(), vs.iter().map(|x| hex(x.as_bytes())).collect())).collect());
        let b = show_map(r.bin_attrs.iter().map(|(k, vs)| (k.as_bytes(), vs.iter().map(|x| hex(x)).collect())).collect());
        format!("ok text={} bin={}", t, b)
    });
    out.m(&format!("ctl.parse readentryresp {}", h), &full);
}

fn syncinfo_msg(with_name: bool, name: &[u8], val: Vec<u8>) -> StructureTag {
    let mut ks = vec![];
    if with_name {
        ks.push(prim(2, 0, name.to_vec()));
    }
    ks.push(prim(2, 1, val));
    cons(1, 25, ks)
}

fn syncinfo_outcome(t: &StructureTag) -> String {
    let t = t.clone();
    parse_outcome(move || parse_syncinfo(ResultEntry::new(t)), show_syncinfo)
}

/// random tree biased towards the tags the parsers look at
fn gen_resp_tree(rng: &mut Rng, depth: u32) -> StructureTag {
    let c = if rng.chance(4, 5) { 0 } else { rng.below(4) as u8 };
    let id = if rng.chance(5, 6) { *rng.pick(&[0u64, 1, 2, 3, 4, 10, 16, 17]) } else { rng.below(31) };
    if depth == 0 || rng.chance(1, 2) {
        let n = match rng.below(10) {
            0..=1 => 0,
            2..=6 => rng.range(1, 4) as usize,
            7..=8 => rng.range(5, 20) as usize,
            _ => *rng.pick(&[127usize, 128, 300]),
        };
        let mut v = rng.bytes(n);
        if n > 0 && rng.chance(1, 3) {
            v[0] = *rng.pick(&[0u8, 1, 2, 3, 4, 0x7f, 0x80, 0xff]);
        }
        if rng.chance(1, 3) {
            v = gen_str(rng).into_bytes();
        }
        prim(c, id, v)
    } else {
        let n = rng.below(5);
        cons(c, id, (0..n).map(|_| gen_resp_tree(rng, depth - 1)).collect())
    }
}

fn gen_oid(rng: &mut Rng) -> String {
    match rng.below(10) {
        0..=4 => String::from(*rng.pick(&[RFC_PAGED, RFC_POST_READ, RFC_PRE_READ, RFC_SYNC_DONE, RFC_SYNC_STATE, RFC_MANAGE_DSA_IT, RFC_MATCHED_VALUES,
            RFC_SYNC_REQUEST, RFC_ASSERTION, RFC_PROXY_AUTH, RFC_TXN_SPEC, RFC_RELAX])),
        5..=6 => {
            let n = rng.range(1, 8);
            (0..n).map(|_| rng.below(400).to_string()).collect::<Vec<_>>().join(".")
        }
        7 => {
            // near misses of table entries
            let mut s = String::from(*rng.pick(&[RFC_PAGED, RFC_SYNC_DONE, RFC_MANAGE_DSA_IT]));
            match rng.below(3) {
                0 => { s.pop(); }
                1 => s.push('0'),
                _ => s.insert(0, ' '),
            }
            s
        }
        _ => gen_str(rng),
    }
}

fn gen_raw(rng: &mut Rng) -> RawControl {
    RawControl { ctype: gen_oid(rng), crit: rng.chance(1, 2), val: gen_opt_cookie(rng) }
}

fn envelope_real(id: i32, ctrls: Vec<RawControl>) -> Vec<u8> {
    let mut buf = BytesMut::new();
    ldap3::verif::verif_encode(id, Tag::StructureTag(cons(1, 3, vec![prim(0, 4, b"dc=x".to_vec())])), Some(ctrls), &mut buf).expect("encode");
    buf.to_vec()
}

/// decode a frame with the real decoder: controls list, `none` on a decoding error
fn envelope_decode(bytes: &[u8]) -> String {
    crate::out::mark(&format!("env.dec {}", hex(bytes)));
    let b = bytes.to_vec();
    match guarded(move || {
        let mut buf = BytesMut::from(&b[..]);
        match ldap3::verif::verif_decode(&mut buf) {
            Ok(Some((_id, (_tag, ctrls)))) => show_controls(&ctrls),
            Ok(None) => String::from("incomplete"),
            Err(_) => String::from("none"),
        }
    }) {
        Ok(s) => s,
        Err(_) => String::from("panic"),
    }
}

fn frame_with_controls(rng: &mut Rng, id: i64, controls: &StructureTag, vary: bool) -> Vec<u8> {
    let msg = cons(0, 16, vec![prim(0, 2, int_octets(id)), cons(1, 5, vec![prim(0, 10, vec![0]), octets(b""), octets(b"")]), controls.clone()]);
    spec_enc(&msg, rng, vary)
}

pub fn run(thorough: bool, mut rng: Rng, mut out: Out) {
    let reps = if thorough { 12 } else { 3 };

    // ================= request controls =================
    // ---- PagedResults (RFC 2696)
    let mut sizes: Vec<i32> = SIZES.to_vec();
    for _ in 0..(if thorough { 200 } else { 20 }) {
        let bits = rng.range(1, 31);
        sizes.push((rng.next() as u32 >> (32 - bits)) as i32 & i32::MAX);
    }
    for &size in &sizes {
        for &cl in COOKIE_LENS {
            for _ in 0..reps {
                let cookie = gen_cookie(&mut rng, cl);
                let args = format!("{} {}", size, hex(&cookie));
                out.case(&format!("paged {}", args), cl > 0 || size > 127);
                out.stat(&format!("paged.cookie={}", cl));
                let rc: RawControl = PagedResults { size, cookie: cookie.clone() }.into();
                let crc: RawControl = PagedResults { size, cookie: cookie.clone() }.critical().into();
                let expect = format!("size={} cookie={}", size, hex(&cookie));
                req_control(&mut out, "paged", &args, &rc, Some(&crc), RFC_PAGED, false, Some(&expect));
                // the same struct is the response control: parse what was emitted
                let back = parse_outcome(|| rc.parse::<PagedResults>(), show_paged);
                out.r("paged.roundtrip", back == expect, &format!("{} -> {}", expect, back));
            }
        }
    }
    // negative sizes are outside `INTEGER (0..maxInt)`: model comparison only, plus what the reader makes of them
    for size in [-1i32, -2, -128, -129, -32768, -32769, i32::MIN, i32::MIN + 1] {
        let cookie = gen_cookie(&mut rng, 3);
        let args = format!("{} {}", size, hex(&cookie));
        out.case(&format!("paged {}", args), true);
        out.stat("paged.negative");
        let rc: RawControl = PagedResults { size, cookie: cookie.clone() }.into();
        out.m(&format!("ctl.enc paged {}", args), &show_raw(&rc));
        out.m(&format!("ctl.parse paged {}", opt_hex(&rc.val)), &parse_outcome(|| rc.parse::<PagedResults>(), show_paged));
    }
    // ---- SyncRequest (RFC 4533)
    for mode in [1, 3] {
        for hint in [false, true] {
            let mut cookies: Vec<Option<Vec<u8>>> = vec![None];
            for &cl in COOKIE_LENS {
                for _ in 0..reps {
                    cookies.push(Some(gen_cookie(&mut rng, cl)));
                }
            }
            for cookie in cookies {
                let mk = || SyncRequest {
                    mode: if mode == 1 { RefreshMode::RefreshOnly } else { RefreshMode::RefreshAndPersist },
                    cookie: cookie.clone(),
                    reload_hint: hint,
                };
                let args = format!("{} {} {}", mode, opt_hex(&cookie), bit(hint));
                out.case(&format!("syncreq {}", args), cookie.is_some() || hint);
                out.stat(&format!("syncreq.cookie={}", cookie.as_ref().map(|c| c.len().to_string()).unwrap_or(String::from("none"))));
                let rc: RawControl = mk().into();
                let crc: RawControl = mk().critical().into();
                let expect = format!("mode={} cookie={} hint={}", mode, opt_hex(&cookie), bit(hint));
                req_control(&mut out, "syncreq", &args, &rc, Some(&crc), RFC_SYNC_REQUEST, false, Some(&expect));
            }
        }
    }
    // ---- PreRead / PostRead (RFC 4527)
    for n in 0..(if thorough { 3000 } else { 300 }) {
        let k = if n < 4 { n } else { rng.below(6) };
        let attrs: Vec<String> = (0..k).map(|_| gen_str(&mut rng)).collect();
        let args = attrs.iter().map(|a| hex(a.as_bytes())).collect::<Vec<_>>().join(" ");
        let expect = format!("attrs=[{}]", attrs.iter().map(|a| hex(a.as_bytes())).collect::<Vec<_>>().join(","));
        out.case(&format!("readentry-req {}", args), k > 0);
        out.stat(&format!("attrsel.len={}", k));
        let pre = PreRead::new(attrs.clone());
        req_control(&mut out, "preread", &args, &pre, None, RFC_PRE_READ, false, Some(&expect));
        let post = PostRead::new(attrs.clone());
        req_control(&mut out, "postread", &args, &post, None, RFC_POST_READ, false, Some(&expect));
    }
    // ---- Assertion (RFC 4528) / MatchedValues (RFC 3876)
    let mut filters: Vec<String> = ["(cn=a)", "cn=a", "(&(objectClass=person)(|(cn=Al*)(sn>=B)))", "(!(cn=x))", "(cn=*)", "(cn:dn:2.5.13.5:=x)",
        "(cn~=a)", "(cn<=a)", "(a=\\2a)", "(&)", "(|)", "(cn=a*b*c)", "(:dn:2.4.6.8.10:=x)", "(cn:caseExactMatch:=é)",
        "", "(", "(cn=a", "((cn=a))", "(cn=a))", "()", "(=a)", "(cn=\\zz)", "(!(cn=a)(cn=b))"]
        .iter().map(|s| s.to_string()).collect();
    filters.push(format!("(cn={})", "a".repeat(200)));
    filters.push(format!("(&{})", "(cn=abcdefghij)".repeat(30)));
    for _ in 0..(if thorough { 2000 } else { 200 }) {
        filters.push(gen_filter(&mut rng, 3));
    }
    for f in &filters {
        let parsed = guarded(|| ldap3::parse_filter(f).ok().map(|t| lber::structures::ASNTag::into_structure(t))).unwrap_or(None);
        let arg = parsed.as_ref().map(tlv).unwrap_or(String::from("none"));
        out.case(&format!("assertion {}", f), parsed.is_some());
        out.stat(if parsed.is_some() { "assertion.valid" } else { "assertion.invalid" });
        let f2 = f.clone();
        match guarded(move || Assertion::new(f2)) {
            Ok(rc) => {
                let f3 = f.clone();
                let crc: Option<RawControl> = guarded(move || Assertion { filter: f3 }.critical().into()).ok();
                req_control(&mut out, "assertion", &arg, &rc, crc.as_ref(), RFC_ASSERTION, false, if parsed.is_some() { Some(&arg) } else { None });
                out.r("assertion.filter-was-valid", parsed.is_some(), f);
            }
            Err(_) => {
                out.m(&format!("ctl.enc assertion {}", arg), "panic");
                out.r("assertion.panic-only-on-invalid-filter", parsed.is_none(), f);
            }
        }
    }
    let mut mvs: Vec<String> = ["((cn=a))", "((cn=a)(sn=b*c))", "((cn:caseExactMatch:=x))", "((cn=*))", "((a>=1)(b<=2)(c~=3))",
        "(cn=a)", "", "((&(cn=a)))", "()", "((cn=a)", "((cn=a)))", "((!(cn=a)))"]
        .iter().map(|s| s.to_string()).collect();
    mvs.push(format!("((cn={}))", "v".repeat(150)));
    for _ in 0..(if thorough { 1000 } else { 100 }) {
        let k = rng.range(1, 4);
        mvs.push(format!("({})", (0..k).map(|_| gen_item(&mut rng)).collect::<String>()));
    }
    for f in &mvs {
        let f2 = f.clone();
        match guarded(move || MatchedValues::new(f2)) {
            Ok(rc) => {
                // the filter parser is not public: the tree the model starts from is read back from the emitted value
                let t = rc.val.as_ref().and_then(|v| parse_tag(v).ok().map(|(_, t)| t));
                let arg = t.as_ref().map(tlv).unwrap_or(String::from("none"));
                out.case(&format!("matchedvalues {}", f), true);
                out.stat("matchedvalues.valid");
                req_control(&mut out, "matchedvalues", &arg, &rc, None, RFC_MATCHED_VALUES, false, Some(&arg));
            }
            Err(_) => {
                out.case(&format!("matchedvalues {}", f), false);
                out.stat("matchedvalues.invalid");
                out.m("ctl.enc matchedvalues none", "panic");
            }
        }
    }
    // ---- ProxyAuth (RFC 4370), TxnSpec (RFC 5805), ManageDsaIT (RFC 3296), RelaxRules
    for n in 0..(if thorough { 2000 } else { 300 }) {
        let s = if n == 0 { String::new() } else if n == 1 { String::from("dn:cn=admin,dc=example,dc=org") } else { gen_str(&mut rng) };
        let h = hex(s.as_bytes());
        out.case(&format!("proxyauth/txnspec {}", h), !s.is_empty());
        let rc: RawControl = ProxyAuth { authzid: s.clone() }.into();
        req_control(&mut out, "proxyauth", &h, &rc, None, RFC_PROXY_AUTH, true, Some(&format!("octets={}", h)));
        let rc: RawControl = TxnSpec { txn_id: &s }.into();
        req_control(&mut out, "txnspec", &h, &rc, None, RFC_TXN_SPEC, true, Some(&format!("octets={}", h)));
    }
    {
        out.case("managedsait", true);
        let rc: RawControl = ManageDsaIt.into();
        let crc: RawControl = ManageDsaIt.critical().into();
        req_control(&mut out, "managedsait", "", &rc, Some(&crc), RFC_MANAGE_DSA_IT, false, Some("absent"));
        out.case("relaxrules", true);
        let rc: RawControl = RelaxRules.into();
        let crc: RawControl = RelaxRules.critical().into();
        req_control(&mut out, "relaxrules", "", &rc, Some(&crc), RFC_RELAX, false, Some("absent"));
    }

    // ================= extended requests =================
    {
        let e: Exop = WhoAmI.into();
        out.case("whoami", true);
        out.m("exop.enc whoami", &show_exop(&e));
        out.o(&format!("spec.exop.dec whoami {}", opt_hex(&e.val)), "absent");
        out.r("exop.oid whoami", e.name.as_deref() == Some(RFC_WHOAMI), "");
        let e: Exop = StartTxn.into();
        out.case("starttxn", true);
        out.m("exop.enc starttxn", &show_exop(&e));
        out.o(&format!("spec.exop.dec starttxn {}", opt_hex(&e.val)), "absent");
        out.r("exop.oid starttxn", e.name.as_deref() == Some(RFC_TXN_START), "");
    }
    for mask in 0..8u32 {
        for _ in 0..(if thorough { 400 } else { 60 }) {
            let u = if mask & 1 != 0 { Some(gen_str(&mut rng)) } else { None };
            let o = if mask & 2 != 0 { Some(gen_str(&mut rng)) } else { None };
            let n = if mask & 4 != 0 { Some(gen_str(&mut rng)) } else { None };
            let hx = |x: &Option<String>| opt_hex(&x.as_ref().map(|s| s.as_bytes().to_vec()));
            let args = format!("{} {} {}", hx(&u), hx(&o), hx(&n));
            out.case(&format!("passmod {}", args), mask != 0);
            out.stat(&format!("passmod.mask={}", mask));
            let e: Exop = PasswordModify { user_id: u.as_deref(), old_pass: o.as_deref(), new_pass: n.as_deref() }.into();
            out.m(&format!("exop.enc passmod {}", args), &show_exop(&e));
            out.o(&format!("spec.exop.dec passmod {}", opt_hex(&e.val)), &format!("user={} old={} new={}", hx(&u), hx(&o), hx(&n)));
            out.r("exop.oid passmod", e.name.as_deref() == Some(RFC_PASSMOD) && (e.val.is_none() == (mask == 0)), "OID, or value not omitted exactly when all fields are absent");
            if mask == 0 {
                break;
            }
        }
    }
    for commit in [true, false] {
        for n in 0..(if thorough { 1000 } else { 150 }) {
            let id = if n == 0 { String::new() } else { gen_str(&mut rng) };
            let args = format!("{} {}", hex(id.as_bytes()), bit(commit));
            out.case(&format!("endtxn {}", args), !id.is_empty());
            let e: Exop = EndTxn { txn_id: &id, commit }.into();
            out.m(&format!("exop.enc endtxn {}", args), &show_exop(&e));
            out.o(&format!("spec.exop.dec endtxn {}", opt_hex(&e.val)), &format!("id={} commit={}", hex(id.as_bytes()), bit(commit)));
            out.r("exop.oid endtxn", e.name.as_deref() == Some(RFC_TXN_END), "");
        }
    }

    // ================= response values, encoded by the lane (RFC ASN.1, random length forms) =================
    let mut valid: Vec<StructureTag> = vec![];
    let mut valid_si: Vec<StructureTag> = vec![];
    // ---- PagedResults
    for &size in &sizes {
        for &cl in COOKIE_LENS {
            let cookie = gen_cookie(&mut rng, cl);
            let t = cons(0, 16, vec![prim(0, 2, int_octets(size as i64)), octets(&cookie)]);
            if cl <= 1 {
                valid.push(t.clone());
            }
            let bs = spec_enc(&t, &mut rng, true);
            out.case(&format!("paged-resp {}", hex(&bs)), true);
            let rc = rc_of(Some(bs.clone()));
            let got = parse_outcome(|| rc.parse::<PagedResults>(), show_paged);
            out.m(&format!("ctl.parse paged {}", hex(&bs)), &got);
            out.r("paged.parse = encoded", got == format!("size={} cookie={}", size, hex(&cookie)), &got);
        }
    }
    // ---- SyncState
    for state in 0..4i64 {
        for _ in 0..(if thorough { 400 } else { 60 }) {
            let ul = rng.below(20) as usize;
            let uuid = if rng.chance(4, 5) { rng.bytes(16) } else { gen_cookie(&mut rng, ul) };
            let cookie = gen_opt_cookie(&mut rng);
            let mut ks = vec![prim(0, 10, int_octets(state)), octets(&uuid)];
            if let Some(c) = &cookie {
                ks.push(octets(c));
            }
            valid.push(cons(0, 16, ks.clone()));
            let bs = spec_enc(&cons(0, 16, ks), &mut rng, true);
            out.case(&format!("syncstate {}", hex(&bs)), true);
            out.stat(&format!("syncstate.state={}", state));
            let rc = rc_of(Some(bs.clone()));
            let got = parse_outcome(|| rc.parse::<SyncState>(), show_syncstate);
            out.m(&format!("ctl.parse syncstate {}", hex(&bs)), &got);
            let w = ["present", "add", "modify", "delete"][state as usize];
            out.r("syncstate.parse = encoded", got == format!("state={} uuid={} cookie={}", w, hex(&uuid), opt_hex(&cookie)), &got);
        }
    }
    // ---- SyncDone
    for rd in [false, true] {
        for _ in 0..(if thorough { 600 } else { 100 }) {
            let cookie = gen_opt_cookie(&mut rng);
            let mut ks = vec![];
            if let Some(c) = &cookie {
                ks.push(octets(c));
            }
            ks.extend(bool_opt(&mut rng, false, rd));
            valid.push(cons(0, 16, ks.clone()));
            let bs = spec_enc(&cons(0, 16, ks), &mut rng, true);
            out.case(&format!("syncdone {}", hex(&bs)), cookie.is_some() || rd);
            let rc = rc_of(Some(bs.clone()));
            let got = parse_outcome(|| rc.parse::<SyncDone>(), show_syncdone);
            out.m(&format!("ctl.parse syncdone {}", hex(&bs)), &got);
            out.r("syncdone.parse = encoded", got == format!("cookie={} rd={}", opt_hex(&cookie), bit(rd)), &got);
        }
    }
    // ---- SyncInfo
    for choice in 0..4u64 {
        for _ in 0..(if thorough { 600 } else { 100 }) {
            let cookie = gen_opt_cookie(&mut rng);
            let flag = rng.chance(1, 2);
            let k = rng.below(5);
            let mut uuids: Vec<Vec<u8>> = (0..k).map(|_| if rng.chance(4, 5) { rng.bytes(16) } else { rng.bytes(2) }).collect();
            if k > 1 && rng.chance(1, 5) {
                uuids[1] = uuids[0].clone();
            }
            let (val_t, expect) = match choice {
                0 => {
                    let c = cookie.clone().unwrap_or_default();
                    (prim(2, 0, c.clone()), format!("newcookie {}", hex(&c)))
                }
                1 | 2 => {
                    let mut ks = vec![];
                    if let Some(c) = &cookie {
                        ks.push(octets(c));
                    }
                    ks.extend(bool_opt(&mut rng, true, flag));
                    (cons(2, choice, ks), format!("{} cookie={} done={}", if choice == 1 { "refreshdelete" } else { "refreshpresent" }, opt_hex(&cookie), bit(flag)))
                }
                _ => {
                    let mut ks = vec![];
                    if let Some(c) = &cookie {
                        ks.push(octets(c));
                    }
                    ks.extend(bool_opt(&mut rng, false, flag));
                    ks.push(cons(0, 17, uuids.iter().map(|u| octets(u)).collect()));
                    (cons(2, 3, ks), format!("syncidset cookie={} rd={} uuids=[{}]", opt_hex(&cookie), bit(flag), canon_set(uuids.iter())))
                }
            };
            valid_si.push(val_t.clone());
            let val = spec_enc(&val_t, &mut rng, true);
            let msg = syncinfo_msg(rng.chance(4, 5), RFC_SYNC_INFO.as_bytes(), val);
            let canon = tlv(&msg);
            out.case(&format!("syncinfo {}", canon), true);
            out.stat(&format!("syncinfo.choice={}", choice));
            let got = syncinfo_outcome(&msg);
            out.m(&format!("ctl.parse syncinfo {}", canon), &got);
            out.r("syncinfo.parse = encoded", got == expect, &format!("{} vs {}", got, expect));
        }
    }
    // ---- WhoAmI / StartTxn / PasswordModify responses (UTF-8 values)
    for n in 0..(if thorough { 1500 } else { 250 }) {
        let s = if n == 0 { String::new() } else { gen_str(&mut rng) };
        let b = s.as_bytes().to_vec();
        out.case(&format!("string-resp {}", hex(&b)), !b.is_empty());
        let v = b.clone();
        let got = parse_outcome(move || Exop { name: None, val: Some(v) }.parse::<WhoAmIResp>(), |r| format!("authzid={}", hex(r.authzid.as_bytes())));
        out.m(&format!("exop.parse whoami {}", hex(&b)), &got);
        out.r("whoami.parse = encoded", got == format!("authzid={}", hex(&b)), &got);
        let v = b.clone();
        let got = parse_outcome(move || Exop { name: None, val: Some(v) }.parse::<StartTxnResp>(), |r| format!("txn_id={}", hex(r.txn_id.as_bytes())));
        out.m(&format!("exop.parse starttxn {}", hex(&b)), &got);
        out.r("starttxn.parse = encoded", got == format!("txn_id={}", hex(&b)), &got);
        valid.push(cons(0, 16, vec![prim(2, 0, b.clone())]));
        let bs = spec_enc(&cons(0, 16, vec![prim(2, 0, b.clone())]), &mut rng, true);
        let v = bs.clone();
        let got = parse_outcome(move || Exop { name: None, val: Some(v) }.parse::<PasswordModifyResp>(), |r| format!("gen_pass={}", hex(r.gen_pass.as_bytes())));
        out.m(&format!("exop.parse passmod {}", hex(&bs)), &got);
        out.r("passmod.parse = encoded", got == format!("gen_pass={}", hex(&b)), &got);
    }
    // ---- Pre/PostRead responses: SearchResultEntry-shaped values (the attribute maps are C15's)
    for _ in 0..(if thorough { 1500 } else { 250 }) {
        let k = rng.below(4);
        let attrs: Vec<StructureTag> = (0..k)
            .map(|_| {
                let nv = rng.below(3);
                cons(0, 16, vec![octets(gen_str(&mut rng).as_bytes()), cons(0, 17, (0..nv).map(|_| { let l = rng.below(6) as usize; octets(&gen_cookie(&mut rng, l)) }).collect())])
            })
            .collect();
        let e = cons(1, 4, vec![octets(gen_str(&mut rng).as_bytes()), cons(0, 16, attrs)]);
        let bs = spec_enc(&e, &mut rng, true);
        out.case(&format!("readentry {}", hex(&bs)), k > 0);
        read_entry_case(&mut out, &Some(bs));
    }
    // ---- EndTxn responses in the layout the parser reads (flat msgid, controls pairs) and in the RFC 5805 layout
    for _ in 0..(if thorough { 1500 } else { 250 }) {
        let mut ks = vec![];
        if rng.chance(1, 2) {
            ks.push(prim(0, 2, int_octets(rng.below(1 << 31) as i64)));
        }
        if rng.chance(2, 3) {
            let np = rng.below(3);
            let rfc_layout = rng.chance(1, 3);
            let mut pairs = vec![];
            for _ in 0..np {
                let id = prim(0, 2, int_octets(rng.below(1 << 20) as i64));
                let nc = rng.below(3);
                let ctrls = cons(0, 16, (0..nc).map(|_| { let r = gen_raw(&mut rng); rfc_control(&mut rng, &r) }).collect());
                if rfc_layout {
                    pairs.push(cons(0, 16, vec![id, ctrls]));
                } else {
                    pairs.push(id);
                    pairs.push(ctrls);
                }
            }
            out.stat(if rfc_layout { "endtxn.rfc-layout" } else { "endtxn.flat-layout" });
            ks.push(cons(0, 16, pairs));
        }
        valid.push(cons(0, 16, ks.clone()));
        let bs = spec_enc(&cons(0, 16, ks), &mut rng, true);
        out.case(&format!("endtxn-resp {}", hex(&bs)), true);
        let v = bs.clone();
        out.m(&format!("exop.parse endtxn {}", hex(&bs)), &parse_outcome(move || Exop { name: None, val: Some(v) }.parse::<EndTxnResp>(), show_endtxn));
    }

    // ================= malformed / arbitrary response values: panic outcomes are model-compared =================
    parse_all(&mut out, &None);
    out.case("value none", true);
    for corpus in ["-", "30", "3000", "3003020101", "30060201010400", "300602010104", "0500", "30038001ff", "3003800161", "ff", "c328", "30050a01040400",
                   "30060a01000400", "30030101", "3003010100", "300224800400", "30020100", "3005a003020101", "30053003020101", "3009300730050201013000", "300730050201013000"] {
        let v = unhex(corpus);
        out.case(&format!("value {}", corpus), true);
        parse_all(&mut out, &Some(v));
    }
    for n in 0..(if thorough { 12000 } else { 1500 }) {
        let t = if n % 2 == 0 { cons(0, 16, (0..rng.below(4)).map(|_| gen_resp_tree(&mut rng, 2)).collect()) } else { gen_resp_tree(&mut rng, 3) };
        let vary = rng.chance(1, 2);
        let mut bs = spec_enc(&t, &mut rng, vary);
        if !bs.is_empty() && rng.chance(1, 4) {
            let i = rng.below(bs.len() as u64) as usize;
            match rng.below(3) {
                0 => bs[i] = rng.next() as u8,
                1 => bs.truncate(i),
                _ => bs.insert(i, rng.next() as u8),
            }
        }
        if bs.len() > 1500 {
            continue;
        }
        out.case(&format!("value {}", hex(&bs)), bs.len() >= 2);
        out.stat("malformed-or-arbitrary.values");
        parse_all(&mut out, &Some(bs));
    }
    // near-valid values: one structural mutation of a well-formed response tree
    for _ in 0..(if thorough { 20000 } else { 2500 }) {
        let base = rng_pick_tree(&mut rng, &valid).clone();
        let t = mutate_tree(&mut rng, &base);
        let bs = spec_enc(&t, &mut rng, false);
        if bs.len() > 1500 {
            continue;
        }
        out.case(&format!("value {}", hex(&bs)), true);
        out.stat("near-valid.values");
        parse_all(&mut out, &Some(bs));
    }
    for _ in 0..(if thorough { 10000 } else { 1500 }) {
        let base = rng_pick_tree(&mut rng, &valid_si).clone();
        let t = mutate_tree(&mut rng, &base);
        let val = spec_enc(&t, &mut rng, false);
        let wn = rng.chance(1, 2);
        let msg = if rng.chance(1, 8) { let m0 = syncinfo_msg(true, RFC_SYNC_INFO.as_bytes(), val); mutate_tree(&mut rng, &m0) } else { syncinfo_msg(wn, RFC_SYNC_INFO.as_bytes(), val) };
        let canon = tlv(&msg);
        if canon.len() > 4000 {
            continue;
        }
        out.case(&format!("syncinfo {}", canon), true);
        out.stat("syncinfo.near-valid");
        out.m(&format!("ctl.parse syncinfo {}", canon), &syncinfo_outcome(&msg));
    }
    // arbitrary IntermediateResponse trees for parse_syncinfo
    for n in 0..(if thorough { 8000 } else { 1200 }) {
        let inner = gen_resp_tree(&mut rng, 2);
        let mut inner2 = inner.clone();
        if rng.chance(2, 3) {
            inner2.class = cls_of(2);
            inner2.id = rng.below(5);
        }
        let val = spec_enc(&inner2, &mut rng, false);
        let msg = match n % 6 {
            0 => gen_resp_tree(&mut rng, 2),
            1 => cons(1, 25, vec![]),
            2 => cons(rng.below(4) as u8, 25, vec![prim(2, 0, gen_oid(&mut rng).into_bytes()), prim(2, 1, val)]),
            3 => cons(1, 25, vec![prim(2, 0, RFC_SYNC_INFO.as_bytes().to_vec()), prim(2, 0, RFC_SYNC_INFO.as_bytes().to_vec()), prim(rng.below(4) as u8, 1, val)]),
            4 => { let l = rng.below(6) as usize; cons(1, 25, vec![prim(2, 1, rng.bytes(l))]) }
            _ => syncinfo_msg(true, RFC_SYNC_INFO.as_bytes(), val),
        };
        let canon = tlv(&msg);
        out.case(&format!("syncinfo {}", canon), true);
        out.stat("syncinfo.arbitrary");
        out.m(&format!("ctl.parse syncinfo {}", canon), &syncinfo_outcome(&msg));
    }

    // ================= control lists through the real envelope =================
    for n in 0..(if thorough { 6000 } else { 1500 }) {
        let k = if n < 3 { n } else { rng.below(5) };
        let ctrls: Vec<RawControl> = (0..k).map(|_| gen_raw(&mut rng)).collect();
        let canon = ctrls.iter().map(show_raw).collect::<Vec<_>>().join(";");
        out.case(&format!("controls [{}]", canon), k > 0);
        out.stat(&format!("controls.len={}", k));
        let id = rng.range(1, i32::MAX as u64) as i32;
        let c2 = ctrls.clone();
        let frame = match guarded(move || envelope_real(id, c2)) {
            Ok(f) => f,
            Err(_) => {
                out.r("envelope.encode", false, "panic");
                continue;
            }
        };
        // build_tag: the third element of the emitted message
        let parsed = parse_tag(&frame).ok().map(|(_, t)| t);
        let third = parsed.and_then(|t| t.expect_constructed()).and_then(|mut ks| ks.pop());
        let Some(third) = third else {
            out.r("envelope.shape", false, "no controls element");
            continue;
        };
        let kids = third.clone().expect_constructed().unwrap_or_default();
        out.r("envelope.controls-element", third.class == lber::common::TagClass::Context && third.id == 0 && kids.len() == ctrls.len(), &tlv(&third));
        for (c, kid) in ctrls.iter().zip(kids.iter()) {
            out.m(&format!("ctl.build {} {} {}", hex(c.ctype.as_bytes()), bit(c.crit), opt_hex(&c.val)), &tlv(kid));
        }
        // parse_controls via the real decoder
        let got = envelope_decode(&frame);
        out.m(&format!("ctls.parse {}", tlv(&third)), &got);
        let want = format!("[{}]", ctrls.iter().map(|c| format!("{} {} {} {}", rfc_known(&c.ctype), hex(c.ctype.as_bytes()), bit(c.crit), opt_hex(&c.val))).collect::<Vec<_>>().join(";"));
        out.r("envelope.controls-survive", got == want, &format!("{} vs {}", got, want));
        // the same list in any RFC 4511 encoding: absent / explicit criticality, non-minimal lengths
        let alt = cons(2, 0, ctrls.iter().map(|c| rfc_control(&mut rng, c)).collect());
        let frame2 = frame_with_controls(&mut rng, id as i64, &alt, true);
        let got2 = envelope_decode(&frame2);
        out.m(&format!("ctls.parse {}", tlv(&alt)), &got2);
        out.r("envelope.all-forms", got2 == want, &format!("{} vs {}", got2, want));
    }
    // malformed control lists: decoding error, never a panic
    for n in 0..(if thorough { 8000 } else { 1200 }) {
        let k = rng.below(4);
        let kids: Vec<StructureTag> = (0..k)
            .map(|_| {
                if rng.chance(1, 3) {
                    gen_resp_tree(&mut rng, 2)
                } else {
                    let m = rng.below(5);
                    let mut ks: Vec<StructureTag> = (0..m).map(|_| gen_resp_tree(&mut rng, 1)).collect();
                    if m > 0 && rng.chance(3, 4) {
                        ks[0] = prim(if rng.chance(5, 6) { 0 } else { 2 }, 4, if rng.chance(5, 6) { gen_oid(&mut rng).into_bytes() } else { rng.bytes(3) });
                    }
                    cons(0, 16, ks)
                }
            })
            .collect();
        let ctl = cons(2, 0, kids);
        let frame = frame_with_controls(&mut rng, (n + 1) as i64, &ctl, false);
        if frame.len() > 3000 {
            continue;
        }
        let got = envelope_decode(&frame);
        out.case(&format!("controls-tree {}", tlv(&ctl)), k > 0);
        out.stat(if got == "none" { "controls-tree.rejected" } else { "controls-tree.accepted" });
        out.m(&format!("ctls.parse {}", tlv(&ctl)), &got);
        out.r("envelope.no-panic", got != "panic" && got != "incomplete", &got);
    }

    // ---- well-formed response values the structs cannot represent (known findings F17, F18):
    // the property oracle is kept strict; these are matched by known_findings.json
    {
        // RFC 5805: the StartTxn responseValue is an opaque transaction identifier
        for v in [vec![0xffu8], vec![0xc3, 0x28], vec![0x00, 0x80, 0x01]] {
            let vv = v.clone();
            let got = parse_outcome(move || Exop { name: None, val: Some(vv) }.parse::<StartTxnResp>(), |r| hex(r.txn_id.as_bytes()));
            out.case(&format!("wf-starttxn {}", hex(&v)), true);
            out.r(&format!("codecs.wellformed-response-parses StartTxnResp opaque-identifier {}", hex(&v)), got == hex(&v), &got);
        }
        // RFC 3062: PasswdModifyResponseValue ::= SEQUENCE { genPasswd [0] OCTET STRING OPTIONAL }
        for (what, v) in [("genPasswd-absent", vec![0x30u8, 0x00]), ("genPasswd-not-utf8", vec![0x30, 0x03, 0x80, 0x01, 0xff])] {
            let vv = v.clone();
            let got = parse_outcome(move || Exop { name: None, val: Some(vv) }.parse::<PasswordModifyResp>(), |r| format!("ok {}", hex(r.gen_pass.as_bytes())));
            out.case(&format!("wf-passmod {}", hex(&v)), true);
            out.r(&format!("codecs.wellformed-response-parses PasswordModifyResp {} {}", what, hex(&v)), got.starts_with("ok"), &got);
        }
    }
    out.finish("every request control / extended request struct: all optional-field combinations x cookie lengths {0,1,127,128,300} x random contents, sizes {0,1,127,128,255,256,...,2^31-1} and random; filters from a corpus plus a random generator; response values encoded by the lane's RFC encoder with random non-minimal length forms and explicit/omitted DEFAULT elements; arbitrary and mutated trees for the panic outcomes; control lists of 0-4 random controls through verif_encode -> verif_decode and in alternative RFC 4511 encodings; non-trivial = at least one optional field / non-empty cookie / non-empty list; distinct by FNV hash of the canonical input");
}

fn rng_pick_tree<'a>(rng: &mut Rng, v: &'a [StructureTag]) -> &'a StructureTag {
    &v[rng.below(v.len() as u64) as usize]
}

fn count_nodes(t: &StructureTag) -> u64 {
    match &t.payload {
        PL::P(_) => 1,
        PL::C(ks) => 1 + ks.iter().map(count_nodes).sum::<u64>(),
    }
}

/// apply `f` to the `n`-th node (pre-order)
fn at_node(t: &mut StructureTag, n: &mut u64, f: &mut dyn FnMut(&mut StructureTag)) {
    if *n == 0 {
        f(t);
        *n = u64::MAX;
        return;
    }
    if *n == u64::MAX {
        return;
    }
    *n -= 1;
    if let PL::C(ks) = &mut t.payload {
        for k in ks.iter_mut() {
            at_node(k, n, f);
            if *n == u64::MAX {
                return;
            }
        }
    }
}

/// one structural mutation: retag, primitive <-> constructed, empty, drop / duplicate / insert a child
fn mutate_tree(rng: &mut Rng, t: &StructureTag) -> StructureTag {
    let mut t = t.clone();
    let mut n = rng.below(count_nodes(&t));
    let kind = rng.below(9);
    let r1 = rng.next();
    let r2 = rng.next();
    let extra = gen_resp_tree(rng, 1);
    at_node(&mut t, &mut n, &mut |x: &mut StructureTag| match kind {
        0 => x.class = cls_of((r1 % 4) as u8),
        1 => x.id = [0u64, 1, 2, 3, 4, 5, 10, 16, 17][(r1 % 9) as usize],
        2 => {
            x.payload = match &x.payload {
                PL::P(_) => PL::C(vec![]),
                PL::C(_) => PL::P(vec![(r1 & 0xff) as u8]),
            }
        }
        3 => {
            if let PL::P(v) = &mut x.payload {
                v.clear();
            } else if let PL::C(ks) = &mut x.payload {
                ks.clear();
            }
        }
        4 => {
            if let PL::C(ks) = &mut x.payload {
                if !ks.is_empty() {
                    ks.remove((r1 % ks.len() as u64) as usize);
                }
            }
        }
        5 => {
            if let PL::C(ks) = &mut x.payload {
                if !ks.is_empty() {
                    let k = ks[(r1 % ks.len() as u64) as usize].clone();
                    ks.insert((r2 % (ks.len() as u64 + 1)) as usize, k);
                }
            }
        }
        6 => {
            if let PL::C(ks) = &mut x.payload {
                ks.insert((r2 % (ks.len() as u64 + 1)) as usize, extra.clone());
            }
        }
        7 => {
            if let PL::P(v) = &mut x.payload {
                if !v.is_empty() {
                    let i = (r1 % v.len() as u64) as usize;
                    v[i] = (r2 & 0xff) as u8;
                } else {
                    v.push((r2 & 0xff) as u8);
                }
            }
        }
        _ => {
            if let PL::C(ks) = &mut x.payload {
                ks.reverse();
            }
        }
    });
    t
}

/// RFC 4511 §4.1.11 encoding of a control chosen by the lane: criticality absent or explicit
fn rfc_control(rng: &mut Rng, c: &RawControl) -> StructureTag {
    let mut ks = vec![octets(c.ctype.as_bytes())];
    ks.extend(bool_opt(rng, false, c.crit));
    if let Some(v) = &c.val {
        ks.push(octets(v));
    }
    cons(0, 16, ks)
}

fn gen_attr(rng: &mut Rng) -> String {
    String::from(*rng.pick(&["cn", "sn", "objectClass", "o", "1.2.3", "cn;lang-de", "uid"]))
}

fn gen_value(rng: &mut Rng) -> String {
    let n = rng.below(6);
    (0..n).map(|_| *rng.pick(&["a", "B", "7", " ", "é", "\\2a", "\\28", "\\5c", ",", "="])).collect()
}

fn gen_item(rng: &mut Rng) -> String {
    match rng.below(8) {
        0 => format!("({}=*)", gen_attr(rng)),
        1 => format!("({}={}*{})", gen_attr(rng), gen_value(rng), gen_value(rng)),
        2 => format!("({}>={})", gen_attr(rng), gen_value(rng)),
        3 => format!("({}<={})", gen_attr(rng), gen_value(rng)),
        4 => format!("({}~={})", gen_attr(rng), gen_value(rng)),
        5 => format!("({}:caseIgnoreMatch:={})", gen_attr(rng), gen_value(rng)),
        6 => format!("({}=*{}*{}*)", gen_attr(rng), gen_value(rng), gen_value(rng)),
        _ => format!("({}={})", gen_attr(rng), gen_value(rng)),
    }
}

fn gen_filter(rng: &mut Rng, depth: u32) -> String {
    if depth == 0 || rng.chance(1, 2) {
        return gen_item(rng);
    }
    match rng.below(4) {
        0 => format!("(!{})", gen_filter(rng, depth - 1)),
        1 => format!("(&{})", (0..rng.below(4)).map(|_| gen_filter(rng, depth - 1)).collect::<String>()),
        2 => format!("(|{})", (0..rng.below(4)).map(|_| gen_filter(rng, depth - 1)).collect::<String>()),
        _ => {
            // sometimes broken
            let mut s = gen_filter(rng, depth - 1);
            if rng.chance(1, 3) {
                s.pop();
            }
            s
        }
    }
}

//! Lane `streams` (C10): the REAL `SearchStream` / `Ldap::search` over the scripted transport,
//! against a scripted server which answers every SearchRequest the client writes with the next
//! page script.  M lines: `stream.run …` / `search.run …` (Model.Stream) vs the real outputs;
//! R lines: the clauses of C10 evaluated in Rust on what the server sent (a reference cursor
//! written from the property text, independent of the Lean model).
//! The scenario machinery (scripts, server, canonical texts) is shared with lane `paged`.
use crate::fmtx::*;
use crate::gen::int_octets;
use crate::lanes::ber::real_encode;
use crate::out::{guarded, Out};
use crate::rng::Rng;
use crate::simnet::{self, Net};
use ldap3::adapters::{Adapter, EntriesOnly, PagedResults};
use ldap3::controls::{Control, ControlType, RawControl};
use ldap3::verif::verif_take_trace;
use ldap3::{DerefAliases, Ldap, LdapConnAsync, LdapError, LdapResult, ResultEntry, Scope, SearchOptions, SearchStream, StreamState};
use lber::parse::parse_tag;
use lber::structure::{StructureTag, PL};
use std::cell::RefCell;
use std::collections::VecDeque;
use std::future::Future;
use std::rc::Rc;
use std::time::Duration;

pub const PR_OID: &str = "1.2.840.113556.1.4.319";
pub const OTHER_OID_PREFIX: &str = "1.3.6.1.4.1.55555.";
/// per-`next()` time-out of a stream that has one (virtual ms)
pub const STREAM_TMO_MS: u64 = 1000;

#[derive(Clone, Debug, PartialEq)]
pub enum K {
    E,
    R,
    I,
}

#[derive(Clone, Debug, PartialEq)]
pub struct RespCtl {
    pub paged: bool,
    /// None = the paging control carries no value
    pub cookie: Option<Vec<u8>>,
    pub tok: u64,
}

#[derive(Clone, Debug, PartialEq)]
pub struct Item {
    pub k: K,
    pub tok: u64,
    /// None = malformed reference (a constructed element where a URI belongs)
    pub uris: Option<Vec<Vec<u8>>>,
    pub ctls: Vec<RespCtl>,
}

#[derive(Clone, Debug, PartialEq)]
pub struct Done {
    pub rc: u32,
    pub refs: Vec<Vec<u8>>,
    pub ctls: Vec<RespCtl>,
    pub tok: u64,
}

#[derive(Clone, Debug, PartialEq)]
pub enum Recv {
    Item(Item),
    Done(Done),
    /// the server closes the connection
    Closed,
    /// the server stays silent and the stream's time-out fires
    Timeout,
}

#[derive(Clone, Debug, PartialEq)]
pub enum Page {
    Script(Vec<Recv>),
    /// the search cannot be submitted: the connection is already gone
    Fail,
}

#[derive(Clone, Debug, PartialEq)]
pub enum A {
    E,
    P(i32),
}

#[derive(Clone, Debug, PartialEq)]
pub enum ReqCtl {
    Paged(i32, Vec<u8>),
    Other(u64),
}

#[derive(Clone, Debug, Default)]
pub struct Handle {
    pub ctrls: Option<Vec<ReqCtl>>,
    pub tmo: bool,
    /// SearchOptions as one number ≥ 1: ((sizelimit * 100000 + timelimit) * 4 + deref) * 2 + typesonly
    pub opts: Option<u64>,
}

#[derive(Clone, Copy, Debug, PartialEq)]
pub enum Call {
    Next,
    Finish,
    State,
    Start,
}

#[derive(Clone, Debug)]
pub struct Scenario {
    pub chain: Vec<A>,
    pub handle: Handle,
    pub qtok: u64,
    pub filter_ok: bool,
    pub pages: Vec<Page>,
    pub calls: Vec<Call>,
}

/* ---------- canonical texts (shared with Driver/Stream.lean) ---------- */

fn list(xs: Vec<String>) -> String {
    format!("[{}]", xs.join(","))
}

pub fn ctl_text(c: &RespCtl) -> String {
    if c.paged {
        format!("g{}:{}", c.tok, match &c.cookie { Some(b) => hex(b), None => String::from("x") })
    } else {
        format!("c{}", c.tok)
    }
}

pub fn ctls_text(cs: &[RespCtl]) -> String {
    list(cs.iter().map(ctl_text).collect())
}

pub fn hexlist(xs: &[Vec<u8>]) -> String {
    list(xs.iter().map(|b| hex(b)).collect())
}

pub fn recv_text(r: &Recv) -> String {
    match r {
        Recv::Closed => String::from("C"),
        Recv::Timeout => String::from("T"),
        Recv::Done(d) => format!("D{}/{}/{}/{}", d.rc, hexlist(&d.refs), ctls_text(&d.ctls), d.tok),
        Recv::Item(i) => format!(
            "{}{}/{}/{}",
            match i.k { K::E => "e", K::R => "r", K::I => "i" },
            i.tok,
            match &i.uris { Some(u) => hexlist(u), None => String::from("x") },
            ctls_text(&i.ctls)
        ),
    }
}

pub fn pages_text(ps: &[Page]) -> String {
    ps.iter()
        .map(|p| match p {
            Page::Fail => String::from("F"),
            Page::Script(l) => {
                let mut s = String::from("P");
                for r in l {
                    s.push(' ');
                    s.push_str(&recv_text(r));
                }
                s
            }
        })
        .collect::<Vec<_>>()
        .join(" ")
}

pub fn chain_text(c: &[A]) -> String {
    if c.is_empty() {
        return String::from("d");
    }
    c.iter().map(|a| match a { A::E => String::from("e"), A::P(n) => format!("p{}", n) }).collect::<Vec<_>>().join(",")
}

pub fn rctl_text(c: &ReqCtl) -> String {
    match c {
        ReqCtl::Other(t) => format!("o{}", t),
        ReqCtl::Paged(sz, ck) => format!("p{}:{}", sz, hex(ck)),
    }
}

pub fn handle_text(h: &Handle) -> String {
    format!(
        "c={}/t={}/o={}",
        match &h.ctrls { None => String::from("none"), Some(cs) => list(cs.iter().map(rctl_text).collect()) },
        if h.tmo { STREAM_TMO_MS.to_string() } else { String::from("-") },
        match h.opts { Some(o) => o.to_string(), None => String::from("-") }
    )
}

pub fn calls_text(cs: &[Call]) -> String {
    cs.iter().map(|c| match c { Call::Next => "n", Call::Finish => "f", Call::State => "s", Call::Start => "S" }).collect::<Vec<_>>().join(" ")
}

pub fn scenario_request(sc: &Scenario, obs: &str) -> String {
    format!(
        "stream.run {} {} {} q{}:{} {} | {}",
        obs,
        chain_text(&sc.chain),
        handle_text(&sc.handle),
        sc.qtok,
        if sc.filter_ok { 1 } else { 0 },
        pages_text(&sc.pages),
        calls_text(&sc.calls)
    )
}

/* ---------- wire forms ---------- */

pub fn pr_value(size: i64, cookie: &[u8]) -> Vec<u8> {
    real_encode(&cons(0, 16, vec![prim(0, 2, int_octets(size)), prim(0, 4, cookie.to_vec())]))
}

fn resp_ctl_tree(c: &RespCtl) -> StructureTag {
    if c.paged {
        let mut ks = vec![prim(0, 4, PR_OID.as_bytes().to_vec())];
        if let Some(ck) = &c.cookie {
            ks.push(prim(0, 4, pr_value(c.tok as i64, ck)));
        }
        cons(0, 16, ks)
    } else {
        cons(0, 16, vec![prim(0, 4, format!("{}{}", OTHER_OID_PREFIX, c.tok).into_bytes())])
    }
}

fn envelope(id: i64, op: StructureTag, ctls: &[RespCtl]) -> Vec<u8> {
    let mut ks = vec![prim(0, 2, int_octets(id)), op];
    if !ctls.is_empty() {
        ks.push(cons(2, 0, ctls.iter().map(resp_ctl_tree).collect()));
    }
    real_encode(&cons(0, 16, ks))
}

pub fn item_op(i: &Item) -> StructureTag {
    let tokb = format!("tok{}", i.tok).into_bytes();
    match i.k {
        K::E => cons(1, 4, vec![prim(0, 4, tokb), cons(0, 16, vec![])]),
        K::I => cons(1, 25, vec![prim(2, 1, tokb)]),
        K::R => match &i.uris {
            Some(us) => cons(1, 19, us.iter().map(|u| prim(0, 4, u.clone())).collect()),
            None => cons(1, 19, vec![cons(0, 16, vec![prim(0, 4, tokb)])]),
        },
    }
}

pub fn done_op(d: &Done) -> StructureTag {
    let mut ks = vec![prim(0, 10, int_octets(d.rc as i64)), prim(0, 4, vec![]), prim(0, 4, format!("tok{}", d.tok).into_bytes())];
    if !d.refs.is_empty() {
        ks.push(cons(2, 3, d.refs.iter().map(|u| prim(0, 4, u.clone())).collect()));
    }
    cons(1, 5, ks)
}

/// the URI list of a well-formed reference item: the first one carries the token
pub fn ref_uris(tok: u64, extra: usize) -> Vec<Vec<u8>> {
    let mut v = vec![format!("ldap://tok{}/", tok).into_bytes()];
    for j in 0..extra {
        v.push(format!("ldap://h{}/dc=x", j).into_bytes());
    }
    v
}

/* ---------- reading the client's answers ---------- */

fn find_tok(t: &StructureTag) -> Option<u64> {
    match &t.payload {
        PL::P(b) => {
            let s = String::from_utf8_lossy(b);
            let i = s.find("tok")?;
            let digits: String = s[i + 3..].chars().take_while(|c| c.is_ascii_digit()).collect();
            digits.parse().ok()
        }
        PL::C(ks) => ks.iter().find_map(find_tok),
    }
}

fn twos(b: &[u8]) -> i64 {
    let mut v: i64 = if !b.is_empty() && b[0] & 0x80 != 0 { -1 } else { 0 };
    for x in b {
        v = (v << 8) | *x as i64;
    }
    v
}

/// (size, cookie) of a paged-results control value
pub fn parse_pr(val: &[u8]) -> Option<(i64, Vec<u8>)> {
    let (_, t) = parse_tag(val).ok()?;
    match t.payload {
        PL::C(ks) if ks.len() == 2 => match (&ks[0].payload, &ks[1].payload) {
            (PL::P(a), PL::P(b)) => Some((twos(a), b.clone())),
            _ => None,
        },
        _ => None,
    }
}

pub fn client_ctl_text(c: &Control) -> String {
    let Control(ct, raw) = c;
    if matches!(ct, Some(ControlType::PagedResults)) {
        match raw.val.as_ref().and_then(|v| parse_pr(v)) {
            Some((sz, ck)) => format!("g{}:{}", sz, hex(&ck)),
            None => String::from("g0:x"),
        }
    } else {
        format!("c{}", raw.ctype.strip_prefix(OTHER_OID_PREFIX).unwrap_or("?"))
    }
}

pub fn client_ctls_text(cs: &[Control]) -> String {
    list(cs.iter().map(client_ctl_text).collect())
}

pub fn client_item_text(re: &ResultEntry) -> String {
    let k = match re.0.id { 4 => "e", 19 => "r", 25 => "i", _ => "?" };
    format!("{}{}/{}", k, find_tok(&re.0).unwrap_or(0), client_ctls_text(&re.1))
}

pub fn client_res_text(r: &LdapResult) -> String {
    let text = if let Some(n) = r.text.strip_prefix("tok") {
        format!("t{}", n)
    } else if r.text == "user cancelled" {
        String::from("cancelled")
    } else if r.text == "stream already finalized" {
        String::from("finalized")
    } else {
        format!("?{}", r.text.replace(' ', "_"))
    };
    let refs: Vec<Vec<u8>> = r.refs.iter().map(|s| s.as_bytes().to_vec()).collect();
    format!("{}/{}/{}/{}", r.rc, hexlist(&refs), client_ctls_text(&r.ctrls), text)
}

pub fn err_word(e: &LdapError) -> String {
    match e {
        LdapError::EndOfStream => String::from("eos"),
        LdapError::Timeout { .. } => String::from("timeout"),
        LdapError::AdapterInit(_) => String::from("init"),
        LdapError::FilterParsing => String::from("filter"),
        LdapError::OpSend { .. } | LdapError::ResultRecv { .. } => String::from("op"),
        other => format!("other:{}", other).replace(' ', "_"),
    }
}

pub fn state_word(s: StreamState) -> &'static str {
    match s {
        StreamState::Fresh => "fresh",
        StreamState::Active => "active",
        StreamState::Done => "done",
        StreamState::Closed => "closed",
        StreamState::Error => "error",
    }
}

/* ---------- the scripted server ---------- */

#[derive(Clone, Debug)]
pub struct WireReq {
    pub id: i64,
    /// the protocolOp TLV as written
    pub op: Vec<u8>,
    /// canonical text `[ctls]/o<opts>/q<tok>`
    pub text: String,
    pub ctls: Option<Vec<ReqCtl>>,
    /// the decoded request fields (everything but the controls)
    pub fields: String,
}

#[derive(Default, Debug)]
pub struct Obs {
    pub outputs: Vec<String>,
    pub reqs: Vec<WireReq>,
    pub abandons: Vec<i64>,
    pub other_msgs: Vec<String>,
    pub closed_by_server: bool,
    pub in_use: Vec<i32>,
    pub last_maps: String,
    pub scrubs: Vec<i64>,
    pub driver_alive: bool,
    pub panicked: Option<String>,
    /// free-form notes of the scenario code (last_id readings …)
    pub notes: Vec<(String, String)>,
}

pub struct Server {
    pub net: Net,
    pub pages: VecDeque<Page>,
    buf: Vec<u8>,
    pub obs: Rc<RefCell<Obs>>,
    /// think time before every frame (virtual ms); 0 = answer at once
    delay_ms: u64,
    /// frames scheduled but not yet due: (due time, bytes; None = close the connection)
    outq: VecDeque<(tokio::time::Instant, Option<Vec<u8>>)>,
}

thread_local! {
    /// think time of the scripted servers created from now on (set by a lane around a scenario run): every
    /// response frame is sent that many virtual milliseconds after the previous one.  With a per-`next()`
    /// time-out T and a think time below T no wait ever reaches its deadline, so the outcome must not change.
    pub static SERVER_DELAY_MS: std::cell::Cell<u64> = std::cell::Cell::new(0);
}

fn child<'a>(t: &'a StructureTag, i: usize) -> Option<&'a StructureTag> {
    match &t.payload {
        PL::C(ks) => ks.get(i),
        _ => None,
    }
}

fn bytes_of(t: &StructureTag) -> Option<&Vec<u8>> {
    match &t.payload {
        PL::P(b) => Some(b),
        _ => None,
    }
}

fn decode_req_ctl(t: &StructureTag) -> Option<ReqCtl> {
    let oid = String::from_utf8(bytes_of(child(t, 0)?)?.clone()).ok()?;
    if oid == PR_OID {
        // value = last child (criticality may sit in between)
        let n = match &t.payload { PL::C(ks) => ks.len(), _ => 0 };
        let (sz, ck) = parse_pr(bytes_of(child(t, n - 1)?)?)?;
        Some(ReqCtl::Paged(sz as i32, ck))
    } else {
        Some(ReqCtl::Other(oid.strip_prefix(OTHER_OID_PREFIX)?.parse().ok()?))
    }
}

pub fn opts_token(deref: u64, typesonly: bool, sizelimit: u64, timelimit: u64) -> u64 {
    ((sizelimit * 100000 + timelimit) * 4 + deref) * 2 + typesonly as u64
}

/// `<tok>` / `-` (all defaults) / `?` from the fields of a SearchRequest
fn decode_opts(op: &StructureTag) -> String {
    let f = |i: usize| child(op, i).and_then(bytes_of).map(|b| twos(b));
    match (f(2), f(3), f(4), f(5)) {
        (Some(deref), Some(size), Some(time), Some(types)) => {
            if deref == 0 && size == 0 && time == 0 && types == 0 {
                String::from("-")
            } else if (0..4).contains(&deref) && size >= 0 && (0..100000).contains(&time) {
                opts_token(deref as u64, types != 0, size as u64, time as u64).to_string()
            } else {
                String::from("?")
            }
        }
        _ => String::from("?"),
    }
}

/// every field of the SearchRequest but the controls, decoded: base, scope, deref, sizeLimit,
/// timeLimit, typesOnly, filter (as a tree), attributes
fn decode_fields(op: &StructureTag) -> String {
    let b = |i: usize| child(op, i).and_then(bytes_of);
    let n = |i: usize| b(i).map(|x| twos(x).to_string()).unwrap_or_else(|| String::from("?"));
    let attrs = match child(op, 7).map(|t| &t.payload) {
        Some(PL::C(ks)) => ks.iter().map(|k| bytes_of(k).map(|x| String::from_utf8_lossy(x).to_string()).unwrap_or_else(|| String::from("?"))).collect::<Vec<_>>().join(","),
        _ => String::from("?"),
    };
    format!(
        "base={} scope={} deref={} sizeLimit={} timeLimit={} typesOnly={} filter={} attrs=[{}]",
        b(0).map(|x| String::from_utf8_lossy(x).to_string()).unwrap_or_else(|| String::from("?")),
        n(1),
        n(2),
        n(3),
        n(4),
        n(5),
        child(op, 6).map(tlv).unwrap_or_else(|| String::from("?")),
        attrs
    )
}

impl Server {
    pub fn new(net: Net, pages: &[Page], obs: Rc<RefCell<Obs>>) -> Server {
        // `Fail` pages are never seen by the server: the client cannot submit them
        Server { net, pages: pages.iter().filter(|p| **p != Page::Fail).cloned().collect(), buf: vec![], obs,
                 delay_ms: SERVER_DELAY_MS.with(|d| d.get()), outq: VecDeque::new() }
    }

    /// send the scheduled frames that have become due
    fn flush_due(&mut self) {
        let now = tokio::time::Instant::now();
        while let Some((due, _)) = self.outq.front() {
            if *due > now {
                break;
            }
            match self.outq.pop_front().unwrap().1 {
                Some(b) => self.net.send(&b),
                None => {
                    self.net.close();
                    self.obs.borrow_mut().closed_by_server = true;
                }
            }
        }
    }

    /// read what the client has written; answer every SearchRequest with the next page script
    pub fn serve(&mut self) {
        self.flush_due();
        let w = self.net.take_written();
        if w.is_empty() {
            return;
        }
        self.buf.extend(w);
        loop {
            let (used, t) = match parse_tag(&self.buf) {
                Ok((rest, t)) => (self.buf.len() - rest.len(), t),
                Err(_) => break,
            };
            self.buf.drain(..used);
            self.message(&t);
        }
    }

    fn message(&mut self, t: &StructureTag) {
        let id = child(t, 0).and_then(bytes_of).map(|b| twos(b)).unwrap_or(-1);
        let Some(op) = child(t, 1) else { return };
        match op.id {
            3 => {
                let ctls: Option<Vec<ReqCtl>> = child(t, 2).and_then(|c| match &c.payload {
                    PL::C(ks) => ks.iter().map(decode_req_ctl).collect::<Option<Vec<_>>>(),
                    _ => None,
                });
                let base = child(op, 0).and_then(bytes_of).map(|b| String::from_utf8_lossy(b).to_string()).unwrap_or_default();
                let q = base.strip_prefix("dc=q").unwrap_or("?").to_string();
                let text = format!(
                    "{}/o{}/q{}",
                    match (&ctls, child(t, 2)) { (Some(cs), _) => list(cs.iter().map(rctl_text).collect()), (None, None) => String::from("none"), (None, Some(_)) => String::from("?") },
                    decode_opts(op),
                    q
                );
                self.obs.borrow_mut().reqs.push(WireReq { id, op: real_encode(op), text, ctls, fields: decode_fields(op) });
                self.answer(id);
            }
            16 => {
                let target = bytes_of(op).map(|b| twos(b)).unwrap_or(-1);
                self.obs.borrow_mut().abandons.push(target);
            }
            n => self.obs.borrow_mut().other_msgs.push(format!("op{}", n)),
        }
    }

    fn answer(&mut self, id: i64) {
        let Some(Page::Script(l)) = self.pages.pop_front() else { return };
        if self.delay_ms > 0 {
            // a slow server: one frame every `delay_ms`, starting `delay_ms` after the request arrived
            let mut due = self.outq.back().map(|x| x.0).unwrap_or_else(tokio::time::Instant::now).max(tokio::time::Instant::now());
            for r in l {
                due += Duration::from_millis(self.delay_ms);
                match r {
                    Recv::Item(i) => self.outq.push_back((due, Some(envelope(id, item_op(&i), &i.ctls)))),
                    Recv::Done(d) => self.outq.push_back((due, Some(envelope(id, done_op(&d), &d.ctls)))),
                    Recv::Closed => {
                        self.outq.push_back((due, None));
                        return;
                    }
                    Recv::Timeout => return,
                }
            }
            return;
        }
        for r in l {
            match r {
                Recv::Item(i) => self.net.send(&envelope(id, item_op(&i), &i.ctls)),
                Recv::Done(d) => self.net.send(&envelope(id, done_op(&d), &d.ctls)),
                Recv::Closed => {
                    self.net.close();
                    self.obs.borrow_mut().closed_by_server = true;
                    return;
                }
                Recv::Timeout => return,
            }
        }
    }
}

async fn server_tick(server: &mut Server) {
    for _ in 0..6 {
        server.serve();
        tokio::task::yield_now().await;
    }
    server.serve();
    tokio::time::sleep(Duration::from_millis(1)).await;
}

/// drive `fut` while the server keeps answering; `None` = it did not complete within `limit_ms` of virtual time
pub async fn with_server<F: Future>(server: &mut Server, fut: F, limit_ms: u64) -> Option<F::Output> {
    tokio::pin!(fut);
    let deadline = tokio::time::Instant::now() + Duration::from_millis(limit_ms);
    loop {
        tokio::select! {
            biased;
            r = &mut fut => return Some(r),
            _ = server_tick(server) => {}
        }
        if tokio::time::Instant::now() >= deadline {
            return None;
        }
    }
}

pub async fn settle(server: &mut Server) {
    for _ in 0..4 {
        server_tick(server).await;
    }
}

pub type Strm = SearchStream<'static, &'static str, Vec<&'static str>>;
pub type Adapters = Vec<Box<dyn Adapter<'static, &'static str, Vec<&'static str>>>>;

pub fn adapters_of(chain: &[A]) -> Adapters {
    chain
        .iter()
        .map(|a| -> Box<dyn Adapter<'static, &'static str, Vec<&'static str>>> {
            match a {
                A::E => Box::new(EntriesOnly::new()),
                A::P(n) => Box::new(PagedResults::new(*n)),
            }
        })
        .collect()
}

pub fn raw_ctl(c: &ReqCtl) -> RawControl {
    match c {
        ReqCtl::Other(t) => RawControl { ctype: format!("{}{}", OTHER_OID_PREFIX, t), crit: false, val: None },
        ReqCtl::Paged(sz, ck) => RawControl { ctype: String::from(PR_OID), crit: false, val: Some(pr_value(*sz as i64, ck)) },
    }
}

pub fn opts_of(tok: u64) -> SearchOptions {
    let typesonly = tok % 2 == 1;
    let deref = match (tok / 2) % 4 { 0 => DerefAliases::Never, 1 => DerefAliases::Searching, 2 => DerefAliases::Finding, _ => DerefAliases::Always };
    let rest = tok / 8;
    SearchOptions::new().deref(deref).typesonly(typesonly).sizelimit((rest / 100000) as i32).timelimit((rest % 100000) as i32)
}

pub fn apply_handle(ldap: &mut Ldap, h: &Handle) {
    if let Some(cs) = &h.ctrls {
        ldap.with_controls(cs.iter().map(raw_ctl).collect::<Vec<_>>());
    }
    if h.tmo {
        ldap.with_timeout(Duration::from_millis(STREAM_TMO_MS));
    }
    if let Some(o) = h.opts {
        ldap.with_search_options(opts_of(o));
    }
}

pub fn limit_ms(h: &Handle) -> u64 {
    if h.tmo { 3 * STREAM_TMO_MS } else { 60 }
}

pub const ATTRS: [&str; 2] = ["cn", "sn"];

pub fn filter_of(ok: bool) -> &'static str {
    if ok { "(objectClass=*)" } else { "(objectClass=*" }
}

/// what `run_in_rt` hands to the scenario body
pub struct Ctx {
    pub ldap: Ldap,
    pub server: Server,
    pub obs: Rc<RefCell<Obs>>,
}

/// Run `body` on a fresh connection (current-thread runtime, paused clock, driver spawned); panics
/// are caught around the whole scenario; afterwards the ID table, the routing maps (last `drv maps`
/// trace line) and the scrubs the driver processed are recorded.
pub fn run_in_rt<B, Fut>(pages: &[Page], pre_closed: bool, body: B) -> Obs
where
    B: FnOnce(Ctx) -> Fut,
    Fut: Future<Output = Ctx>,
{
    let obs: Rc<RefCell<Obs>> = Rc::new(RefCell::new(Obs::default()));
    let obs2 = obs.clone();
    let pages = pages.to_vec();
    let _ = verif_take_trace();
    let r = guarded(std::panic::AssertUnwindSafe(move || {
        let rt = tokio::runtime::Builder::new_current_thread().enable_time().start_paused(true).build().unwrap();
        rt.block_on(async move {
            let (io, net) = simnet::pair();
            let (conn, ldap) = LdapConnAsync::verif_pair(Box::new(io));
            let drv = tokio::spawn(async move {
                let _ = conn.drive().await;
            });
            let mut server = Server::new(net.clone(), &pages, obs2.clone());
            if pre_closed {
                net.close();
                obs2.borrow_mut().closed_by_server = true;
                settle(&mut server).await;
            }
            let ctx = body(Ctx { ldap, server, obs: obs2.clone() }).await;
            let Ctx { ldap, mut server, .. } = ctx;
            settle(&mut server).await;
            let (_, used) = ldap.verif_msgmap();
            let mut o = obs2.borrow_mut();
            o.in_use = used;
            o.driver_alive = !drv.is_finished();
        })
    }));
    if let Err(e) = r {
        obs.borrow_mut().panicked = Some(e);
    }
    let trace = verif_take_trace();
    let mut o = obs.borrow_mut();
    for t in &trace {
        if let Some(m) = t.strip_prefix("drv maps ") {
            o.last_maps = m.replace(", ", ",");
        } else if let Some(id) = t.strip_prefix("drv scrub ") {
            o.scrubs.push(id.parse().unwrap_or(-1));
        }
    }
    drop(o);
    let r = std::mem::take(&mut *obs.borrow_mut()); r
}

/// Run the scenario on the real code: `start` (via `streaming_search_with`) and then the calls.
pub fn run_scenario(sc: &Scenario) -> Obs {
    let sc2 = sc.clone();
    let pre_closed = matches!(sc.pages.first(), Some(Page::Fail));
    run_in_rt(&sc.pages, pre_closed, move |mut ctx: Ctx| async move {
        let sc = sc2;
        let lim = limit_ms(&sc.handle);
        apply_handle(&mut ctx.ldap, &sc.handle);
        let base: &'static str = Box::leak(format!("dc=q{}", sc.qtok).into_boxed_str());
        let filter = filter_of(sc.filter_ok);
        let started = with_server(&mut ctx.server, ctx.ldap.streaming_search_with(adapters_of(&sc.chain), base, Scope::Subtree, filter, ATTRS.to_vec()), lim).await;
        let mut stream: Strm = match started {
            None => {
                ctx.obs.borrow_mut().outputs.push(String::from("pending"));
                return ctx;
            }
            Some(Err(e)) => {
                // the caller gets no stream: nothing more can be called
                ctx.obs.borrow_mut().outputs.push(format!("err:{}", err_word(&e)));
                return ctx;
            }
            Some(Ok(s)) => {
                ctx.obs.borrow_mut().outputs.push(String::from("ok"));
                s
            }
        };
        for c in &sc.calls {
            let txt = match c {
                Call::Next => match with_server(&mut ctx.server, stream.next(), lim).await {
                    None => String::from("pending"),
                    Some(Ok(Some(re))) => format!("some:{}", client_item_text(&re)),
                    Some(Ok(None)) => String::from("none"),
                    Some(Err(e)) => format!("err:{}", err_word(&e)),
                },
                Call::Finish => match with_server(&mut ctx.server, stream.finish(), lim).await {
                    None => String::from("pending"),
                    Some(r) => format!("res:{}", client_res_text(&r)),
                },
                Call::State => String::from(state_word(stream.state())),
                Call::Start => match with_server(&mut ctx.server, stream.start(base, Scope::Subtree, filter, ATTRS.to_vec()), lim).await {
                    None => String::from("pending"),
                    Some(Ok(())) => String::from("ok"),
                    Some(Err(e)) => format!("err:{}", err_word(&e)),
                },
            };
            let stuck = txt == "pending";
            ctx.obs.borrow_mut().outputs.push(txt);
            if stuck {
                break;
            }
        }
        drop(stream);
        ctx
    })
}

/// the answer the real code gave, in the form of the `stream.run` command
pub fn real_answer(o: &Obs, obs: &str) -> String {
    let mut outs = o.outputs.clone();
    if o.panicked.is_some() {
        outs.push(String::from("panic"));
    }
    let mut s = outs.join(";");
    if obs == "rs" || obs == "r" {
        s.push_str(&format!(" reqs={}", o.reqs.iter().map(|r| r.text.clone()).collect::<Vec<_>>().join("+")));
    }
    if obs == "rs" {
        s.push_str(&format!(" scrubs={}", list(o.scrubs.iter().map(|i| i.to_string()).collect())));
    }
    s
}

/// a failed `start` leaves the caller without a stream: the model's run is cut after the start
pub fn calls_after_start(sc: &Scenario, o: &Obs) -> Scenario {
    let mut sc = sc.clone();
    if o.outputs.first().map(|s| s != "ok").unwrap_or(true) {
        sc.calls.clear();
    }
    sc
}

/* ---------- the reference cursor: C10 as worded, in Rust ---------- */

#[derive(Clone, Debug, PartialEq)]
pub enum Ending {
    Done(Done),
    Fail(&'static str),
    Pending,
    Panic,
}

pub struct RefView {
    /// items presented, each with the referral URIs gained on the way to it
    pub steps: Vec<(Vec<Vec<u8>>, Item)>,
    pub end_gain: Vec<Vec<u8>>,
    pub ending: Ending,
}

fn first_cookie(cs: &[RespCtl]) -> Option<Option<Vec<u8>>> {
    cs.iter().find(|c| c.paged).map(|c| c.cookie.clone())
}

/// what the server sent for this stream, as the chain presents it (property text of C10 / C16)
pub fn ref_view(chain: &[A], pages: &[Page]) -> RefView {
    let paged = chain.iter().any(|a| matches!(a, A::P(_)));
    let eo = chain.iter().any(|a| matches!(a, A::E));
    // raw concatenation
    let mut raw: Vec<Item> = vec![];
    let mut ending = Ending::Pending;
    let mut k = 0;
    'pages: loop {
        match pages.get(k) {
            None => {
                ending = Ending::Pending;
                break;
            }
            Some(Page::Fail) => {
                ending = Ending::Fail("op");
                break;
            }
            Some(Page::Script(l)) => {
                ending = Ending::Pending;
                for r in l {
                    match r {
                        Recv::Item(i) => raw.push(i.clone()),
                        Recv::Closed => {
                            ending = Ending::Fail("eos");
                            break 'pages;
                        }
                        Recv::Timeout => {
                            ending = Ending::Fail("timeout");
                            break 'pages;
                        }
                        Recv::Done(d) => {
                            if paged {
                                match first_cookie(&d.ctls) {
                                    None => ending = Ending::Done(d.clone()),
                                    Some(None) => ending = Ending::Panic,
                                    Some(Some(ck)) if ck.is_empty() => {
                                        let mut d2 = d.clone();
                                        let ix = d2.ctls.iter().position(|c| c.paged).unwrap();
                                        d2.ctls.remove(ix);
                                        ending = Ending::Done(d2);
                                    }
                                    Some(Some(_)) => {
                                        k += 1;
                                        continue 'pages;
                                    }
                                }
                            } else {
                                ending = Ending::Done(d.clone());
                            }
                            break 'pages;
                        }
                    }
                }
                break;
            }
        }
    }
    if !eo {
        return RefView { steps: raw.into_iter().map(|i| (vec![], i)).collect(), end_gain: vec![], ending };
    }
    let mut steps = vec![];
    let mut gain: Vec<Vec<u8>> = vec![];
    for i in raw {
        match i.k {
            K::E => steps.push((std::mem::take(&mut gain), i)),
            K::I => {}
            K::R => match &i.uris {
                Some(us) => gain.extend(us.iter().cloned()),
                None => return RefView { steps, end_gain: vec![], ending: Ending::Panic },
            },
        }
    }
    RefView { steps, end_gain: gain, ending }
}

pub fn item_out(i: &Item) -> String {
    format!("{}{}/{}", match i.k { K::E => "e", K::R => "r", K::I => "i" }, i.tok, ctls_text(&i.ctls))
}

fn res_out(rc: u32, refs: &[Vec<u8>], ctls: &[RespCtl], text: &str) -> String {
    format!("res:{}/{}/{}/{}", rc, hexlist(refs), ctls_text(ctls), text)
}

/// the outputs C10 prescribes for `start` + the calls (cut where the caller would be stuck)
pub fn ref_outputs(v: &RefView, start_ok: Result<(), &'static str>, calls: &[Call]) -> Vec<String> {
    let mut out = vec![];
    let mut state = "fresh";
    match start_ok {
        Ok(()) => {
            out.push(String::from("ok"));
            state = "active";
        }
        Err(e) => {
            out.push(format!("err:{}", e));
            return out;
        }
    }
    let mut pos = 0usize;
    let mut acc: Vec<Vec<u8>> = vec![];
    let mut fin: Option<Done> = None;
    for c in calls {
        match c {
            Call::Start => out.push(String::from("ok")),
            Call::State => out.push(String::from(state)),
            Call::Next => {
                if state != "active" {
                    out.push(String::from("none"));
                } else if let Some((g, it)) = v.steps.get(pos) {
                    acc.extend(g.iter().cloned());
                    pos += 1;
                    out.push(format!("some:{}", item_out(it)));
                } else {
                    match &v.ending {
                        Ending::Done(d) => {
                            acc.extend(v.end_gain.iter().cloned());
                            fin = Some(d.clone());
                            state = "done";
                            out.push(String::from("none"));
                        }
                        Ending::Fail(e) => {
                            acc.extend(v.end_gain.iter().cloned());
                            state = "error";
                            out.push(format!("err:{}", e));
                        }
                        Ending::Pending => {
                            out.push(String::from("pending"));
                            return out;
                        }
                        Ending::Panic => {
                            out.push(String::from("panic"));
                            return out;
                        }
                    }
                }
            }
            Call::Finish => {
                if state == "closed" {
                    out.push(res_out(80, &[], &[], "finalized"));
                } else {
                    state = "closed";
                    match fin.take() {
                        Some(d) => {
                            let mut refs = d.refs.clone();
                            refs.extend(acc.drain(..));
                            out.push(res_out(d.rc, &refs, &d.ctls, &format!("t{}", d.tok)));
                        }
                        None => {
                            let refs: Vec<Vec<u8>> = acc.drain(..).collect();
                            out.push(res_out(88, &refs, &[], "cancelled"));
                        }
                    }
                }
            }
        }
    }
    out
}

pub fn ref_start(sc: &Scenario) -> Result<(), &'static str> {
    let paged = sc.chain.iter().any(|a| matches!(a, A::P(_)));
    if paged && sc.handle.ctrls.as_ref().map(|cs| cs.iter().any(|c| matches!(c, ReqCtl::Paged(..)))).unwrap_or(false) {
        Err("init")
    } else if !sc.filter_ok {
        Err("filter")
    } else if matches!(sc.pages.first(), Some(Page::Fail)) {
        Err("op")
    } else {
        Ok(())
    }
}

/// is `a -> b` a step of Fresh → Active → Done → Closed, Error after a failure?
fn legal_step(a: &str, b: &str) -> bool {
    a == b
        || matches!(
            (a, b),
            ("fresh", "active") | ("fresh", "error") | ("active", "done") | ("active", "error") | ("active", "closed") | ("done", "closed") | ("error", "closed")
        )
}

/// The clauses of C10 on one scenario; returns (clause, ok, detail) for every clause.
pub fn c10_clauses(sc: &Scenario, o: &Obs) -> Vec<(&'static str, bool, String)> {
    let v = ref_view(&sc.chain, &sc.pages);
    let expected = ref_outputs(&v, ref_start(sc), &sc.calls);
    let mut real = o.outputs.clone();
    if o.panicked.is_some() {
        real.push(String::from("panic"));
    }
    let calls: Vec<Option<Call>> = std::iter::once(None).chain(sc.calls.iter().map(|c| Some(*c))).collect();
    let mut items_ok = true;
    let mut finish_ok = true;
    let mut state_ok = true;
    let mut d_items = String::new();
    let mut d_finish = String::new();
    let mut d_state = String::new();
    let ctx = |i: usize| format!("call#{} of [{}]", i, calls_text(&sc.calls));
    for (i, c) in calls.iter().enumerate() {
        let e = expected.get(i);
        let r = real.get(i);
        if e.is_none() && r.is_none() {
            break;
        }
        let same = e == r;
        match c {
            None | Some(Call::Next) | Some(Call::Start) => {
                if !same && items_ok {
                    items_ok = false;
                    d_items = format!("{}: expected {:?}, real {:?}", ctx(i), e, r);
                }
            }
            Some(Call::Finish) => {
                if !same && finish_ok {
                    finish_ok = false;
                    d_finish = format!("{}: expected {:?}, real {:?}", ctx(i), e, r);
                }
            }
            Some(Call::State) => {
                if !same && state_ok {
                    state_ok = false;
                    d_state = format!("{}: expected {:?}, real {:?}", ctx(i), e, r);
                }
            }
        }
    }
    // trajectory over the observed states
    let mut prev = String::from("active");
    for (i, c) in calls.iter().enumerate() {
        if let (Some(Call::State), Some(s)) = (c, real.get(i)) {
            if !legal_step(&prev, s) && state_ok {
                state_ok = false;
                d_state = format!("{}: {} after {}", ctx(i), s, prev);
            }
            prev = s.clone();
        }
    }
    let expects_panic = expected.last().map(|s| s == "panic").unwrap_or(false);
    let no_panic = o.panicked.is_none() || expects_panic;
    let tail = format!("chain={} pages={}", chain_text(&sc.chain), pages_text(&sc.pages));
    vec![
        ("items-in-order-then-none", items_ok, format!("{} ; {}", d_items, tail)),
        ("finish-result", finish_ok, format!("{} ; {}", d_finish, tail)),
        ("state-trajectory", state_ok, format!("{} ; {}", d_state, tail)),
        ("no-panic", no_panic, format!("{:?} ; calls [{}] ; {}", o.panicked, calls_text(&sc.calls), tail)),
    ]
}

/// one scenario: M line + R lines (one `ok` line, or one FAIL line per failing clause)
pub fn check_scenario(out: &mut Out, lane: &str, sc: &Scenario, strict_clauses: bool) -> Obs {
    let o = run_scenario(sc);
    let obs = if o.closed_by_server || !o.driver_alive { "r" } else { "rs" };
    let scm = calls_after_start(sc, &o);
    let req = scenario_request(&scm, obs);
    out.m(&req, &real_answer(&o, obs));
    if strict_clauses {
        let clauses = c10_clauses(&scm, &o);
        if clauses.iter().all(|c| c.1) {
            out.r(&format!("{}.c10-clauses chain={}", lane, chain_text(&sc.chain)), true, "");
        } else {
            for (name, ok, detail) in clauses {
                if !ok {
                    out.r(&format!("{}.{} chain={}", lane, name, chain_text(&sc.chain)), false, &detail);
                }
            }
        }
    }
    o
}

/* ---------- generators ---------- */

pub struct Toks(pub u64);

impl Toks {
    pub fn next(&mut self) -> u64 {
        self.0 += 1;
        self.0
    }
}

pub fn mk_item(k: K, toks: &mut Toks, ctls: Vec<RespCtl>) -> Item {
    let tok = toks.next();
    let uris = if k == K::R { Some(ref_uris(tok, (tok % 3) as usize)) } else { Some(vec![]) };
    Item { k, tok, uris, ctls }
}

pub fn gen_ctls(rng: &mut Rng, toks: &mut Toks) -> Vec<RespCtl> {
    (0..rng.below(3)).map(|_| RespCtl { paged: false, cookie: None, tok: toks.next() }).collect()
}

pub fn all_seqs<T: Clone>(alpha: &[T], max_len: usize) -> Vec<Vec<T>> {
    let mut res: Vec<Vec<T>> = vec![vec![]];
    let mut layer: Vec<Vec<T>> = vec![vec![]];
    for _ in 0..max_len {
        let mut next = vec![];
        for s in &layer {
            for a in alpha {
                let mut t = s.clone();
                t.push(a.clone());
                next.push(t);
            }
        }
        res.extend(next.iter().cloned());
        layer = next;
    }
    res
}

fn search_case(out: &mut Out, h: &Handle, pages: &[Page], label: &str) {
    // `Ldap::search` on the real code
    let pre_closed = matches!(pages.first(), Some(Page::Fail));
    let h2 = h.clone();
    let o = run_in_rt(pages, pre_closed, move |mut ctx: Ctx| async move {
        apply_handle(&mut ctx.ldap, &h2);
        let lim = limit_ms(&h2);
        let r = with_server(&mut ctx.server, ctx.ldap.search("dc=q1", Scope::Subtree, filter_of(true), ATTRS.to_vec()), lim).await;
        let txt = match r {
            None => String::from("pending"),
            Some(Err(e)) => format!("err:{}", err_word(&e)),
            Some(Ok(sr)) => format!("ok:{}:{}", list(sr.0.iter().map(client_item_text).collect()), client_res_text(&sr.1)),
        };
        ctx.obs.borrow_mut().outputs.push(txt);
        ctx
    });
    let real = if o.panicked.is_some() { String::from("panic") } else { o.outputs.first().cloned().unwrap_or_default() };
    out.m(&format!("search.run {} q1:1 {}", handle_text(h), pages_text(pages)), &real);
    // C10, last sentence: exactly the directory entries in order, reference URIs merged into the
    // result's referral list, intermediate messages dropped
    let v = ref_view(&[A::E], pages);
    let expected = match &v.ending {
        Ending::Done(d) => {
            let mut refs = d.refs.clone();
            for (g, _) in &v.steps {
                refs.extend(g.iter().cloned());
            }
            refs.extend(v.end_gain.iter().cloned());
            format!("ok:{}:{}", list(v.steps.iter().map(|(_, i)| item_out(i)).collect()), &res_out(d.rc, &refs, &d.ctls, &format!("t{}", d.tok))[4..])
        }
        Ending::Fail(e) => format!("err:{}", e),
        Ending::Pending => String::from("pending"),
        Ending::Panic => String::from("panic"),
    };
    out.r(&format!("streams.search-entries-refs-merged {}", label), real == expected, &format!("expected {} real {} ; pages={}", expected, real, pages_text(pages)));
    // the referral list on its own, straight from the script: the Done's own referrals first, then
    // the URIs of the reference messages in the order they were sent
    if let Some((done_refs, msg_uris)) = script_refs(pages) {
        let mut want = done_refs.clone();
        want.extend(msg_uris.iter().cloned());
        let got = real.split(':').nth(2).and_then(|r| r.split('/').nth(1)).unwrap_or("?").to_string();
        out.r(
            &format!("streams.search-refs-merged done_refs={} ref_uris={} {}", done_refs.len(), msg_uris.len(), label),
            got == hexlist(&want),
            &format!("result refs {} expected {} (done's {} then the reference messages' {}) ; pages={}", got, hexlist(&want), hexlist(&done_refs), hexlist(&msg_uris), pages_text(pages)),
        );
    }
}

/// (referrals of the SearchResultDone, URIs of the reference messages before it) of a first page
/// that ends in Done and has only well-formed references
pub fn script_refs(pages: &[Page]) -> Option<(Vec<Vec<u8>>, Vec<Vec<u8>>)> {
    let Some(Page::Script(l)) = pages.first() else { return None };
    let mut uris = vec![];
    for r in l {
        match r {
            Recv::Item(i) if i.k == K::R => uris.extend(i.uris.clone()?),
            Recv::Item(_) => {}
            Recv::Done(d) => return Some((d.refs.clone(), uris)),
            _ => return None,
        }
    }
    None
}

/// A caller that gives up on one wait (`select!` against something else, its own timer) and calls `next()` again
/// later still gets exactly the items the server sent, in order, then the end, and `finish()` the server's
/// result: a pending `next()` on a stream WITHOUT adapters that is dropped must not lose the stream's place.
/// (Scripted through scen.rs: `NextCancel` polls `next()` once and drops it while pending.)
fn cancelled_waits(thorough: bool, rng: &mut Rng, out: &mut Out) {
    use crate::scen::{run_script, to_model_events, OpKind, Step};
    let n = if thorough { 400 } else { 40 };
    for k in 0..n {
        let items = rng.range(1, 5) as usize;
        let tmo = if rng.chance(1, 3) { Some(60_000u64) } else { None };
        let mut sc = vec![Step::Issue { kind: OpKind::Search, tmo_ms: tmo }, Step::Settle];
        let mut cancels = 0;
        for _ in 0..items {
            // zero or more abandoned waits while nothing is queued, then the item, then the real call
            for _ in 0..rng.below(3) {
                sc.push(Step::NextCancel(0));
                sc.push(Step::Settle);
                cancels += 1;
            }
            sc.push(Step::Send { id: 1, op: *rng.pick(&[4u64, 19, 25]), good: false });
            sc.push(Step::Settle);
            if rng.chance(1, 3) {
                sc.push(Step::NextCancel(0)); // an item is queued: this poll is Ready and delivers it
            } else {
                sc.push(Step::Next(0));
            }
            sc.push(Step::Settle);
        }
        for _ in 0..rng.below(2) + 1 {
            sc.push(Step::NextCancel(0));
            sc.push(Step::Settle);
            cancels += 1;
        }
        sc.push(Step::Send { id: 1, op: 5, good: true });
        sc.push(Step::Settle);
        sc.push(Step::Next(0));
        sc.push(Step::Settle);
        sc.push(Step::Finish(0));
        sc.push(Step::Settle);
        let o = run_script(&sc);
        let ev = to_model_events(&o.trace);
        let label = format!("cancel#{} items={} abandoned-waits={} timeout={:?}", k, items, cancels, tmo);
        out.case(&format!("{} {}", label, ev), cancels > 0);
        out.stat("cancelled-waits.scenarios");
        out.m(&format!("conn.trace {}", ev), "accept");
        let sent: Vec<String> = o.trace.iter().filter(|t| t.starts_with("srv send 1 ")).map(|t| t.split(' ').nth(4).unwrap_or("?").to_string()).collect();
        let got: Vec<String> = o.trace.iter().filter(|t| t.starts_with("cli next 0 ")).map(|t| t.rsplit(' ').next().unwrap_or("?").to_string()).collect();
        let mut want: Vec<String> = sent[..sent.len() - 1].iter().map(|t| format!("item:entry:{}", t)).collect();
        want.push(format!("item:done:{}", sent[sent.len() - 1]));
        out.r(&format!("streams.cancelled-wait-loses-nothing {}", label), got == want, &format!("server sent tokens {:?}; next() returned {:?} ; trace: {}", sent, got, ev));
        let fin = o.trace.iter().find(|t| t.starts_with("cli finished 0 ")).cloned().unwrap_or_default();
        out.r(&format!("streams.cancelled-wait-finish-returns-server-result {}", label), fin == "cli finished 0 rc=0", &format!("{} ; trace: {}", fin, ev));
    }
}

pub fn run(thorough: bool, mut rng: Rng, mut out: Out) {
    cancelled_waits(thorough, &mut rng, &mut out);
    let mut toks = Toks(100);
    let calls_alpha = [Call::Next, Call::Finish, Call::State];
    let kinds = [K::E, K::R, K::I];
    let call_seqs = all_seqs(&calls_alpha, if thorough { 6 } else { 5 });
    let item_seqs = all_seqs(&kinds, if thorough { 4 } else { 3 });
    let rcs = [0u32, 4, 10, 32];
    // 1. exhaustive: calls × item kinds × {direct, EntriesOnly} × rc (full product, both tiers)
    for chain in [vec![], vec![A::E]] {
        for items in &item_seqs {
            for calls in &call_seqs {
                for rc in rcs {
                    let mut script: Vec<Recv> = items.iter().map(|k| Recv::Item(mk_item(k.clone(), &mut toks, vec![]))).collect();
                    let refs = if rc == 10 { vec![b"ldap://other/".to_vec()] } else { vec![] };
                    script.push(Recv::Done(Done { rc, refs, ctls: vec![], tok: toks.next() }));
                    let sc = Scenario { chain: chain.clone(), handle: Handle::default(), qtok: 1, filter_ok: true, pages: vec![Page::Script(script)], calls: calls.clone() };
                    let o = check_scenario(&mut out, "streams", &sc, true);
                    out.case(&format!("{}|{:?}|{}|{}", chain_text(&chain), items, calls_text(calls), rc), !calls.is_empty());
                    out.stat("exhaustive");
                    if o.panicked.is_some() {
                        out.stat("panicked");
                    }
                }
            }
        }
    }
    // 2. random longer scripts: per-item controls, result controls and referrals, endings
    //    Done / disconnect / time-out / silence, longer call sequences, explicit start(), filter errors
    let n = if thorough { 20000 } else { 2500 };
    for k in 0..n {
        let chain = if rng.chance(1, 2) { vec![] } else { vec![A::E] };
        let n_items = rng.below(9) as usize;
        let mut script: Vec<Recv> = vec![];
        for _ in 0..n_items {
            let kind = rng.pick(&[K::E, K::E, K::R, K::I]).clone();
            let ctls = if rng.chance(1, 3) { gen_ctls(&mut rng, &mut toks) } else { vec![] };
            let mut it = mk_item(kind, &mut toks, ctls);
            if it.k == K::R && k % 50 == 49 && rng.chance(1, 3) {
                it.uris = None; // malformed reference: EntriesOnly panics in parse_refs (caller side)
            }
            script.push(Recv::Item(it));
        }
        let ending = rng.below(10);
        let mut h = Handle::default();
        match ending {
            0..=5 => {
                let mut ctls = if rng.chance(1, 2) { gen_ctls(&mut rng, &mut toks) } else { vec![] };
                if rng.chance(1, 6) {
                    // a paging control in the result of an unpaged search is handed on untouched
                    let ck = if rng.chance(1, 2) { vec![] } else { rng.bytes(3) };
                    let pos = rng.below(ctls.len() as u64 + 1) as usize;
                    ctls.insert(pos, RespCtl { paged: true, cookie: Some(ck), tok: rng.below(100) });
                }
                let rc = *rng.pick(&[0u32, 0, 4, 10, 32, 3, 11, 53, 80, 88]);
                let refs = if rc == 10 || rng.chance(1, 8) { (0..rng.range(1, 2)).map(|j| format!("ldap://res{}/", j).into_bytes()).collect() } else { vec![] };
                script.push(Recv::Done(Done { rc, refs, ctls, tok: toks.next() }));
                if rng.chance(1, 8) {
                    script.push(Recv::Closed);
                }
            }
            6 | 7 => script.push(Recv::Closed),
            8 => {
                script.push(Recv::Timeout);
                h.tmo = true;
            }
            _ => {} // silence without a time-out: the caller waits forever
        }
        if ending <= 7 && rng.chance(1, 5) {
            h.tmo = true;
        }
        let n_calls = rng.range(0, 14) as usize;
        let calls: Vec<Call> = (0..n_calls).map(|_| *rng.pick(&[Call::Next, Call::Next, Call::Next, Call::Finish, Call::State, Call::State, Call::Start])).collect();
        let filter_ok = !rng.chance(1, 40);
        let pages = if rng.chance(1, 40) { vec![Page::Fail] } else { vec![Page::Script(script)] };
        if rng.chance(1, 3) {
            h.ctrls = Some((0..rng.below(3)).map(|_| ReqCtl::Other(rng.range(1, 500))).collect());
        }
        if rng.chance(1, 3) {
            h.opts = Some(rng.range(1, 1000));
        }
        let sc = Scenario { chain, handle: h, qtok: rng.range(1, 9), filter_ok, pages, calls };
        check_scenario(&mut out, "streams", &sc, true);
        out.case(&scenario_request(&sc, "-"), n_items + n_calls >= 2);
        out.stat(&format!("random.ending={}", match ending { 0..=5 => "done", 6 | 7 => "closed", 8 => "timeout", _ => "silence" }));
    }
    // 0. corpus: the two witnesses of finding F23 (fixed in /repo 103366d), as named cases
    {
        let pr = |ck: Vec<u8>| vec![RespCtl { paged: true, cookie: Some(ck), tok: 9 }];
        // (a) finish() in the middle of page 2: chain p2, pages entry+Done{cookie 01}, entry+Done{cookie ""}, calls n n f
        let pages = vec![
            Page::Script(vec![Recv::Item(mk_item(K::E, &mut toks, vec![])), Recv::Done(Done { rc: 0, refs: vec![], ctls: pr(vec![1]), tok: toks.next() })]),
            Page::Script(vec![Recv::Item(mk_item(K::E, &mut toks, vec![])), Recv::Done(Done { rc: 0, refs: vec![], ctls: pr(vec![]), tok: toks.next() })]),
        ];
        let sc = Scenario { chain: vec![A::P(2)], handle: Handle::default(), qtok: 1, filter_ok: true, pages, calls: vec![Call::Next, Call::Next, Call::Finish] };
        let o = check_scenario(&mut out, "streams", &sc, true);
        out.r("streams.corpus-F23-finish-on-page-2-is-cancelled", o.outputs.last().map(|s| s.starts_with("res:88/")).unwrap_or(false), &format!("{:?}", o.outputs));
        out.case("corpus F23 a", true);
        // (b) the follow-up search cannot be submitted (server closes after page 1's Done): n n f
        let pages = vec![
            Page::Script(vec![Recv::Item(mk_item(K::E, &mut toks, vec![])), Recv::Done(Done { rc: 0, refs: vec![], ctls: pr(vec![1]), tok: toks.next() }), Recv::Closed]),
            Page::Fail,
        ];
        for chain in [vec![A::P(2)], vec![A::E, A::P(2)], vec![A::P(2), A::E]] {
            let sc = Scenario { chain, handle: Handle::default(), qtok: 1, filter_ok: true, pages: pages.clone(), calls: vec![Call::Next, Call::Next, Call::State, Call::Finish, Call::State] };
            let o = check_scenario(&mut out, "streams", &sc, true);
            out.r(
                "streams.corpus-F23-finish-after-failed-followup-is-cancelled",
                o.outputs.iter().any(|s| s == "err:op") && o.outputs.iter().any(|s| s.starts_with("res:88/")),
                &format!("{:?}", o.outputs),
            );
            out.case(&format!("corpus F23 b {}", chain_text(&sc.chain)), true);
        }
        out.stat("corpus");
    }
    // 3. adapted streams with the paging adapter under the same C10 clauses (the detailed paging
    //    checks are lane `paged`): two or three pages, finish() before the end on every page
    let mut paged_cases = 0;
    for chain in [vec![A::P(2)], vec![A::E, A::P(2)], vec![A::P(2), A::E]] {
        for n_pages in [1usize, 2, 3] {
            for calls in all_seqs(&calls_alpha, if thorough { 5 } else { 4 }) {
                if !thorough && paged_cases % 3 != 0 && calls.len() == 4 {
                    paged_cases += 1;
                    continue;
                }
                paged_cases += 1;
                let mut pages = vec![];
                for p in 0..n_pages {
                    let mut script: Vec<Recv> = vec![Recv::Item(mk_item(K::E, &mut toks, vec![]))];
                    if p == 0 {
                        script.push(Recv::Item(mk_item(K::R, &mut toks, vec![])));
                    }
                    let cookie = if p + 1 == n_pages { vec![] } else { vec![p as u8 + 1] };
                    script.push(Recv::Done(Done { rc: 0, refs: vec![], ctls: vec![RespCtl { paged: true, cookie: Some(cookie), tok: 9 }], tok: toks.next() }));
                    pages.push(Page::Script(script));
                }
                let sc = Scenario { chain: chain.clone(), handle: Handle::default(), qtok: 1, filter_ok: true, pages, calls: calls.clone() };
                check_scenario(&mut out, "streams", &sc, true);
                out.case(&format!("paged|{}|{}|{}", chain_text(&chain), n_pages, calls_text(&calls)), true);
                out.stat("adapted-paged");
            }
        }
    }
    // 4. Ldap::search
    let n = if thorough { 4000 } else { 600 };
    for k in 0..n {
        let n_items = rng.below(10) as usize;
        let mut script: Vec<Recv> = vec![];
        for _ in 0..n_items {
            let kind = rng.pick(&[K::E, K::E, K::R, K::I]).clone();
            let ctls = if rng.chance(1, 4) { gen_ctls(&mut rng, &mut toks) } else { vec![] };
            let mut it = mk_item(kind, &mut toks, ctls);
            if it.k == K::R && k % 60 == 59 {
                it.uris = None;
            }
            script.push(Recv::Item(it));
        }
        let mut h = Handle::default();
        match rng.below(10) {
            0 => script.push(Recv::Closed),
            1 => {
                script.push(Recv::Timeout);
                h.tmo = true;
            }
            2 => {}
            _ => {
                let rc = *rng.pick(&[0u32, 0, 4, 10, 32]);
                let refs = if rc == 10 || rng.chance(1, 5) { vec![b"ldap://res/".to_vec()] } else { vec![] };
                let ctls = if rng.chance(1, 3) { gen_ctls(&mut rng, &mut toks) } else { vec![] };
                script.push(Recv::Done(Done { rc, refs, ctls, tok: toks.next() }));
            }
        }
        let pages = if rng.chance(1, 50) { vec![Page::Fail] } else { vec![Page::Script(script)] };
        search_case(&mut out, &h, &pages, &format!("case#{}", k));
        out.case(&format!("search|{}", pages_text(&pages)), n_items >= 1);
        out.stat("search");
    }
    // 5. referrals from both sources: the SearchResultDone carries 0..3 referral URIs (rc 10 and rc 0)
    //    and 0..2 reference messages (1..3 URIs each) occur among the entries: search() and
    //    EntriesOnly::finish() must report done.refs ++ reference URIs, in that order
    let mut k5 = 0;
    for rc in [0u32, 10] {
        for n_done in 0..=3usize {
            for n_msgs in 0..=2usize {
                for layout in 0..(if thorough { 6 } else { 3 }) {
                    let mut script: Vec<Recv> = vec![];
                    let mut msgs_left = n_msgs;
                    let n_entries = 1 + layout % 3;
                    for e in 0..n_entries {
                        if msgs_left > 0 && (layout + e) % 2 == 0 {
                            let mut it = mk_item(K::R, &mut toks, vec![]);
                            it.uris = Some(ref_uris(it.tok, (layout + msgs_left) % 3));
                            script.push(Recv::Item(it));
                            msgs_left -= 1;
                        }
                        script.push(Recv::Item(mk_item(K::E, &mut toks, vec![])));
                        if layout % 2 == 1 {
                            script.push(Recv::Item(mk_item(K::I, &mut toks, vec![])));
                        }
                    }
                    while msgs_left > 0 {
                        let mut it = mk_item(K::R, &mut toks, vec![]);
                        it.uris = Some(ref_uris(it.tok, msgs_left % 3));
                        script.push(Recv::Item(it));
                        msgs_left -= 1;
                    }
                    let refs: Vec<Vec<u8>> = (0..n_done).map(|j| format!("ldap://done{}-{}/", k5, j).into_bytes()).collect();
                    script.push(Recv::Done(Done { rc, refs: refs.clone(), ctls: vec![], tok: toks.next() }));
                    let pages = vec![Page::Script(script.clone())];
                    search_case(&mut out, &Handle::default(), &pages, &format!("rc={} msgs={} layout#{}", rc, n_msgs, layout));
                    out.case(&format!("search-refs|{}", pages_text(&pages)), true);
                    out.stat("search-refs-both-sources");
                    // the same through a stream behind EntriesOnly, read to the end and finished
                    let n_next = script.iter().filter(|r| matches!(r, Recv::Item(i) if i.k == K::E)).count() + 1;
                    let mut calls = vec![Call::Next; n_next];
                    calls.push(Call::Finish);
                    let sc = Scenario { chain: vec![A::E], handle: Handle::default(), qtok: 1, filter_ok: true, pages: pages.clone(), calls };
                    let o = check_scenario(&mut out, "streams", &sc, true);
                    let (done_refs, msg_uris) = script_refs(&pages).unwrap();
                    let mut want = done_refs.clone();
                    want.extend(msg_uris.iter().cloned());
                    let got = o.outputs.last().and_then(|r| r.split('/').nth(1)).unwrap_or("?").to_string();
                    out.r(
                        &format!("streams.finish-refs-merged done_refs={} ref_uris={} rc={}", done_refs.len(), msg_uris.len(), rc),
                        got == hexlist(&want),
                        &format!("finish() refs {} expected {} ; pages={}", got, hexlist(&want), pages_text(&pages)),
                    );
                    k5 += 1;
                }
            }
        }
    }
    out.finish("real SearchStream/Ldap::search on the scripted transport against a scripted server: (1) every call sequence over {next, finish, state} up to length 5 (6 thorough) x every item-kind sequence over {entry, reference, intermediate} up to length 3 (4) x {direct, EntriesOnly}, x result code {0,4,10,32} (full product); (2) random scripts of 0..8 items with per-item controls, result controls/referrals, endings Done / disconnect / time-out / silence, 0..14 calls incl. start(), filter errors, failed submission; (3) paging adapter in three chain orders, 1..3 pages, all call sequences up to length 4 (5) (length-4 ones: every third when quick); (4) Ldap::search on random scripts; (5) referrals in the SearchResultDone (0..3, rc 0 and 10) together with 0..2 reference messages, through Ldap::search and through EntriesOnly + finish(). non-trivial = at least one call (1), items+calls >= 2 (2), always (3), at least one item (4); distinct by FNV of the canonical scenario");
}

//! Lane `filter` (C08): `ldap3::parse_filter` (+ lber encoding) and `parse_matched_values` (through
//! `controls::MatchedValues`) vs Model.Filter, and the property oracles:
//!   O  Lean `Spec.Filter.ofTlv` + `print` of the REAL BER == escaping-normalised input / generator tree
//!   R  rejection classes named in the property; valid renderings are accepted; no panic.
use crate::fmtx::*;
use crate::out::{guarded, Out};
use crate::rng::Rng;
use bytes::BytesMut;
use lber::structures::ASNTag;
use lber::write::encode_into;
use ldap3::controls::MatchedValues;
use ldap3::parse_filter;

/// `( ) & | ! = * \ : ; . - ~ < > a d n 0 2 f` NUL 0xff  (same order as Driver.batchAlphabet)
pub const ALPHABET: [u8; 23] = [
    0x28, 0x29, 0x26, 0x7C, 0x21, 0x3D, 0x2A, 0x5C, 0x3A, 0x3B, 0x2E, 0x2D, 0x7E, 0x3C, 0x3E, 0x61, 0x64, 0x6E, 0x30,
    0x32, 0x66, 0x00, 0xFF,
];

#[derive(Clone, PartialEq, Debug)]
pub enum Outc {
    Ok(Vec<u8>),
    Reject,
    Panic,
}

impl Outc {
    pub fn show(&self) -> String {
        match self {
            Outc::Ok(b) => format!("ok {}", hex(b)),
            Outc::Reject => String::from("reject"),
            Outc::Panic => String::from("panic"),
        }
    }
}

/// the real thing: `parse_filter` then `into_structure` + `encode_into`
pub fn real(s: &[u8]) -> Outc {
    match guarded(|| {
        parse_filter(s).map(|t| {
            let mut buf = BytesMut::new();
            encode_into(&mut buf, t.into_structure()).unwrap();
            buf.to_vec()
        })
    }) {
        Ok(Ok(b)) => Outc::Ok(b),
        Ok(Err(())) => Outc::Reject,
        Err(_) => Outc::Panic,
    }
}

/// `parse_matched_values` is private; `MatchedValues::new` = parse, `expect("filter")`, encode
pub fn real_mv(s: &str) -> Outc {
    let owned = s.to_string();
    match guarded(move || MatchedValues::new(owned).val.unwrap_or_default()) {
        Ok(b) => Outc::Ok(b),
        Err(msg) => {
            if msg.starts_with("filter") {
                Outc::Reject
            } else {
                Outc::Panic
            }
        }
    }
}

// ---------------------------------------------------------------------------------------------
// independent reading of RFC 4515 on the Rust side: trees, canonical printing, normalisation

#[derive(Clone, Debug)]
pub enum F {
    And(Vec<F>),
    Or(Vec<F>),
    Not(Box<F>),
    Eq(Vec<u8>, Vec<u8>),
    Ge(Vec<u8>, Vec<u8>),
    Le(Vec<u8>, Vec<u8>),
    Approx(Vec<u8>, Vec<u8>),
    Present(Vec<u8>),
    Substr(Vec<u8>, Option<Vec<u8>>, Vec<Vec<u8>>, Option<Vec<u8>>),
    Ext(Option<Vec<u8>>, Option<Vec<u8>>, Vec<u8>, bool),
}

fn is_special(b: u8) -> bool {
    b == 0 || b == b'(' || b == b')' || b == b'*' || b == b'\\'
}

fn hexval(c: u8) -> Option<u8> {
    match c {
        b'0'..=b'9' => Some(c - b'0'),
        b'a'..=b'f' => Some(c - b'a' + 10),
        b'A'..=b'F' => Some(c - b'A' + 10),
        _ => None,
    }
}

/// value rendering; `choice`: None = canonical, Some(rng) = literal / \hh / \HH / mixed per byte
fn esc_into(out: &mut Vec<u8>, v: &[u8], rng: &mut Option<&mut Rng>, ascii_only: bool) {
    for &b in v {
        let style = match rng {
            None => {
                if is_special(b) {
                    1
                } else {
                    0
                }
            }
            Some(r) => {
                if is_special(b) || (ascii_only && b >= 0x80) {
                    1 + r.below(4)
                } else {
                    match r.below(10) {
                        0..=5 => 0,
                        k => k - 5,
                    }
                }
            }
        };
        if style == 0 {
            out.push(b);
        } else {
            let lo = b"0123456789abcdef";
            let up = b"0123456789ABCDEF";
            let (t1, t2) = match style {
                1 => (lo, lo),
                2 => (up, up),
                3 => (lo, up),
                _ => (up, lo),
            };
            out.push(b'\\');
            out.push(t1[(b >> 4) as usize]);
            out.push(t2[(b & 15) as usize]);
        }
    }
}

fn item_into(out: &mut Vec<u8>, f: &F, rng: &mut Option<&mut Rng>, ascii_only: bool) {
    match f {
        F::Eq(a, v) | F::Ge(a, v) | F::Le(a, v) | F::Approx(a, v) => {
            out.extend(a);
            out.extend(match f {
                F::Eq(..) => &b"="[..],
                F::Ge(..) => &b">="[..],
                F::Le(..) => &b"<="[..],
                _ => &b"~="[..],
            });
            esc_into(out, v, rng, ascii_only);
        }
        F::Present(a) => {
            out.extend(a);
            out.extend(b"=*");
        }
        F::Substr(a, ini, any, fin) => {
            out.extend(a);
            out.push(b'=');
            if let Some(v) = ini {
                esc_into(out, v, rng, ascii_only);
            }
            out.push(b'*');
            for v in any {
                esc_into(out, v, rng, ascii_only);
                out.push(b'*');
            }
            if let Some(v) = fin {
                esc_into(out, v, rng, ascii_only);
            }
        }
        F::Ext(rule, attr, v, dn) => {
            if let Some(a) = attr {
                out.extend(a);
            }
            if *dn {
                // the literal "dn" of dnattrs is case-insensitive (RFC 5234 2.3); canonical: lower case
                let sp: &[u8] = match rng {
                    Some(r) => *r.pick(&[&b":dn"[..], &b":dn"[..], &b":DN"[..], &b":Dn"[..], &b":dN"[..]]),
                    None => &b":dn"[..],
                };
                out.extend(sp);
            }
            if let Some(r) = rule {
                out.push(b':');
                out.extend(r);
            }
            out.extend(b":=");
            esc_into(out, v, rng, ascii_only);
        }
        _ => unreachable!(),
    }
}

fn is_item(f: &F) -> bool {
    !matches!(f, F::And(_) | F::Or(_) | F::Not(_))
}

fn print_into(out: &mut Vec<u8>, f: &F, rng: &mut Option<&mut Rng>, ascii_only: bool) {
    out.push(b'(');
    match f {
        F::And(fs) | F::Or(fs) => {
            out.push(if matches!(f, F::And(_)) { b'&' } else { b'|' });
            for g in fs {
                print_into(out, g, rng, ascii_only);
            }
        }
        F::Not(g) => {
            out.push(b'!');
            print_into(out, g, rng, ascii_only);
        }
        _ => item_into(out, f, rng, ascii_only),
    }
    out.push(b')');
}

/// canonical RFC 4515 string of a tree (only the five special octets escaped, lower-case hex)
pub fn canon(f: &F) -> Vec<u8> {
    let mut o = vec![];
    print_into(&mut o, f, &mut None, false);
    o
}

/// spelling normal form of the dnattrs keyword, item by item.  An item is a maximal stretch without
/// parentheses; the part before its first `=` is `attr [:dn] [:rule] :`.  `:dn` (any case) is the
/// keyword iff it is the first `:`-segment, is followed by `:`, and either an attribute description
/// precedes it or a matching rule follows it (`(:DN:=x)` is the matching rule called DN).
pub fn lower_kw(s: &[u8]) -> Vec<u8> {
    let mut o = s.to_vec();
    let mut start = 0;
    for i in 0..=s.len() {
        if i == s.len() || s[i] == b'(' || s[i] == b')' {
            let t = &s[start..i];
            if let Some(e) = t.iter().position(|&c| c == b'=') {
                let p = &t[..e];
                if let Some(k) = p.iter().position(|&c| c == b':') {
                    let attr_ok = k > 0 && p[..k].iter().all(|&c| c.is_ascii_alphanumeric() || c == b'-' || c == b'.' || c == b';');
                    if p.len() >= k + 4
                        && (p[k + 1] == b'd' || p[k + 1] == b'D')
                        && (p[k + 2] == b'n' || p[k + 2] == b'N')
                        && p[k + 3] == b':'
                        && ((k > 0 && attr_ok) || (k == 0 && p.len() > 4))
                    {
                        o[start + k + 1] = b'd';
                        o[start + k + 2] = b'n';
                    }
                }
            }
            start = i + 1;
        }
    }
    o
}

/// normal form of a string: the dnattrs keyword in lower case, every well-formed \hh replaced by the
/// canonical rendering of its octet; outer parentheses supplied for a bare item
pub fn norm_top(s0: &[u8]) -> Vec<u8> {
    let lowered = lower_kw(s0);
    let s = &lowered[..];
    let mut o = vec![];
    let mut i = 0;
    while i < s.len() {
        if s[i] == b'\\' {
            if i + 2 < s.len() {
                if let (Some(x), Some(y)) = (hexval(s[i + 1]), hexval(s[i + 2])) {
                    esc_into(&mut o, &[x * 16 + y], &mut None, false);
                    i += 3;
                    continue;
                }
            }
            o.extend(&s[i..]);
            break;
        }
        o.push(s[i]);
        i += 1;
    }
    if s.first() == Some(&b'(') {
        o
    } else {
        let mut p = vec![b'('];
        p.extend(o);
        p.push(b')');
        p
    }
}

// ---------------------------------------------------------------------------------------------
// rejection classes named in the property, decided on the string alone

pub const CLASSES: [&str; 6] =
    ["unbalanced-parens", "trailing-text", "bad-escape", "raw-special-in-value", "empty-attr", "adjacent-asterisks"];

/// bit i set = the string belongs to CLASSES[i] and must be rejected
pub fn classes(s: &[u8]) -> u8 {
    let mut m = 0u8;
    // parentheses never stand for themselves, so every ( ) octet is structure
    let mut depth: i64 = 0;
    let mut neg = false;
    let mut closed_at: Option<usize> = None;
    for (i, &b) in s.iter().enumerate() {
        if b == b'(' {
            depth += 1;
        } else if b == b')' {
            depth -= 1;
            if depth < 0 {
                neg = true;
            }
            if depth == 0 && closed_at.is_none() {
                closed_at = Some(i);
            }
        }
    }
    if neg || depth != 0 {
        m |= 1;
    }
    // a complete parenthesised filter followed by more text
    if s.first() == Some(&b'(') {
        if let Some(k) = closed_at {
            if k + 1 < s.len() && !neg {
                m |= 2;
            }
        }
    }
    // a backslash not followed by two hex digits
    let mut i = 0;
    while i < s.len() {
        if s[i] == b'\\' {
            if i + 2 < s.len() && hexval(s[i + 1]).is_some() && hexval(s[i + 2]).is_some() {
                i += 3;
                continue;
            }
            m |= 4;
            break;
        }
        i += 1;
    }
    // NUL anywhere; `(` right after an octet that is not ( & | ! ) ; `*` in the value of >= <= ~= :=
    if s.contains(&0) {
        m |= 8;
    }
    for i in 1..s.len() {
        if s[i] == b'(' && !matches!(s[i - 1], b'(' | b'&' | b'|' | b'!' | b')') {
            m |= 8;
        }
    }
    // items = maximal paren-free stretches that contain an '='
    let mut start = 0;
    for i in 0..=s.len() {
        if i == s.len() || s[i] == b'(' || s[i] == b')' {
            let t = &s[start..i];
            if let Some(e) = t.iter().position(|&c| c == b'=') {
                if e > 0 && matches!(t[e - 1], b'>' | b'<' | b'~' | b':') && t[e + 1..].contains(&b'*') {
                    m |= 8;
                }
                // nothing before the operator
                if e == 0 || (e == 1 && matches!(t[0], b'>' | b'<' | b'~' | b':')) {
                    m |= 16;
                }
            }
            start = i + 1;
        }
    }
    if s.windows(2).any(|w| w == b"**") {
        m |= 32;
    }
    m
}

// ---------------------------------------------------------------------------------------------
// generators

const ATTRS: &[&str] = &[
    "cn", "a", "objectClass", "2.5.4.3", "1.2", "0.9.2342.19200300.100.1.1", "cn;lang-en", "a;x-1;y", "x-y", "a1", "dn",
    "d", "n0", "f-2", "2.0", "userCertificate;binary", "1.3.6.1.4.1.1466.0;x-a",
];
const RULES: &[&str] = &["2.5.13.5", "caseExactMatch", "dnfoo", "dn-x", "d", "dnn", "1.2.840.113556.1.4.803", "x", "DN1", "dN-"];
/// accepted by the library only (RFC 4512 wants two arcs)
const BARE_NUMBERS: &[&str] = &["2", "0", "10"];

fn gen_value(rng: &mut Rng, nonempty: bool) -> Vec<u8> {
    let n = match rng.below(10) {
        0 => 0,
        1..=6 => rng.range(1, 4),
        _ => rng.range(1, 12),
    } as usize;
    let n = if nonempty && n == 0 { 1 } else { n };
    (0..n)
        .map(|_| match rng.below(10) {
            0..=4 => *rng.pick(b"abcxyzJD 0123456789=<>~:;.-&|!,+\"#/@_"),
            5 => *rng.pick(&[0u8, b'(', b')', b'*', b'\\']),
            6 => rng.range(0x80, 0xff) as u8,
            7 => *rng.pick(&[0xc4u8, 0x87, 0xe2, 0x82, 0xac, 0xf0, 0x9f]),
            _ => rng.next() as u8,
        })
        .collect()
}

fn gen_attr(rng: &mut Rng, lib_ext: bool) -> Vec<u8> {
    if lib_ext && rng.chance(1, 6) {
        rng.pick(BARE_NUMBERS).as_bytes().to_vec()
    } else {
        rng.pick(ATTRS).as_bytes().to_vec()
    }
}

pub fn gen_item(rng: &mut Rng, lib_ext: bool) -> F {
    let a = gen_attr(rng, lib_ext);
    match rng.below(12) {
        0..=2 => F::Eq(a, gen_value(rng, false)),
        3 => F::Ge(a, gen_value(rng, false)),
        4 => F::Le(a, gen_value(rng, false)),
        5 => F::Approx(a, gen_value(rng, false)),
        6 => F::Present(a),
        7..=9 => loop {
            let ini = if rng.chance(1, 2) { Some(gen_value(rng, true)) } else { None };
            let any: Vec<Vec<u8>> = (0..rng.below(4)).map(|_| gen_value(rng, true)).collect();
            let fin = if rng.chance(1, 2) { Some(gen_value(rng, true)) } else { None };
            if ini.is_some() || !any.is_empty() || fin.is_some() {
                break F::Substr(a, ini, any, fin);
            }
        },
        _ => {
            let dn = rng.chance(1, 2);
            let rule = if rng.chance(1, 2) { Some(rng.pick(RULES).as_bytes().to_vec()) } else { None };
            let v = gen_value(rng, false);
            if rng.chance(2, 3) {
                F::Ext(rule, Some(a), v, dn)
            } else {
                // no type: the rule is mandatory (and may be spelled dn)
                let r = rule.unwrap_or_else(|| rng.pick(&["dn", "DN", "dN", "2.5.13.2", "caseIgnoreMatch"]).as_bytes().to_vec());
                F::Ext(Some(r), None, v, dn)
            }
        }
    }
}

pub fn gen_tree(rng: &mut Rng, depth_left: u32, lib_ext: bool) -> F {
    if depth_left == 0 || rng.chance(2, 5) {
        return gen_item(rng, lib_ext);
    }
    match rng.below(5) {
        0 | 1 => F::And((0..rng.below(6)).map(|_| gen_tree(rng, depth_left - 1, lib_ext)).collect()),
        2 | 3 => F::Or((0..rng.below(6)).map(|_| gen_tree(rng, depth_left - 1, lib_ext)).collect()),
        _ => F::Not(Box::new(gen_tree(rng, depth_left - 1, lib_ext))),
    }
}

fn tree_depth(f: &F) -> usize {
    match f {
        F::And(fs) | F::Or(fs) => 1 + fs.iter().map(tree_depth).max().unwrap_or(0),
        F::Not(g) => 1 + tree_depth(g),
        _ => 0,
    }
}

/// a rendering with random escaping choices; `bare`: without the outer parentheses (items only)
pub fn render(f: &F, rng: &mut Rng, bare: bool, ascii_only: bool) -> Vec<u8> {
    let mut o = vec![];
    if bare && is_item(f) {
        item_into(&mut o, f, &mut Some(rng), ascii_only);
    } else {
        print_into(&mut o, f, &mut Some(rng), ascii_only);
    }
    o
}

// ---------------------------------------------------------------------------------------------

fn short(s: &[u8]) -> String {
    if s.len() <= 120 {
        hex(s)
    } else {
        format!("{}..fnv{:x}", hex(&s[..60]), fnv(s))
    }
}

/// one string: M line, rejection-class R lines, O line when accepted; returns the real outcome
fn check_string(out: &mut Out, s: &[u8], kind: &str) -> Outc {
    let got = real(s);
    out.case(&hex(s), matches!(got, Outc::Ok(_)) || s.len() >= 3);
    out.stat(&format!("{}.{}", kind, match got { Outc::Ok(_) => "accepted", Outc::Reject => "rejected", Outc::Panic => "panic" }));
    out.m(&format!("filter.parse {}", hex(s)), &got.show());
    out.r(&format!("filter.no-panic {}", short(s)), got != Outc::Panic, "panic");
    let cl = classes(s);
    for (i, name) in CLASSES.iter().enumerate() {
        if cl & (1 << i) != 0 {
            out.stat(&format!("class.{}", name));
            out.r(&format!("filter.reject.{} {}", name, short(s)), got == Outc::Reject, &format!("not rejected: {}", got.show()));
        }
    }
    if let Outc::Ok(ber) = &got {
        out.o(&format!("spec.filter.print {}", hex(ber)), &hex(&norm_top(s)));
    }
    got
}

/// RFC 5234 §2.3: the literal "dn" of `dnattrs` is case-insensitive; a string spelling it `DN`
/// must be accepted and get the BER of the lower-case spelling
fn dn_case_check(out: &mut Out, s: &[u8], lower: &[u8]) {
    let a = check_string(out, s, "corpus");
    let b = real(lower);
    out.r(
        &format!("filter.rfc.dn-keyword-case {}", String::from_utf8_lossy(s)),
        matches!(a, Outc::Ok(_)) && a == b,
        &format!("dnattrs keyword matched case-sensitively: got {} but lower-case spelling gives {}", a.show(), b.show()),
    );
}

/// a string with the canonical RFC 4515 string of the tree it denotes, as read from the RFC by hand
fn rfc_reading(out: &mut Out, s: &str, canonical: &str) {
    let got = check_string(out, s.as_bytes(), "corpus");
    match &got {
        Outc::Ok(ber) => out.o(&format!("spec.filter.print {}", hex(ber)), &hex(canonical.as_bytes())),
        _ => out.r(&format!("filter.rfc.reading {}", s), false, &format!("not accepted: {}", got.show())),
    }
}

fn word(k: usize, mut idx: usize, buf: &mut Vec<u8>) {
    let base = buf.len();
    buf.resize(base + k, 0);
    for j in (0..k).rev() {
        buf[base + j] = ALPHABET[idx % 23];
        idx /= 23;
    }
}

#[derive(Default)]
struct Agg {
    class_n: [u64; 6],
    class_bad: [Option<Vec<u8>>; 6],
    panic_at: Option<Vec<u8>>,
    total: u64,
    acc: u64,
}

/// outcomes of all words prefix ++ w, |w| = 2: one letter per word + FNV of the accepted BERs
fn batch_core(out: &mut Out, prefix: &[u8], with_o: bool, g: &mut Agg) -> String {
    let k = 2;
    let total = 23usize.pow(k as u32);
    let mut letters = String::with_capacity(total + 24);
    let mut h: u64 = 0xcbf29ce484222325;
    let mut s = Vec::with_capacity(prefix.len() + k);
    for idx in 0..total {
        s.clear();
        s.extend(prefix);
        word(k, idx, &mut s);
        let got = real(&s);
        let cl = classes(&s);
        for i in 0..6 {
            if cl & (1 << i) != 0 {
                g.class_n[i] += 1;
                if got != Outc::Reject && g.class_bad[i].is_none() {
                    g.class_bad[i] = Some(s.clone());
                }
            }
        }
        match &got {
            Outc::Ok(ber) => {
                letters.push('k');
                for b in ber {
                    h = (h ^ *b as u64).wrapping_mul(0x100000001b3);
                }
                h = (h ^ 0x0a).wrapping_mul(0x100000001b3);
                g.acc += 1;
                out.case(&hex(&s), true);
                if with_o {
                    out.o(&format!("spec.filter.print {}", hex(ber)), &hex(&norm_top(&s)));
                }
            }
            Outc::Reject => letters.push('r'),
            Outc::Panic => {
                letters.push('p');
                if g.panic_at.is_none() {
                    g.panic_at = Some(s.clone());
                }
            }
        }
    }
    g.total += total as u64;
    format!("{} {}", letters, h)
}

fn batch_finish(out: &mut Out, what: &str, g: Agg) {
    out.evaluations += g.total - g.acc;
    out.stat_n("exhaustive.strings", g.total);
    out.stat_n("exhaustive.accepted", g.acc);
    out.r(&format!("filter.no-panic {}", what), g.panic_at.is_none(), &format!("panic at {}", hex(g.panic_at.as_deref().unwrap_or(&[]))));
    for i in 0..6 {
        if g.class_n[i] > 0 {
            out.stat_n(&format!("class.{}", CLASSES[i]), g.class_n[i]);
            out.r(
                &format!("filter.reject.{} {}", CLASSES[i], what),
                g.class_bad[i].is_none(),
                &format!("not rejected: {}", hex(g.class_bad[i].as_deref().unwrap_or(&[]))),
            );
        }
    }
}

/// all words prefix ++ w, |w| = 2: one M line with the digest, one R line per class, O lines for accepted
fn batch2(out: &mut Out, prefix: &[u8], with_o: bool) {
    let mut g = Agg::default();
    let ans = batch_core(out, prefix, with_o, &mut g);
    out.m(&format!("filter.batch {} 2", hex(prefix)), &ans);
    batch_finish(out, &format!("batch {} 2", hex(prefix)), g);
}

/// all words prefix ++ w, |w| = 3 (the driver evaluates the 23 sub-batches in parallel)
fn batch3(out: &mut Out, prefix: &[u8], with_o: bool) {
    let mut g = Agg::default();
    let mut parts = vec![];
    for a in ALPHABET {
        let mut p = prefix.to_vec();
        p.push(a);
        parts.push(batch_core(out, &p, with_o, &mut g));
    }
    out.m(&format!("filter.batch3 {}", hex(prefix)), &parts.join(";"));
    batch_finish(out, &format!("batch {} 3", hex(prefix)), g);
}

fn mutate(rng: &mut Rng, s: &[u8]) -> Vec<u8> {
    let mut e = s.to_vec();
    if e.is_empty() {
        return vec![*rng.pick(&ALPHABET)];
    }
    let i = rng.below(e.len() as u64) as usize;
    match rng.below(5) {
        4 => e[i] = if e[i].is_ascii_lowercase() { e[i].to_ascii_uppercase() } else { e[i].to_ascii_lowercase() },
        0 => e[i] = *rng.pick(&ALPHABET),
        1 => {
            e.remove(i);
        }
        2 => e.insert(i, *rng.pick(&ALPHABET)),
        _ => e[i] = *rng.pick(b"()*\\=:"),
    }
    e
}

fn mv_case(out: &mut Out, s: &[u8]) {
    if let Ok(st) = std::str::from_utf8(s) {
        let got = real_mv(st);
        out.case(&format!("mv {}", hex(s)), true);
        out.stat(match got { Outc::Ok(_) => "mv.accepted", Outc::Reject => "mv.rejected", Outc::Panic => "mv.panic" });
        out.m(&format!("mv.parse {}", hex(s)), &got.show());
        out.r(&format!("mv.no-panic {}", short(s)), got != Outc::Panic, "panic");
    }
}

pub fn run(thorough: bool, mut rng: Rng, mut out: Out) {
    // ---- corpus: witnesses of past findings (F12), documented extensions, the unit tests of filter.rs
    let corpus: &[&str] = &[
        "(cn:dnfoo:=x)", "(:dn:=x)", "(cn:dn:=x)", "(:dn:2.4.6.8.10:=x)", "(&)", "(|)", "a=b",
        "a=v", "(a=v)", "(a=v)garbage", "(a<=2)", "(a=*)", "(a=*v)", "(a=v*)", "(a=v*x*y)", "(a=f**)", "(a=v\\2ax)",
        "(a=v\\2)", "(a=v\\0x)", "(2.5.4.3=v)", "(2.5.4.0=top)", "(2.5.04.0=top)", "(&(a=v)(b=x)(!(c=y)))",
        "(ou:dn:=People)", "(cn:2.5.13.5:=J D)", "(a=\u{107})",
        "(cn:dn:dn:=x)", "(cn:dn;x:=v)", "(cn:=x)", "(:=x)", "(=x)", "(>=x)", "()", "(", ")", "", "(!)", "(!(a=b)(c=d))",
        "(a=b)(c=d)", "((a=b))", "(&(a=b)", "(a=b))", "(a=b(c)", "(a>=b*)", "(a~=*)", "(a:=b*c)", "(a=**)", "(a=*b**c)",
        "(a=\\)", "(a=\\g0)", "(a=\\5c\\5C\\2a\\28\\29\\00)", "(2=x)", "(02=x)", "(1.=x)", "(1..2=x)", "(a;=x)", "(a;;b=x)",
        "(a;b-;c=x)", "(-a=x)", "(a-=x)", "(1a=x)", "(a.b=x)", "(a =x)", "( a=x)", "(a= x )", "(a=b=c)", "(a==)", "(a>==)",
        "(a:dn:2:=x)", "(a:dn::=x)", "(a::=x)", "(:dn:dn:=x)", "(:dn:dn:dn:=x)", "(:a:b:=x)", "(a:dn)", "(a:dn=x)",
        "a:dn:=x", ":dn:=x", "!(a=b)", "&(a=b)", "(a=b)\0", "(\0=b)", "(a=\u{20ac}\\e2\\82\\ac)",
    ];
    for s in corpus {
        check_string(&mut out, s.as_bytes(), "corpus");
        mv_case(&mut out, s.as_bytes());
    }
    for s in [&b"(a=\xff\xfe)"[..], &b"(a=\xc4)"[..], &b"(\xffa=b)"[..]] {
        check_string(&mut out, s, "corpus");
    }
    for s in ["((a=v))", "((a=v)(b=x))", "((a=*v)(2.5.4.3:dn:=x))", "(a=v)", "()", "((a=v)", "((a=v)))", "((&(a=v)))", "((a=v)x)", "((a=\\2a\\28))", "(a=v)(b=x)"] {
        mv_case(&mut out, s.as_bytes());
    }
    // the dnattrs keyword in other cases (RFC 5234: literals are case-insensitive)
    for (s, lower) in [("(cn:DN:=x)", "(cn:dn:=x)"), ("(cn:Dn:2.4.6:=x)", "(cn:dn:2.4.6:=x)"), ("(:dN:caseExactMatch:=x)", "(:dn:caseExactMatch:=x)")] {
        dn_case_check(&mut out, s.as_bytes(), lower.as_bytes());
    }
    // `dn` as keyword, as (prefix of) a matching rule name, and inside values: the RFC reading
    for (s, canonical) in [
        ("(cn:dnfoo:=x)", "(cn:dnfoo:=x)"),
        ("(cn:DNfoo:=x)", "(cn:DNfoo:=x)"),
        ("(:DN:=x)", "(:DN:=x)"),
        ("(:dn:=x)", "(:dn:=x)"),
        ("(cn:DN:=x)", "(cn:dn:=x)"),
        ("(cn:Dn:2.4.6:=x)", "(cn:dn:2.4.6:=x)"),
        ("(:dN:caseExactMatch:=x)", "(:dn:caseExactMatch:=x)"),
        ("(cn:dn:DN:=x)", "(cn:dn:DN:=x)"),
        ("(cn:DN:dn:=x)", "(cn:dn:dn:=x)"),
        ("(:DN:dn:=x)", "(:dn:dn:=x)"),
        ("(:Dn:DN:=x)", "(:dn:DN:=x)"),
        ("(cn:=:DN:)", "(cn:=:DN:)"),
        ("(a=:DN:)", "(a=:DN:)"),
        ("(cn:DN-x:=x)", "(cn:DN-x:=x)"),
        ("cn:DN:=x", "(cn:dn:=x)"),
        (":DN:=x", "(:DN:=x)"),
        ("(&(cn:DN:=:DN:)(!(:DN:=x)))", "(&(cn:dn:=:DN:)(!(:DN:=x)))"),
    ] {
        rfc_reading(&mut out, s, canonical);
    }
    // deep nesting (each level is a native recursion of the real parser); 128 levels is the limit
    // of `nesting_within_limit` (repair of F28), met from both sides with each operator
    for d in [1usize, 10, 63, 64, 100, 126, 127, 128, 129, 500, 2000] {
        for op in [b'!', b'&', b'|'] {
            let mut s = vec![];
            for _ in 0..d {
                s.push(b'(');
                s.push(op);
            }
            s.extend(b"(a=b)");
            for _ in 0..d {
                s.push(b')');
            }
            crate::out::mark(&format!("filter.parse {}", hex(&s)));
            let got = check_string(&mut out, &s, "nest");
            // d operators around `(a=b)`: d + 1 levels of parentheses
            out.stat(if d + 1 <= 128 { "nest.within-limit" } else { "nest.beyond-limit" });
            out.r(
                &format!("filter.nesting-limit depth={} op={}", d + 1, op as char),
                matches!(got, Outc::Ok(_)) == (d + 1 <= 128),
                &format!("{} levels: {}", d + 1, if matches!(got, Outc::Ok(_)) { "accepted" } else { "not accepted" }),
            );
        }
    }
    // the counter of the guard: a `)` at depth 0 leaves it at 0; siblings do not add up; parentheses
    // that are unbalanced are counted all the same
    {
        let mut wide = b"(&".to_vec();
        for _ in 0..300 {
            wide.extend(b"(!(a=b))");
        }
        wide.push(b')');
        let got = check_string(&mut out, &wide, "nest");
        out.r("filter.nesting-limit wide-not-deep", matches!(got, Outc::Ok(_)), "300 siblings, 3 levels: not accepted");
        let mut s = vec![b')'; 200];
        s.extend(b"(a=b)");
        check_string(&mut out, &s, "nest");
        check_string(&mut out, &vec![b'('; 128], "nest");
        check_string(&mut out, &vec![b'('; 129], "nest");
        let mut s = vec![];
        for _ in 0..100 {
            s.extend(b"(!");
        }
        s.extend(b"(a=b)");
        s.extend(vec![b')'; 50]);
        for _ in 0..100 {
            s.extend(b"(!");
        }
        check_string(&mut out, &s, "nest");
    }
    // F28: a filter string nested some ten thousand levels deep exhausted the native stack of the
    // recursive-descent parser (release build: between 30 000 and 100 000 levels on an 8 MiB stack);
    // the process died — no error, no panic to catch. Expected: an error. (The lane marks the input
    // first, so a crash is reported with it.)
    for d in [30_000usize, 100_000, 1_000_000] {
        let mut s = Vec::with_capacity(3 * d + 5);
        for _ in 0..d {
            s.extend(b"(!");
        }
        s.extend(b"(a=b)");
        s.resize(3 * d + 5, b')');
        crate::out::mark(&format!("filter.parse (! x {} (a=b) ) x {}", d, d));
        let got = if d <= 30_000 { check_string(&mut out, &s, "nest") } else { real(&s) };
        out.case(&format!("nest-deep {}", d), true);
        out.stat("nest.f28-witness");
        out.r(
            &format!("filter.deep-nesting-is-an-error-not-a-crash depth={}", d + 1),
            got == Outc::Reject,
            &format!("{} levels: {}", d + 1, got.show().chars().take(20).collect::<String>()),
        );
    }
    // … and inside a value the parentheses are escaped: no level is opened by `\28`
    {
        let mut s = b"(a=".to_vec();
        for _ in 0..500 {
            s.extend(b"\\28");
        }
        s.push(b')');
        let got = check_string(&mut out, &s, "nest");
        out.r("filter.nesting-limit escaped-parens-are-not-levels", matches!(got, Outc::Ok(_)), "500 escaped '(' in a value: not accepted");
    }

    // ---- (i) exhaustive short strings over the alphabet
    let maxlen = if thorough { 7 } else { 5 };
    for len in 0..=maxlen.min(2) {
        for idx in 0..23usize.pow(len as u32) {
            let mut s = vec![];
            word(len, idx, &mut s);
            check_string(&mut out, &s, "exhaustive");
        }
    }
    for len in 3..=maxlen {
        let k = if len >= 5 { 3 } else { 2 };
        let plen = len - k;
        let nprefix = 23usize.pow(plen as u32);
        // subsample the prefixes when the level has more than ~7e6 strings
        let level = nprefix as u64 * 23u64.pow(k as u32);
        let stride_den: u64 = if level > 7_000_000 { (level + 2_999_999) / 3_000_000 } else { 1 };
        for p in 0..nprefix {
            if stride_den > 1 && !rng.chance(1, stride_den) {
                continue;
            }
            let mut pre = vec![];
            word(plen, p, &mut pre);
            if k == 3 {
                batch3(&mut out, &pre, len <= 5);
            } else {
                batch2(&mut out, &pre, true);
            }
        }
    }

    // ---- (ii) random syntax trees, every escaping choice, with / without outer parentheses
    let ntrees = if thorough { 200_000 } else { 6_000 };
    let mut valid: Vec<Vec<u8>> = vec![];
    for n in 0..ntrees {
        let lib_ext = n % 4 == 3;
        let d = rng.below(6) as u32;
        let t = gen_tree(&mut rng, d, lib_ext);
        let bare = is_item(&t) && rng.chance(1, 2);
        let s = render(&t, &mut rng, bare, false);
        let got = real(&s);
        out.case(&hex(&s), true);
        out.stat(&format!("tree.depth={}", tree_depth(&t)));
        out.stat(if lib_ext { "tree.lib-dialect" } else { "tree.rfc" });
        if bare {
            out.stat("tree.bare-item");
        }
        out.m(&format!("filter.parse {}", hex(&s)), &got.show());
        match &got {
            Outc::Ok(ber) => {
                // the BER decodes (Lean spec decoder) to the generator's tree
                out.o(&format!("spec.filter.print {}", hex(ber)), &hex(&canon(&t)));
                out.r("filter.tree.norm-agrees", norm_top(&s) == canon(&t), &short(&s));
            }
            _ => out.r(&format!("filter.accepts-grammar {}", short(&s)), false, &format!("valid rendering not accepted: {}", got.show())),
        }
        if valid.len() < 4000 && s.len() < 200 {
            valid.push(s.clone());
        }
        // matched-values form: a list of parenthesised items
        if n % 10 == 0 {
            let k = rng.range(1, 4);
            let mut mv = vec![b'('];
            for _ in 0..k {
                let it = gen_item(&mut rng, lib_ext);
                mv.extend(render(&it, &mut rng, false, true));
            }
            mv.push(b')');
            mv_case(&mut out, &mv);
            let m = mutate(&mut rng, &mv);
            mv_case(&mut out, &m);
        }
    }

    // ---- (iii) random bytes
    let nrand = if thorough { 500_000 } else { 15_000 };
    for _ in 0..nrand {
        let n = rng.below(20) as usize;
        let s: Vec<u8> = if rng.chance(1, 2) {
            rng.bytes(n)
        } else {
            (0..n).map(|_| match rng.below(10) { 0..=6 => *rng.pick(&ALPHABET), 7 => *rng.pick(b"DN"), _ => rng.next() as u8 }).collect()
        };
        check_string(&mut out, &s, "random");
    }

    // ---- (iv) single-character mutations of valid strings
    let nmut = if thorough { 500_000 } else { 20_000 };
    for _ in 0..nmut {
        let base = rng.pick(&valid).clone();
        let s = mutate(&mut rng, &base);
        check_string(&mut out, &s, "mutation");
    }
    out.finish("exhaustive strings over ( ) & | ! = * \\ : ; . - ~ < > a d n 0 2 f NUL 0xff up to length 5 (quick) / 7 (thorough, longest levels subsampled by prefix), random RFC 4515 syntax trees (depth <= 5, width <= 5) rendered with a random literal / \\hh / \\HH / mixed choice per value octet and with or without outer parentheses for items, random byte strings, single-character mutations of valid strings, corpus of unit-test strings and past witnesses; matched-values lists; non-trivial = accepted, or at least 3 octets; distinct by FNV hash of the string");
}

//! Lane `results` (C03): responses of every result-bearing kind, generated as values, encoded by the
//! harness's own encoder with random definite length forms, pushed through the REAL frame decoder
//! (`verif_decode`) and the REAL result conversion (`LdapResultExt::try_from_tag` via
//! `verif_result_ext`; the `From<Tag>` panic via the public `LdapResult::from`), and the REAL helper
//! methods.  M lines: Model.Envelope.decodeInner / Model.Result.{resultExt, opCallResult, helpers}.
//! R lines: every field handed to the caller equals the generated value (independent oracle), and
//! the helpers accept exactly the documented codes.
use crate::fmtx::*;
use crate::gen::*;
use crate::lanes::ber::{real_encode, spec_enc};
use crate::lanes::hostile::{ctrls_text_real, decode_outcome};
use crate::out::{guarded, Out};
use crate::rng::Rng;
use bytes::BytesMut;
use ldap3::controls::Control;
use ldap3::exop::Exop;
use ldap3::result::{CompareResult, ExopResult, LdapError, LdapResult, SearchResult};
use ldap3::ResultEntry;
use lber::structure::StructureTag;
use lber::structures::{Integer, Null, Tag};

fn opt_hex(v: &Option<Vec<u8>>) -> String {
    match v {
        Some(b) => hex(b),
        None => String::from("none"),
    }
}

type Ext = Option<(LdapResult, Exop, Option<Vec<u8>>)>;

/// the real conversion, panics caught
fn real_ext(tag: Tag) -> Result<Ext, String> {
    guarded(move || ldap3::verif::verif_result_ext(tag))
}

fn ext_fields(res: &LdapResult, exop: &Exop, sasl: &Option<Vec<u8>>) -> String {
    format!(
        "ok rc={} matched={} text={} refs=[{}] exop={}/{} sasl={}",
        res.rc,
        hex(res.matched.as_bytes()),
        hex(res.text.as_bytes()),
        res.refs.iter().map(|u| hex(u.as_bytes())).collect::<Vec<_>>().join(","),
        opt_hex(&exop.name.as_ref().map(|s| s.as_bytes().to_vec())),
        opt_hex(&exop.val),
        opt_hex(sasl)
    )
}

fn ext_text(r: &Result<Ext, String>) -> String {
    match r {
        Err(_) => String::from("panic"),
        Ok(None) => String::from("none"),
        Ok(Some((res, exop, sasl))) => ext_fields(res, exop, sasl),
    }
}

/// `LdapResult::from(tag)` (public `From<Tag>`): the path `op_call` and the search stream take
fn from_text(t: &StructureTag) -> String {
    let tag = Tag::StructureTag(t.clone());
    match guarded(move || LdapResult::from(tag)) {
        Err(_) => String::from("panic"),
        Ok(res) => format!(
            "ok rc={} matched={} text={} refs=[{}]",
            res.rc,
            hex(res.matched.as_bytes()),
            hex(res.text.as_bytes()),
            res.refs.iter().map(|u| hex(u.as_bytes())).collect::<Vec<_>>().join(",")
        ),
    }
}

struct E2E {
    text: String,
    id: Option<i32>,
    consumed: usize,
    op: Option<StructureTag>,
    ext: Option<(LdapResult, Exop, Option<Vec<u8>>)>,
}

/// decode one frame with the real decoder, then re-enact the tail of `Ldap::op_call`:
/// conversion + `result.ctrls = controls`
fn real_e2e(bs: &[u8]) -> E2E {
    crate::out::mark(&format!("env.dec {}", hex(bs)));
    let input = bs.to_vec();
    let dec = guarded(move || {
        let mut buf = BytesMut::from(&input[..]);
        let before = buf.len();
        let r = ldap3::verif::verif_decode(&mut buf);
        (r.map_err(|_| ()), before - buf.len())
    });
    match dec {
        Err(_) => E2E { text: String::from("panic"), id: None, consumed: 0, op: None, ext: None },
        Ok((Err(_), _)) => E2E { text: String::from("error"), id: None, consumed: 0, op: None, ext: None },
        Ok((Ok(None), n)) => E2E { text: String::from("needmore"), id: None, consumed: n, op: None, ext: None },
        Ok((Ok(Some((id, (tag, ctrls)))), n)) => {
            let op = match &tag {
                Tag::StructureTag(t) => Some(t.clone()),
                _ => None,
            };
            match real_ext(tag) {
                Ok(Some((mut res, exop, sasl))) => {
                    let pre_ctrls_empty = res.ctrls.is_empty();
                    res.ctrls = ctrls; // op_call: `result.ctrls = controls`
                    let text = format!(
                        "frame {} consumed={} {} ctrls={}{}",
                        id,
                        n,
                        ext_fields(&res, &exop, &sasl),
                        ctrls_text_real(&res.ctrls),
                        if pre_ctrls_empty { "" } else { " (conversion returned controls!)" }
                    );
                    E2E { text, id: Some(id), consumed: n, op, ext: Some((res, exop, sasl)) }
                }
                // `LdapResultExt::from` = `try_from_tag(..).expect("ldap result")`: a panic on the caller's task
                Ok(None) => E2E { text: format!("frame {} consumed={} panic", id, n), id: Some(id), consumed: n, op, ext: None },
                Err(_) => E2E { text: format!("frame {} consumed={} try-panic", id, n), id: Some(id), consumed: n, op, ext: None },
            }
        }
    }
}

struct Case {
    r: Resp,
    rcc: Vec<u8>,
    ctls: Option<Vec<WireCtl>>,
}

fn gen_case(rng: &mut Rng, app: u64) -> Case {
    let r = gen_resp_wide(rng, app);
    let rcc = gen_rc_octets(rng, r.rc);
    let ctls = if rng.chance(1, 2) { Some((0..rng.below(5)).map(|_| gen_wire_ctl(rng)).collect()) } else { None };
    Case { r, rcc, ctls }
}

fn short(h: &str) -> String {
    if h.len() > 120 {
        format!("{}…({} hex digits)", &h[..120], h.len())
    } else {
        h.to_string()
    }
}

/// one well-formed response: encode (any length forms) -> real decode -> real conversion; M + R
fn valid_case(out: &mut Out, rng: &mut Rng, c: &Case, emit_m: bool) {
    let r = &c.r;
    let op = resp_op_rcc(r, &c.rcc);
    let msg = envelope_wire(r.id, op.clone(), &c.ctls);
    let vary = !rng.chance(1, 8);
    let e = if vary { spec_enc(&msg, rng, true) } else { real_encode(&msg) };
    // whatever follows in the buffer must not matter
    let mut buf = e.clone();
    match rng.below(4) {
        0 => buf.extend(rng.bytes_below(6)),
        1 => {
            let nxt = real_encode(&resp_msg(&gen_resp(rng)));
            let k = rng.below(nxt.len() as u64 + 1) as usize;
            buf.extend(&nxt[..k]);
        }
        _ => {}
    }
    let h = hex(&buf);
    out.case(&h, true);
    out.stat(&format!("kind.app{}", r.app));
    out.stat(if vary { "enc.random-length-forms" } else { "enc.writer-minimal" });
    out.stat(match r.rc {
        0 => "rc.0",
        5 | 6 => "rc.compare",
        10 => "rc.referral",
        1..=122 => "rc.1..122",
        123..=0x7fffffff => "rc.123..2^31",
        _ => "rc.2^31..2^32",
    });
    if c.rcc.len() > 1 && c.rcc[0] == 0 && c.rcc[1] < 0x80 {
        out.stat("rc.padded-octets");
    }
    out.stat(&match &r.refs {
        None => "refs.absent".to_string(),
        Some(v) => format!("refs.{}", v.len()),
    });
    out.stat(&match &c.ctls {
        None => "ctls.absent".to_string(),
        Some(v) => format!("ctls.{}", v.len()),
    });
    for ct in c.ctls.iter().flatten() {
        out.stat(match ct.crit {
            None => "ctl.crit.absent",
            Some(0) => "ctl.crit.FALSE",
            Some(0xff) => "ctl.crit.TRUE-ff",
            Some(_) => "ctl.crit.TRUE-odd-octet",
        });
        out.stat(match &ct.val {
            None => "ctl.val.absent",
            Some(v) if v.is_empty() => "ctl.val.empty",
            Some(v) if v.len() >= 300 => "ctl.val.long",
            Some(_) => "ctl.val.some",
        });
        out.stat(if known_name(&ct.oid) != "-" { "ctl.oid.known" } else { "ctl.oid.other" });
    }
    if r.matched.len() >= 300 || r.text.len() >= 300 {
        out.stat("text.long");
    }
    if r.matched.is_empty() && r.text.is_empty() {
        out.stat("text.both-empty");
    }
    if r.sasl.is_some() {
        out.stat("sasl.present");
    }
    if r.exop_name.is_some() || r.exop_val.is_some() {
        out.stat(match (&r.exop_name, &r.exop_val) {
            (Some(_), Some(_)) => "exop.name+value",
            (Some(_), None) => "exop.name-only",
            _ => "exop.value-only",
        });
    }

    let got = real_e2e(&buf);
    if emit_m {
        out.m(&format!("env.dec {}", h), &decode_outcome(&buf));
        out.m(&format!("res.e2e {}", h), &got.text);
        if let Some(t) = &got.op {
            out.m(&format!("res.ext {}", tlv(t)), &ext_text(&real_ext(Tag::StructureTag(t.clone()))));
        }
    }
    let sh = short(&h);
    // oracle: the frame
    let frame_ok = got.id == Some(r.id as i32) && got.consumed == e.len() && got.op.as_ref() == Some(&op);
    out.r(
        &format!("results.frame-as-sent app={} {}", r.app, sh),
        frame_ok,
        &format!("want id={} consumed={} op={}; got {}", r.id, e.len(), tlv(&op), short(&got.text)),
    );
    // oracle: every field equals what the server encoded
    match &got.ext {
        None => out.r(&format!("results.fields-as-sent app={} {}", r.app, sh), false, &format!("no result: {}", short(&got.text))),
        Some((res, exop, sasl)) => {
            let mut bad = vec![];
            if res.rc != r.rc {
                bad.push(format!("rc {} != {}", res.rc, r.rc));
            }
            if res.matched.as_bytes() != &r.matched[..] {
                bad.push(format!("matched {} != {}", hex(res.matched.as_bytes()), hex(&r.matched)));
            }
            if res.text.as_bytes() != &r.text[..] {
                bad.push(format!("text {} != {}", hex(res.text.as_bytes()), hex(&r.text)));
            }
            let want_refs: Vec<Vec<u8>> = r.refs.clone().unwrap_or_default();
            let got_refs: Vec<Vec<u8>> = res.refs.iter().map(|u| u.as_bytes().to_vec()).collect();
            if got_refs != want_refs {
                bad.push(format!("refs {:?} != {:?}", got_refs, want_refs));
            }
            if exop.name.as_ref().map(|s| s.as_bytes().to_vec()) != r.exop_name {
                bad.push(format!("exop name {:?} != {:?}", exop.name, r.exop_name));
            }
            if exop.val != r.exop_val {
                bad.push(format!("exop value {:?} != {:?}", exop.val, r.exop_val));
            }
            if *sasl != r.sasl {
                bad.push(format!("sasl {:?} != {:?}", sasl, r.sasl));
            }
            out.r(&format!("results.fields-as-sent app={} {}", r.app, sh), bad.is_empty(), &bad.join("; "));
            let want = wire_ctls_text(&c.ctls);
            let gotc = ctrls_text_real(&res.ctrls);
            out.r(&format!("results.controls-as-sent app={} {}", r.app, sh), gotc == want, &format!("got {} want {}", short(&gotc), short(&want)));
        }
    }
}

/// The PUBLIC operation for this response kind, run for real on a scripted connection (`Ldap::simple_bind`,
/// `search`, `modify`, `add`, `delete`, `modifydn`, `compare`, `extended`): what the caller is handed — after the
/// per-operation projections (`CompareResult(res)`, `ExopResult(exop, res)`, `SearchResult(entries, res)`,
/// `simple_bind -> .0`) — carries exactly the fields of the response the server encoded, controls included; a
/// response whose strings are not UTF-8 (no `String` can hold them) is an error, never a panic (F27).
fn api_case(out: &mut Out, rng: &mut Rng, c: &Case) {
    use ldap3::{LdapConnAsync, Mod, Scope};
    use std::collections::HashSet;
    let mut r = c.r.clone();
    r.id = 1; // the first operation of a fresh connection
    let op = resp_op_rcc(&r, &c.rcc);
    let msg = envelope_wire(1, op, &c.ctls);
    let e = if rng.chance(3, 4) { spec_enc(&msg, rng, true) } else { real_encode(&msg) };
    let reenacted = real_e2e(&e);
    let app = r.app;
    crate::out::mark(&format!("results.api app={} {}", app, hex(&e)));
    let e2 = e.clone();
    type Got = Result<(LdapResult, Option<Exop>, usize), String>;
    let run = guarded(move || -> Result<Got, String> {
        let rt = tokio::runtime::Builder::new_current_thread().enable_time().start_paused(true).build().unwrap();
        rt.block_on(async move {
            let (io, net) = crate::simnet::pair();
            let (conn, mut ldap) = LdapConnAsync::verif_pair(Box::new(io));
            tokio::spawn(async move {
                let _ = conn.drive().await;
            });
            let local = tokio::task::LocalSet::new();
            local
                .run_until(async move {
                    let h = tokio::task::spawn_local(async move {
                        let werr = |e: ldap3::LdapError| -> String {
                            match &e {
                                ldap3::LdapError::Io { source } if source.kind() == std::io::ErrorKind::InvalidData => String::from("decode"),
                                other => format!("other:{}", other),
                            }
                        };
                        let got: Got = match app {
                            1 => ldap.simple_bind("cn=u", "pw").await.map(|r| (r, None, 0)).map_err(werr),
                            5 => ldap.search("dc=x", Scope::Base, "(a=b)", vec!["a"]).await.map(|SearchResult(es, r)| (r, None, es.len())).map_err(werr),
                            7 => ldap.modify("cn=x", vec![Mod::Replace("a", HashSet::from(["b"]))]).await.map(|r| (r, None, 0)).map_err(werr),
                            9 => ldap.add("cn=x", vec![("a", HashSet::from(["b"]))]).await.map(|r| (r, None, 0)).map_err(werr),
                            11 => ldap.delete("cn=x").await.map(|r| (r, None, 0)).map_err(werr),
                            13 => ldap.modifydn("cn=x", "cn=y", true, None).await.map(|r| (r, None, 0)).map_err(werr),
                            15 => ldap.compare("cn=x", "a", "b").await.map(|CompareResult(r)| (r, None, 0)).map_err(werr),
                            _ => ldap.extended(ldap3::exop::WhoAmI).await.map(|ExopResult(x, r)| (r, Some(x), 0)).map_err(werr),
                        };
                        got
                    });
                    for _ in 0..20 {
                        tokio::task::yield_now().await;
                    }
                    net.send(&e2);
                    match tokio::time::timeout(std::time::Duration::from_secs(30), h).await {
                        Err(_) => Err(String::from("the operation did not return")),
                        Ok(Err(j)) => Err(format!("task failed: {}", if j.is_panic() { "panic" } else { "cancelled" })),
                        Ok(Ok(g)) => Ok(g),
                    }
                })
                .await
        })
    });
    let sh = short(&hex(&e));
    out.case(&format!("api app={} {}", app, hex(&e)), true);
    out.stat(&format!("api.app{}", app));
    let got: Got = match run {
        Err(p) => Err(format!("panic: {}", p)),
        Ok(Err(w)) => Err(w),
        Ok(Ok(g)) => g,
    };
    match (&reenacted.ext, &got) {
        (Some((res, exop, _)), Ok((gres, gexop, n_entries))) => {
            let mut bad = vec![];
            if gres.rc != r.rc || gres.rc != res.rc { bad.push(format!("rc {} (sent {})", gres.rc, r.rc)); }
            if gres.matched.as_bytes() != &r.matched[..] { bad.push(format!("matched {}", hex(gres.matched.as_bytes()))); }
            if gres.text.as_bytes() != &r.text[..] { bad.push(format!("text {}", hex(gres.text.as_bytes()))); }
            let want_refs: Vec<Vec<u8>> = r.refs.clone().unwrap_or_default();
            let got_refs: Vec<Vec<u8>> = gres.refs.iter().map(|u| u.as_bytes().to_vec()).collect();
            if got_refs != want_refs { bad.push(format!("refs {:?} != {:?}", got_refs, want_refs)); }
            let wantc = wire_ctls_text(&c.ctls);
            let gotc = ctrls_text_real(&gres.ctrls);
            if gotc != wantc { bad.push(format!("controls {} != {}", short(&gotc), short(&wantc))); }
            if let Some(x) = gexop {
                if x.name.as_ref().map(|s| s.as_bytes().to_vec()) != r.exop_name || x.val != r.exop_val || x.name != exop.name {
                    bad.push(format!("exop {:?}/{:?} != {:?}/{:?}", x.name, x.val, r.exop_name, r.exop_val));
                }
            }
            if *n_entries != 0 { bad.push(format!("{} entries out of nowhere", n_entries)); }
            out.stat("api.ok");
            out.r(&format!("results.api-returns-what-the-server-sent app={} {}", app, sh), bad.is_empty(), &bad.join("; "));
        }
        (None, Err(w)) if w == "decode" => {
            out.stat("api.decode-error");
            out.r(&format!("results.api-non-result-is-a-decoding-error app={} {}", app, sh), true, "");
        }
        (want, got) => {
            out.r(&format!("results.api-returns-what-the-server-sent app={} {}", app, sh), false,
                  &format!("conversion says {}; the operation returned {:?}", if want.is_some() { "a result" } else { "not an LDAPResult" }, got.as_ref().map(|g| g.0.rc)));
        }
    }
}

/// a tree that need not be a result: real conversion vs model, `From` panics iff `try_from_tag` is None
fn tree_case(out: &mut Out, label: &str, t: &StructureTag) {
    let ts = tlv(t);
    out.case(&ts, true);
    let got = real_ext(Tag::StructureTag(t.clone()));
    let txt = ext_text(&got);
    out.stat(&format!("{}.{}", label, txt.split(' ').next().unwrap_or("?")));
    out.m(&format!("res.ext {}", ts), &txt);
    out.m(&format!("res.from {}", ts), &from_text(t));
    // the fallible conversion itself never panics (the panic is `expect` in `From<Tag>`, on the caller's task)
    out.r(&format!("results.try-from-tag-no-panic {} {}", label, short(&ts)), got.is_ok(), "try_from_tag panicked");
}

fn st(rc: u32) -> LdapResult {
    LdapResult { rc, matched: String::from("cn=m"), text: String::from("diag"), refs: vec![String::from("ldap://r/")], ctrls: vec![] }
}

fn same(res: &LdapResult, rc: u32) -> bool {
    res.rc == rc && res.matched == "cn=m" && res.text == "diag" && res.refs.len() == 1 && res.ctrls.is_empty()
}

fn verdict<T>(r: &Result<T, LdapError>) -> &'static str {
    if r.is_ok() {
        "ok"
    } else {
        "err"
    }
}

/// Err must be `LdapError::LdapResult` carrying the same result
fn err_same<T>(r: &Result<T, LdapError>, rc: u32) -> bool {
    match r {
        Ok(_) => true,
        Err(LdapError::LdapResult { result }) => same(result, rc),
        Err(_) => false,
    }
}

fn helpers_case(out: &mut Out, rc: u32) {
    out.case(&format!("helpers {}", rc), true);
    let entry = || ResultEntry::new(prim(1, 4, vec![]));
    let exop = || Exop { name: Some(String::from("1.2.3")), val: Some(vec![7]) };
    let r = guarded(move || {
        let s = st(rc).success();
        let n = st(rc).non_error();
        let eq = CompareResult(st(rc)).equal();
        let cn = CompareResult(st(rc)).non_error();
        let ss = SearchResult(vec![entry(), entry()], st(rc)).success();
        let sn = SearchResult(vec![entry(), entry()], st(rc)).non_error();
        let es = ExopResult(exop(), st(rc)).success();
        let en = ExopResult(exop(), st(rc)).non_error();
        let text = format!(
            "success={} non_error={} equal={} cmp_non_error={} search={}/{} exop={}/{}",
            verdict(&s),
            verdict(&n),
            match &eq {
                Ok(true) => "true",
                Ok(false) => "false",
                Err(_) => "err",
            },
            verdict(&cn),
            verdict(&ss),
            verdict(&sn),
            verdict(&es),
            verdict(&en)
        );
        // payloads: Ok carries the value itself, Err the same result
        let mut payload_ok = err_same(&s, rc) && err_same(&n, rc) && err_same(&eq, rc) && err_same(&cn, rc) && err_same(&ss, rc) && err_same(&sn, rc) && err_same(&es, rc) && err_same(&en, rc);
        if let Ok(x) = &s {
            payload_ok &= same(x, rc);
        }
        if let Ok(x) = &n {
            payload_ok &= same(x, rc);
        }
        if let Ok(x) = &cn {
            payload_ok &= same(x, rc);
        }
        for x in [&ss, &sn] {
            if let Ok((es, res)) = x {
                payload_ok &= es.len() == 2 && same(res, rc);
            }
        }
        for x in [&es, &en] {
            if let Ok((e, res)) = x {
                payload_ok &= e.name.as_deref() == Some("1.2.3") && e.val == Some(vec![7]) && same(res, rc);
            }
        }
        (text, payload_ok)
    });
    let (text, payload_ok) = match r {
        Ok(x) => x,
        Err(_) => (String::from("panic"), false),
    };
    out.m(&format!("res.helpers {}", rc), &text);
    // documented sets (result.rs doc comments / RFC 4511 A.1): 0; 0 or 10; 5 -> false, 6 -> true; 5, 6 or 10
    let ok_err = |b: bool| if b { "ok" } else { "err" };
    let want = format!(
        "success={} non_error={} equal={} cmp_non_error={} search={}/{} exop={}/{}",
        ok_err(rc == 0),
        ok_err(rc == 0 || rc == 10),
        match rc {
            5 => "false",
            6 => "true",
            _ => "err",
        },
        ok_err(rc == 5 || rc == 6 || rc == 10),
        ok_err(rc == 0),
        ok_err(rc == 0 || rc == 10),
        ok_err(rc == 0),
        ok_err(rc == 0 || rc == 10)
    );
    out.r(&format!("results.helpers-documented-codes rc={}", rc), text == want, &format!("got {} want {}", text, want));
    out.r(&format!("results.helpers-payload-unchanged rc={}", rc), payload_ok, "Ok/Err payload differs from the input result");
}

pub fn run(thorough: bool, mut rng: Rng, mut out: Out) {
    // --- corpus -------------------------------------------------------------------------------
    // the driver's synthetic acknowledgement, and a typed tag that is not a result
    out.case("null", true);
    out.m("res.ext null", &ext_text(&real_ext(Tag::Null(Null::default()))));
    out.case("other", true);
    out.m("res.ext other", &ext_text(&real_ext(Tag::Integer(Integer::default()))));
    let s3 = |rc: Vec<u8>| vec![prim(0, 10, rc), prim(0, 4, b"cn=x".to_vec()), prim(0, 4, b"msg".to_vec())];
    let with = |extra: Vec<StructureTag>| {
        let mut k = s3(vec![0]);
        k.extend(extra);
        k
    };
    let corpus: Vec<(&str, StructureTag)> = vec![
        ("ok.minimal", cons(1, 7, s3(vec![0]))),
        ("ok.rc-two-octets", cons(1, 7, s3(vec![0x00, 0x80]))),
        ("rc.negative-ff", cons(1, 7, s3(vec![0xff]))),
        ("rc.negative-ff80", cons(1, 7, s3(vec![0xff, 0x80]))),
        ("rc.negative-4-octets", cons(1, 7, s3(vec![0xff, 0xff, 0xff, 0xfe]))),
        ("rc.5-octets", cons(1, 7, s3(vec![1, 0, 0, 0, 5]))),
        ("rc.9-octets", cons(1, 7, s3(vec![1, 2, 3, 4, 5, 6, 7, 8, 9]))),
        ("rc.empty", cons(1, 7, s3(vec![]))),
        ("bad.op-primitive", prim(1, 7, vec![])),
        ("bad.empty", cons(1, 7, vec![])),
        ("bad.one-element", cons(1, 7, vec![prim(0, 10, vec![0])])),
        ("bad.two-elements", cons(1, 7, vec![prim(0, 10, vec![0]), prim(0, 4, vec![])])),
        ("bad.rc-integer", cons(1, 7, vec![prim(0, 2, vec![0]), prim(0, 4, vec![]), prim(0, 4, vec![])])),
        ("bad.rc-context", cons(1, 7, vec![prim(2, 10, vec![0]), prim(0, 4, vec![]), prim(0, 4, vec![])])),
        ("bad.rc-constructed", cons(1, 7, vec![cons(0, 10, vec![]), prim(0, 4, vec![]), prim(0, 4, vec![])])),
        ("bad.matched-constructed", cons(1, 7, vec![prim(0, 10, vec![0]), cons(0, 4, vec![]), prim(0, 4, vec![])])),
        ("bad.text-constructed", cons(1, 7, vec![prim(0, 10, vec![0]), prim(0, 4, vec![]), cons(0, 4, vec![])])),
        ("bad.matched-not-utf8", cons(1, 7, vec![prim(0, 10, vec![0]), prim(0, 4, vec![0xff, 0xfe]), prim(0, 4, vec![])])),
        ("bad.text-not-utf8", cons(1, 7, vec![prim(0, 10, vec![0]), prim(0, 4, vec![]), prim(0, 4, vec![0xc3])])),
        ("odd.strings-any-class", cons(0, 16, vec![prim(0, 10, vec![0]), prim(3, 30, b"a".to_vec()), prim(1, 0, b"b".to_vec())])),
        ("bad.ref-primitive", cons(1, 7, with(vec![prim(2, 3, vec![])]))),
        ("bad.ref-uri-constructed", cons(1, 7, with(vec![cons(2, 3, vec![cons(0, 4, vec![])])]))),
        ("bad.ref-uri-not-utf8", cons(1, 7, with(vec![cons(2, 3, vec![prim(0, 4, b"ldap://a".to_vec()), prim(0, 4, vec![0xc0, 0x80])])]))),
        ("ok.ref-empty-list", cons(1, 7, with(vec![cons(2, 3, vec![])]))),
        ("odd.two-referrals", cons(1, 7, with(vec![cons(2, 3, vec![prim(0, 4, b"a".to_vec())]), cons(2, 3, vec![prim(0, 4, b"b".to_vec()), prim(0, 4, b"c".to_vec())])]))),
        ("odd.ref-universal-class", cons(1, 7, with(vec![cons(0, 3, vec![prim(0, 4, b"a".to_vec())])]))),
        ("bad.sasl-constructed", cons(1, 1, with(vec![cons(2, 7, vec![])]))),
        ("odd.sasl-twice", cons(1, 1, with(vec![prim(2, 7, vec![1]), prim(2, 7, vec![2])]))),
        ("odd.sasl-on-modify", cons(1, 7, with(vec![prim(2, 7, vec![1])]))),
        ("bad.exop-name-constructed", cons(1, 24, with(vec![cons(2, 10, vec![])]))),
        ("bad.exop-name-not-utf8", cons(1, 24, with(vec![prim(2, 10, vec![0x80])]))),
        ("bad.exop-value-constructed", cons(1, 24, with(vec![cons(2, 11, vec![])]))),
        ("odd.exop-value-twice", cons(1, 24, with(vec![prim(2, 11, vec![1]), prim(2, 10, b"1.2".to_vec()), prim(2, 11, vec![2])]))),
        ("odd.exop-universal-enum-as-name", cons(1, 24, with(vec![prim(0, 10, b"x".to_vec())]))),
        ("odd.unknown-components", cons(1, 7, with(vec![prim(2, 0, vec![1]), cons(2, 12, vec![]), prim(0, 4, vec![0xff])]))),
        ("odd.all", cons(1, 24, with(vec![cons(2, 3, vec![prim(0, 4, b"u".to_vec())]), prim(2, 7, vec![7]), prim(2, 10, b"1.3".to_vec()), prim(2, 11, vec![])]))),
    ];
    for (label, t) in &corpus {
        tree_case(&mut out, &format!("corpus.{}", label.split('.').next().unwrap_or("?")), t);
        // and through the decoder inside a message with a control
        let msg = envelope_wire(7, t.clone(), &Some(vec![WireCtl { oid: b"1.2.840.113556.1.4.319".to_vec(), crit: Some(1), val: None }]));
        let e = spec_enc(&msg, &mut rng, true);
        out.m(&format!("res.e2e {}", hex(&e)), &real_e2e(&e).text);
    }

    // --- helpers: all rc 0..=255 exhaustively, edges, random u32 -------------------------------
    for rc in 0..=255u32 {
        helpers_case(&mut out, rc);
    }
    for rc in [256u32, 261, 262, 266, 65536 + 5, 65536 + 10, 0x7fffffff, 0x80000000, 0x80000005, 0xffffffff, 0xfffffffa, 0x0100_0000, 0x0a00_0000] {
        helpers_case(&mut out, rc);
    }
    for _ in 0..(if thorough { 20000 } else { 1000 }) {
        let rc = match rng.below(3) {
            0 => rng.next() as u32,
            1 => (rng.next() as u32) & 0xffff,
            // low octet one of the documented codes, high bits random
            _ => ((rng.next() as u32) << 8) | *rng.pick(&[0u32, 5, 6, 10]),
        };
        helpers_case(&mut out, rc);
    }
    out.stat_n("helpers.codes", 256);

    // --- well-formed responses -----------------------------------------------------------------
    // every kind x every code 0..=122 once, then random
    for &app in RESULT_APPS {
        for rc in 0..=122u32 {
            let mut c = gen_case(&mut rng, app);
            c.r.rc = rc;
            c.rcc = gen_rc_octets(&mut rng, rc);
            valid_case(&mut out, &mut rng, &c, rc % 4 == 0);
        }
    }
    // the public operations themselves, on a scripted connection
    let napi = if thorough { 8000 } else { 400 };
    for i in 0..napi {
        let app = RESULT_APPS[i % RESULT_APPS.len()];
        let c = gen_case(&mut rng, app);
        api_case(&mut out, &mut rng, &c);
    }
    let n = if thorough { 400_000 } else { 9000 };
    for i in 0..n {
        let app = RESULT_APPS[i % RESULT_APPS.len()];
        let c = gen_case(&mut rng, app);
        // thorough: the Rust oracle sees every case, the model every 4th
        let emit = !thorough || i % 4 == 0;
        valid_case(&mut out, &mut rng, &c, emit);
    }

    // --- malformed / unusual results: every single-node mutation of valid ops ----------------
    let nbase = if thorough { 600 } else { 30 };
    for i in 0..nbase {
        let app = RESULT_APPS[i % RESULT_APPS.len()];
        let mut c = gen_case(&mut rng, app);
        // keep the mutation sets small: short strings
        c.r.matched.truncate(4);
        while std::str::from_utf8(&c.r.matched).is_err() {
            c.r.matched.pop();
        }
        c.r.text.truncate(6);
        while std::str::from_utf8(&c.r.text).is_err() {
            c.r.text.pop();
        }
        if i % 3 == 0 && c.r.refs.is_none() {
            c.r.refs = Some(vec![b"ldap://a/".to_vec(), b"ldap://b/".to_vec()]);
        }
        let op = resp_op_rcc(&c.r, &c.rcc);
        for (name, m) in tree_mutations(&op) {
            let label = format!("mut.{}", name.split('@').next().unwrap_or("?").trim_end_matches(char::is_numeric));
            tree_case(&mut out, &label, &m);
        }
        // tag numbers the component loop dispatches on, in every class, primitive and constructed
        for id in [3u64, 7, 10, 11] {
            for cl in 0..4u8 {
                let mut ks = match &op.payload {
                    lber::structure::PL::C(ks) => ks.clone(),
                    _ => vec![],
                };
                let extra = if rng.chance(1, 2) { prim(cl, id, utf8_string(&mut rng, 4)) } else { cons(cl, id, vec![prim(0, 4, utf8_string(&mut rng, 3))]) };
                let at = rng.range(3, ks.len() as u64) as usize;
                ks.insert(at, extra);
                tree_case(&mut out, "mut.insert-dispatch-number", &cons(1, app, ks));
            }
        }
        // non-UTF-8 bytes in each string position
        for pos in 1..=2usize {
            let mut ks = match &op.payload {
                lber::structure::PL::C(ks) => ks.clone(),
                _ => vec![],
            };
            let nb = rng.range(1, 4) as usize;
            let mut v = rng.bytes(nb);
            v[0] |= 0x80;
            ks[pos] = prim(0, 4, v);
            tree_case(&mut out, "mut.random-bytes-string", &cons(1, app, ks));
        }
    }
    // random small trees (almost never results)
    for _ in 0..(if thorough { 20000 } else { 500 }) {
        let t = crate::lanes::ber::gen_tree(&mut rng, 3, 4, false);
        tree_case(&mut out, "random-tree", &t);
    }
    // control lists ride along unchanged whatever the result looks like (presence of referrals etc.)
    let _: Option<Control> = None;
    out.finish("responses of all eight result-bearing kinds (bind, search done, modify, add, delete, modifyDN, compare, extended) generated as values: every code 0..=122 per kind, random codes below 2^31 and in 2^31..2^32, minimal and zero-padded resultCode octets, empty/short/multi-byte/300-byte matched DN and text, referral absent or 0..5 URIs, 0..4 controls (seven known OIDs and others; criticality absent/FALSE/ff/odd non-zero octet; value absent/empty/long), SASL creds / exop name / value combinations, random definite length forms at every level, random trailing bytes; helpers on all codes 0..=255 + edges + random u32; every single-node mutation of valid result trees, dispatch numbers in every class, non-UTF-8 strings, random trees; non-trivial = all; distinct by FNV of the canonical input");
}

//! Lane `leaks` (C13): histories that end quiescent; at the end the ID table and both routing
//! maps must be empty (oracle, read through the hooks), and the model must accept the whole trace
//! including every intermediate table / gauge observation.
use crate::lanes::routing::gen_script_ex;
use crate::lanes::timeouts::f15_script;
use crate::out::Out;
use crate::rng::Rng;
use crate::scen::*;

/// (applicable, clean, detail): applicable = the driver is alive and every operation the script
/// issued is complete from its caller's point of view (future resolved; stream finished)
pub fn quiescent_clean(trace: &[String]) -> (bool, String) {
    let last_maps = trace.iter().rev().find(|t| t.starts_with("drv maps")).cloned().unwrap_or_else(|| String::from("drv maps r=[] s=[]"));
    let tbl = trace.iter().rev().find(|t| t.starts_with("tbl")).cloned().unwrap_or_default();
    let ended = trace.iter().any(|t| t.starts_with("drv result"));
    let mut issued = 0usize;
    let mut done = std::collections::HashSet::new();
    let mut started_streams = std::collections::HashSet::new();
    let mut finished = std::collections::HashSet::new();
    let mut kinds: Vec<String> = vec![];
    for t in trace {
        let w: Vec<&str> = t.split(' ').collect();
        match (w[0], w.get(1).copied().unwrap_or("")) {
            ("cli", "issue") => {
                issued += 1;
                kinds.push(w[3].to_string());
            }
            ("cli", "done") => {
                done.insert(w[2].to_string());
                let i: usize = w[2].parse().unwrap_or(0);
                if kinds.get(i).map(|k| k == "search").unwrap_or(false) && w[3] == "ack" {
                    started_streams.insert(w[2].to_string());
                }
            }
            ("cli", "finished") => {
                finished.insert(w[2].to_string());
            }
            // a caller that gave up waiting (future dropped) is complete from its own point of view
            ("cli", "cancelled") => {
                done.insert(w[2].to_string());
                finished.insert(w[2].to_string());
            }
            _ => {}
        }
    }
    let complete = done.len() == issued && started_streams.iter().all(|s| finished.contains(s)) && !kinds.iter().any(|k| k == "unbind");
    if !complete {
        return (true, String::from("not applicable"));
    }
    if ended {
        // the driver is gone and its maps with it; what is left is the ID table shared by the handles:
        // every operation has failed or completed, so no ID may remain reserved (F22)
        return (tbl.ends_with("[]"), format!("ended | {}", tbl));
    }
    (last_maps.replace(", ", ",") == "drv maps r=[] s=[]" && tbl.ends_with("[]"), format!("{} | {}", last_maps, tbl))
}

pub fn run(thorough: bool, mut rng: Rng, mut out: Out) {
    // corpus: the F8 / F9 / F15 witnesses
    let corpus: Vec<(&str, Vec<Step>)> = vec![
        ("F8 search read to the end", vec![
            Step::Issue { kind: OpKind::Search, tmo_ms: None }, Step::Settle,
            Step::Send { id: 1, op: 4, good: false }, Step::Send { id: 1, op: 5, good: true }, Step::Settle,
            Step::Next(0), Step::Settle, Step::Next(0), Step::Settle, Step::Finish(0), Step::Settle, Step::Table]),
        ("F9 abandon of an in-flight operation", vec![
            Step::Issue { kind: OpKind::Single, tmo_ms: None }, Step::Settle,
            Step::Issue { kind: OpKind::Abandon(1), tmo_ms: None }, Step::Settle, Step::Table]),
        ("F15 scrub overtakes its request", f15_script()),
        ("F24 an operation issued through the stream's own handle must not redirect the stream's scrub", vec![
            Step::Issue { kind: OpKind::Search, tmo_ms: None }, Step::Settle,                 // op 0, id 1
            Step::Send { id: 1, op: 4, good: false }, Step::Settle, Step::Next(0), Step::Settle,
            Step::Via(0), Step::Settle,                                                        // op 1, id 2, via stream.ldap_handle()
            Step::Send { id: 2, op: 11, good: true }, Step::Settle,
            Step::Finish(0), Step::Settle, Step::Table]),                                      // finished early: scrub of id 1
        ("F24 ... and a time-out of next() scrubs the search's own ID", vec![
            Step::Issue { kind: OpKind::Search, tmo_ms: Some(5) }, Step::Settle,
            Step::Via(0), Step::Settle, Step::Send { id: 2, op: 11, good: true }, Step::Settle,
            Step::Next(0), Step::Tick(6), Step::Settle, Step::Finish(0), Step::Settle, Step::Table]),
        ("F22 operations that fail with the connection, and after it, leave their IDs reserved", vec![
            Step::Issue { kind: OpKind::Single, tmo_ms: None }, Step::Settle, Step::Close, Step::Settle,
            Step::Issue { kind: OpKind::Single, tmo_ms: None }, Step::Settle,
            Step::Issue { kind: OpKind::Search, tmo_ms: None }, Step::Settle,
            Step::Issue { kind: OpKind::Single, tmo_ms: Some(5) }, Step::Settle, Step::Table]),
    ];
    for (name, sc) in corpus {
        for rep in 0..if name.starts_with("F15") { 30 } else { 1 } {
            let o = run_script(&sc);
            let ev = to_model_events(&o.trace);
            out.case(&format!("{} #{}", ev, rep), true);
            out.m(&format!("conn.trace {}", ev), "accept");
            let (clean, d) = quiescent_clean(&o.trace);
            out.r(&format!("leaks.corpus {}", name), clean, &format!("{} | {}", d, ev));
        }
    }
    // Abandon (C13, last sentence), not vacuous: the caller still waiting on the abandoned operation is RELEASED
    // with an error (a single operation's future; a stream's pending or next `next()`, after the items that
    // had already been routed to it), the AbandonRequest on the wire names the given ID, and that ID is free.
    let nab = if thorough { 300 } else { 30 };
    for k in 0..nab {
        let search = k % 3 != 0;
        let queued = if search { rng.below(3) as usize } else { 0 };
        let waiting = rng.chance(1, 2); // a next() is already pending when the Abandon is issued
        let mut sc = vec![Step::Issue { kind: if search { OpKind::Search } else { OpKind::Single }, tmo_ms: if rng.chance(1, 4) { Some(60_000) } else { None } }, Step::Settle];
        let bystander = rng.chance(1, 2);
        if bystander {
            sc.push(Step::Issue { kind: OpKind::Single, tmo_ms: None }); // id 2: must not be disturbed
            sc.push(Step::Settle);
        }
        for _ in 0..queued {
            sc.push(Step::Send { id: 1, op: 4, good: false });
        }
        sc.push(Step::Settle);
        if search && waiting && queued == 0 {
            sc.push(Step::Next(0));
            sc.push(Step::Settle);
        }
        sc.push(Step::Issue { kind: OpKind::Abandon(1), tmo_ms: None });
        sc.push(Step::Settle);
        sc.push(Step::Table);
        if search {
            for _ in 0..queued + 1 {
                sc.push(Step::Next(0));
                sc.push(Step::Settle);
            }
        }
        if bystander {
            sc.push(Step::Send { id: 2, op: 11, good: true });
            sc.push(Step::Settle);
        }
        // a late answer under the abandoned ID is nobody's
        sc.push(Step::Send { id: 1, op: if search { 5 } else { 11 }, good: true });
        sc.push(Step::Settle);
        let o = run_script(&sc);
        let ev = to_model_events(&o.trace);
        let label = format!("abandon#{} {} queued={} waiting={} bystander={}", k, if search { "search" } else { "single" }, queued, waiting, bystander);
        out.case(&format!("{} {}", label, ev), true);
        out.stat("abandon.scenarios");
        out.m(&format!("conn.trace {}", ev), "accept");
        let has = |p: &str| o.trace.iter().any(|t| t == p || t.starts_with(p));
        let released = if search {
            let items = o.trace.iter().filter(|t| t.starts_with("cli next 0 ") && t.contains("item:entry:")).count();
            items == queued && o.trace.iter().any(|t| t.starts_with("cli next 0 ") && t.ends_with(" closed"))
        } else {
            has("cli done 0 recverr")
        };
        out.r(&format!("leaks.abandon-releases-the-waiting-caller-with-an-error {}", label), released && o.watchdog_stuck.is_empty(), &ev);
        // the wire: an AbandonRequest `[APPLICATION 16] 01` (primitive, value = the ID) under the Abandon's own message ID
        let w = o.net.take_written();
        let named = w.windows(3).any(|x| x == [0x50, 0x01, 0x01]);
        out.r(&format!("leaks.abandon-request-names-the-id {}", label), named, &crate::fmtx::hex(&w));
        let tbl = o.trace.iter().find(|t| t.starts_with("tbl ")).cloned().unwrap_or_default();
        let free = !tbl.trim_end_matches(']').split(|c| c == '[' || c == ',').skip(1).any(|x| x == "1");
        out.r(&format!("leaks.abandoned-id-is-free {}", label), free, &tbl);
        if bystander {
            out.r(&format!("leaks.abandon-leaves-the-others-alone {}", label), o.trace.iter().any(|t| t.starts_with("cli done 1 frame:")), &ev);
        }
    }
    // A caller that stops waiting WITHOUT the library's own time-out (the operation's future is dropped by an
    // outer timeout / select! / task abort) while the request is on its way or already answered: once the
    // server's answer has come in, nothing of the operation may be left — ID table and both maps empty.
    let ncancel = if thorough { 600 } else { 60 };
    for k in 0..ncancel {
        let search = k % 4 == 3;
        let settle_first = k % 2 == 0;       // the request was written before the caller gave up / still queued
        let bystander = rng.chance(1, 2);
        let rounds = 1 + rng.below(3) as usize;
        let mut sc = vec![];
        let mut id = 0i64;
        let mut opno = 0usize;
        for _ in 0..rounds {
            sc.push(Step::Issue { kind: if search { OpKind::Search } else { OpKind::Single }, tmo_ms: None });
            id += 1;
            let (cid, cop) = (id, opno);
            opno += 1;
            if settle_first {
                sc.push(Step::Settle);
            }
            sc.push(Step::CancelOp(cop));
            sc.push(Step::Settle);
            if bystander {
                sc.push(Step::Issue { kind: OpKind::Single, tmo_ms: None });
                id += 1;
                opno += 1;
                sc.push(Step::Settle);
                sc.push(Step::Send { id, op: 11, good: true });
                sc.push(Step::Settle);
            }
            // the late answer(s) to the operation nobody waits for any more
            if search {
                sc.push(Step::Send { id: cid, op: 4, good: false });
                sc.push(Step::Send { id: cid, op: 5, good: true });
            } else {
                sc.push(Step::Send { id: cid, op: 11, good: true });
            }
            sc.push(Step::Settle);
        }
        sc.push(Step::Table);
        let o = run_script(&sc);
        let ev = to_model_events(&o.trace);
        let label = format!("cancel#{} {} written-first={} bystander={} rounds={}", k, if search { "search" } else { "single" }, settle_first, bystander, rounds);
        out.case(&format!("{} {}", label, ev), true);
        out.stat("cancel.scenarios");
        if !search {
            // (a cancelled search start leaves a channel whose receiver is gone: the model has no event for that)
            out.m(&format!("conn.trace {}", ev), "accept");
        }
        let (clean, d) = quiescent_clean(&o.trace);
        out.stat(if d == "not applicable" { "cancel.not-quiescent" } else { "cancel.quiescent" });
        out.r(&format!("leaks.cancelled-caller-leaves-nothing-behind {}", label), clean && d != "not applicable", &format!("{} | {}", d, ev));
        if bystander {
            let all = (0..opno).filter(|i| o.trace.iter().any(|t| t.starts_with(&format!("cli done {} frame:", i)))).count();
            out.r(&format!("leaks.cancel-leaves-the-others-alone {}", label), all == rounds, &ev);
        }
    }
    let n = if thorough { 80000 } else { 2000 };
    for k in 0..n {
        let n_ops = rng.range(3, if thorough { 40 } else { 14 }) as usize;
        let script = gen_script_ex(&mut rng, n_ops, false, k % 2 == 0, true, k % 4 == 1);
        let o = run_script(&script);
        let ev = to_model_events(&o.trace);
        out.case(&ev, true);
        out.stat_n("events", o.trace.len() as u64);
        out.stat(&format!("ops~{}", (n_ops / 5) * 5));
        out.m(&format!("conn.trace {}", ev), "accept");
        let (clean, d) = quiescent_clean(&o.trace);
        out.stat(if d == "not applicable" { "quiescent.no" } else { "quiescent.yes" });
        out.r(&format!("leaks.quiescent-state-empty script#{}", k), clean, &format!("{} | {}", d, ev));
    }
    // soak: many operations on one connection, table size stays O(outstanding)
    let soak = if thorough { 100000 } else { 2000 };
    let mut steps = vec![];
    for i in 0..soak {
        let id = i as i64 + 1;
        match i % 3 {
            0 => {
                steps.push(Step::Issue { kind: OpKind::Single, tmo_ms: None });
                steps.push(Step::Send { id, op: 11, good: true });
            }
            1 => {
                steps.push(Step::Issue { kind: OpKind::Search, tmo_ms: None });
                steps.push(Step::Send { id, op: 4, good: false });
                steps.push(Step::Send { id, op: 5, good: true });
                steps.push(Step::Settle);
                steps.push(Step::Next(i));
                steps.push(Step::Next(i));
                steps.push(Step::Finish(i));
            }
            _ => {
                steps.push(Step::Issue { kind: OpKind::Single, tmo_ms: Some(1) });
                steps.push(Step::Tick(2));
            }
        }
        steps.push(Step::Settle);
    }
    steps.push(Step::Table);
    let o = run_script(&steps);
    let (clean, d) = quiescent_clean(&o.trace);
    out.case(&format!("soak {}", soak), true);
    out.r(&format!("leaks.soak {} operations, table empty at the end", soak), clean, &d);
    out.finish("histories of 3..14 (40 thorough) operations of every kind (single, search read to the end or finished early, abandon of finished/in-flight/unknown IDs, timeouts, unsolicited frames, stalled writes) that are drained to quiescence; non-trivial = all; distinct by FNV of the event trace");
}

"""Per-property configuration of ./check: one JSON file per claimed property in cfg/."""
import json, os
_D = os.path.join(os.path.dirname(os.path.abspath(__file__)), "cfg")
PROPS = {}
for _f in sorted(os.listdir(_D)):
    if _f.endswith(".json") and _f[0] == "C":
        PROPS[_f[:-5]] = json.load(open(os.path.join(_D, _f)))
PENDING = {}
_p = os.path.join(_D, "pending.json")
if os.path.exists(_p):
    PENDING = json.load(open(_p))

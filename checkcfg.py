"""Per-property configuration of ./check."""
COMMON_TRUST = [
    "Lean compiler/runtime for the line driver (same definitions the theorems are about)",
    "correspondence harness (generators, canonicalisation, diff) in /verif/harness",
]
PROPS = {
    "C07": dict(
        props_module="Ldap3V.Props.C07",
        claim="Theorems (all trees, all suffixes, all i64, all definite-length forms; no size or depth bound other than lber's MAX_DEPTH=64) over Model.Ber, kernel-checked; model tied to lber by ~85k differential lines per quick run plus Rust-side round-trip/minimality oracles on the real encoder/parser.",
        lanes=["ber"],
        trusted=COMMON_TRUST + ["nom 7 streaming take/bits/be_u8 semantics (modelled)", "i64::to_be_bytes"],
        assumptions=["tag numbers <= 30 (property scope)", "nesting depth <= lber MAX_DEPTH = 64 (deeper input is rejected; introduced by the C11 fix)",
                     "lengths < 2^64 (usize)"],
    ),
}

PENDING = {}

#!/usr/bin/env python3
"""Regenerate MANIFEST.json from checkcfg.py (claimed properties) and properties.jsonl."""
import json, os, sys
ROOT = os.path.dirname(os.path.dirname(os.path.abspath(__file__)))
sys.path.insert(0, ROOT)
from checkcfg import PROPS, PENDING
ids = [json.loads(l)["id"] for l in open(os.path.join(ROOT, "properties.jsonl"))]
hooks_commits = os.popen("git -C /repo log --format=%h --grep='^verif hooks'").read().split()
man = {
    "version": 1,
    "setup_cmd": "./check --setup",
    "hooks": {
        "guard": "ldap3_verif",
        "enable": "RUSTFLAGS='--cfg ldap3_verif' (set in /verif/harness/.cargo/config.toml; the harness crate depends on /repo by path, so every check rebuilds the current working tree with hooks on)",
        "baseline_off_cmd": "cd /repo && cargo test --workspace --no-fail-fast --offline",
        "source_commits": hooks_commits,
        "add_only": True,
    },
    "engines": [
        {"name": "lean-model", "path": "lean/", "serves_properties": sorted(PROPS), "kind_free_text": "hand-written executable Lean 4 model + spec + property theorems (lake lib Ldap3V) and a compiled line-protocol driver"},
        {"name": "harness", "path": "harness/", "serves_properties": sorted(PROPS), "kind_free_text": "Rust crate with a path dependency on /repo (--cfg ldap3_verif): runs the real code on generated inputs/scripts, prints canonical observations; property oracles"},
        {"name": "translators", "path": "translate/", "serves_properties": ["C01", "C02", "C03", "C08", "C09", "C10", "C14", "C19"], "kind_free_text": "regenerate parts of the Lean model from /repo's current source on every run (sync delegation table, OIDs, byte predicates / result-code helpers / Unescaper::feed, the nesting-guard loop, request builders' APPLICATION tags, the driver's search-response classification, the roles of a result's optional components); the theorems over the regenerated definitions are re-checked; a construct outside a translator's fragment fails closed"},
        {"name": "check", "path": "check", "serves_properties": sorted(PROPS), "kind_free_text": "decision procedure: lake build + axiom audit + correspondence diff + oracle; writes evidence and replays"},
    ],
    "checks": [],
    "not_applicable": [],
    "notes": "Technique family: machine-checked proof in Lean 4 over a hand-written model, tied to the code by a correspondence check on every run (DESIGN.md). Genuine defects repaired by fix: commits are listed in known_findings.json.",
}
for pid in ids:
    if pid in PROPS:
        c = PROPS[pid]
        man["checks"].append({
            "property_id": pid,
            "quick_cmd": f"./check {pid} quick",
            "thorough_cmd": f"./check {pid} thorough",
            "evidence_file": f"/verif/evidence/{pid}.json",
            "replay_cmd_template": f"./check {pid} --replay {{path}}",
            "engine": "lean-model+harness",
            "level_claimed": {"category": c.get("level", "proof"), "text": c["claim"], "design_ref": c.get("design_ref", "DESIGN.md section 7 / " + pid)},
            "level_note": "; ".join(c.get("trusted", []) + ["assumes: " + a for a in c.get("assumptions", [])]),
            "technique": c.get("technique", "Lean 4 theorems over a hand-written model + differential correspondence check against the real code"),
        })
    else:
        man["not_applicable"].append({"property_id": pid, "reason": PENDING.get(pid, "check not built yet in this session; no claim is made")})
json.dump(man, open(os.path.join(ROOT, "MANIFEST.json"), "w"), indent=1)
print("claimed:", len(man["checks"]), "not claimed:", len(man["not_applicable"]))
# validate against the schema (jsonschema lives in the tooling venv)
import subprocess
v = subprocess.run(["python3-vt", "-c", "import json,jsonschema;jsonschema.validate(json.load(open('/verif/MANIFEST.json')),json.load(open('/root/.vp/MANIFEST.schema.json')));print('MANIFEST.json validates')"], capture_output=True, text=True)
print((v.stdout or v.stderr).strip().splitlines()[-1] if (v.stdout or v.stderr).strip() else "validation not run")
if v.returncode != 0:
    sys.exit(1)
# sanity: the committed evidence must be a record of the unchanged tree
import glob
bad = []
for f in sorted(glob.glob(os.path.join(ROOT, "evidence", "C*.json"))):
    d = json.load(open(f))
    c = d.get("coverage", {})
    if c.get("obligations") != c.get("discharged") or d.get("violations"):
        bad.append(os.path.basename(f))
dirty = subprocess.run(["git", "-C", "/repo", "status", "--porcelain", "--untracked-files=no"], capture_output=True, text=True).stdout.strip()
if bad:
    print("WARNING: evidence files written by a failing run (re-run the check on the unchanged tree before committing):", bad)
if dirty:
    print("WARNING: /repo has uncommitted changes to tracked files")

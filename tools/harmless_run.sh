#!/bin/bash
# usage: [PROPS="C01 C04"] tools/harmless_run.sh <dir with *.diff>   — apply each behaviour-preserving patch to /repo, run ALL quick checks (or those of $PROPS), undo
dir="$1"
cd /verif
for f in "$dir"/*.diff; do
  git -C /repo diff --quiet || { echo "/repo dirty"; exit 2; }
  git -C /repo apply "$f" || { echo "$(basename $f): does not apply"; continue; }
  echo "##### $(basename $f)"
  for i in ${PROPS:-C01 C02 C03 C04 C05 C06 C07 C08 C09 C10 C11 C12 C13 C14 C15 C16 C17 C18 C19 C20}; do
    ./check $i quick 2>&1 | grep -E "quick:" | grep -v "quick: ok" | cut -c1-200
  done
  git -C /repo checkout -- .
done
git -C /verif checkout -- evidence 2>/dev/null
echo done

#!/bin/bash
# usage: tools/harmless_run.sh <dir with *.diff>   — apply each behaviour-preserving patch to /repo, run ALL quick checks, undo
dir="$1"
cd /verif
for f in "$dir"/*.diff; do
  git -C /repo diff --quiet || { echo "/repo dirty"; exit 2; }
  git -C /repo apply "$f" || { echo "$(basename $f): does not apply"; continue; }
  echo "##### $(basename $f)"
  for i in 01 02 03 04 05 06 07 08 09 10 11 12 13 14 15 16 17 18 19 20; do
    ./check C$i quick 2>&1 | grep -E "quick:" | grep -v "quick: ok" | cut -c1-200
  done
  git -C /repo checkout -- .
done
git -C /verif checkout -- evidence 2>/dev/null
echo done

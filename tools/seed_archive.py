#!/usr/bin/env python3
"""usage: seed_archive.py <seed worktree> <name> <detected-by json>  — copy patch/demo/meta into /verif/seeded/<name>/"""
import json, os, shutil, sys
src, name, det = sys.argv[1], sys.argv[2], json.loads(sys.argv[3])
dst = os.path.join('/verif/seeded', name)
os.makedirs(dst, exist_ok=True)
for f in os.listdir(os.path.join(src, 'seed')):
    shutil.copy(os.path.join(src, 'seed', f), os.path.join(dst, f))
meta = json.load(open(os.path.join(dst, 'meta.json')))
meta['confirmed_by_me'] = ["tools/seed_confirm.sh: unchanged suite passes with the patch (38 unit + 7 doc tests); demo fails with the patch and passes without it"]
meta['checks_run'] = det
json.dump(meta, open(os.path.join(dst, 'meta.json'), 'w'), indent=1)
print('archived', dst, sorted(os.listdir(dst)))

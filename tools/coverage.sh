#!/bin/bash
# usage: tools/coverage.sh [quick|thorough]  — which lines of /repo's sources do the lanes execute?
# Builds the harness with source-based coverage instrumentation (nightly toolchain: llvm-tools), runs every lane
# once, and prints per-file line coverage of /repo/src and /repo/lber/src plus the uncovered line ranges.
# A support tool for finding glue no lane drives (DESIGN 12.9); it decides nothing and no check depends on it.
set -u
tier="${1:-quick}"
T=$(mktemp -d /tmp/ldap3cov.XXXX); trap 'rm -rf "$T"' EXIT
BIN=/root/.rustup/toolchains/nightly-x86_64-unknown-linux-gnu/lib/rustlib/x86_64-unknown-linux-gnu/bin
cd /verif/harness || exit 2
[ -f Cargo.lock ] || cp /repo/Cargo.lock .
LLVM_PROFILE_FILE="$T/build/b-%p-%m.profraw" RUSTFLAGS="--cfg ldap3_verif -C instrument-coverage" CARGO_TARGET_DIR="$T/target" CARGO_NET_OFFLINE=true \
  cargo +nightly build --release --offline 2>&1 | tail -2
H="$T/target/release/ldap3-verif-harness"
[ -x "$H" ] || { echo "build failed"; exit 2; }
cd /verif
for lane in $(sed -n 's/^ *"\([a-z]*\)" *=> .*/\1/p' harness/src/lanes/mod.rs); do
  LLVM_PROFILE_FILE="$T/prof/$lane-%p.profraw" timeout 1800 "$H" "$lane" "$tier" 1 "$T/$lane.out" >/dev/null 2>&1
  echo "lane $lane rc=$?"
done
"$BIN/llvm-profdata" merge -sparse "$T"/prof/*.profraw -o "$T/all.profdata" || exit 2
"$BIN/llvm-cov" report "$H" -instr-profile="$T/all.profdata" $(ls /repo/src/*.rs /repo/src/*/*.rs /repo/lber/src/*.rs /repo/lber/src/*/*.rs) 2>/dev/null | cut -c1-200
echo "=== uncovered lines (file:line) ==="
"$BIN/llvm-cov" show "$H" -instr-profile="$T/all.profdata" $(ls /repo/src/*.rs /repo/src/*/*.rs /repo/lber/src/*.rs /repo/lber/src/*/*.rs) 2>/dev/null \
  | awk '/^\/repo\//{f=$0; sub(/:$/,"",f)} /^ +[0-9]+\| +0\|/{split($0,a,"|"); gsub(/ /,"",a[1]); print f":"a[1]": "a[3]}' | grep -v "^$" > /verif/.cache/uncovered.txt
wc -l /verif/.cache/uncovered.txt

#!/bin/bash
# usage: tools/seed_apply_check.sh <patch.diff> <prop> [<prop> ...]   — applies the patch to /repo, runs the quick checks, undoes it
set -u
patch="$1"; shift
git -C /repo diff --quiet || { echo "/repo dirty"; exit 2; }
git -C /repo apply "$patch" || { echo "patch does not apply"; exit 2; }
for p in "$@"; do
  ./check "$p" quick 2>&1 | grep -E "VIOLATION|KNOWN-FINDING|quick:" | cut -c1-260
done
git -C /repo checkout -- .
git -C /repo status --short | head -3
git -C /verif checkout -- evidence 2>/dev/null   # the evidence of a seeded run is not a record of the unchanged tree

#!/bin/bash
# usage: seed_confirm.sh <seed worktree>   — confirm: suite passes with patch; demo fails with patch, passes without
d="$1"; cd "$d" || exit 2
flags=""
grep -q "verif_" seed/demo.rs && flags="--cfg ldap3_verif"
[ -f seed/demo-setup.diff ] && git apply seed/demo-setup.diff 2>/dev/null
git diff --quiet -- src lber/src && git apply seed/patch.diff
echo "== suite with patch"; cargo test --workspace --offline 2>&1 | grep -E "^test result|FAILED|error\[" | head -5
mkdir -p tests; cp seed/demo.rs tests/seed_demo.rs
echo "== demo WITH patch (expect failure)"; RUSTFLAGS="$flags" timeout 600 cargo test --offline --test seed_demo 2>&1 | grep -E "^test result|panicked|FAILED|error" | head -5
git apply -R seed/patch.diff
echo "== demo WITHOUT patch (expect ok)"; RUSTFLAGS="$flags" timeout 600 cargo test --offline --test seed_demo 2>&1 | grep -E "^test result|panicked|FAILED|error" | head -5
rm -f tests/seed_demo.rs; rmdir tests 2>/dev/null
git apply seed/patch.diff

#!/bin/bash
# usage: tools/seed_free.sh <worktree with seed1..seedN>  — confirm each seed and run ALL quick checks on it
wt="$1"
for sd in "$wt"/seed*/; do
  k=$(basename "$sd")
  echo "########## $k: $(python3 -c "import json;m=json.load(open('$sd/meta.json'));print(m.get('property'),'|',m.get('summary','')[:160])")"
  ( cd "$wt" && git checkout -q -- . && rm -rf tests
    flags=""; grep -q "verif_" "$sd/demo.rs" && flags="--cfg ldap3_verif"
    git apply "$sd/patch.diff" || { echo "patch does not apply"; exit 0; }
    echo "== suite with patch"; cargo test --workspace --offline 2>&1 | grep -E "^test result|FAILED|error\[" | head -4
    mkdir -p tests; cp "$sd/demo.rs" tests/seed_demo.rs
    echo "== demo WITH patch (expect failure)"; RUSTFLAGS="$flags" timeout 900 cargo test --offline --test seed_demo 2>&1 | grep -E "^test result|FAILED|error(\[|:)" | head -4
    git apply -R "$sd/patch.diff"
    echo "== demo WITHOUT patch (expect ok)"; RUSTFLAGS="$flags" timeout 900 cargo test --offline --test seed_demo 2>&1 | grep -E "^test result|FAILED|error(\[|:)" | head -4
    rm -rf tests; git checkout -q -- . )
  cd /verif
  git -C /repo diff --quiet || { echo "/repo dirty"; exit 2; }
  git -C /repo apply "$sd/patch.diff" || { echo "patch does not apply to /repo"; continue; }
  for i in 01 02 03 04 05 06 07 08 09 10 11 12 13 14 15 16 17 18 19 20; do
    ./check C$i quick 2>&1 | grep -E "^VIOLATION|quick:" | grep -v "quick: ok" | cut -c1-200
  done
  git -C /repo checkout -- .
done
git -C /verif checkout -- evidence 2>/dev/null
echo done

#!/bin/bash
# usage: tools/seed_regress.sh [Cnn ...]  — apply every archived seed (or those of the named properties) to /repo, run the quick check of the property it violates, report the ones NOT caught
cd /verif
for d in seeded/C*/; do
  name=$(basename $d)
  if [ $# -gt 0 ]; then case " $* " in *" ${name:0:3} "*) ;; *) continue ;; esac; fi
  prop=${name:0:3}
  git -C /repo diff --quiet || { echo "/repo dirty"; exit 2; }
  pf="/verif/$d/patch.diff"
  # a later fix: commit may have moved the lines; a rebased copy of the same change takes precedence
  for r in /verif/$d/patch-rebased-on-*.diff; do [ -f "$r" ] && pf="$r"; done
  if ! git -C /repo apply "$pf" 2>/dev/null; then echo "$name: patch does not apply (code moved on)"; continue; fi
  line=$(./check $prop quick 2>&1 | grep -E "quick:" | cut -c1-120)
  git -C /repo checkout -- .
  case "$line" in
    *VIOLATION*) echo "caught  $name  ($line)" ;;
    *) echo "MISSED  $name  ($line)" ;;
  esac
done
git -C /verif checkout -- evidence 2>/dev/null
echo done

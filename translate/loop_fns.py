#!/usr/bin/env python3
"""loop_fns.py: byte-scanning loops of /repo -> lean/Ldap3V/Gen/LoopFns.lean (regenerated on every run).

Way (a) of the tie, widened from the loop-free fragment of pure_fns.py to ONE loop shape: a function

    fn NAME(input: &[u8]) -> bool {
        let mut ACC = <usize literal>;
        for &C in input { STMTS }
        <bool literal>
    }

whose body STMTS is built from `match C { pat => arm, … }` (literal / or / range / `_` patterns; an arm is
a block of statements, a single statement-expression, or `()`), `if cond { STMTS } [else { STMTS }]`,
`ACC += e;`, `ACC -= e;`, `ACC = e;`, `return <bool literal>;` — expressions over ACC, C, unsigned literals,
byte literals, named `const … : usize` of the same file, `+ - == != < <= > >=`, `&& || !`, and
`ACC.saturating_sub(e)`.  It is emitted as a step function in the `Option` monad returning
`Rust.Loop.next acc'` or `Rust.Loop.ret b`, folded over the input by `Rust.forBytes` (Gen/RustPrelude.lean).

Arithmetic on the `usize` accumulator: `+` is unbounded (the counter is bounded by the length of the input,
which is below 2^63: no overflow is reachable), `-` is CHECKED (`none` = the "attempt to subtract with
overflow" panic), `saturating_sub` is Lean's truncated subtraction on `Nat`.

Anything outside the fragment makes the translator fail closed (exit 1, `unsupported: …`) for the
properties whose cfg lists it.  Lemmas/GenLoop.lean proves the generated function equal to the hand-written
model function (`Filter.nestingWithinLimit`) for ALL inputs, by a step lemma that does not depend on how the
cases are arranged in the generated term (split everything, then linear arithmetic)."""
import os, re, sys
sys.path.insert(0, os.path.dirname(os.path.abspath(__file__)))
from pure_fns import Unsupported, tokenize, find_fn, byte_value, num_value, REPO, ROOT

OUT = os.path.join(ROOT, "lean", "Ldap3V", "Gen", "LoopFns.lean")


class S:
    """statement / expression parser over pure_fns' tokens"""
    def __init__(self, toks, acc, cvar, consts):
        self.t, self.i, self.acc, self.c, self.consts = toks, 0, acc, cvar, consts

    def peek(self, k=0):
        return self.t[self.i + k] if self.i + k < len(self.t) else ("eof", "")

    def at(self, v):
        return self.peek()[1] == v and self.peek()[0] != "eof"

    def eat(self, v=None):
        k, x = self.peek()
        if k == "eof" or (v is not None and x != v):
            raise Unsupported("expected %r, found %r" % (v, x))
        self.i += 1
        return k, x

    # ---- expressions: ("nat"|"u8"|"bool", lean text)
    PREC = [("||",), ("&&",), ("==", "!=", "<", "<=", ">", ">="), ("+", "-")]

    def expr(self, lvl=0):
        if lvl == len(self.PREC):
            return self.unary()
        l = self.expr(lvl + 1)
        while self.peek()[1] in self.PREC[lvl] and self.peek()[0] == "op":
            op = self.eat()[1]
            r = self.expr(lvl + 1)
            l = self.binop(op, l, r)
        return l

    def binop(self, op, l, r):
        (lt, la), (rt, ra) = l, r
        if op in ("||", "&&"):
            if lt != "bool" or rt != "bool": raise Unsupported("operands of " + op)
            return ("bool", "(%s %s %s)" % (la, op, ra))
        if lt != rt or lt == "bool" and op not in ("==", "!="):
            raise Unsupported("operand types of %s: %s, %s" % (op, lt, rt))
        if op in ("==", "!="):
            return ("bool", "(%s %s %s)" % (la, op, ra))
        if op in ("<", "<=", ">", ">="):
            return ("bool", "(decide (%s %s %s))" % (la, op, ra))
        if lt != "nat":
            raise Unsupported("arithmetic on " + lt)
        if op == "+":
            return ("nat", "(%s + %s)" % (la, ra))
        raise Unsupported("unchecked position of `-`")           # `-` only as a statement (checked there)

    def unary(self):
        if self.at("!"):
            self.eat()
            t, a = self.unary()
            if t != "bool": raise Unsupported("! on " + t)
            return ("bool", "(!%s)" % a)
        return self.postfix()

    def postfix(self):
        e = self.primary()
        while self.at("."):
            self.eat(".")
            k, m = self.eat()
            if m != "saturating_sub" or e[0] != "nat":
                raise Unsupported("method ." + m)
            self.eat("(")
            t, a = self.expr()
            self.eat(")")
            if t != "nat": raise Unsupported("argument of saturating_sub")
            e = ("nat", "(%s - %s)" % (e[1], a))                # truncated subtraction on Nat
        return e

    def primary(self):
        k, v = self.peek()
        if v == "(":
            self.eat("(")
            e = self.expr()
            self.eat(")")
            return e
        if k == "num":
            self.eat()
            return ("nat", str(num_value(v)))
        if k == "byte":
            self.eat()
            return ("u8", "(%d : UInt8)" % byte_value(v))
        if k == "id":
            self.eat()
            if v == self.acc: return ("nat", v)
            if v == self.c: return ("u8", v)
            if v in ("true", "false"): return ("bool", v)
            if v in self.consts: return ("nat", str(self.consts[v]))
            raise Unsupported("identifier " + v)
        raise Unsupported("expression starting with %r" % v)

    # ---- statements, in continuation style: `k` is the Lean term for "fall through"
    def stmts_until(self, closer):
        out = []
        while not self.at(closer):
            out.append(self.stmt())
        return out

    def block(self):
        self.eat("{")
        b = self.stmts_until("}")
        self.eat("}")
        return b

    def stmt(self):
        k, v = self.peek()
        if v == "match":
            self.eat()
            kk, scrut = self.eat()
            if scrut != self.c: raise Unsupported("match on " + scrut)
            self.eat("{")
            arms = []
            while not self.at("}"):
                pats = self.pattern()
                self.eat("=>")
                if self.at("{"):
                    body = self.block()
                elif self.at("(") and self.peek(1)[1] == ")":
                    self.eat(); self.eat(); body = []
                else:
                    body = [self.simple(term=False)]
                if self.at(","): self.eat()
                arms.append((pats, body))
            self.eat("}")
            if self.at(";"): self.eat()
            return ("match", arms)
        if v == "if":
            self.eat()
            t, c = self.expr()
            if t != "bool": raise Unsupported("if condition")
            th = self.block()
            el = []
            if self.at("else"):
                self.eat()
                el = self.block()
            return ("if", c, th, el)
        return self.simple(term=True)

    def simple(self, term):
        k, v = self.peek()
        if v == "return":
            self.eat()
            kk, b = self.eat()
            if b not in ("true", "false"): raise Unsupported("return " + b)
            if term or self.at(";"):
                if self.at(";"): self.eat()
            return ("ret", b)
        if k == "id" and v == self.acc:
            self.eat()
            kk, op = self.eat()
            if op in ("+", "-") and self.at("="):
                self.eat("=")
                t, e = self.expr()
                if t != "nat": raise Unsupported("operand of %s=" % op)
                st = ("add", e) if op == "+" else ("sub", e)
            elif op == "=":
                t, e = self.expr()
                if t != "nat": raise Unsupported("assigned value")
                st = ("set", e)
            else:
                raise Unsupported("statement %s %s" % (v, op))
            if term:
                self.eat(";")
            elif self.at(";"):
                self.eat()
            return st
        raise Unsupported("statement starting with %r" % v)

    def pattern(self):
        alts = []
        while True:
            k, v = self.peek()
            if v == "_":
                self.eat(); alts.append(("wild",))
            elif k in ("byte", "num"):
                self.eat()
                lo = byte_value(v) if k == "byte" else num_value(v)
                if self.at("..="):
                    self.eat()
                    k2, v2 = self.eat()
                    hi = byte_value(v2) if k2 == "byte" else num_value(v2)
                    alts.append(("range", lo, hi))
                else:
                    alts.append(("lit", lo))
            else:
                raise Unsupported("pattern %r" % v)
            if self.at("|"):
                self.eat(); continue
            return alts


def emit(stmts, k, acc, c, ind):
    """Lean term (Option (Rust.Loop Nat Bool)) for `stmts` followed by the fall-through term `k`"""
    pad = "  " * ind
    if not stmts:
        return pad + k
    s, rest = stmts[0], stmts[1:]
    if s[0] == "ret":
        return pad + "some (Rust.Loop.ret %s)" % s[1]
    if s[0] == "add":
        return pad + "let %s := %s + %s\n%s" % (acc, acc, s[1], emit(rest, k, acc, c, ind))
    if s[0] == "set":
        return pad + "let %s := %s\n%s" % (acc, s[1], emit(rest, k, acc, c, ind))
    if s[0] == "sub":
        return (pad + "if %s ≤ %s then\n%s  let %s := %s - %s\n%s\n%selse none" %
                (s[1], acc, pad, acc, acc, s[1], emit(rest, k, acc, c, ind + 1), pad))
    if s[0] == "if":
        return (pad + "if %s then\n%s\n%selse\n%s" %
                (s[1], emit(s[2] + rest, k, acc, c, ind + 1), pad, emit(s[3] + rest, k, acc, c, ind + 1)))
    if s[0] == "match":
        out, closed = "", False
        lines = []
        for pats, body in s[1]:
            if any(p[0] == "wild" for p in pats):
                lines.append((None, body)); closed = True
                break
            conds = []
            for p in pats:
                if p[0] == "lit": conds.append("%s == (%d : UInt8)" % (c, p[1]))
                else: conds.append("(decide ((%d : UInt8) ≤ %s) && decide (%s ≤ (%d : UInt8)))" % (p[1], c, c, p[2]))
            lines.append((" || ".join(conds), body))
        if not closed:
            raise Unsupported("match without a `_` arm")
        txt = ""
        for n, (cond, body) in enumerate(lines):
            if cond is None:
                txt += emit(body + rest, k, acc, c, ind + 1)
            else:
                txt += pad + ("if " if n == 0 else "else if ") + "(%s) = true then\n" % cond
                txt += emit(body + rest, k, acc, c, ind + 1) + "\n"
                if lines[n + 1][0] is None:
                    txt += pad + "else\n"
        return txt
    raise Unsupported("statement kind " + s[0])


def translate(text, name, lean, rel):
    ptext, rty, body, _, _ = find_fn(text, name)
    m = re.fullmatch(r"\s*([a-z_][a-z0-9_]*)\s*:\s*&\s*\[\s*u8\s*\]\s*", ptext)
    if not m or rty != "bool":
        raise Unsupported("signature of %s changed: (%s) -> %s" % (name, ptext, rty))
    inp = m.group(1)
    consts = {mm.group(1): num_value(mm.group(2)) for mm in re.finditer(r"\bconst\s+([A-Z_][A-Z0-9_]*)\s*:\s*usize\s*=\s*([0-9][0-9a-fA-Fx_]*)\s*;", text)}
    toks = tokenize(body)
    p = S(toks, None, None, consts)
    # let mut ACC = <literal> [usize];
    p.eat("let"); p.eat("mut")
    _, acc = p.eat()
    if p.at(":"):
        p.eat(); _, ty = p.eat()
        if ty != "usize": raise Unsupported("accumulator type " + ty)
    p.eat("=")
    k, v = p.eat()
    if k != "num": raise Unsupported("initial value " + v)
    init = num_value(v)
    p.eat(";")
    # for &C in input { … }
    p.eat("for"); p.eat("&")
    _, cvar = p.eat()
    p.eat("in")
    _, src = p.eat()
    if src != inp: raise Unsupported("loop over " + src)
    p.acc, p.c = acc, cvar
    stmts = p.block()
    k, v = p.eat()
    if v not in ("true", "false"): raise Unsupported("final expression " + v)
    if p.peek()[0] != "eof": raise Unsupported("trailing tokens: %r" % p.peek()[1])
    step = emit(stmts, "some (Rust.Loop.next %s)" % acc, acc, cvar, 1)
    return ("/-- the body of the loop of `%s` (%s): one octet `%s` at accumulator `%s` -/\n"
            "def %s_step (%s : Nat) (%s : UInt8) : Option (Rust.Loop Nat Bool) :=\n%s\n\n"
            "/-- `%s` (%s): `let mut %s = %d; for &%s in %s { … } %s` -/\n"
            "def %s (%s : List UInt8) : Option Bool :=\n  Rust.forBytes %s_step %d %s (fun _ => some %s)\n"
            % (name, rel, cvar, acc, lean, acc, cvar, step, name, rel, acc, init, cvar, inp, v, lean, inp, lean, init, inp, v))


def main():
    problems, defs = [], []
    try:
        ftext = open(os.path.join(REPO, "src/filter.rs")).read()
        defs.append(translate(ftext, "nesting_within_limit", "filter_nesting_within_limit", "src/filter.rs"))
    except Unsupported as e:
        problems.append("src/filter.rs nesting_within_limit: unsupported: %s" % e)
    except (OSError, IndexError, KeyError, AssertionError) as e:
        problems.append("src/filter.rs nesting_within_limit: %s: %s" % (type(e).__name__, e))
    text = ("/- GENERATED by translate/loop_fns.py from /repo/src/filter.rs — do not edit. -/\n"
            "import Ldap3V.Gen.RustPrelude\nnamespace Ldap3V.Gen\n\n" + "\n".join(defs) + "\nend Ldap3V.Gen\n")
    if problems:
        for p in problems:
            print("loop_fns.py: " + p)
        if not os.path.exists(OUT):
            open(OUT, "w").write(text)
        sys.exit(1)
    old = open(OUT).read() if os.path.exists(OUT) else None
    if old != text:
        open(OUT, "w").write(text)
    sys.exit(0)


if __name__ == "__main__":
    main()

#!/usr/bin/env python3
"""pure_fns.py: small pure functions of /repo -> lean/Ldap3V/Gen/PureFns.lean (regenerated on every run).

Way (a) of the tie: a translator for the first-order, loop-free fragment of Rust that the library's
byte predicates, nibble arithmetic, result-code helpers and the `Unescaper` state machine are written
in.  Each target function is located in the *current* source by name (nested `fn`s by path), parsed
by a small recursive-descent parser for Rust expressions (literals incl. byte literals, `== != < <= >
>= || && ! + - << >> & | ^`, `if/else`, `match` with literal / or-pattern / range / enum-variant
patterns, calls to a fixed list of nom character classes, enum constructors, `Ok(..)`/`Err(..)`), and
emitted as a Lean definition in the `Option` monad: `+` and `-` on `u8` are *checked* (`none` = the
overflow panic of a debug build), so partiality stays an explicit outcome.

`Lemmas/GenPure.lean` / `Props/C03,C08,C09,C10.lean` prove, against the regenerated file, that every
generated function equals the hand-written model function the property theorems are about (for all
256 bytes / all states / all result codes), so the theorems are re-checked against what the code says now.
A construct outside the fragment makes the translator fail closed (exit 1, `unsupported: …`)."""
import os, re, sys

ROOT = os.path.dirname(os.path.dirname(os.path.abspath(__file__)))
REPO = os.environ.get("VERIF_REPO", "/repo")
OUT = os.path.join(ROOT, "lean", "Ldap3V", "Gen", "PureFns.lean")


class Unsupported(Exception):
    pass


# ---------------------------------------------------------------- tokenizer
TOK = re.compile(r"""
    (?P<ws>\s+|//[^\n]*|/\*.*?\*/)
  | (?P<byte>b'(?:\\x[0-9a-fA-F]{2}|\\.|[^\\'])')
  | (?P<bstr>b"(?:\\.|[^\\"])*")
  | (?P<str>"(?:\\.|[^\\"])*")
  | (?P<num>0x[0-9a-fA-F_]+(?:[iu](?:8|16|32|64|size))?|\d[\d_]*(?:[iu](?:8|16|32|64|size))?)
  | (?P<id>[A-Za-z_][A-Za-z0-9_]*)
  | (?P<op>\.\.=|=>|::|==|!=|<=|>=|<<|>>|\|\||&&|->|[-+*/%&|^!<>=(){}\[\],;:.#_])
""", re.X | re.S)


def tokenize(s):
    out, i = [], 0
    while i < len(s):
        m = TOK.match(s, i)
        if not m:
            raise Unsupported("cannot tokenize at: " + s[i:i + 30].replace("\n", " "))
        i = m.end()
        k = m.lastgroup
        if k == "ws":
            continue
        out.append((k, m.group(k)))
    return out


def byte_value(tok):
    body = tok[2:-1]
    if body.startswith("\\x"):
        return int(body[2:], 16)
    if body.startswith("\\"):
        return {"n": 10, "r": 13, "t": 9, "\\": 92, "0": 0, "'": 39, '"': 34}[body[1]]
    return ord(body)


def num_value(tok):
    t = re.sub(r"[iu](8|16|32|64|size)$", "", tok).replace("_", "")
    return int(t, 16) if t.startswith("0x") else int(t)


# ---------------------------------------------------------------- parser (expressions only)
class P:
    def __init__(self, toks):
        self.t, self.i = toks, 0

    def peek(self, k=0):
        return self.t[self.i + k] if self.i + k < len(self.t) else ("eof", "")

    def eat(self, val=None):
        tok = self.peek()
        if val is not None and tok[1] != val:
            raise Unsupported("expected %r, found %r" % (val, tok[1]))
        self.i += 1
        return tok

    def at(self, val):
        return self.peek()[1] == val

    # precedence climbing
    LEVELS = [["||"], ["&&"], ["==", "!=", "<", "<=", ">", ">="], ["|"], ["^"], ["&"], ["<<", ">>"], ["+", "-"], ["*", "/", "%"]]

    def expr(self, lvl=0, nostruct=False):
        if lvl == len(self.LEVELS):
            return self.unary(nostruct)
        e = self.expr(lvl + 1, nostruct)
        while self.peek()[0] == "op" and self.peek()[1] in self.LEVELS[lvl]:
            op = self.eat()[1]
            r = self.expr(lvl + 1, nostruct)
            e = ("bin", op, e, r)
        return e

    def unary(self, nostruct):
        if self.at("!"):
            self.eat(); return ("not", self.unary(nostruct))
        if self.at("*") or self.at("&"):
            self.eat(); return self.unary(nostruct)          # deref / ref of a Copy value: identity
        if self.at("-"):
            raise Unsupported("unary minus")
        return self.postfix(nostruct)

    def postfix(self, nostruct):
        e = self.primary(nostruct)
        while True:
            if self.at("."):
                self.eat()
                k, v = self.eat()
                if k not in ("id", "num"):
                    raise Unsupported("field " + v)
                e = ("field", e, v)
            elif self.at("(") and e[0] == "path":
                self.eat("(")
                args = []
                while not self.at(")"):
                    args.append(self.expr())
                    if self.at(","): self.eat()
                self.eat(")")
                e = ("call", e[1], args)
            else:
                return e

    def path(self):
        segs = [self.eat()[1]]
        while self.at("::"):
            self.eat(); segs.append(self.eat()[1])
        return segs

    def primary(self, nostruct):
        k, v = self.peek()
        if k == "num":
            self.eat(); return ("lit", num_value(v))
        if k == "byte":
            self.eat(); return ("lit", byte_value(v))
        if v == "(":
            self.eat(); e = self.expr()
            if self.at(","):
                items = [e]
                while self.at(","):
                    self.eat()
                    if self.at(")"): break
                    items.append(self.expr())
                e = ("tuple", items)
            self.eat(")"); return e
        if v == "{":
            return self.block()
        if v == "if":
            self.eat()
            if self.at("let"):
                raise Unsupported("if let")
            c = self.expr(nostruct=True)
            t = self.block()
            if not self.at("else"):
                raise Unsupported("if without else")
            self.eat("else")
            e = self.primary(nostruct) if self.at("if") else self.block()
            return ("if", c, t, e)
        if v == "match":
            self.eat()
            s = self.expr(nostruct=True)
            self.eat("{")
            arms = []
            while not self.at("}"):
                pats = [self.pattern()]
                while self.at("|"):
                    self.eat(); pats.append(self.pattern())
                if self.at("if"):
                    raise Unsupported("match guard")
                self.eat("=>")
                body = self.expr()
                if self.at(","): self.eat()
                arms.append((pats, body))
            self.eat("}")
            return ("match", s, arms)
        if v in ("true", "false"):
            self.eat(); return ("bool", v == "true")
        if k == "id":
            segs = self.path()
            if self.at("!"):
                if segs == ["matches"]:             # matches!(e, p1 | p2 ...)  ==  match e { p1 | p2 => true, _ => false }
                    self.eat("!"); self.eat("(")
                    scrut = self.expr()
                    self.eat(",")
                    pats = [self.pattern()]
                    while self.at("|"):
                        self.eat(); pats.append(self.pattern())
                    if self.at(","): self.eat()
                    self.eat(")")
                    return ("match", scrut, [(pats, ("bool", True)), ([("wild",)], ("bool", False))])
                raise Unsupported("macro " + "::".join(segs) + "!")
            return ("path", segs)
        raise Unsupported("expression starting with %r" % v)

    def block(self):
        self.eat("{")
        if self.at("let") or self.at("return"):
            raise Unsupported("statement in block")
        e = self.expr()
        if self.at(";"):
            raise Unsupported("statement in block")
        self.eat("}")
        return e

    def pattern(self):
        k, v = self.peek()
        if v == "_":
            self.eat(); return ("wild",)
        if k in ("num", "byte"):
            self.eat()
            lo = num_value(v) if k == "num" else byte_value(v)
            if self.at("..="):
                self.eat()
                k2, v2 = self.eat()
                hi = num_value(v2) if k2 == "num" else byte_value(v2)
                return ("range", lo, hi)
            return ("plit", lo)
        if k == "id":
            segs = self.path()
            binds = []
            if self.at("("):
                self.eat("(")
                while not self.at(")"):
                    kk, vv = self.eat()
                    if kk != "id" and vv != "_":
                        raise Unsupported("nested pattern")
                    binds.append(vv)
                    if self.at(","): self.eat()
                self.eat(")")
            return ("variant", segs, binds)
        raise Unsupported("pattern %r" % v)


# ---------------------------------------------------------------- locating items in the source
def match_brace(text, i, open_="{", close="}"):
    """index just after the bracket matching text[i] (which must be `open_`); skips strings/chars/comments"""
    assert text[i] == open_
    depth, n = 0, len(text)
    while i < n:
        c = text[i]
        if text.startswith("//", i):
            i = text.find("\n", i); i = n if i < 0 else i; continue
        if text.startswith("/*", i):
            i = text.find("*/", i) + 2; continue
        if c == '"':
            i += 1
            while text[i] != '"':
                i += 2 if text[i] == "\\" else 1
            i += 1; continue
        m = re.match(r"b?'(?:\\x[0-9a-fA-F]{2}|\\.|[^\\'])'", text[i:])
        if m:
            i += m.end(); continue
        if c == open_: depth += 1
        if c == close:
            depth -= 1
            if depth == 0: return i + 1
        i += 1
    raise Unsupported("unbalanced " + open_)


def find_fn(text, name, lo=0, hi=None):
    """(params text, return type text, body text without braces, body start, body end) of `fn name` in text[lo:hi]"""
    hi = len(text) if hi is None else hi
    for m in re.finditer(r"\bfn\s+" + re.escape(name) + r"\s*(?=[<(])", text[lo:hi]):
        p0 = lo + m.end()
        if text[p0] == "<":                       # generic parameters: skip the balanced <...>
            d = 0
            while True:
                if text[p0] == "<": d += 1
                if text[p0] == ">" and text[p0 - 1] != "-":
                    d -= 1
                    if d == 0: break
                p0 += 1
            p0 += 1
            while text[p0].isspace(): p0 += 1
        if text[p0] != "(":
            continue
        p1 = match_brace(text, p0, "(", ")")
        rest = text[p1:hi]
        mb = re.match(r"\s*(?:->\s*([^{;]+?))?\s*\{", rest)
        if not mb:
            continue
        b0 = p1 + mb.end() - 1
        b1 = match_brace(text, b0)
        return text[p0 + 1:p1 - 1], (mb.group(1) or "").strip(), text[b0 + 1:b1 - 1], b0 + 1, b1 - 1
    raise Unsupported("fn %s not found" % name)


def find_impl(text, ty):
    for m in re.finditer(r"\bimpl\s+" + re.escape(ty) + r"\s*\{", text):
        b0 = m.end() - 1
        b1 = match_brace(text, b0)
        yield b0 + 1, b1 - 1


def find_enum(text, name):
    m = re.search(r"\benum\s+" + re.escape(name) + r"\s*\{", text)
    if not m:
        raise Unsupported("enum %s not found" % name)
    b0 = m.end() - 1
    b1 = match_brace(text, b0)
    variants = []
    for part in re.split(r",\s*", re.sub(r"//[^\n]*|#\[[^\]]*\]", "", text[b0 + 1:b1 - 1]).strip()):
        part = part.strip()
        if not part: continue
        mv = re.fullmatch(r"([A-Z][A-Za-z0-9]*)(?:\s*\(\s*([a-z0-9]+)\s*\))?(?:\s*=\s*(\d+))?", part)
        if not mv:
            raise Unsupported("enum variant %r" % part)
        variants.append((mv.group(1), mv.group(2), mv.group(3)))
    return variants


# ---------------------------------------------------------------- Lean emission (Option monad, ANF)
LEAN_KEYWORDS = {"partial", "end", "from", "at", "fun", "in", "do", "then", "open", "instance", "def", "theorem", "prefix", "macro", "syntax", "where", "show", "have", "local", "private", "class"}
LTY = {"u8": "UInt8", "bool": "Bool", "rc": "Nat"}
NOM_CALLS = {"is_hex_digit": "Rust.is_hex_digit", "is_alphanumeric": "Rust.is_alphanumeric", "is_alphabetic": "Rust.is_alphabetic", "is_digit": "Rust.is_digit"}


def lname(v):
    return v + "_" if v in LEAN_KEYWORDS else v


class Emit:
    def __init__(self, env, enums, subst, consts):
        self.env, self.enums, self.subst, self.consts = dict(env), enums, subst, consts
        self.n = 0

    def fresh(self):
        self.n += 1
        return "t%d" % self.n

    def flat(self, e):
        """textual form of a field/path chain, for the substitution table (`self.1.rc` -> rc)"""
        if e[0] == "path": return "::".join(e[1])
        if e[0] == "field":
            f = self.flat(e[1])
            return None if f is None else f + "." + e[2]
        return None

    def ty_of(self, e):
        k = e[0]
        if k == "lit": return None
        if k == "bool" or k == "not": return "bool"
        if k in ("path", "field"):
            f = self.flat(e)
            if f in self.subst: f = self.subst[f]
            if f in self.env: return self.env[f]
            if f in self.consts: return self.consts[f][0]
            return None
        if k == "bin":
            if e[1] in ("||", "&&", "==", "!=", "<", "<=", ">", ">="): return "bool"
            return self.ty_of(e[2]) or self.ty_of(e[3])
        if k == "if": return self.ty_of(e[2]) or self.ty_of(e[3])
        if k == "match":
            for _, b in e[2]:
                t = self.ty_of(b)
                if t: return t
            return None
        if k == "call":
            name = "::".join(e[1])
            if name in NOM_CALLS: return "bool"
            if e[1][0] in self.enums: return e[1][0]
            if name in ("Ok", "Err"): return "res"
        return None

    def lit(self, v, ty):
        if ty == "u8":
            if not 0 <= v < 256: raise Unsupported("u8 literal %d" % v)
            return "(%d : UInt8)" % v
        if ty == "rc":
            return "(%d : Nat)" % v
        raise Unsupported("literal %d of unknown type" % v)

    def ex(self, e, want, out):
        """emit `e` (expected type `want` or None); appends `let x ← …` lines to out; returns a pure Lean term"""
        k = e[0]
        if k == "lit":
            return self.lit(e[1], want)
        if k == "bool":
            return "true" if e[1] else "false"
        if k in ("path", "field"):
            f = self.flat(e)
            if f is None: raise Unsupported("field of a computed value")
            f = self.subst.get(f, f)
            if f in self.env: return lname(f)
            if f in self.consts: return self.lit(self.consts[f][1], self.consts[f][0] if self.consts[f][0] else want)
            segs = f.split("::")
            if len(segs) == 2 and segs[0] in self.enums and any(v[0] == segs[1] and v[1] is None for v in self.enums[segs[0]]):
                return "Rust.%s.%s" % (segs[0], segs[1])
            raise Unsupported("unknown name " + f)
        if k == "not":
            return "(!%s)" % self.ex(e[1], "bool", out)
        if k == "bin":
            op, l, r = e[1], e[2], e[3]
            if op in ("||", "&&"):
                lt = self.ex(l, "bool", out)
                sub = []
                rt = self.ex(r, "bool", sub)
                if not sub:
                    return "(%s %s %s)" % (lt, op, rt)
                v = self.fresh()      # short-circuit with an effectful right-hand side
                if op == "||":
                    out.append("let %s ← (if %s then pure true else %s)" % (v, lt, blk(sub, rt)))
                else:
                    out.append("let %s ← (if %s then %s else pure false)" % (v, lt, blk(sub, rt)))
                return v
            ty = self.ty_of(l) or self.ty_of(r) or (want if op not in ("==", "!=", "<", "<=", ">", ">=") else None)
            if ty is None: raise Unsupported("operands of %s have no known type" % op)
            lt, rt = self.ex(l, ty, out), self.ex(r, ty, out)
            if op == "==": return "(%s == %s)" % (lt, rt)
            if op == "!=": return "(%s != %s)" % (lt, rt)
            if op in ("<", "<=", ">", ">="): return "(decide (%s %s %s))" % (lt, {"<": "<", "<=": "≤", ">": ">", ">=": "≥"}[op], rt)
            if ty != "u8": raise Unsupported("arithmetic on " + str(ty))
            if op in ("&", "|", "^"):
                return "(%s %s %s)" % (lt, {"&": "&&&", "|": "|||", "^": "^^^"}[op], rt)
            fn = {"+": "Rust.addU8", "-": "Rust.subU8", "<<": "Rust.shlU8", ">>": "Rust.shrU8"}.get(op)
            if fn is None: raise Unsupported("operator " + op)
            v = self.fresh()
            out.append("let %s ← %s %s %s" % (v, fn, lt, rt))
            return v
        if k == "if":
            ct = self.ex(e[1], "bool", out)
            ty = self.ty_of(e) or want
            s1, s2 = [], []
            t1, t2 = self.ex(e[2], ty, s1), self.ex(e[3], ty, s2)
            if not s1 and not s2:
                return "(if %s then %s else %s)" % (ct, t1, t2)
            v = self.fresh()
            out.append("let %s ← (if %s then %s else %s)" % (v, ct, blk(s1, t1), blk(s2, t2)))
            return v
        if k == "match":
            sty = self.ty_of(e[1])
            st = self.ex(e[1], sty, out)
            ty = self.ty_of(e) or want
            v = self.fresh()
            if sty in self.enums:
                lines = ["let %s ← (match %s with" % (v, st)]
                for pats, body in e[2]:
                    for p in pats:
                        saved = dict(self.env)
                        if p[0] == "wild":
                            head = "_"
                        elif p[0] == "variant" and p[1][0] == sty:
                            var = [x for x in self.enums[sty] if x[0] == p[1][-1]]
                            if not var: raise Unsupported("variant " + "::".join(p[1]))
                            for b in p[2]:
                                if b != "_": self.env[b.lstrip("_") if False else b] = var[0][1]
                            head = "Rust.%s.%s %s" % (sty, p[1][-1], " ".join("_" if b == "_" else lname(b) for b in p[2]))
                        else:
                            raise Unsupported("pattern on enum")
                        sub = []
                        bt = self.ex(body, ty, sub)
                        lines.append("  | %s => %s" % (head.strip(), blk(sub, bt, 4)))
                        self.env = saved
                out.append("\n".join(lines) + ")")
                return v
            if sty in ("u8", "rc"):
                chain, closed = "", False
                for pats, body in e[2]:
                    conds = []
                    for p in pats:
                        if p[0] == "wild": conds = None; break
                        if p[0] == "plit": conds.append("%s == %s" % (st, self.lit(p[1], sty)))
                        elif p[0] == "range": conds.append("(decide (%s ≤ %s) && decide (%s ≤ %s))" % (self.lit(p[1], sty), st, st, self.lit(p[2], sty)))
                        elif p[0] == "variant" and "::".join(p[1]) in self.consts and not p[2]:
                            conds.append("%s == %s" % (st, self.lit(self.consts["::".join(p[1])][1], sty)))
                        else: raise Unsupported("pattern on integer")
                    sub = []
                    bt = self.ex(body, ty, sub)
                    b = blk(sub, bt)
                    if conds is None:
                        chain += b; closed = True; break
                    chain += "if %s then %s else " % (" || ".join(conds), b)
                if not closed: raise Unsupported("integer match without a `_` arm")
                out.append("let %s ← (%s)" % (v, chain))
                return v
            raise Unsupported("match on " + str(sty))
        if k == "call":
            name = "::".join(e[1])
            if name in NOM_CALLS:
                if len(e[2]) != 1: raise Unsupported("arity of " + name)
                return "(%s %s)" % (NOM_CALLS[name], self.ex(e[2][0], "u8", out))
            if name == "Ok":
                a = e[2][0]
                return "(Rust.Res.ok %s)" % ("(some true)" if a == ("bool", True) else "(some false)" if a == ("bool", False) else "none")
            if name == "Err":
                return "Rust.Res.err"
            if name == "unimplemented" or name == "panic":
                raise Unsupported(name)
            if e[1][0] in self.enums and len(e[1]) == 2:
                var = [x for x in self.enums[e[1][0]] if x[0] == e[1][1]]
                if not var or var[0][1] is None or len(e[2]) != 1: raise Unsupported("constructor " + name)
                return "(Rust.%s.%s %s)" % (e[1][0], e[1][1], self.ex(e[2][0], var[0][1], out))
            raise Unsupported("call to " + name)
        raise Unsupported("node " + k)


def indent(lines, n=2):
    return "\n".join(" " * n + ln.replace("\n", "\n" + " " * n) for ln in lines)


def blk(sub, term, n=2):
    """a `do` block with the statements `sub` and the result `term` (or just `pure term`)"""
    if not sub:
        return "(pure %s)" % term
    return "(do\n%s\n%spure %s)" % (indent(sub, n), " " * n, term)


def lean_ty(t, enums):
    if t in enums: return "Rust." + t
    return {"u8": "UInt8", "bool": "Bool", "rc": "Nat", "res": "Rust.Res"}[t]


def translate_fn(lean_name, params, body_text, ret, enums, subst=None, consts=None, doc=""):
    """params: list of (name, type-key); ret: type-key"""
    ast_p = P(tokenize(body_text))
    ast = ast_p.expr()
    if ast_p.peek()[0] != "eof":
        raise Unsupported("trailing tokens in body of %s: %r" % (lean_name, ast_p.peek()[1]))
    em = Emit({n: t for n, t in params}, enums, subst or {}, consts or {})
    out = []
    term = em.ex(ast, ret, out)
    sig = " ".join("(%s : %s)" % (lname(n), lean_ty(t, enums)) for n, t in params)
    body = "\n".join("  " + ln.replace("\n", "\n  ") for ln in out)
    return "/-- %s -/\ndef %s %s : Option %s := do\n%s%s  pure %s\n" % (doc, lean_name, sig, lean_ty(ret, enums), body, "\n" if out else "", term)


def param_list(ptext):
    """`c: u8` / `&c: &u8` / `&self, c: u8` -> [(name, rust type)]"""
    res = []
    for part in [p.strip() for p in ptext.split(",") if p.strip()]:
        if part in ("&self", "self", "&mut self"):
            res.append(("self", "Self")); continue
        m = re.fullmatch(r"&?\s*(?:mut\s+)?([a-z_][a-z0-9_]*)\s*:\s*&?\s*([A-Za-z0-9_]+)", part)
        if not m: raise Unsupported("parameter %r" % part)
        res.append((m.group(1), m.group(2)))
    return res


def main():
    problems, defs = [], []
    def src(rel):
        return open(os.path.join(REPO, rel)).read()

    def attempt(label, thunk):
        try:
            defs.append(thunk())
        except Unsupported as e:
            problems.append("%s: unsupported: %s" % (label, e))
        except (OSError, IndexError, KeyError, AssertionError) as e:
            problems.append("%s: %s: %s" % (label, type(e).__name__, e))

    enums = {}
    # ---- src/filter.rs: enum Unescaper + feed, is_value_char, is_alnum_hyphen
    try:
        ftext = src("src/filter.rs")
        enums["Unescaper"] = [(n, "u8" if a == "u8" else a, d) for n, a, d in find_enum(ftext, "Unescaper")]
        for n, a, d in enums["Unescaper"]:
            if a not in (None, "u8"): raise Unsupported("payload type " + a)
    except (Unsupported, OSError) as e:
        problems.append("filter.rs enum Unescaper: %s" % e); ftext = ""; enums["Unescaper"] = []

    def nested(text, outer, inner, lean, ret="bool", rel=""):
        def go():
            _, _, _, b0, b1 = find_fn(text, outer)
            ptext, rty, body, _, _ = find_fn(text, inner, b0, b1)
            ps = param_list(ptext)
            if [t for _, t in ps] != ["u8"] or rty != {"bool": "bool", "u8": "u8"}[ret]:
                raise Unsupported("signature of %s::%s changed: (%s) -> %s" % (outer, inner, ptext, rty))
            return translate_fn(lean, [(ps[0][0], "u8")], body, ret, enums, doc="`%s` inside `%s` (%s)" % (inner, outer, rel))
        attempt("%s %s::%s" % (rel, outer, inner), go)

    def top(text, name, lean, rel, ret="bool"):
        def go():
            ptext, rty, body, _, _ = find_fn(text, name)
            ps = param_list(ptext)
            if [t for _, t in ps] != ["u8"] or rty != ret:
                raise Unsupported("signature of %s changed: (%s) -> %s" % (name, ptext, rty))
            return translate_fn(lean, [(ps[0][0], "u8")], body, ret, enums, doc="`%s` (%s)" % (name, rel))
        attempt("%s %s" % (rel, name), go)

    try:
        utext = src("src/util.rs")
    except OSError as e:
        problems.append(str(e)); utext = ""
    nested(utext, "ldap_escape", "needs_escape", "ldap_escape_needs_escape", rel="src/util.rs")
    nested(utext, "ldap_escape", "xdigit", "ldap_escape_xdigit", ret="u8", rel="src/util.rs")
    nested(utext, "dn_escape", "always_escape", "dn_escape_always_escape", rel="src/util.rs")
    nested(utext, "dn_escape", "escape_leading", "dn_escape_escape_leading", rel="src/util.rs")
    nested(utext, "dn_escape", "escape_trailing", "dn_escape_escape_trailing", rel="src/util.rs")
    nested(utext, "dn_escape", "xdigit", "dn_escape_xdigit", ret="u8", rel="src/util.rs")
    top(ftext, "is_value_char", "filter_is_value_char", "src/filter.rs")
    top(ftext, "is_alnum_hyphen", "filter_is_alnum_hyphen", "src/filter.rs")

    def feed():
        for b0, b1 in find_impl(ftext, "Unescaper"):
            try:
                ptext, rty, body, _, _ = find_fn(ftext, "feed", b0, b1)
            except Unsupported:
                continue
            ps = param_list(ptext)
            if [t for _, t in ps] != ["Self", "u8"] or rty != "Unescaper":
                raise Unsupported("signature of Unescaper::feed changed: (%s) -> %s" % (ptext, rty))
            return translate_fn("unescaper_feed", [("self", "Unescaper"), (ps[1][0], "u8")], body, "Unescaper", enums,
                                doc="`Unescaper::feed` (src/filter.rs)")
        raise Unsupported("impl Unescaper { fn feed } not found")
    attempt("src/filter.rs Unescaper::feed", feed)

    # ---- src/result.rs: result-code helpers
    try:
        rtext = src("src/result.rs")
    except OSError as e:
        problems.append(str(e)); rtext = ""

    def helper(ty, meth, lean, rcpath):
        def go():
            for b0, b1 in find_impl(rtext, ty):
                try:
                    ptext, rty, body, _, _ = find_fn(rtext, meth, b0, b1)
                except Unsupported:
                    continue
                if ptext.strip() != "self":
                    raise Unsupported("signature of %s::%s changed" % (ty, meth))
                return translate_fn(lean, [("rc", "rc")], body, "res", enums, subst={rcpath: "rc"},
                                    doc="`%s::%s` as a function of the result code (src/result.rs)" % (ty, meth))
            raise Unsupported("impl %s { fn %s } not found" % (ty, meth))
        attempt("src/result.rs %s::%s" % (ty, meth), go)

    helper("LdapResult", "success", "ldapResult_success", "self.rc")
    helper("LdapResult", "non_error", "ldapResult_non_error", "self.rc")
    helper("SearchResult", "success", "searchResult_success", "self.1.rc")
    helper("SearchResult", "non_error", "searchResult_non_error", "self.1.rc")
    helper("CompareResult", "equal", "compareResult_equal", "self.0.rc")
    helper("CompareResult", "non_error", "compareResult_non_error", "self.0.rc")
    helper("ExopResult", "success", "exopResult_success", "self.1.rc")
    helper("ExopResult", "non_error", "exopResult_non_error", "self.1.rc")

    # ---- src/search.rs: ResultEntry::is_ref / is_intermediate as functions of the protocolOp tag number
    try:
        stext = src("src/search.rs")
    except OSError as e:
        problems.append(str(e)); stext = ""

    def entry_kind(meth, lean):
        def go():
            for b0, b1 in find_impl(stext, "ResultEntry"):
                try:
                    ptext, rty, body, _, _ = find_fn(stext, meth, b0, b1)
                except Unsupported:
                    continue
                if ptext.strip() != "&self" or rty != "bool":
                    raise Unsupported("signature of ResultEntry::%s changed" % meth)
                return translate_fn(lean, [("id", "rc")], body, "bool", enums, subst={"self.0.id": "id"},
                                    doc="`ResultEntry::%s` as a function of the tag number (src/search.rs)" % meth)
            raise Unsupported("impl ResultEntry { fn %s } not found" % meth)
        attempt("src/search.rs ResultEntry::" + meth, go)
    entry_kind("is_ref", "resultEntry_is_ref")
    entry_kind("is_intermediate", "resultEntry_is_intermediate")

    # ---- emit
    lines = ["/- GENERATED by translate/pure_fns.py from /repo/src/{util,filter,result,search}.rs — do not edit. -/",
             "import Ldap3V.Gen.RustPrelude", "namespace Ldap3V.Gen", ""]
    if enums.get("Unescaper"):
        lines.append("end Ldap3V.Gen\nnamespace Ldap3V.Rust\n/-- `enum Unescaper` of src/filter.rs -/\ninductive Unescaper where")
        for n, a, _ in enums["Unescaper"]:
            lines.append("  | %s%s" % (n, " (a : UInt8)" if a else ""))
        lines.append("  deriving Repr, DecidableEq\nend Ldap3V.Rust\nnamespace Ldap3V.Gen\n")
    lines += defs
    lines.append("/-- names of the functions the translator produced on this run -/")
    lines.append("def translated : List String := [%s]" % ", ".join('"%s"' % re.search(r"def (\w+)", d).group(1) for d in defs))
    lines.append("\nend Ldap3V.Gen\n")
    text = "\n".join(lines)
    if problems:
        # fail closed, but leave the previous (compilable) file in place so that other properties still build
        for p in problems:
            print("pure_fns.py: " + p)
        if not os.path.exists(OUT):
            open(OUT, "w").write(text)
        sys.exit(1)
    old = open(OUT).read() if os.path.exists(OUT) else None
    if old != text:
        open(OUT, "w").write(text)
    sys.exit(0)


if __name__ == "__main__":
    main()

#!/usr/bin/env python3
"""C14 translator: /repo/src/sync.rs (+ the async side: ldap.rs, search.rs, conn.rs) -> lean/Ldap3V/Gen/SyncTable.lean

For each `pub fn` of `impl LdapConn` / `impl EntryStream` (outside cfg(feature="gssapi"/"ntlm")): name, parameter
names, and the classified body: which method of which receiver is awaited inside `block_on` with which argument
expressions (parameters become positional `$i`), whether the result is returned unchanged, the field written by a
`with_*` modifier and the value written, the delegation of a constructor.  From the async side: the public
methods of `Ldap` / `SearchStream`, the bodies of `Ldap`'s modifiers and one-expression getters, the delegations of
`LdapConnAsync`'s constructors -- so that the Lean comparison is source-to-source.

FAILS CLOSED: a body that matches none of the templates becomes a `Body.unclassified` row (TableFaithful = false,
so C14_table_faithful does not build) and the exit status is 1; a file that cannot be segmented at all gives a
one-row table of that kind.  Environment: VERIF_SYNC_RS / VERIF_REPO_SRC override the inputs (tests), VERIF_SYNC_OUT
the output.  Python 3 stdlib only.
"""
import os, re, sys

HERE = os.path.dirname(os.path.abspath(__file__))
SRC = os.environ.get("VERIF_REPO_SRC", "/repo/src")
SYNC_RS = os.environ.get("VERIF_SYNC_RS", os.path.join(SRC, "sync.rs"))
OUT = os.environ.get("VERIF_SYNC_OUT", os.path.join(HERE, "..", "lean", "Ldap3V", "Gen", "SyncTable.lean"))
SKIP_CFG = ('#[cfg(feature="gssapi")]', '#[cfg(feature="ntlm")]')
PROBLEMS = []


class Unparsable(Exception):
    pass


def mask(src):
    """comments and the contents of string/char literals blanked (same length), so that brackets can be matched"""
    out, i, n = list(src), 0, len(src)
    def blank(a, b):
        for k in range(a, b):
            if out[k] != "\n":
                out[k] = " "
    while i < n:
        if src.startswith("//", i):
            j = src.find("\n", i); j = n if j < 0 else j
            blank(i, j); i = j
        elif src.startswith("/*", i):
            j = src.find("*/", i + 2)
            if j < 0: raise Unparsable("unterminated block comment")
            blank(i, j + 2); i = j + 2
        elif src[i] == "r" and (i == 0 or not (src[i - 1].isalnum() or src[i - 1] == "_")) and re.compile(r'r#*"').match(src, i):
            hashes = re.compile(r'r(#*)"').match(src, i).group(1)
            j = src.find('"' + hashes, i + 2 + len(hashes))
            if j < 0: raise Unparsable("unterminated raw string literal")
            blank(i, j + 1 + len(hashes)); i = j + 1 + len(hashes)
        elif src[i] == '"':
            j = i + 1
            while j < n and src[j] != '"':
                j += 2 if src[j] == "\\" else 1
            if j >= n: raise Unparsable("unterminated string literal")
            for k in range(i + 1, j):  # keep words (cfg feature names), drop anything a scanner could trip over
                if not (src[k].isalnum() or src[k] in "_-."): out[k] = " "
            i = j + 1
        elif src[i] == "'":
            m = re.compile(r"'(\\.[^']*|[^\\'])'").match(src, i)
            if m:
                blank(i + 1, m.end() - 1); i = m.end()
            else:
                i += 1  # a lifetime
        else:
            i += 1
    return "".join(out)


PAIRS = {"{": "}", "(": ")", "[": "]"}


def close_of(s, i):
    """index of the bracket closing the one at s[i] (all three kinds must nest properly in between)"""
    stack = []
    for k in range(i, len(s)):
        c = s[k]
        if c in PAIRS:
            stack.append(PAIRS[c])
        elif c in "})]":
            if not stack or stack.pop() != c: raise Unparsable("unbalanced %r at offset %d" % (c, k))
            if not stack: return k
    raise Unparsable("unclosed bracket at offset %d" % i)


def norm(s):
    """whitespace-insensitive form: single spaces between words only"""
    return re.sub(r"\s*([^\w\s])\s*", r"\1", re.sub(r"\s+", " ", s)).strip()


def split_top(s):
    """split at commas outside brackets and outside <...> (`->` does not close)"""
    parts, depth, cur = [], 0, ""
    for k, c in enumerate(s):
        if c in "([{<": depth += 1
        elif c in ")]}" or (c == ">" and s[k - 1] != "-"): depth -= 1
        if c == "," and depth == 0:
            parts.append(cur); cur = ""
        else:
            cur += c
    if cur.strip(): parts.append(cur)
    return [p.strip() for p in parts]


FN_RE = re.compile(r"(pub(?:\([\w: ]+\))? +)?(const +)?(async +)?fn +(\w+)")


def fn_items(body):
    """items of an impl block: (attrs, vis, is_async, name, params, ret, fn body); anything but `fn` items raises"""
    items, i, attrs = [], 0, []
    while True:
        while i < len(body) and body[i].isspace(): i += 1
        if i >= len(body): break
        if body.startswith("#[", i):
            j = close_of(body, i + 1)
            attrs.append(norm(body[i:j + 1])); i = j + 1
            continue
        m = FN_RE.match(body, i)
        if not m: raise Unparsable("impl item that is not a fn: %r" % body[i:i + 60])
        k = m.end()
        while body[k].isspace(): k += 1
        if body[k] == "<":  # generics
            depth = 0
            while True:
                if body[k] == "<": depth += 1
                elif body[k] == ">" and body[k - 1] != "-": depth -= 1
                k += 1
                if depth == 0: break
            while body[k].isspace(): k += 1
        if body[k] != "(": raise Unparsable("fn %s: no parameter list" % m.group(4))
        pe = close_of(body, k)
        params = split_top(body[k + 1:pe])
        b0 = body.find("{", pe)
        semi = body.find(";", pe)
        if b0 < 0 or (0 <= semi < b0): raise Unparsable("fn %s: no body" % m.group(4))
        b1 = close_of(body, b0)
        items.append(dict(attrs=attrs, vis=(m.group(1) or "").strip(), is_async=bool(m.group(3)), name=m.group(4),
                          params=params, ret=norm(body[pe + 1:b0]), body=norm(body[b0 + 1:b1])))
        attrs, i = [], b1 + 1
    return items


def impl_blocks(masked, type_name):
    """bodies of the inherent `impl ... type_name ... {` blocks at top level, with their attributes"""
    res = []
    for m in re.finditer(r"^((?:#\[[^\n]*\]\n)*)impl(?:<[^{;]*?>)? +%s\b[^{;]*\{" % type_name, masked, flags=re.M):
        b0 = m.end() - 1
        res.append(([norm(a) for a in m.group(1).split("\n") if a], masked[b0 + 1:close_of(masked, b0)]))
    return res


def pub_fns(masked, type_name, what):
    """`pub fn` items of the non-verif impl blocks of a type, cfg(gssapi/ntlm) items left out (returned separately)"""
    fns, skipped = [], []
    blocks = impl_blocks(masked, type_name)
    if not blocks: raise Unparsable("%s: no `impl %s` block" % (what, type_name))
    for battrs, body in blocks:
        if "#[cfg(ldap3_verif)]" in battrs: continue
        if any(a.startswith("#[cfg(") for a in battrs): raise Unparsable("%s: cfg on impl %s" % (what, type_name))
        for it in fn_items(body):
            if it["vis"] != "pub": continue
            if "#[cfg(ldap3_verif)]" in it["attrs"]: continue
            if any(a in SKIP_CFG for a in it["attrs"]):
                skipped.append(it["name"]); continue
            if any(a.startswith("#[cfg(") for a in it["attrs"]):
                raise Unparsable("%s: %s::%s has an unexpected cfg %r" % (what, type_name, it["name"], it["attrs"]))
            fns.append(it)
    return fns, skipped


def param_names(it):
    ps = it["params"]
    if ps and re.fullmatch(r"(&('\w+ )?)?(mut )?self", ps[0]): ps = ps[1:]
    names = []
    for p in ps:
        m = re.fullmatch(r"(?:mut )?(\w+):.*", p, flags=re.S)
        if not m: raise Unparsable("fn %s: parameter %r" % (it["name"], p))
        names.append(m.group(1))
    return names


def expr(e, env):
    """argument / value expression -> Lean `Expr` term; env: variable -> Lean term"""
    e = e.strip()
    if e in env: return env[e]
    m = re.fullmatch(r"(.+)\.into\(\)", e)
    if m: return "(.into %s)" % expr(m.group(1), env)
    m = re.fullmatch(r"Some\((.+)\)", e)
    if m: return "(.some %s)" % expr(m.group(1), env)
    if e.startswith("&"): return "(.ref %s)" % expr(e[1:], env)
    if e in ("LdapConnSettings::new()", "vec![]"): return '(.const "%s")' % e
    raise Unparsable("expression %r" % e)


def args_of(text, env):
    return "[" + ", ".join(expr(a, env) for a in split_top(text)) + "]"


RECV = {"ldap": ".ldap", "stream": ".stream", "self.ldap": ".ldap", "self.stream": ".stream",
        "self.stream.ldap_handle()": ".streamLdap"}


def normalise_body(owner, b):
    """bring harmless spelling variants of a delegation body to the canonical one (the same
    normalisation is done by the lane's own reader in harness/src/lanes/sync.rs):
    other names for the two local aliases, `async {` for `async move {`, no aliases at all
    (`self.rt.block_on(async move { self.ldap.f(..).await })`), no async block (`rt.block_on(ldap.f(..))`)"""
    rt_path, recv_path, recv = {"LdapConn": ("self.rt", "self.ldap", "ldap"),
                                "EntryStream": ("self.conn.rt", "self.stream", "stream")}[owner]
    b = b.replace("async{", "async move{")
    m = re.match(r"let (\w+)=&mut %s;let (\w+)=&mut %s;" % (re.escape(rt_path), re.escape(recv_path)), b)
    if m and (m.group(1), m.group(2)) != ("rt", recv):
        x, y = m.group(1), m.group(2)
        if x != y:
            b = re.sub(r"\b%s\b" % re.escape(y), "\0RECV\0", b)
            b = re.sub(r"\b%s\b" % re.escape(x), "rt", b)
            b = b.replace("\0RECV\0", recv)
    pre = "let rt=&mut %s;let %s=&mut %s;" % (rt_path, recv, recv_path)
    # no aliases: self.rt.block_on(async move{self.ldap.f(..).await}) [possibly `let stream=...?;Ok(..)`]
    direct = "%s.block_on(async move{%s." % (rt_path, recv_path)
    if direct in b and not b.startswith(pre):
        b = pre + b.replace(direct, "rt.block_on(async move{%s." % recv)
    # no async block: rt.block_on(ldap.f(..))
    m = re.fullmatch(re.escape(pre) + r"rt\.block_on\(%s\.(\w+)\((.*)\)\)" % recv, b)
    if m and ".await" not in b:
        b = pre + "rt.block_on(async move{%s.%s(%s).await})" % (recv, m.group(1), m.group(2))
    return b


def classify_sync(owner, it):
    ps = param_names(it)
    env = {p: "(.param %d)" % i for i, p in enumerate(ps)}
    b = normalise_body(owner, it["body"])
    if it["is_async"]: raise Unparsable("async fn in sync.rs")
    pre = {"LdapConn": ("let rt=&mut self.rt;let ldap=&mut self.ldap;", "self.rt", "ldap"),
           "EntryStream": ("let rt=&mut self.conn.rt;let stream=&mut self.stream;", "self.conn.rt", "stream")}[owner]
    if b.startswith(pre[0]):
        rest = b[len(pre[0]):]
        call = r"rt\.block_on\(async move\{%s\.(\w+)\((.*)\)\.await\}\)" % pre[2]
        m = re.fullmatch(call, rest)
        if m: return '.blockOn "%s" %s "%s" %s .unchanged' % (pre[1], RECV[pre[2]], m.group(1), args_of(m.group(2), env))
        m = re.fullmatch(r"let stream=" + call + r"\?;Ok\(EntryStream\{stream,conn:self\}\)", rest)
        if m and owner == "LdapConn":
            return '.blockOn "%s" %s "%s" %s .entryStream' % (pre[1], RECV[pre[2]], m.group(1), args_of(m.group(2), env))
        raise Unparsable("block_on body %r" % rest)
    m = re.fullmatch(r"self\.ldap\.(\w+)=(.+);self", b)
    if m and owner == "LdapConn": return '.assign "%s" %s' % (m.group(1), expr(m.group(2), env))
    # `self.ldap.SETTER(ARGS); self` where SETTER is a one-line modifier of the async API
    # (`self.FIELD = VALUE; self`): the call is inlined, which gives the `assign` row again
    m = re.fullmatch(r"self\.ldap\.(\w+)\(([^;{}=]*)\);self", b)
    if m and owner == "LdapConn" and m.group(1) in LDAP_SETTERS:
        field, vtext, pnames = LDAP_SETTERS[m.group(1)]
        args = split_top(m.group(2))
        if len(args) == len(pnames):
            env2 = {pn: expr(a, env) for pn, a in zip(pnames, args)}
            return '.assign "%s" %s' % (field, expr(vtext, env2))
    m = re.fullmatch(r"(self\.ldap|self\.stream\.ldap_handle\(\)|self\.stream)\.(\w+)\(([^;{}=]*)\)", b)
    if m and "(" not in m.group(3).replace("()", ""):
        return '.direct %s "%s" %s' % (RECV[m.group(1)], m.group(2), args_of(m.group(3), env))
    m = re.fullmatch(r"self\.ldap\.([\w.]+\(\))", b)
    if m and owner == "LdapConn" and not ps: return '.inline .ldap "%s"' % m.group(1)
    d = classify_ctor(b, env, "")
    if d and owner == "LdapConn" and it["ret"] == "->Result<Self>": return d
    # the runtime is handed over on success; on failure it is either dropped (`?`) or shut down in the
    # background (fix F25: do not wait for a blocked name lookup) - both are the same `connect` row
    m = re.fullmatch(r"let rt=runtime::Builder::new_(\w+)\(\)\.enable_all\(\)\.build\(\)\?;let (?:ldap|res)=rt\.block_on\(async move\{"
                     r"let\(conn,ldap\)=(?:match (LdapConnAsync::\w+)\(([^(){}]*)\)\.await\{Ok\(\(conn,ldap\)\)=>\(conn,ldap\),"
                     r"Err\(e\)=>return Err\(e\),\}|(LdapConnAsync::\w+)\(([^(){}]*)\)\.await\?);(super::drive!\(conn\);)?"
                     r"Ok(?:::<_,LdapError>)?\(ldap\)\}\)(?:\?;Ok\(LdapConn\{ldap,rt\}\)|;match res\{Ok\(ldap\)=>Ok\(LdapConn\{ldap,rt\}\),"
                     r"Err\(e\)=>\{rt\.shutdown_background\(\);Err\(e\)\},?\},?)", b)
    if m and owner == "LdapConn" and it["ret"] == "->Result<Self>":
        callee, cargs = (m.group(2), m.group(3)) if m.group(2) else (m.group(4), m.group(5))
        return '.connect "%s" "%s" %s %s' % (m.group(1), callee, args_of(cargs, env), "true" if m.group(6) else "false")
    raise Unparsable("body %r" % b)


def classify_ctor(b, env, awaited):
    """`Self::f(args)` possibly after `let p = Url::parse(p)?;`"""
    m = re.fullmatch(r"let (\w+)=Url::parse\((\w+)\)\?;(.*)", b)
    if m and m.group(2) in env:
        env = dict(env); env[m.group(1)] = "(.urlParse %s)" % env[m.group(2)]
        b = m.group(3)
    m = re.fullmatch(r"Self::(\w+)\(([^;{}]*)\)" + awaited, b)
    if m: return '.delegate "%s" %s' % (m.group(1), args_of(m.group(2), env))
    return None


def q(s):
    return '"' + s.replace("\\", "\\\\").replace('"', '\\"') + '"'


def strs(xs):
    return "[" + ", ".join(q(x) for x in xs) + "]"


LDAP_SETTERS = {}


def read_ldap_setters():
    """one-line modifiers of `impl Ldap`: name -> (field, value text, parameter names)"""
    LDAP_SETTERS.clear()
    lfns, _ = pub_fns(mask(open(os.path.join(SRC, "ldap.rs")).read()), "Ldap", "ldap.rs")
    for it in lfns:
        if it["is_async"]: continue
        m = re.fullmatch(r"self\.(\w+)=(.+);self", it["body"])
        if m: LDAP_SETTERS[it["name"]] = (m.group(1), m.group(2), param_names(it))


def translate():
    rows, skipped = [], []
    read_ldap_setters()
    sync = mask(open(SYNC_RS).read())
    for owner in ("LdapConn", "EntryStream"):
        blocks = impl_blocks(sync, owner)
        if len(blocks) != 1 or blocks[0][0]: raise Unparsable("sync.rs: expected one plain `impl %s` block" % owner)
        for it in fn_items(blocks[0][1]):
            if it["vis"] != "pub": raise Unparsable("sync.rs: non-public fn %s::%s" % (owner, it["name"]))
            if any(a in SKIP_CFG for a in it["attrs"]):
                skipped.append("%s::%s" % (owner, it["name"])); continue
            try:
                if any(a.startswith("#[cfg(") for a in it["attrs"]): raise Unparsable("unexpected cfg %r" % it["attrs"])
                ps, body = param_names(it), classify_sync(owner, it)
            except Unparsable as e:
                PROBLEMS.append("%s::%s: %s" % (owner, it["name"], e))
                ps, body = [], ".unclassified " + q(str(e)[:200])
            rows.append("  ⟨%s, %s, %s, %s⟩" % (q(owner), q(it["name"]), strs(ps), body))
    # the async side
    lfns, lskip = pub_fns(mask(open(os.path.join(SRC, "ldap.rs")).read()), "Ldap", "ldap.rs")
    sfns, _ = pub_fns(mask(open(os.path.join(SRC, "search.rs")).read()), "SearchStream", "search.rs")
    cfns, _ = pub_fns(mask(open(os.path.join(SRC, "conn.rs")).read()), "LdapConnAsync", "conn.rs")
    setters, getters = [], []
    for it in lfns:
        if it["is_async"]: continue
        ps = param_names(it)
        env = {p: "(.param %d)" % i for i, p in enumerate(ps)}
        m = re.fullmatch(r"self\.(\w+)=(.+);self", it["body"])
        g = re.fullmatch(r"self\.([\w.]+(\(\))?)", it["body"])
        if m: setters.append("⟨%s, %s, %s⟩" % (q(it["name"]), q(m.group(1)), expr(m.group(2), env)))
        elif g and not ps: getters.append("(%s, %s)" % (q(it["name"]), q(g.group(1))))
        else: raise Unparsable("ldap.rs: non-async pub fn Ldap::%s is neither a field write nor a field read" % it["name"])
    ctors = []
    for it in cfns:
        if it["ret"] != "->Result<(Self,Ldap)>": continue
        if not it["is_async"]: raise Unparsable("conn.rs: non-async constructor %s" % it["name"])
        ps = param_names(it)
        env = {p: "(.param %d)" % i for i, p in enumerate(ps)}
        d = classify_ctor(it["body"], env, r"\.await")
        if d is None:  # the implementation itself: the opaque `LdapConnAsync::name(params)`
            d = '.connect "" "LdapConnAsync::%s" [%s] false' % (it["name"], ", ".join(env[p] for p in ps))
        ctors.append("⟨%s, %d, %s⟩" % (q(it["name"]), len(ps), d))
    meth = lambda fns: "[" + ", ".join("(%s, %s)" % (q(f["name"]), "true" if f["is_async"] else "false") for f in fns) + "]"
    return "\n".join([
        "/- GENERATED by translate/sync_table.py from /repo/src/{sync,ldap,search,conn}.rs -- do not edit;",
        "   regenerated by ./check on every run.  `$i` of the source expressions = `.param i`. -/",
        "import Ldap3V.Model.Sync", "namespace Ldap3V.Gen", "open Ldap3V.Sync", "",
        "/-- every `pub fn` of `impl LdapConn` and `impl EntryStream` in sync.rs, in source order -/",
        "def syncTable : List SyncEntry := [", ",\n".join(rows), "]", "",
        "/-- items left out because of cfg(feature = \"gssapi\" / \"ntlm\") -/",
        "def syncCfgSkipped : List String := " + strs(skipped), "",
        "/-- the async side, from ldap.rs / search.rs / conn.rs -/",
        "def asyncInfo : AsyncInfo where",
        "  ldapMethods := " + meth(lfns),
        "  streamMethods := " + meth(sfns),
        "  setters := [" + ", ".join(setters) + "]",
        "  getters := [" + ", ".join(getters) + "]",
        "  ctors := [" + ",\n    ".join(ctors) + "]", "",
        "def asyncCfgSkipped : List String := " + strs(lskip), "",
        "end Ldap3V.Gen", ""])


def main():
    try:
        text = translate()
    except (Unparsable, OSError, IndexError) as e:
        PROBLEMS.append("segmentation: %s" % e)
        text = "\n".join(["/- GENERATED by translate/sync_table.py: the sources could NOT be read -/",
                          "import Ldap3V.Model.Sync", "namespace Ldap3V.Gen", "open Ldap3V.Sync",
                          "def syncTable : List SyncEntry := [⟨\"?\", \"?\", [], .unclassified %s⟩]" % q(str(e)[:200]),
                          "def syncCfgSkipped : List String := []",
                          "def asyncInfo : AsyncInfo := ⟨[], [], [], [], []⟩",
                          "def asyncCfgSkipped : List String := []", "end Ldap3V.Gen", ""])
    os.makedirs(os.path.dirname(OUT), exist_ok=True)
    old = open(OUT).read() if os.path.exists(OUT) else None
    if old != text:
        with open(OUT, "w") as f:
            f.write(text)
    for p in PROBLEMS:
        print("sync_table.py: CANNOT CLASSIFY " + p)
    return 1 if PROBLEMS else 0


if __name__ == "__main__":
    sys.exit(main())

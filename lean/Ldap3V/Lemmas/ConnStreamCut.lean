/-
A search cut off by the end of the connection, spelled out: the frames under its ID are item frames
`its`, then nothing more or a frame the driver does not hand on (the one that ended the connection);
the script of its channel is `its…, closed`; a direct stream yields the items, `Err(EndOfStream)`,
then `Ok(None)` for ever, and `finish()` returns the synthetic rc 88 result.
-/
import Ldap3V.Lemmas.ConnStreamComplete
namespace Ldap3V.ConnStream
open Ldap3V Ldap3V.Stream Ldap3V.Stream.Spec

/-- `n + 1 + k` calls of `next()` then `finish()` on an active cursor without gains whose ending is a failure -/
theorem Cursor.run_nexts_fail_finish (ro : StartOut) : ∀ (rest : List Step) (c : Cursor) (e : Err) (k : Nat),
    c.state = .active → c.rest = rest → c.ending = .fail [] e → c.acc = [] → c.final = none → (∀ st ∈ rest, st.gain = []) →
    Cursor.run ro c (List.replicate (rest.length + 1 + k) .next ++ [.finish]) =
      rest.map (fun st => .item (.ok (some st.item))) ++ [.item (.err e)] ++ List.replicate k (.item (.ok none)) ++
        [.result cancelled] := by
  intro rest
  induction rest with
  | nil =>
    intro c e k hs hr he ha hf _
    have h1 : c.step ro .next = ({ c with state := .error, acc := c.acc ++ [] }, .item (.err e)) := by
      simp [Cursor.step, Cursor.next, hs, hr, he]
    simp only [List.length_nil, Nat.zero_add, List.map_nil, List.nil_append]
    rw [show 1 + k = k + 1 by omega, List.replicate_succ, List.cons_append, Cursor.run, h1]
    simp only [Output.stuck, Bool.false_eq_true, if_false, List.cons_append, List.cons.injEq, true_and]
    generalize hc' : ({ c with state := SState.error, acc := c.acc ++ [] } : Cursor) = c'
    have hs' : c'.state = .error := by rw [← hc']
    have ha' : c'.acc = [] := by rw [← hc']; simp [ha]
    have hf' : c'.final = none := by rw [← hc']; exact hf
    clear hc' h1
    induction k with
    | zero =>
      simp only [List.replicate_zero, List.nil_append, Cursor.run, Cursor.step, Cursor.finish, hs', hf', ha']
      simp [cancelled]
    | succ k ih =>
      rw [List.replicate_succ, List.cons_append, Cursor.run]
      have h2 : c'.step ro .next = (c', .item (.ok none)) := by simp [Cursor.step, Cursor.next, hs']
      rw [h2]
      simp only [Output.stuck, Bool.false_eq_true, if_false, List.replicate_succ, List.nil_append, List.cons_append,
        List.cons.injEq, true_and]
      simpa using ih
  | cons st tl ih =>
    intro c e k hs hr he ha hf hg
    have h1 : c.step ro .next = ({ c with rest := tl, pos := c.pos + 1, acc := c.acc ++ st.gain }, .item (.ok (some st.item))) := by
      simp [Cursor.step, Cursor.next, hs, hr]
    rw [show (st :: tl).length + 1 + k = (tl.length + 1 + k) + 1 by simp; omega, List.replicate_succ, List.cons_append,
      Cursor.run, h1]
    simp only [Output.stuck, Bool.false_eq_true, if_false, List.map_cons, List.cons_append, List.cons.injEq, true_and]
    exact ih _ e k hs rfl he (by simp [ha, hg st (by simp)]) hf (fun x hx => hg x (by simp [hx]))

/-- a direct stream on a script `items…, closed, …`: the items one by one, `Err(EndOfStream)`, `Ok(None)` as often
as asked, and `finish()` returns the synthetic "user cancelled" result -/
theorem run_direct_items_closed (h : Handle) (q : Query) (hq : q.filterOk = true) (items : List Item)
    (tl : List Recv) (ps : List Page) (k : Nat) :
    run (init [] h (.script (items.map .item ++ .closed :: tl) :: ps))
        (.start q :: (List.replicate (items.length + 1 + k) .next ++ [.finish])) =
      .started .ok :: (items.map (fun i => Output.item (.ok (some i))) ++ [.item (.err .endOfStream)] ++
        List.replicate k (.item (.ok none)) ++ [.result cancelled]) := by
  rw [refines_direct]
  have hso : startOutcome [] h q (.script (items.map .item ++ .closed :: tl) :: ps) = .ok := by simp [startOutcome, hq]
  rw [hso, Cursor.run]
  have hc : (Cursor.ofView (view [] (.script (items.map .item ++ .closed :: tl) :: ps))).step .ok (.start q) =
      ({ Cursor.ofView (view [] (.script (items.map .item ++ .closed :: tl) :: ps)) with state := .active }, .started .ok) := by
    simp [Cursor.step, Cursor.start, Cursor.ofView]
  rw [hc]
  simp only [Output.stuck, Bool.false_eq_true, if_false, List.cons.injEq, true_and]
  obtain ⟨h1, h2⟩ := rawView_items items (.closed :: tl)
  have hend : rawView (.closed :: tl) = ⟨[], .fail [] .endOfStream⟩ := rfl
  have := Cursor.run_nexts_fail_finish .ok (items.map fun i => (⟨[], i⟩ : Step))
    { Cursor.ofView (view [] (.script (items.map .item ++ .closed :: tl) :: ps)) with state := .active } .endOfStream k rfl
    (by simp [Cursor.ofView, view, h1, hend]) (by simp [Cursor.ofView, view, h2, hend]) rfl rfl
    (by intro st hst; simp only [List.mem_map] at hst; obtain ⟨i, _, rfl⟩ := hst; rfl)
  simp only [List.length_map, List.map_map] at this
  rw [this]
  simp [Function.comp_def]

/-- the frames stop short of a result: nothing more, or next a frame the driver does not hand on -/
def CutTail (tl : List Conn.Frame) : Prop := tl = [] ∨ ∃ g tl', tl = g :: tl' ∧ Conn.deliverable g = false

theorem deliverItems_cut (its tl : List Conn.Frame) (hi : ∀ f ∈ its, isItemOp f.op = true) (ht : CutTail tl) :
    deliverItems (its ++ tl) = its.map .entry := by
  rw [deliverItems_items_append its tl hi]
  rcases ht with rfl | ⟨g, tl', rfl, hg⟩
  · simp [deliverItems]
  · obtain ⟨h1, h2⟩ := bad_frame hg
    simp [deliverItems, h1, h2]

/-- the script of a complete channel whose search was cut off by the end of the driver -/
theorem fullScript_cut (D : Content) {s : Conn.St} {c : Nat} {ch : Conn.Chan} {o : Conn.Op} {p0 : Nat}
    (hwf : ChanWF s) (hc : s.chans[c]? = some ch) (hcomp : ChanComplete s ch o p0) (hd : s.drv ≠ .running)
    {its tl : List Conn.Frame} (hsent : sentFrom s p0 o.id = its ++ tl) (hi : ∀ f ∈ its, isItemOp f.op = true)
    (ht : CutTail tl) :
    fullScript D s c = (its.map (itemOf D)).map Recv.item ++ [.closed] := by
  rw [fullScript_eq hc, items_of_complete (hwf.get hc) hcomp, hsent, deliverItems_cut its tl hi ht]
  simp [recvOf, Function.comp_def, closedTail, hwf.closed_of_dead hd c]

end Ldap3V.ConnStream

/- C19, last sentence: a control list survives `build_tag` → BER → `parse_controls`, and
`parse_controls` reads every RFC 4511 encoding of a control list (absent criticality = false,
explicit FALSE/TRUE, absent value = none). -/
import Ldap3V.Lemmas.Codecs
namespace Ldap3V.Codecs
open Ldap3V Ldap3V.Spec

/-- what `parse_controls` attaches to a raw control: the `CONTROLS` lookup of its OID -/
def tagKnown (rc : RawControl) : Control := ⟨knownType rc.ctype, rc⟩

/-- the `controls [0]` element `LdapCodec::encode` builds from a control list -/
def controlsTlv (cs : List RawControl) : Tlv := .cons 2 0 (cs.map buildControl)

theorem parseControl_tlv (rc : RawControl) (t : Tlv) (h : Spec.ControlTlv rc t)
    (hu : utf8Valid rc.ctype = true) : parseControl t = some (tagKnown rc) := by
  obtain ⟨bl, hb, rfl⟩ := h
  cases rc with
  | mk oid crit val =>
    simp only at hu
    rcases hb with ⟨h1, rfl⟩ | ⟨b, ⟨x, rfl, hx⟩, rfl⟩
    · simp only at h1; subst h1
      cases val <;>
        simp [parseControl, tagKnown, Spec.optOctets, Tlv.expectCons, Tlv.expectPrim, Tlv.id, hu]
    · simp only at hx; subst hx
      cases val <;>
        simp [parseControl, tagKnown, Spec.optOctets, Tlv.expectCons, Tlv.expectPrim, Tlv.id, hu]

theorem parseControlList_tlv : (cs : List RawControl) → (ts : List Tlv) → Spec.ControlsList cs ts →
    (∀ c ∈ cs, utf8Valid c.ctype = true) → parseControlList ts = some (cs.map tagKnown)
  | [], [], _, _ => by simp [parseControlList]
  | [], _ :: _, h, _ => by simp [Spec.ControlsList] at h
  | _ :: _, [], h, _ => by simp [Spec.ControlsList] at h
  | c :: cs, t :: ts, h, hu => by
    obtain ⟨h1, h2⟩ := h
    have e1 := parseControl_tlv c t h1 (hu c (by simp))
    have e2 := parseControlList_tlv cs ts h2 (fun c' hc' => hu c' (by simp [hc']))
    simp [parseControlList, e1, e2]

theorem parseControls_tlv (cs : List RawControl) (t : Tlv) (h : Spec.ControlsTlv cs t)
    (hu : ∀ c ∈ cs, utf8Valid c.ctype = true) : parseControls t = some (cs.map tagKnown) := by
  obtain ⟨ts, hl, rfl⟩ := h
  simp [parseControls, Tlv.expectCons, parseControlList_tlv cs ts hl hu]

/-- `build_tag` emits one of the RFC 4511 encodings: criticality omitted when false, `FF` when true -/
theorem buildControl_spec (rc : RawControl) : Spec.ControlTlv rc (buildControl rc) := by
  cases rc with
  | mk oid crit val =>
    cases crit
    · exact ⟨[], Or.inl ⟨rfl, rfl⟩, by cases val <;> simp [buildControl, Spec.optOctets]⟩
    · exact ⟨[.prim 0 1 [0xFF]], Or.inr ⟨[0xFF], ⟨0xFF, rfl, rfl⟩, rfl⟩,
        by cases val <;> simp [buildControl, Spec.optOctets]⟩

theorem controlsList_build : (cs : List RawControl) → Spec.ControlsList cs (cs.map buildControl)
  | [] => trivial
  | c :: cs => ⟨buildControl_spec c, controlsList_build cs⟩

theorem controlsTlv_spec (cs : List RawControl) : Spec.ControlsTlv cs (controlsTlv cs) :=
  ⟨_, controlsList_build cs, rfl⟩

theorem controlTlv_depth (rc : RawControl) (t : Tlv) (h : Spec.ControlTlv rc t) : t.depth = 1 := by
  obtain ⟨bl, hb, rfl⟩ := h
  rcases hb with ⟨_, rfl⟩ | ⟨b, _, rfl⟩ <;> cases rc.val <;>
    simp [Spec.optOctets, Tlv.depth, Tlv.depthList]

theorem controlsList_depth : (cs : List RawControl) → (ts : List Tlv) → Spec.ControlsList cs ts →
    Tlv.depthList ts ≤ 1
  | [], [], _ => by simp [Tlv.depthList]
  | [], _ :: _, h => by simp [Spec.ControlsList] at h
  | _ :: _, [], h => by simp [Spec.ControlsList] at h
  | c :: cs, t :: ts, h => by
    have := controlTlv_depth c t h.1
    have := controlsList_depth cs ts h.2
    simp only [Tlv.depthList]; omega

theorem controlsTlv_depth (cs : List RawControl) (t : Tlv) (h : Spec.ControlsTlv cs t) :
    t.depth ≤ 2 := by
  obtain ⟨ts, hl, rfl⟩ := h
  have := controlsList_depth cs ts hl
  simp only [Tlv.depth]; omega

/-- the same, from the bytes of any definite-length encoding of the `controls [0]` element -/
theorem parseControls_bytes (cs : List RawControl) (t : Tlv) (bs rest : Bytes)
    (h : Spec.ControlsTlv cs t) (he : Enc t bs) (hl : (bs ++ rest).length < 18446744073709551616)
    (hu : ∀ c ∈ cs, utf8Valid c.ctype = true) :
    ∃ t', parseTag (bs ++ rest) = .ok t' rest ∧ parseControls t' = some (cs.map tagKnown) := by
  refine ⟨t, ?_, parseControls_tlv cs t h hu⟩
  have hd := controlsTlv_depth cs t h
  exact pTag_enc t bs _ 0 rest he (by simp at hl; omega) (by simp; omega) (by simp [maxDepth]; omega)

/-- a non-UTF-8 controlType is a decoding error (`String::from_utf8(..).ok()?`) -/
theorem parseControl_nonUtf8 (rc : RawControl) (t : Tlv) (h : Spec.ControlTlv rc t)
    (hu : utf8Valid rc.ctype = false) : parseControl t = none := by
  obtain ⟨bl, _, rfl⟩ := h
  simp [parseControl, Tlv.expectCons, Tlv.expectPrim, hu]

end Ldap3V.Codecs

/-
State-machine facts of Model.Stream that hold for EVERY adapter chain and every stream state:
what `finish` does, which state changes `next` and `start` can make.
-/
import Ldap3V.Lemmas.StreamSim
namespace Ldap3V.Stream

/-- the URIs the `EntriesOnly` adapters of the chain hold, in the order `finish` appends them -/
def chainRefs : List Adapter → List Bytes
  | [] => []
  | .entriesOnly refs :: rest => chainRefs rest ++ refs
  | .paged .. :: rest => chainRefs rest

/-- `finish` on a stream that is not closed: the stream ends up as `finish_inner` leaves it, whatever
the adapters; the result is `finish_inner`'s with the adapters' collected referrals appended -/
theorem finish_open (chain : List Adapter) (s : Stream) (h : s.state ≠ .closed) :
    (finish chain s).2.1 = (finishInner s).1 ∧
    (finish chain s).2.2 = { (finishInner s).2 with refs := (finishInner s).2.refs ++ chainRefs chain } := by
  induction chain with
  | nil => simp [finish, h, chainRefs]
  | cons a rest ih =>
    cases a with
    | entriesOnly refs => simp [finish, h, chainRefs, ih.1, ih.2]
    | paged size saved => simp [finish, h, chainRefs, ih.1, ih.2]

theorem finishInner_state (s : Stream) : (finishInner s).1.state = .closed := rfl

theorem finishInner_scrubs (s : Stream) :
    (finishInner s).1.scrubs = if s.state = .done then s.scrubs else s.scrubs ++ [s.reqs.length] := by
  simp only [finishInner]
  by_cases h : s.state = .done <;> simp [h]

theorem finishInner_result (s : Stream) : (finishInner s).2 = s.res.getD cancelled := rfl

/-- allowed state changes of one `next()` -/
def NextTrans (a b : SState) : Prop := b = a ∨ (a = .active ∧ (b = .done ∨ b = .error))

theorem NextTrans.refl (a : SState) : NextTrans a a := Or.inl rfl

theorem NextTrans.trans {a b c : SState} (h1 : NextTrans a b) (h2 : NextTrans b c) : NextTrans a c := by
  rcases h1 with rfl | ⟨ha, hb⟩
  · exact h2
  · rcases h2 with rfl | ⟨hb', _⟩
    · exact Or.inr ⟨ha, hb⟩
    · rcases hb with hb | hb <;> rw [hb] at hb' <;> cases hb'

theorem post_trans (top : Bool) (r : NextOut) (s : Stream) (h : s.state = .active) :
    NextTrans .active (post top r s).state := by
  unfold post
  split
  · split
    · exact Or.inr ⟨rfl, Or.inl rfl⟩
    · exact Or.inl h
  · exact Or.inr ⟨rfl, Or.inr rfl⟩
  · exact Or.inl h

theorem nextInner_state (s : Stream) : (nextInner s).1.state = s.state := by
  unfold nextInner
  split <;> rfl

theorem startInner_state_err (s : Stream) (q : Query) (e : Err) (h : (startInner s q).2 = .err e) :
    (startInner s q).1.state = s.state := by
  unfold startInner at h ⊢
  simp only at h ⊢
  split
  · rfl
  · rename_i hq
    simp only [hq] at h
    split <;> rename_i hp <;> simp only [hp] at h
    · cases h
    · rfl

theorem pageStart_state (sv : Saved) (cs : List RCtl) (s : Stream) : (pageStart sv cs s).1.state = s.state := by
  unfold pageStart
  simp only
  split <;> rfl

/-- whatever the chain and the fuel: one `next()` leaves the state alone or moves Active → Done / Error -/
theorem next_trans_all (f : Nat) :
    (∀ top chain s, NextTrans s.state (next f top chain s).2.1.state) ∧
    (∀ refs rest s, NextTrans s.state (eoLoop f refs rest s).2.2.1.state) ∧
    (∀ size saved rest s, NextTrans s.state (prLoop f size saved rest s).2.1.state) := by
  induction f with
  | zero =>
    refine ⟨fun top chain s => ?_, fun refs rest s => ?_, fun size saved rest s => ?_⟩
    · rw [next_zero]; exact .refl _
    · rw [eoLoop_zero]; exact .refl _
    · rw [prLoop_zero]; exact .refl _
  | succ f ih =>
    obtain ⟨ihn, ihe, ihp⟩ := ih
    have hpost : ∀ (top : Bool) (r : NextOut) (s s' : Stream), s.state = .active → NextTrans s.state s'.state →
        NextTrans s.state (post top r s').state := by
      intro top r s s' hs ht
      rcases ht with h | ⟨_, h⟩
      · rw [hs] at h ⊢; exact post_trans top r s' h
      · have : (post top r s').state = s'.state ∨ (post top r s').state = .error ∨ ((post top r s').state = .done) := by
          unfold post; split
          · split
            · exact Or.inr (Or.inr rfl)
            · exact Or.inl rfl
          · exact Or.inr (Or.inl rfl)
          · exact Or.inl rfl
        rw [hs]
        rcases this with h' | h' | h'
        · rw [h']; exact Or.inr ⟨rfl, h⟩
        · rw [h']; exact Or.inr ⟨rfl, Or.inr rfl⟩
        · rw [h']; exact Or.inr ⟨rfl, Or.inl rfl⟩
    refine ⟨fun top chain s => ?_, fun refs rest s => ?_, fun size saved rest s => ?_⟩
    · by_cases hs : s.state = .active
      · cases chain with
        | nil =>
          rw [next_nil _ _ _ hs]
          exact hpost _ _ _ _ hs (by rw [nextInner_state]; exact .refl _)
        | cons a rest =>
          cases a with
          | entriesOnly refs => rw [next_eo _ _ _ _ _ hs]; exact hpost _ _ _ _ hs (ihe _ _ _)
          | paged size saved => rw [next_pr _ _ _ _ _ _ hs]; exact hpost _ _ _ _ hs (ihp _ _ _ _)
      · rw [next_inactive _ _ _ _ hs]; exact .refl _
    · -- EntriesOnly::next
      rcases hn : next f false rest s with ⟨rest', s', r⟩
      have h1 : NextTrans s.state s'.state := by have := ihn false rest s; rw [hn] at this; exact this
      by_cases hr : ∃ it, r = .ok (some it)
      · obtain ⟨it, rfl⟩ := hr
        rcases hk : it.kind with _ | _ | _
        · rw [eoLoop_entry hn hk]; exact h1
        · cases hu : it.uris with
          | some us => rw [eoLoop_ref hn hk hu]; exact h1.trans (ihe _ _ _)
          | none => rw [eoLoop_badref hn hk hu]; exact h1
        · rw [eoLoop_inter hn hk]; exact h1.trans (ihe _ _ _)
      · rw [eoLoop_other hn (fun it h => hr ⟨it, h⟩)]; exact h1
    · -- PagedResults::next
      rcases hn : next f false rest s with ⟨rest', s', r⟩
      have h1 : NextTrans s.state s'.state := by have := ihn false rest s; rw [hn] at this; exact this
      by_cases hr : r = .ok none
      · subst hr
        cases hres : s'.res with
        | none => rw [prLoop_nores hn hres]; exact h1
        | some res =>
          cases hc : firstPaged res.ctrls with
          | none => rw [prLoop_nocontrol hn hres hc]; exact h1
          | some p =>
            obtain ⟨idx, c⟩ := p
            cases hv : c.cookie with
            | none => rw [prLoop_novalue hn hres hc hv]; exact h1
            | some ck =>
              by_cases hck : ck = []
              · subst hck; rw [prLoop_last hn hres hc hv]; exact h1
              · cases saved with
                | none => rw [prLoop_nosaved hn hres hc hv hck]; exact h1
                | some sv =>
                  cases hs : sv.h.ctrls with
                  | none => rw [prLoop_nosavedctrls hn hres hc hv hck hs]; exact h1
                  | some cs =>
                    rcases hp : pageStart sv (cs ++ [.paged size ck]) s' with ⟨s'', ro⟩
                    have h2 : s''.state = s'.state := by have := pageStart_state sv (cs ++ [.paged size ck]) s'; rw [hp] at this; exact this
                    cases ro with
                    | err e => rw [prLoop_starterr hn hres hc hv hck hs hp]; show NextTrans _ s''.state; rw [h2]; exact h1
                    | ok =>
                      rw [prLoop_more hn hres hc hv hck hs hp]
                      refine h1.trans ?_
                      have := ihp size (some sv) rest' s''
                      rw [h2] at this; exact this
      · rw [prLoop_pass hn hr]; exact h1

theorem post_err (top : Bool) (e : Err) (s : Stream) : (post top (.err e) s).state = .error := rfl
theorem post_none_top (s : Stream) : (post true (.ok none) s).state = .done := rfl

/-- an error returned by the outermost `next()` leaves the stream in state Error; `Ok(None)` in Done -/
theorem next_top_result (f : Nat) (chain : List Adapter) (s : Stream) (hs : s.state = .active) :
    (∀ e, (next (f + 1) true chain s).2.2 = .err e → (next (f + 1) true chain s).2.1.state = .error) ∧
    ((next (f + 1) true chain s).2.2 = .ok none → (next (f + 1) true chain s).2.1.state = .done) := by
  cases chain with
  | nil =>
    rw [next_nil _ _ _ hs]
    refine ⟨fun e h => ?_, fun h => ?_⟩
    · simp only at h ⊢; rw [h]; rfl
    · simp only at h ⊢; rw [h]; rfl
  | cons a rest =>
    cases a with
    | entriesOnly refs =>
      rw [next_eo _ _ _ _ _ hs]
      refine ⟨fun e h => ?_, fun h => ?_⟩
      · simp only at h ⊢; rw [h]; rfl
      · simp only at h ⊢; rw [h]; rfl
    | paged size saved =>
      rw [next_pr _ _ _ _ _ _ hs]
      refine ⟨fun e h => ?_, fun h => ?_⟩
      · simp only at h ⊢; rw [h]; rfl
      · simp only at h ⊢; rw [h]; rfl

theorem errState_ok (s : Stream) : errState s .ok = s := rfl
theorem errState_err (s : Stream) (e : Err) : (errState s (.err e)).state = .error := rfl

/-- `start`: only a Fresh stream starts; it becomes Active if `start` returns Ok, Error otherwise -/
theorem start_state (chain : List Adapter) (s : Stream) (q : Query) (h : s.state = .fresh) :
    ((start chain s q).2.2 = .ok → (start chain s q).2.1.state = .active) ∧
    (∀ e, (start chain s q).2.2 = .err e → (start chain s q).2.1.state = .error) := by
  induction chain generalizing s with
  | nil =>
    simp only [start, h, ne_eq, not_true_eq_false, if_false]
    unfold startInner
    simp only
    split
    · exact ⟨fun h => (by cases h), fun e _ => rfl⟩
    · split
      · exact ⟨fun _ => rfl, fun e h => (by cases h)⟩
      · exact ⟨fun h => (by cases h), fun e _ => rfl⟩
  | cons a rest ih =>
    cases a with
    | entriesOnly refs =>
      simp only [start, h, ne_eq, not_true_eq_false, if_false]
      refine ⟨fun hr => ?_, fun e hr => ?_⟩
      · rw [hr]; exact (ih s h).1 hr
      · rw [hr]; rfl
    | paged size saved =>
      simp only [start, h, ne_eq, not_true_eq_false, if_false]
      split
      · exact ⟨fun h => (by cases h), fun e _ => rfl⟩
      · refine ⟨fun hr => ?_, fun e hr => ?_⟩
        · rw [hr]; exact (ih _ rfl).1 hr
        · rw [hr]; rfl

end Ldap3V.Stream

/-
PagedResults chained with EntriesOnly: both chain orders present the same view; its closed form for
a well-formed page list.
-/
import Ldap3V.Lemmas.StreamPagedEo
import Ldap3V.Lemmas.StreamC16
namespace Ldap3V.Stream
open Spec

/-- entries-only reading of a view, with the URIs `g` in hand -/
def eoOf (g : List Bytes) (v : View) : View := eoSteps g v.steps v.ending

theorem eoOf_carry : ∀ (steps : List Step) (e : End) (a b : List Bytes),
    View.after [] a (eoOf b ⟨steps, e⟩) = eoOf (a ++ b) ⟨steps, e⟩ := by
  intro steps
  induction steps with
  | nil => intro e a b; simp [eoOf, eoSteps_nil, after_nil_eq, addGain_addGain]
  | cons st tl ih =>
    intro e a b
    simp only [eoOf] at ih ⊢
    rcases kind_cases st.item.kind with hk | hk | hk
    · rw [eoSteps_entry _ _ _ _ hk, eoSteps_entry _ _ _ _ hk, after_nil_eq]; simp
    · rw [eoSteps_inter _ _ _ _ hk, eoSteps_inter _ _ _ _ hk, List.append_assoc]; exact ih e a (b ++ st.gain)
    · cases hu : st.item.uris with
      | none => rw [eoSteps_badref _ _ _ _ hk hu, eoSteps_badref _ _ _ _ hk hu]; simp [after_nil_eq, End.addGain]
      | some us =>
        rw [eoSteps_ref _ _ _ _ _ hk hu, eoSteps_ref _ _ _ _ _ hk hu]
        have := ih e a (b ++ st.gain ++ us)
        simpa [List.append_assoc] using this

theorem eoOf_after (g g0 : List Bytes) (nx : View) :
    eoOf g (View.after [] g0 nx) = View.after [] (g ++ g0) (eoOf [] nx) := by
  obtain ⟨ns, ne⟩ := nx
  cases ns with
  | nil => simp [eoOf, after_nil_eq, eoSteps_nil, addGain_addGain, addGain_nil]
  | cons st tl =>
    rw [after_nil_eq]
    simp only [eoOf]
    rcases kind_cases st.item.kind with hk | hk | hk
    · rw [eoSteps_entry g ⟨g0 ++ st.gain, st.item⟩ tl ne hk, eoSteps_entry [] st tl ne hk, after_nil_eq]
      simp [List.append_assoc]
    · rw [eoSteps_inter g ⟨g0 ++ st.gain, st.item⟩ tl ne hk, eoSteps_inter [] st tl ne hk]
      have := eoOf_carry tl ne (g ++ g0) ([] ++ st.gain)
      simp only [eoOf] at this
      rw [this]; simp [List.append_assoc]
    · cases hu : st.item.uris with
      | none =>
        rw [eoSteps_badref g ⟨g0 ++ st.gain, st.item⟩ tl ne hk hu, eoSteps_badref [] st tl ne hk hu]
        simp [after_nil_eq, End.addGain]
      | some us =>
        rw [eoSteps_ref g ⟨g0 ++ st.gain, st.item⟩ tl ne us hk hu, eoSteps_ref [] st tl ne us hk hu]
        have := eoOf_carry tl ne (g ++ g0) ([] ++ st.gain ++ us)
        simp only [eoOf] at this
        rw [this]; simp [List.append_assoc]

/-- entries-only reading commutes with the continuation over page boundaries -/
theorem eoOf_pagedCont : ∀ (steps : List Step) (e : End) (g : List Bytes) (nx : View),
    eoOf g (pagedCont ⟨steps, e⟩ nx) = pagedCont (eoOf g ⟨steps, e⟩) (eoOf [] nx) := by
  intro steps
  induction steps with
  | nil =>
    intro e g nx
    cases e with
    | done g0 r =>
      simp only [pagedCont, eoOf, eoSteps_nil, End.addGain]
      cases pagingCookie r.ctrls with
      | none => simp [eoSteps_nil, End.addGain]
      | some o =>
        cases o with
        | none => simp [eoSteps_nil, End.addGain]
        | some ck =>
          simp only
          split
          · simp [eoSteps_nil, End.addGain]
          · have := eoOf_after g g0 nx
            simp only [eoOf] at this
            exact this
    | fail g0 e0 => simp [pagedCont, eoOf, eoSteps_nil, End.addGain]
    | pending => simp [pagedCont, eoOf, eoSteps_nil, End.addGain]
    | panic => simp [pagedCont, eoOf, eoSteps_nil, End.addGain]
  | cons st tl ih =>
    intro e g nx
    rw [pagedCont_cons]
    simp only [eoOf] at ih ⊢
    rcases kind_cases st.item.kind with hk | hk | hk
    · rw [eoSteps_entry _ _ _ _ hk, eoSteps_entry _ _ _ _ hk, pagedCont_cons, ih]
    · rw [eoSteps_inter _ _ _ _ hk, eoSteps_inter _ _ _ _ hk, ih]
    · cases hu : st.item.uris with
      | none => rw [eoSteps_badref _ _ _ _ hk hu, eoSteps_badref _ _ _ _ hk hu]; simp [pagedCont]
      | some us => rw [eoSteps_ref _ _ _ _ _ hk hu, eoSteps_ref _ _ _ _ _ hk hu, ih]

/-- the two chain orders present the same view, for every page list -/
theorem view_comm (pages : List Page) : view [.paged, .entriesOnly] pages = view [.entriesOnly, .paged] pages := by
  rw [view_paged_eo, view_eo_paged]
  show pagedView (eoRaw []) pages = eoOf [] (pagedView rawView pages)
  induction pages with
  | nil => simp [pagedView, eoOf, eoSteps_nil, End.addGain]
  | cons p ps ih =>
    cases p with
    | fail e => simp [pagedView, eoOf, eoSteps_nil, End.addGain]
    | script l =>
      rw [pagedView_script, pagedView_script, ih]
      rcases hv : rawView l with ⟨vs, ve⟩
      rw [eoOf_pagedCont]
      simp [eoRaw, eoOf, hv]

/-- closed form for a well-formed answer: the entries of all pages in order; the last page's result
without its first paging control; the URIs of all reference messages as gains -/
theorem view_eo_paged_concat (pre : List PageD) (last : PageD) (rest : List Page)
    (hpre : ∀ p ∈ pre, p.more) (hlast : last.last)
    (hwf : ∀ i ∈ (pre ++ [last]).flatMap (·.items), i.kind = .ref → i.uris ≠ none) :
    ∃ g', (view [.entriesOnly, .paged] (pre.map PageD.page ++ last.page :: rest)).ending =
        .done g' { last.res with ctrls := dropPaging last.res.ctrls } ∧
      (view [.entriesOnly, .paged] (pre.map PageD.page ++ last.page :: rest)).steps.map (·.item) =
        ((pre ++ [last]).flatMap (·.items)).filter (fun i => i.kind == .entry) ∧
      (view [.entriesOnly, .paged] (pre.map PageD.page ++ last.page :: rest)).steps.flatMap (·.gain) ++ g' =
        refUris ((pre ++ [last]).flatMap (·.items)) := by
  have hv := view_paged_concat pre last rest hpre hlast
  rw [view_paged] at hv
  rw [view_eo_paged, hv]
  obtain ⟨g', h1, h2, h3⟩ := eoRaw_items { last.res with ctrls := dropPaging last.res.ctrls } []
    ((pre ++ [last]).flatMap (·.items)) [] hwf
  have hraw : eoRaw [] (((pre ++ [last]).flatMap (·.items)).map .item ++ [.done { last.res with ctrls := dropPaging last.res.ctrls }]) =
      eoSteps [] (((pre ++ [last]).flatMap (·.items)).map (fun i => (⟨[], i⟩ : Step)))
        (.done [] { last.res with ctrls := dropPaging last.res.ctrls }) := by
    obtain ⟨r1, r2⟩ := rawView_items ((pre ++ [last]).flatMap (·.items)) [.done { last.res with ctrls := dropPaging last.res.ctrls }]
    simp only [eoRaw, r1, r2, rawView, List.append_nil]
  rw [hraw] at h1 h2 h3
  exact ⟨g', h1, h2, by simpa using h3⟩

end Ldap3V.Stream

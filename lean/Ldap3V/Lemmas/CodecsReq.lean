/- Request side of C19: the emitted value of every request control / extended request decodes, by the
RFC reader, to the struct it was built from. -/
import Ldap3V.Lemmas.Codecs
namespace Ldap3V.Codecs
open Ldap3V Ldap3V.Spec

/-- length of the emitted value (0 when absent) -/
def valLen (val : Option Bytes) : Nat := (val.getD []).length

theorem decodesTo_encode {α : Type} (f : Tlv → Option α) (t : Tlv) (v : α) (hlow : Low t)
    (hd : t.depth ≤ maxDepth) (hl : (encode t).length < 18446744073709551616) (hf : f t = some v) :
    Spec.DecodesTo f (some (encode t)) v := by
  obtain ⟨hb, he⟩ := ber_encode t hlow hd hl
  exact ⟨by simp [Spec.decVia, hb, hf], t, encode t, rfl, he, hf⟩

/-! ### PagedResults -/

theorem paged_val (v : PagedResults) :
    (encPagedResults v).val =
      some (encode (.cons 0 16 [.prim 0 2 (intOctets v.size), .prim 0 4 v.cookie])) := by
  simp [encPagedResults, berOf, Tag.seq, Tag.int, Tag.octets, Tag.toTlv, Tag.toTlvList]

theorem paged_req (v : PagedResults) (h0 : 0 ≤ v.size) (h1 : v.size ≤ 2147483647)
    (hl : valLen (encPagedResults v).val < 18446744073709551616) :
    Spec.DecodesTo Spec.pagedOfTlv (encPagedResults v).val v := by
  rw [paged_val] at hl ⊢
  refine decodesTo_encode _ _ _ (by simp [Low, LowList]) (by simp [Tlv.depth, Tlv.depthList, maxDepth])
    (by simpa [valLen] using hl) ?_
  cases v with
  | mk size cookie =>
    simp only at h0 h1
    simp [Spec.pagedOfTlv, intOf_intOctets size (by omega) (by omega), Spec.maxInt, h0, h1]

/-- a negative page size is emitted as a negative INTEGER, which `INTEGER (0..maxInt)` excludes:
the RFC reader rejects the value -/
theorem paged_req_negative (v : PagedResults) (h0 : v.size < 0) (h1 : -2147483648 ≤ v.size)
    (hl : valLen (encPagedResults v).val < 18446744073709551616) :
    Spec.decPaged (encPagedResults v).val = none := by
  rw [paged_val] at hl ⊢
  obtain ⟨hb, _⟩ := ber_encode (.cons 0 16 [.prim 0 2 (intOctets v.size), .prim 0 4 v.cookie])
    (by simp [Low, LowList]) (by simp [Tlv.depth, Tlv.depthList, maxDepth]) (by simpa [valLen] using hl)
  have hn : ¬ (0 ≤ v.size ∧ v.size ≤ Spec.maxInt) := by omega
  simp [Spec.decPaged, Spec.decVia, hb, Spec.pagedOfTlv, intOf_intOctets v.size (by omega) (by omega), hn]

/-! ### SyncRequest -/

def syncReqTlv (v : SyncRequest) : Tlv :=
  .cons 0 16 ([.prim 0 10 (intOctets v.mode.toInt)] ++
    (match v.cookie with | some c => [.prim 0 4 c] | none => []) ++
    (if v.reloadHint then [.prim 0 1 [0xFF]] else []))

theorem syncReq_val (v : SyncRequest) : (encSyncRequest v).val = some (encode (syncReqTlv v)) := by
  cases v with
  | mk mode cookie hint =>
    cases cookie <;> cases hint <;>
      simp [encSyncRequest, syncRequestTags, syncReqTlv, berOf, Tag.seq, Tag.enum, Tag.octets, Tag.bool,
        Tag.toTlv, Tag.toTlvList, boolOctet]

theorem modeOf_mode (m : RefreshMode) : Spec.modeOf (intOctets m.toInt) = some m := by
  cases m <;> decide

theorem syncReq_req (v : SyncRequest) (hl : valLen (encSyncRequest v).val < 18446744073709551616) :
    Spec.DecodesTo Spec.syncReqOfTlv (encSyncRequest v).val v := by
  rw [syncReq_val] at hl ⊢
  refine decodesTo_encode _ _ _ ?_ ?_ (by simpa [valLen] using hl) ?_
  · cases v with
    | mk mode cookie hint => cases cookie <;> cases hint <;> simp [syncReqTlv, Low, LowList]
  · cases v with
    | mk mode cookie hint =>
      cases cookie <;> cases hint <;> simp [syncReqTlv, Tlv.depth, Tlv.depthList, maxDepth]
  · cases v with
    | mk mode cookie hint =>
      cases cookie <;> cases hint <;>
        simp [syncReqTlv, Spec.syncReqOfTlv, modeOf_mode, Spec.boolOf]

/-! ### PreRead / PostRead -/

theorem readEntry_val (oid : Bytes) (attrs : List Bytes) :
    (encReadEntry oid attrs).val = some (encode (.cons 0 16 (attrs.map fun a => Tlv.prim 0 4 a))) := by
  simp [encReadEntry, berOf, Tag.seq, Tag.toTlv, toTlvList_octets]

theorem octetsList_prims (l : List Bytes) :
    Spec.octetsList (l.map fun a => Tlv.prim 0 4 a) = some l := by
  induction l with
  | nil => simp [Spec.octetsList]
  | cons x xs ih => simp [Spec.octetsList, ih]

theorem readEntry_req (oid : Bytes) (attrs : List Bytes)
    (hl : valLen (encReadEntry oid attrs).val < 18446744073709551616) :
    Spec.DecodesTo Spec.attrSelOfTlv (encReadEntry oid attrs).val attrs := by
  rw [readEntry_val] at hl ⊢
  refine decodesTo_encode _ _ _ ?_ ?_ (by simpa [valLen] using hl) ?_
  · simp [Low, lowList_prims]
  · simp [Tlv.depth, depthList_prims, maxDepth]
  · simp [Spec.attrSelOfTlv, octetsList_prims]

/-! ### Assertion / MatchedValues: the value is the encoding of the filter parser's tree -/

theorem assertion_req (t : Tlv) (hw : WF t) (hd : t.depth ≤ maxDepth)
    (hl : (encode t).length < 18446744073709551616) (hc : t.cls = 2 ∧ t.id ≤ 9) :
    Spec.DecodesTo Spec.filterOfTlv (some (encode t)) t := by
  have he := enc_encode t hw
  have hb := ber_enc t _ he hd hl
  have hf : Spec.filterOfTlv t = some t := by simp [Spec.filterOfTlv, hc]
  exact ⟨by simp [Spec.decVia, hb, hf], t, encode t, rfl, he, hf⟩

theorem matchedValues_req (ks : List Tlv) (hw : WF (.cons 0 16 ks))
    (hd : (Tlv.cons 0 16 ks).depth ≤ maxDepth)
    (hl : (encode (.cons 0 16 ks)).length < 18446744073709551616)
    (hc : ks.all Spec.isSimpleItem = true) :
    Spec.DecodesTo Spec.valuesReturnFilterOfTlv (some (encode (.cons 0 16 ks))) (.cons 0 16 ks) := by
  have he := enc_encode _ hw
  have hb := ber_enc _ _ he hd hl
  have hf : Spec.valuesReturnFilterOfTlv (.cons 0 16 ks) = some (.cons 0 16 ks) := by
    simp only [Spec.valuesReturnFilterOfTlv, hc, if_true]
  exact ⟨by simp only [Spec.decVia, hb, hf], _, _, rfl, he, hf⟩

/-! ### PasswordModify -/

def passModTlv (v : PasswordModify) : Tlv :=
  .cons 0 16 ((match v.userId with | some u => [.prim 2 0 u] | none => []) ++
    (match v.oldPass with | some o => [.prim 2 1 o] | none => []) ++
    (match v.newPass with | some n => [.prim 2 2 n] | none => []))

theorem passMod_val (v : PasswordModify) :
    (encPasswordModify v).val =
      if v.userId = none ∧ v.oldPass = none ∧ v.newPass = none then none
      else some (encode (passModTlv v)) := by
  cases v with
  | mk u o n =>
    cases u <;> cases o <;> cases n <;>
      simp [encPasswordModify, passModTags, passModTlv, berOf, Tag.seq, Tag.toTlv, Tag.toTlvList]

theorem passModOfTlv_tlv (v : PasswordModify) : Spec.passModOfTlv (passModTlv v) = some v := by
  cases v with
  | mk u o n =>
    cases u <;> cases o <;> cases n <;> simp [passModTlv, Spec.passModOfTlv, Spec.optCtx]

theorem passMod_low (v : PasswordModify) : Low (passModTlv v) ∧ (passModTlv v).depth ≤ maxDepth := by
  cases v with
  | mk u o n =>
    cases u <;> cases o <;> cases n <;>
      simp [passModTlv, Low, LowList, Tlv.depth, Tlv.depthList, maxDepth]

theorem passMod_req (v : PasswordModify)
    (hl : valLen (encPasswordModify v).val < 18446744073709551616) :
    Spec.decPassMod (encPasswordModify v).val = some v ∧
    ((encPasswordModify v).val = none ↔ (v.userId = none ∧ v.oldPass = none ∧ v.newPass = none)) ∧
    (∀ bs, (encPasswordModify v).val = some bs →
      ∃ t, Enc t bs ∧ Spec.passModOfTlv t = some v) := by
  rw [passMod_val] at hl ⊢
  by_cases h : v.userId = none ∧ v.oldPass = none ∧ v.newPass = none
  · simp only [h, and_self, if_true]
    refine ⟨?_, by simp, by simp⟩
    cases v with
    | mk u o n => simp only at h; obtain ⟨rfl, rfl, rfl⟩ := h; rfl
  · simp only [h, if_false] at hl ⊢
    obtain ⟨hlow, hdep⟩ := passMod_low v
    obtain ⟨h1, t, bs, e, he, hf⟩ := decodesTo_encode Spec.passModOfTlv (passModTlv v) v hlow hdep
      (by simpa [valLen] using hl) (passModOfTlv_tlv v)
    refine ⟨by simpa [Spec.decPassMod] using h1, by simp, ?_⟩
    intro bs' hbs
    simp only [Option.some.injEq] at e hbs
    subst e; subst hbs
    exact ⟨t, he, hf⟩

/-! ### EndTxn -/

def endTxnTlv (v : EndTxn) : Tlv :=
  .cons 0 16 ((if v.commit then [] else [.prim 0 1 [0x00]]) ++ [.prim 0 4 v.txnId])

theorem endTxn_val (v : EndTxn) : (encEndTxn v).val = some (encode (endTxnTlv v)) := by
  cases v with
  | mk i c =>
    cases c <;>
      simp [encEndTxn, endTxnTlv, berOf, Tag.seq, Tag.bool, Tag.octets, Tag.toTlv, Tag.toTlvList, boolOctet]

theorem endTxn_req (v : EndTxn) (hl : valLen (encEndTxn v).val < 18446744073709551616) :
    Spec.DecodesTo Spec.endTxnOfTlv (encEndTxn v).val v := by
  rw [endTxn_val] at hl ⊢
  refine decodesTo_encode _ _ _ ?_ ?_ (by simpa [valLen] using hl) ?_
  · cases v with
    | mk i c => cases c <;> simp [endTxnTlv, Low, LowList]
  · cases v with
    | mk i c => cases c <;> simp [endTxnTlv, Tlv.depth, Tlv.depthList, maxDepth]
  · cases v with
    | mk i c => cases c <;> simp [endTxnTlv, Spec.endTxnOfTlv, Spec.boolOf]

end Ldap3V.Codecs

/- INTEGER / ENUMERATED content octets: two's complement, minimal. -/
import Ldap3V.Lemmas.Ber
namespace Ldap3V
open Spec

@[simp] theorem toUInt8_mod (x : Nat) : (x % 256).toUInt8.toNat = x % 256 :=
  toUInt8_toNat _ (Nat.mod_lt _ (by decide))

theorem toBEk_length (k n : Nat) : (toBEk k n).length = k := by
  induction k generalizing n with
  | zero => rfl
  | succ k ih => simp [toBEk, ih]

theorem toBEk_drop (k c n : Nat) (h : c ≤ k) : (toBEk k n).drop (k - c) = toBEk c n := by
  induction k generalizing c n with
  | zero => have : c = 0 := by omega
            subst this; rfl
  | succ k ih =>
    by_cases hc : c = k + 1
    · subst hc; simp
    · obtain ⟨c', rfl⟩ | rfl : (∃ c', c = c' + 1) ∨ c = 0 := by
        cases c with
        | zero => exact Or.inr rfl
        | succ c' => exact Or.inl ⟨c', rfl⟩
      · have hle : k + 1 - (c' + 1) ≤ (toBEk k (n / 256)).length := by rw [toBEk_length]; omega
        simp only [toBEk]
        rw [List.drop_append_of_le_length hle]
        have : k + 1 - (c' + 1) = k - c' := by omega
        rw [this, ih c' (n / 256) (by omega)]
      · simp only [Nat.sub_zero]
        have := toBEk_length (k + 1) n
        rw [List.drop_of_length_le (by omega)]
        rfl

theorem beVal_toBEk (k n : Nat) : beVal (toBEk k n) = n % 256 ^ k := by
  induction k generalizing n with
  | zero => simp [toBEk, beVal, Nat.mod_one]
  | succ k ih =>
    simp only [toBEk]
    rw [beVal_append, ih]
    simp only [beVal, List.foldl_cons, List.foldl_nil, toUInt8_mod, List.length_singleton,
      Nat.zero_mul, Nat.zero_add, Nat.pow_one]
    rw [Nat.pow_succ, Nat.mul_comm (256 ^ k) 256, Nat.mod_mul]
    generalize n / 256 % 256 ^ k = A
    omega

theorem toBEk_succ_head (k n : Nat) :
    toBEk (k + 1) n = (n / 256 ^ k % 256).toUInt8 :: toBEk k n := by
  induction k generalizing n with
  | zero => simp [toBEk]
  | succ k ih =>
    rw [toBEk, ih (n / 256)]
    rw [Nat.div_div_eq_div_mul, ← Nat.pow_succ']
    simp [toBEk]

theorem twos_toBEk (k n : Nat) :
    twos (toBEk (k + 1) n) =
      if n / 256 ^ k % 256 ≥ 128 then ((n % 256 ^ (k + 1) : Nat) : Int) - (256 : Int) ^ (k + 1)
      else ((n % 256 ^ (k + 1) : Nat) : Int) := by
  have e := toBEk_succ_head k n
  have hl := toBEk_length (k + 1) n
  have hv := beVal_toBEk (k + 1) n
  rw [e] at hl hv ⊢
  simp only [twos, toUInt8_mod]
  rw [hv, hl]

theorem minimal_toBEk (k n : Nat) :
    Minimal (toBEk (k + 2) n) ↔
      ¬ (n / 256 ^ (k + 1) % 256 = 0 ∧ n / 256 ^ k % 256 < 128) ∧
      ¬ (n / 256 ^ (k + 1) % 256 = 255 ∧ n / 256 ^ k % 256 ≥ 128) := by
  rw [toBEk_succ_head (k + 1) n, toBEk_succ_head k n]
  simp [Minimal]

theorem sr (v : Int) (k : Nat) : v >>> k = v / ((2 : Int) ^ k) :=
  Int.shiftRight_eq_div_pow v k

theorem intOctets_eq (v : Int) (c : Nat) (h : intCount v 8 = c) (hc : c ≤ 8) :
    intOctets v = toBEk c (v % 18446744073709551616).toNat := by
  unfold intOctets toBE8
  rw [h, toBEk_drop 8 c _ hc]

/-- the loop result, characterised: `c` octets suffice and (if `c > 1`) `c - 1` do not -/
theorem intCount_cases (v : Int) (h1 : -9223372036854775808 ≤ v) (h2 : v < 9223372036854775808) :
    (intCount v 8 = 1 ∧ -128 ≤ v ∧ v < 128) ∨
    (intCount v 8 = 2 ∧ -32768 ≤ v ∧ v < 32768 ∧ ¬ (-128 ≤ v ∧ v < 128)) ∨
    (intCount v 8 = 3 ∧ -8388608 ≤ v ∧ v < 8388608 ∧ ¬ (-32768 ≤ v ∧ v < 32768)) ∨
    (intCount v 8 = 4 ∧ -2147483648 ≤ v ∧ v < 2147483648 ∧ ¬ (-8388608 ≤ v ∧ v < 8388608)) ∨
    (intCount v 8 = 5 ∧ -549755813888 ≤ v ∧ v < 549755813888 ∧ ¬ (-2147483648 ≤ v ∧ v < 2147483648)) ∨
    (intCount v 8 = 6 ∧ -140737488355328 ≤ v ∧ v < 140737488355328 ∧ ¬ (-549755813888 ≤ v ∧ v < 549755813888)) ∨
    (intCount v 8 = 7 ∧ -36028797018963968 ≤ v ∧ v < 36028797018963968 ∧
        ¬ (-140737488355328 ≤ v ∧ v < 140737488355328)) ∨
    (intCount v 8 = 8 ∧ ¬ (-36028797018963968 ≤ v ∧ v < 36028797018963968)) := by
  have e7 : (v / 36028797018963968 = v / 9223372036854775808) ↔ (-36028797018963968 ≤ v ∧ v < 36028797018963968) := by omega
  have e6 : (v / 140737488355328 = v / 9223372036854775808) ↔ (-140737488355328 ≤ v ∧ v < 140737488355328) := by omega
  have e5 : (v / 549755813888 = v / 9223372036854775808) ↔ (-549755813888 ≤ v ∧ v < 549755813888) := by omega
  have e4 : (v / 2147483648 = v / 9223372036854775808) ↔ (-2147483648 ≤ v ∧ v < 2147483648) := by omega
  have e3 : (v / 8388608 = v / 9223372036854775808) ↔ (-8388608 ≤ v ∧ v < 8388608) := by omega
  have e2 : (v / 32768 = v / 9223372036854775808) ↔ (-32768 ≤ v ∧ v < 32768) := by omega
  have e1 : (v / 128 = v / 9223372036854775808) ↔ (-128 ≤ v ∧ v < 128) := by omega
  simp only [intCount, sr]
  simp only [Nat.reduceMul, Nat.reduceAdd, Nat.reduceSub, Int.reducePow]
  simp only [e1, e2, e3, e4, e5, e6, e7]
  by_cases c7 : (-36028797018963968 ≤ v ∧ v < 36028797018963968)
  · rw [if_pos c7]
    by_cases c6 : (-140737488355328 ≤ v ∧ v < 140737488355328)
    · rw [if_pos c6]
      by_cases c5 : (-549755813888 ≤ v ∧ v < 549755813888)
      · rw [if_pos c5]
        by_cases c4 : (-2147483648 ≤ v ∧ v < 2147483648)
        · rw [if_pos c4]
          by_cases c3 : (-8388608 ≤ v ∧ v < 8388608)
          · rw [if_pos c3]
            by_cases c2 : (-32768 ≤ v ∧ v < 32768)
            · rw [if_pos c2]
              by_cases c1 : (-128 ≤ v ∧ v < 128)
              · rw [if_pos c1]; exact Or.inl ⟨rfl, c1.1, c1.2⟩
              · rw [if_neg c1]; exact Or.inr (Or.inl ⟨rfl, c2.1, c2.2, c1⟩)
            · rw [if_neg c2]; exact Or.inr (Or.inr (Or.inl ⟨rfl, c3.1, c3.2, c2⟩))
          · rw [if_neg c3]; exact Or.inr (Or.inr (Or.inr (Or.inl ⟨rfl, c4.1, c4.2, c3⟩)))
        · rw [if_neg c4]; exact Or.inr (Or.inr (Or.inr (Or.inr (Or.inl ⟨rfl, c5.1, c5.2, c4⟩))))
      · rw [if_neg c5]; exact Or.inr (Or.inr (Or.inr (Or.inr (Or.inr (Or.inl ⟨rfl, c6.1, c6.2, c5⟩)))))
    · rw [if_neg c6]; exact Or.inr (Or.inr (Or.inr (Or.inr (Or.inr (Or.inr (Or.inl ⟨rfl, c7.1, c7.2, c6⟩))))))
  · rw [if_neg c7]; exact Or.inr (Or.inr (Or.inr (Or.inr (Or.inr (Or.inr (Or.inr ⟨rfl, c7⟩))))))

theorem int_main (v : Int) (h1 : -9223372036854775808 ≤ v) (h2 : v < 9223372036854775808) :
    twos (intOctets v) = v ∧ Minimal (intOctets v) ∧ intOctets v ≠ [] := by
  generalize hn : (v % 18446744073709551616).toNat = n
  have hn' : (n : Int) = v % 18446744073709551616 := by omega
  have hne : ∀ k, toBEk (k + 1) n ≠ [] := fun k h => by
    have := toBEk_length (k + 1) n; rw [h] at this; simp at this
  rcases intCount_cases v h1 h2 with ⟨hc, a, b⟩ | ⟨hc, a, b, c⟩ | ⟨hc, a, b, c⟩ | ⟨hc, a, b, c⟩ |
      ⟨hc, a, b, c⟩ | ⟨hc, a, b, c⟩ | ⟨hc, a, b, c⟩ | ⟨hc, c⟩
  · rw [intOctets_eq v 1 hc (by omega), hn]
    refine ⟨?_, ?_, hne 0⟩
    · rw [twos_toBEk 0 n]; simp only [Nat.reducePow, Int.reducePow, Nat.reduceAdd]; split <;> omega
    · simp [toBEk, Minimal]
  · rw [intOctets_eq v 2 hc (by omega), hn]
    refine ⟨?_, ?_, hne 1⟩
    · rw [twos_toBEk 1 n]; simp only [Nat.reducePow, Int.reducePow, Nat.reduceAdd]; split <;> omega
    · rw [minimal_toBEk 0 n]; simp only [Nat.reducePow, Nat.reduceAdd]; omega
  · rw [intOctets_eq v 3 hc (by omega), hn]
    refine ⟨?_, ?_, hne 2⟩
    · rw [twos_toBEk 2 n]; simp only [Nat.reducePow, Int.reducePow, Nat.reduceAdd]; split <;> omega
    · rw [minimal_toBEk 1 n]; simp only [Nat.reducePow, Nat.reduceAdd]; omega
  · rw [intOctets_eq v 4 hc (by omega), hn]
    refine ⟨?_, ?_, hne 3⟩
    · rw [twos_toBEk 3 n]; simp only [Nat.reducePow, Int.reducePow, Nat.reduceAdd]; split <;> omega
    · rw [minimal_toBEk 2 n]; simp only [Nat.reducePow, Nat.reduceAdd]; omega
  · rw [intOctets_eq v 5 hc (by omega), hn]
    refine ⟨?_, ?_, hne 4⟩
    · rw [twos_toBEk 4 n]; simp only [Nat.reducePow, Int.reducePow, Nat.reduceAdd]; split <;> omega
    · rw [minimal_toBEk 3 n]; simp only [Nat.reducePow, Nat.reduceAdd]; omega
  · rw [intOctets_eq v 6 hc (by omega), hn]
    refine ⟨?_, ?_, hne 5⟩
    · rw [twos_toBEk 5 n]; simp only [Nat.reducePow, Int.reducePow, Nat.reduceAdd]; split <;> omega
    · rw [minimal_toBEk 4 n]; simp only [Nat.reducePow, Nat.reduceAdd]; omega
  · rw [intOctets_eq v 7 hc (by omega), hn]
    refine ⟨?_, ?_, hne 6⟩
    · rw [twos_toBEk 6 n]; simp only [Nat.reducePow, Int.reducePow, Nat.reduceAdd]; split <;> omega
    · rw [minimal_toBEk 5 n]; simp only [Nat.reducePow, Nat.reduceAdd]; omega
  · rw [intOctets_eq v 8 hc (by omega), hn]
    refine ⟨?_, ?_, hne 7⟩
    · rw [twos_toBEk 7 n]; simp only [Nat.reducePow, Int.reducePow, Nat.reduceAdd]; split <;> omega
    · rw [minimal_toBEk 6 n]; simp only [Nat.reducePow, Nat.reduceAdd]; omega

end Ldap3V

/- Completeness of search delivery: every kind of event, one by one (`StepSum`). -/
import Ldap3V.Lemmas.ConnCompleteStep
namespace Ldap3V.Conn

theorem sum_enqueue {s s' : St} {ob : Obs} (hk : KeyU s.searchmap) (hq : QInv s) (i : Nat) (tmo : Option Nat)
    (hs : step s (.enqueue i tmo) = some (s', ob)) : StepSum s s' := by
  simp only [step] at hs
  cases ho : s.ops[i]? with
  | none => rw [ho] at hs; cases hs
  | some o =>
    rw [ho] at hs
    simp only at hs
    split at hs
    · cases hs
    · next hph =>
      have hph : o.phase = .allocated := Decidable.not_not.mp hph
      have hni : i ∉ s.opQ := hq.not_mem ho (by rw [hph]; simp)
      have hfw : ∀ o' : Op, o'.id = o.id → FwdX (fun j => j = i) s.ops (s.ops.set i o') := fun o' hid =>
        fwdX_set _ _ i o o' ho hid (Or.inr ⟨rfl, fun h => by rw [hph] at h; cases h⟩)
      split at hs
      · simp only [Option.some.injEq, Prod.mk.injEq] at hs
        rw [← hs.1]
        exact StepSum.of_calm (Calm.simple (ChLe.refl _) (List.Sublist.refl _) rfl (hfw _ rfl)) hk hq
          (List.Sublist.refl _) (fun j hj e => hni (e ▸ hj))
      · simp only [Option.some.injEq, Prod.mk.injEq] at hs
        rw [← hs.1]
        refine ⟨hk, ⟨?_, ?_⟩, fun c => Or.inl ?_⟩
        rotate_left 2
        · refine Calm.quiet (X := fun j => j = i) ?_ c
          exact Calm.simple (ChLe.refl _) (List.Sublist.refl _) rfl (hfw _ rfl)
        · intro j hj
          simp only [List.mem_append, List.mem_singleton] at hj
          show ∃ o', (s.ops.set i _)[j]? = some o' ∧ _
          rw [get_set _ j ho]
          by_cases hji : j = i
          · rw [if_pos hji]; exact ⟨_, rfl, rfl⟩
          · rw [if_neg hji]
            rcases hj with hj | hj
            · exact hq.qPhase j hj
            · exact absurd hj hji
        · show (s.opQ ++ [i]).Nodup
          rw [List.nodup_append]
          refine ⟨hq.nodup, by simp, ?_⟩
          intro a ha b hb
          simp only [List.mem_singleton] at hb
          subst hb
          intro e; subst e; exact hni ha

theorem calm_poll {s : St} {i : Nat} {o : Op} (ho : s.ops[i]? = some o) (r : Option Res) (q : List Nat) (oc : Option Nat) :
    Calm (fun _ => False) s { s with ops := s.ops.set i { o with res := r }, scrubQ := q, chans := dropRxOf s.chans oc } :=
  Calm.simple (chLe_dropRx _ _) (List.Sublist.refl _) rfl (fwdX_set _ _ i o _ ho rfl (Or.inl rfl))

theorem sum_poll {s s' : St} {ob : Obs} (hk : KeyU s.searchmap) (hq : QInv s) (i : Nat)
    (hs : step s (.poll i) = some (s', ob)) : StepSum s s' := by
  simp only [step] at hs
  cases ho : s.ops[i]? with
  | none => rw [ho] at hs; cases hs
  | some o =>
    rw [ho] at hs
    simp only at hs
    have hset : ∀ (r : Option Res) (q : List Nat) (oc : Option Nat),
        StepSum s { s with ops := s.ops.set i { o with res := r }, scrubQ := q, chans := dropRxOf s.chans oc } := fun r q oc =>
      StepSum.of_calm (calm_poll ho r q oc) hk hq (List.Sublist.refl _) (fun _ _ h => h)
    have hsame : StepSum s s := StepSum.same hk hq rfl rfl rfl rfl rfl
    split at hs
    · cases hs
    · split at hs
      all_goals (try (simp only [Option.some.injEq, Prod.mk.injEq] at hs; rw [← hs.1];
                      first | exact hset _ s.scrubQ none | exact hset _ s.scrubQ o.chan | exact hsame))
      split at hs
      · split at hs
        · split at hs
          · simp only [Option.some.injEq, Prod.mk.injEq] at hs; rw [← hs.1]; exact hset _ _ _
          · simp only [Option.some.injEq, Prod.mk.injEq] at hs; rw [← hs.1]; exact hset _ s.scrubQ _
        · simp only [Option.some.injEq, Prod.mk.injEq] at hs; rw [← hs.1]; exact hsame
      · simp only [Option.some.injEq, Prod.mk.injEq] at hs; rw [← hs.1]; exact hsame

theorem sum_chanSet {s : St} (hk : KeyU s.searchmap) (hq : QInv s) {c : Nat} {ch : Chan} (hc : s.chans[c]? = some ch)
    (ch' : Chan) (hi : ch'.items = ch.items) (hx : ch'.opIdx = ch.opIdx) (ha : ch'.rxAlive = true → ch.rxAlive = true)
    (q : List Nat) : StepSum s { s with scrubQ := q, chans := s.chans.set c ch' } :=
  StepSum.of_calm (X := fun _ => False)
    (Calm.simple (chLe_set _ c ch ch' hc hi hx ha) (List.Sublist.refl _) rfl (FwdX.refl _ _)) hk hq
    (List.Sublist.refl _) (fun _ _ h => h)

theorem sum_recv {s s' : St} {ob : Obs} (hk : KeyU s.searchmap) (hq : QInv s) (c : Nat) (dl : Option Nat)
    (hs : step s (.recv c dl) = some (s', ob)) : StepSum s s' := by
  have hsame : StepSum s s := StepSum.same hk hq rfl rfl rfl rfl rfl
  simp only [step] at hs
  cases hc : s.chans[c]? with
  | none => rw [hc] at hs; cases hs
  | some ch =>
    rw [hc] at hs
    simp only at hs
    split at hs
    · cases hs
    · split at hs
      · cases hs
      · split at hs
        · simp only [Option.some.injEq, Prod.mk.injEq] at hs
          rw [← hs.1]
          exact sum_chanSet hk hq hc { ch with taken := ch.taken + 1 } rfl rfl (fun h => h) s.scrubQ
        · split at hs
          · simp only [Option.some.injEq, Prod.mk.injEq] at hs; rw [← hs.1]; exact hsame
          · split at hs
            · split at hs
              · split at hs
                · split at hs
                  · simp only [Option.some.injEq, Prod.mk.injEq] at hs; rw [← hs.1]
                    exact sum_chanSet hk hq hc { ch with timedOut := true } rfl rfl (fun h => h) _
                  · simp only [Option.some.injEq, Prod.mk.injEq] at hs; rw [← hs.1]; exact hsame
                · cases hs
              · simp only [Option.some.injEq, Prod.mk.injEq] at hs; rw [← hs.1]; exact hsame
            · simp only [Option.some.injEq, Prod.mk.injEq] at hs; rw [← hs.1]; exact hsame

theorem sum_finish {s s' : St} {ob : Obs} (hk : KeyU s.searchmap) (hq : QInv s) (c : Nat) (b : Bool)
    (hs : step s (.finish c b) = some (s', ob)) : StepSum s s' := by
  simp only [step] at hs
  cases hc : s.chans[c]? with
  | none => rw [hc] at hs; cases hs
  | some ch =>
    rw [hc] at hs
    simp only at hs
    split at hs
    · cases hs
    · split at hs
      · cases hs
      · split at hs
        · cases hs
        · simp only [Option.some.injEq, Prod.mk.injEq] at hs
          rw [← hs.1]
          exact sum_chanSet hk hq hc { ch with rxAlive := false, finScrub := b } rfl rfl (fun h => by cases h) _

theorem sum_drvScrub {s s' : St} {ob : Obs} (hk : KeyU s.searchmap) (hq : QInv s)
    (hs : step s .drvScrub = some (s', ob)) : StepSum s s' := by
  simp only [step] at hs
  split at hs
  · cases hs
  · split at hs
    · cases hs
    · simp only [Option.some.injEq, Prod.mk.injEq] at hs
      rw [← hs.1]
      exact StepSum.of_calm (X := fun _ => False)
        (Calm.simple (ChLe.refl _) (erase_sublist _ _) rfl (fwdX_dropSenderOpt _ _ _)) hk hq
        (List.Sublist.refl _) (fun _ _ h => h)

theorem consumed_srvSend {s : St} (hr : RouteInv s) (f : Frame) :
    consumed ({ s with srvLog := s.srvLog ++ [f] } : St) = consumed s :=
  List.take_append_of_le_length hr.posLe

end Ldap3V.Conn

/- Completeness of search delivery: every kind of event, one by one (`StepSum`). -/
import Ldap3V.Lemmas.ConnCompleteStep
namespace Ldap3V.Conn

theorem sum_enqueue {s s' : St} {ob : Obs} (hk : KeyU s.searchmap) (hq : QInv s) (i : Nat) (tmo : Option Nat)
    (hs : step s (.enqueue i tmo) = some (s', ob)) : StepSum s s' := by
  simp only [step] at hs
  cases ho : s.ops[i]? with
  | none => rw [ho] at hs; cases hs
  | some o =>
    rw [ho] at hs
    simp only at hs
    split at hs
    · cases hs
    · next hph =>
      have hph : o.phase = .allocated := Decidable.not_not.mp hph
      have hni : i ∉ s.opQ := hq.not_mem ho (by rw [hph]; simp)
      have hfw : ∀ o' : Op, o'.id = o.id → FwdX (fun j => j = i) s.ops (s.ops.set i o') := fun o' hid =>
        fwdX_set _ _ i o o' ho hid (Or.inr ⟨rfl, fun h => by rw [hph] at h; cases h⟩)
      split at hs
      · simp only [Option.some.injEq, Prod.mk.injEq] at hs
        rw [← hs.1]
        exact StepSum.of_calm (Calm.simple (ChLe.refl _) (List.Sublist.refl _) rfl (hfw _ rfl)) hk hq
          (List.Sublist.refl _) (fun j hj e => hni (e ▸ hj))
      · simp only [Option.some.injEq, Prod.mk.injEq] at hs
        rw [← hs.1]
        refine ⟨hk, ⟨?_, ?_⟩, fun c => Or.inl ?_⟩
        rotate_left 2
        · refine Calm.quiet (X := fun j => j = i) ?_ c
          exact Calm.simple (ChLe.refl _) (List.Sublist.refl _) rfl (hfw _ rfl)
        · intro j hj
          simp only [List.mem_append, List.mem_singleton] at hj
          show ∃ o', (s.ops.set i _)[j]? = some o' ∧ _
          rw [get_set _ j ho]
          by_cases hji : j = i
          · rw [if_pos hji]; exact ⟨_, rfl, rfl⟩
          · rw [if_neg hji]
            rcases hj with hj | hj
            · exact hq.qPhase j hj
            · exact absurd hj hji
        · show (s.opQ ++ [i]).Nodup
          rw [List.nodup_append]
          refine ⟨hq.nodup, by simp, ?_⟩
          intro a ha b hb
          simp only [List.mem_singleton] at hb
          subst hb
          intro e; subst e; exact hni ha

theorem calm_poll {s : St} {i : Nat} {o : Op} (ho : s.ops[i]? = some o) (r : Option Res) (q : List Nat) (oc : Option Nat) :
    Calm (fun _ => False) s { s with ops := s.ops.set i { o with res := r }, scrubQ := q, chans := dropRxOf s.chans oc } :=
  Calm.simple (chLe_dropRx _ _) (List.Sublist.refl _) rfl (fwdX_set _ _ i o _ ho rfl (Or.inl rfl))

theorem sum_poll {s s' : St} {ob : Obs} (hk : KeyU s.searchmap) (hq : QInv s) (i : Nat)
    (hs : step s (.poll i) = some (s', ob)) : StepSum s s' := by
  simp only [step] at hs
  cases ho : s.ops[i]? with
  | none => rw [ho] at hs; cases hs
  | some o =>
    rw [ho] at hs
    simp only at hs
    have hset : ∀ (r : Option Res) (q : List Nat) (oc : Option Nat),
        StepSum s { s with ops := s.ops.set i { o with res := r }, scrubQ := q, chans := dropRxOf s.chans oc } := fun r q oc =>
      StepSum.of_calm (calm_poll ho r q oc) hk hq (List.Sublist.refl _) (fun _ _ h => h)
    have hsame : StepSum s s := StepSum.same hk hq rfl rfl rfl rfl rfl
    split at hs
    · cases hs
    · split at hs
      all_goals (try (simp only [Option.some.injEq, Prod.mk.injEq] at hs; rw [← hs.1];
                      first | exact hset _ s.scrubQ none | exact hset _ s.scrubQ o.chan | exact hsame))
      split at hs
      · split at hs
        · split at hs
          · simp only [Option.some.injEq, Prod.mk.injEq] at hs; rw [← hs.1]; exact hset _ _ _
          · simp only [Option.some.injEq, Prod.mk.injEq] at hs; rw [← hs.1]; exact hset _ s.scrubQ _
        · simp only [Option.some.injEq, Prod.mk.injEq] at hs; rw [← hs.1]; exact hsame
      · simp only [Option.some.injEq, Prod.mk.injEq] at hs; rw [← hs.1]; exact hsame

theorem sum_chanSet {s : St} (hk : KeyU s.searchmap) (hq : QInv s) {c : Nat} {ch : Chan} (hc : s.chans[c]? = some ch)
    (ch' : Chan) (hi : ch'.items = ch.items) (hx : ch'.opIdx = ch.opIdx) (ha : ch'.rxAlive = true → ch.rxAlive = true)
    (q : List Nat) : StepSum s { s with scrubQ := q, chans := s.chans.set c ch' } :=
  StepSum.of_calm (X := fun _ => False)
    (Calm.simple (chLe_set _ c ch ch' hc hi hx ha) (List.Sublist.refl _) rfl (FwdX.refl _ _)) hk hq
    (List.Sublist.refl _) (fun _ _ h => h)

theorem sum_recv {s s' : St} {ob : Obs} (hk : KeyU s.searchmap) (hq : QInv s) (c : Nat) (dl : Option Nat)
    (hs : step s (.recv c dl) = some (s', ob)) : StepSum s s' := by
  have hsame : StepSum s s := StepSum.same hk hq rfl rfl rfl rfl rfl
  simp only [step] at hs
  cases hc : s.chans[c]? with
  | none => rw [hc] at hs; cases hs
  | some ch =>
    rw [hc] at hs
    simp only at hs
    split at hs
    · cases hs
    · split at hs
      · cases hs
      · split at hs
        · simp only [Option.some.injEq, Prod.mk.injEq] at hs
          rw [← hs.1]
          exact sum_chanSet hk hq hc { ch with taken := ch.taken + 1 } rfl rfl (fun h => h) s.scrubQ
        · split at hs
          · simp only [Option.some.injEq, Prod.mk.injEq] at hs; rw [← hs.1]; exact hsame
          · split at hs
            · split at hs
              · split at hs
                · split at hs
                  · simp only [Option.some.injEq, Prod.mk.injEq] at hs; rw [← hs.1]
                    exact sum_chanSet hk hq hc { ch with timedOut := true } rfl rfl (fun h => h) _
                  · simp only [Option.some.injEq, Prod.mk.injEq] at hs; rw [← hs.1]; exact hsame
                · cases hs
              · simp only [Option.some.injEq, Prod.mk.injEq] at hs; rw [← hs.1]; exact hsame
            · simp only [Option.some.injEq, Prod.mk.injEq] at hs; rw [← hs.1]; exact hsame

theorem sum_finish {s s' : St} {ob : Obs} (hk : KeyU s.searchmap) (hq : QInv s) (c : Nat) (b : Bool)
    (hs : step s (.finish c b) = some (s', ob)) : StepSum s s' := by
  simp only [step] at hs
  cases hc : s.chans[c]? with
  | none => rw [hc] at hs; cases hs
  | some ch =>
    rw [hc] at hs
    simp only at hs
    split at hs
    · cases hs
    · split at hs
      · cases hs
      · split at hs
        · cases hs
        · simp only [Option.some.injEq, Prod.mk.injEq] at hs
          rw [← hs.1]
          exact sum_chanSet hk hq hc { ch with rxAlive := false, finScrub := b } rfl rfl (fun h => by cases h) _

theorem sum_drvScrub {s s' : St} {ob : Obs} (hk : KeyU s.searchmap) (hq : QInv s)
    (hs : step s .drvScrub = some (s', ob)) : StepSum s s' := by
  simp only [step] at hs
  split at hs
  · cases hs
  · split at hs
    · cases hs
    · simp only [Option.some.injEq, Prod.mk.injEq] at hs
      rw [← hs.1]
      exact StepSum.of_calm (X := fun _ => False)
        (Calm.simple (ChLe.refl _) (erase_sublist _ _) rfl (fwdX_dropSenderOpt _ _ _)) hk hq
        (List.Sublist.refl _) (fun _ _ h => h)

theorem consumed_srvSend {s : St} (hr : RouteInv s) (f : Frame) :
    consumed ({ s with srvLog := s.srvLog ++ [f] } : St) = consumed s :=
  List.take_append_of_le_length hr.posLe

theorem fwdX_append (ops : List Op) (x : Op) : FwdX (fun _ => False) ops (ops ++ [x]) := by
  intro j o ho
  have hj : j < ops.length := (List.getElem?_eq_some_iff.mp ho).1
  exact ⟨o, by rw [List.getElem?_append_left hj]; exact ho, rfl, fun h => h, fun _ => rfl⟩

theorem sum_alloc {s s' : St} {ob : Obs} (hr : RouteInv s) (hk : KeyU s.searchmap) (hq : QInv s) (kind : Kind)
    (hs : step s (.alloc kind) = some (s', ob)) : StepSum s s' := by
  simp only [step] at hs
  cases hn : nextId s.N s.last s.inUse with
  | diverge => rw [hn] at hs; cases hs
  | panic =>
    rw [hn] at hs; simp only [Option.some.injEq, Prod.mk.injEq] at hs; rw [← hs.1]
    exact StepSum.same hk hq rfl rfl rfl rfl rfl
  | ok id =>
    rw [hn] at hs
    simp only [Option.some.injEq, Prod.mk.injEq] at hs
    obtain ⟨hs, _⟩ := hs
    subst hs
    refine ⟨hk, hq.of_fwdX (fwdX_append _ _) (List.Sublist.refl _) (fun _ _ h => h), fun c => Or.inl ?_⟩
    refine ⟨?_, ?_, fun k hk => hk, ⟨[], by simp [consumed], fun _ _ _ hf => by cases hf⟩, (fwdX_append _ _).fwd⟩
    · intro ch' hc'
      have hold : s.chans[c]? = some ch' → (∃ ch, s.chans[c]? = some ch ∧ ch'.items = ch.items ∧ ch'.opIdx = ch.opIdx ∧
          (ch'.rxAlive = true → ch.rxAlive = true)) := fun h => ⟨ch', h, rfl, rfl, fun h => h⟩
      cases kind <;> simp only at hc' <;> try exact Or.inl (hold hc')
      rw [get_append_one] at hc'
      split at hc'
      · exact Or.inl (hold hc')
      · split at hc'
        · next hlt hce =>
          right
          simp only [Option.some.injEq] at hc'
          subst hc'
          refine ⟨List.getElem?_eq_none (by omega), rfl, ?_, ?_⟩
          · intro k hkc
            obtain ⟨ch, _, hch, _⟩ := hr.sm (k, c) hkc
            have := (List.getElem?_eq_some_iff.mp hch).1
            simp only at this
            omega
          · exact ⟨{ id := id, kind := Kind.search, chan := some s.chans.length }, by simp, rfl⟩
        · cases hc'
    · intro ch hc
      have hlt : c < s.chans.length := (List.getElem?_eq_some_iff.mp hc).1
      refine ⟨ch, ?_, rfl⟩
      cases kind <;> simp only [hc]
      rw [List.getElem?_append_left hlt]; exact hc

/-- the frame just read is appended to channel `c0` -/
theorem sum_app {s s' : St} (hk : KeyU s.searchmap) (hq : QInv s) {c0 : Nat} {ch : Chan} {f : Frame}
    {item : Item} (hl : lookup s.searchmap f.id = some c0) (hc : s.chans[c0]? = some ch) (hal : ch.rxAlive = true)
    (hif : itemFrame item = f) (hcls : classOk item)
    (hchans : s'.chans = s.chans.set c0 { ch with items := ch.items ++ [item] })
    (hlog : consumed s' = consumed s ++ [f]) (hops : s'.ops = s.ops) (hopq : s'.opQ = s.opQ)
    (hsm : (isEntry item = true ∧ s'.searchmap = s.searchmap) ∨ (item = .done f ∧ s'.searchmap = erase s.searchmap f.id)) :
    StepSum s s' := by
  obtain ⟨k, hmem, hkid⟩ := lookup_some hl
  have hsub : s'.searchmap.Sublist s.searchmap := by
    rcases hsm with ⟨_, e⟩ | ⟨_, e⟩ <;> rw [e]
    · exact List.Sublist.refl _
    · exact erase_sublist _ _
  refine ⟨List.Pairwise.sublist hsub hk,
    hq.of_fwdX (X := fun _ => False) (by rw [hops]; exact FwdX.refl _ _) (by rw [hopq]; exact List.Sublist.refl _) (fun _ _ h => h),
    fun c => ?_⟩
  by_cases hcc : c = c0
  · subst hcc
    exact Or.inr (Or.inr ⟨ch, k, f, item, hc, hal, hmem, hkid.symm, hif, hcls, hchans, hlog, hops, hsm⟩)
  · left
    have hget : s'.chans[c]? = s.chans[c]? := by rw [hchans, List.getElem?_set_ne (Ne.symm hcc)]
    refine ⟨fun ch' hc' => Or.inl ⟨ch', by rw [← hget]; exact hc', rfl, rfl, fun h => h⟩,
      fun ch2 hc2 => ⟨ch2, by rw [hget]; exact hc2, rfl⟩, fun k' hk' => hsub.subset hk', ⟨[f], hlog, ?_⟩,
      by rw [hops]; exact Fwd.refl _⟩
    intro k' hk' g hg hid
    simp only [List.mem_singleton] at hg
    subst hg
    exact hcc (keyU_only hk hl (hsub.subset hk') hid)

theorem sum_route {s : St} (hr : RouteInv s) (hk : KeyU s.searchmap) (hq : QInv s) (c0 : Nat) (f : Frame)
    (hf : s.srvLog[s.pos]? = some f) (hl : lookup s.searchmap f.id = some c0) :
    StepSum s (routeSearch ({ s with pos := s.pos + 1 } : St) c0 f) := by
  have hcons : consumed ({ s with pos := s.pos + 1 } : St) = consumed s ++ [f] := take_succ_of_get hf
  obtain ⟨n, hmem, hn⟩ := lookup_some hl
  obtain ⟨ch, o, hch, ho, hid⟩ := hr.sm (n, c0) hmem
  simp only at hch ho hid
  unfold Conn.routeSearch
  generalize hcl : (if f.op = 4 ∨ f.op = 25 ∨ f.op = 19 then some (Item.entry f, false)
      else if f.op = 5 then (if f.good then some (Item.done f, true) else none) else none) = cl
  cases cl with
  | none =>
    exact StepSum.of_calm (X := fun j => j ∈ s.opQ)
      ⟨ChLe.refl _, List.nil_sublist _, ⟨[f], hcons, fun _ hp => by cases hp⟩, fwdX_endDriver ({ s with pos := s.pos + 1 } : St) .endedErr⟩ hk hq
      (List.nil_sublist _) (fun _ hj => by cases hj)
  | some pr =>
    obtain ⟨item, isDone⟩ := pr
    have hprop : ((isEntry item = true ∧ isDone = false) ∨ (item = .done f ∧ isDone = true)) ∧ itemFrame item = f ∧
        classOk item := by
      split at hcl
      · next h4 => cases hcl; exact ⟨Or.inl ⟨rfl, rfl⟩, rfl, h4⟩
      · split at hcl
        · next h5 =>
          split at hcl
          · next hg => cases hcl; exact ⟨Or.inr ⟨rfl, rfl⟩, rfl, h5, hg⟩
          · cases hcl
        · cases hcl
    simp only [hch]
    cases hal : ch.rxAlive with
    | false =>
      simp only [Bool.false_eq_true, if_false, Bool.not_false, Bool.or_true, if_true]
      refine StepSum.of_calm (X := fun _ => False)
        ⟨ChLe.refl _, erase_sublist _ _, ⟨[f], hcons, ?_⟩, FwdX.refl _ _⟩ hk hq (List.Sublist.refl _) (fun _ _ h => h)
      intro p hp g hg
      simp only [List.mem_singleton] at hg
      subst hg
      exact fun e => (mem_erase hp).2 e.symm
    | true =>
      simp only [if_true, Bool.not_true, Bool.or_false]
      have hset : modifyChan s.chans c0 (fun ch => { ch with items := ch.items ++ [item] }) =
          s.chans.set c0 { ch with items := ch.items ++ [item] } := by simp [modifyChan, hch]
      rcases hprop.1 with ⟨he, hd⟩ | ⟨he, hd⟩
      · subst hd
        simp only [Bool.false_eq_true, if_false]
        exact sum_app hk hq hl hch hal hprop.2.1 hprop.2.2 hset hcons rfl rfl (Or.inl ⟨he, rfl⟩)
      · subst hd
        simp only [if_true]
        exact sum_app hk hq hl hch hal hprop.2.1 hprop.2.2 hset hcons rfl rfl (Or.inr ⟨he, rfl⟩)

theorem sum_drvResp {s s' : St} {ob : Obs} (hr : RouteInv s) (hk : KeyU s.searchmap) (hq : QInv s)
    (hs : step s .drvResp = some (s', ob)) : StepSum s s' := by
  simp only [step] at hs
  split at hs
  · cases hs
  · cases hf : s.srvLog[s.pos]? with
    | none =>
      rw [hf] at hs
      simp only at hs
      split at hs
      · cases hs
      · simp only [Option.some.injEq, Prod.mk.injEq] at hs; rw [← hs.1]; exact StepSum.endDriver hk hq _
      · simp only [Option.some.injEq, Prod.mk.injEq] at hs; rw [← hs.1]; exact StepSum.endDriver hk hq _
    | some f =>
      rw [hf] at hs
      simp only at hs
      have hcons : consumed ({ s with pos := s.pos + 1 } : St) = consumed s ++ [f] := take_succ_of_get hf
      cases hl : lookup s.searchmap f.id with
      | some c =>
        rw [hl] at hs
        simp only [Option.some.injEq, Prod.mk.injEq] at hs
        rw [← hs.1]
        exact sum_route hr hk hq c f hf hl
      | none =>
        rw [hl] at hs
        simp only at hs
        have hnone : ∀ p ∈ s.searchmap, ∀ g ∈ [f], g.id ≠ (p.1 : Int) := by
          intro p hp g hg
          simp only [List.mem_singleton] at hg
          subst hg
          exact fun e => lookup_none hl p hp e.symm
        cases hrm : lookup s.resultmap f.id with
        | none =>
          rw [hrm] at hs
          simp only [Option.some.injEq, Prod.mk.injEq] at hs
          rw [← hs.1]
          exact StepSum.of_calm (X := fun _ => False)
            ⟨ChLe.refl _, List.Sublist.refl _, ⟨[f], hcons, hnone⟩, FwdX.refl _ _⟩ hk hq (List.Sublist.refl _) (fun _ _ h => h)
        | some i =>
          rw [hrm] at hs
          simp only [Option.some.injEq, Prod.mk.injEq] at hs
          rw [← hs.1]
          refine StepSum.of_calm (X := fun _ => False)
            ⟨ChLe.refl _, List.Sublist.refl _, ⟨[f], hcons, hnone⟩, fwdX_modify _ _ i _ ?_⟩ hk hq (List.Sublist.refl _) (fun _ _ h => h)
          intro o; split <;> exact ⟨rfl, rfl⟩

theorem sum_drvOp {s s' : St} {ob : Obs} (hr : RouteInv s) (hk : KeyU s.searchmap) (hq : QInv s) (sendOk : Bool)
    (hs : step s (.drvOp sendOk) = some (s', ob)) : StepSum s s' := by
  simp only [step] at hs
  split at hs
  · cases hs
  · split at hs
    · cases hs
    · next i rest hqe =>
      cases ho : s.ops[i]? with
      | none => rw [ho] at hs; cases hs
      | some o =>
        rw [ho] at hs
        simp only at hs
        have hiq : o.phase = .queued := by
          obtain ⟨o2, h1, h2⟩ := hq.qPhase i (by rw [hqe]; simp)
          rw [ho] at h1; cases h1; exact h2
        have hnd : i ∉ rest ∧ rest.Nodup := by
          have := hq.nodup
          rw [hqe, List.nodup_cons] at this
          exact this
        have hsub : rest.Sublist s.opQ := by rw [hqe]; exact List.sublist_cons_self _ _
        have hX : ∀ j ∈ rest, ¬ (j = i) := fun j hj e => hnd.1 (e ▸ hj)
        have t0 : ∀ o' : Op, o'.id = o.id → o'.phase = .taken → FwdX (fun j => j = i) s.ops (s.ops.set i o') :=
          fun o' hid hp => fwdX_set _ _ i o o' ho hid (Or.inr ⟨rfl, fun _ => hp⟩)
        split at hs
        · -- skipped
          simp only [Option.some.injEq, Prod.mk.injEq] at hs
          rw [← hs.1]
          exact StepSum.of_calm (X := fun j => j = i)
            (Calm.simple (ChLe.refl _) (List.Sublist.refl _) rfl ((t0 _ (by rfl) (by rfl)).trans (fwdX_dropSender _ _ _))) hk hq hsub hX
        · split at hs
          · -- write failed
            simp only [Option.some.injEq, Prod.mk.injEq] at hs
            rw [← hs.1]
            refine StepSum.of_calm (X := fun j => j = i ∨ j ∈ rest)
              (Calm.simple (ChLe.refl _) (List.nil_sublist _) rfl ?_) hk hq (List.nil_sublist _) (fun _ hj => by cases hj)
            refine FwdX.trans (b := dropSender (s.ops.set i { o with phase := .taken }) i) ?_ ?_
            · exact FwdX.trans ((t0 { o with phase := .taken } rfl rfl).weaken fun _ h => Or.inl h) (fwdX_dropSender _ _ _)
            · exact fwdX_endDriver' _ _ _ _ rfl (fun _ h => Or.inr h)
          · split at hs
            · cases hs
            · cases hkd : o.kind with
              | single =>
                simp only [hkd, Option.some.injEq, Prod.mk.injEq] at hs
                rw [← hs.1]
                exact StepSum.of_calm (X := fun j => j = i)
                  (Calm.simple (ChLe.refl _) (List.Sublist.refl _) rfl ((t0 _ (by rfl) (by rfl)).trans (fwdX_dropSenderOpt _ _ _))) hk hq hsub hX
              | search =>
                cases hch : o.chan with
                | none =>
                  simp only [hkd, hch, Option.some.injEq, Prod.mk.injEq] at hs
                  rw [← hs.1]
                  exact StepSum.of_calm (X := fun j => j = i)
                    (Calm.simple (ChLe.refl _) (List.Sublist.refl _) rfl ((t0 _ (by rfl) (by rfl)).trans (fwdX_ack _ _ _))) hk hq hsub hX
                | some c0 =>
                  simp only [hkd, hch, Option.some.injEq, Prod.mk.injEq] at hs
                  rw [← hs.1]
                  obtain ⟨ch0, hch0, hidx⟩ := hr.chanOf i o c0 ho hch
                  refine ⟨keyU_insert hk _ _,
                    hq.of_fwdX (X := fun j => j = i) ((t0 _ (by rfl) (by rfl)).trans (fwdX_ack _ _ _)) hsub hX, fun c => ?_⟩
                  by_cases hcc : c = c0
                  · subst hcc
                    right; left
                    refine ⟨⟨ch0, o, hch0, by rw [hidx]; exact ho, hiq⟩, rfl, rfl,
                      ((t0 _ (by rfl) (by rfl)).trans (fwdX_ack _ _ _)).fwd, ?_⟩
                    intro ch o' hc' ho'
                    have e : ch = ch0 := by
                      have h2 : s.chans[c]? = some ch := hc'
                      rw [hch0] at h2
                      exact (Option.some.inj h2).symm
                    subst e
                    rw [hidx] at ho'
                    simp only [modifyOp_get, if_pos, get_set _ i ho, Option.map_some, Option.some.injEq] at ho'
                    rw [← ho']
                  · left
                    refine ⟨fun ch' hc' => Or.inl ⟨ch', hc', rfl, rfl, fun h => h⟩, fun ch hc => ⟨ch, hc, rfl⟩, ?_,
                      ⟨[], by simp [consumed], fun _ _ _ hf => by cases hf⟩,
                      ((t0 _ (by rfl) (by rfl)).trans (fwdX_ack _ _ _)).fwd⟩
                    intro k hkc
                    rcases mem_insert hkc with e | ⟨hin, _⟩
                    · cases e; exact absurd rfl hcc
                    · exact hin
              | abandon t =>
                simp only [hkd, Option.some.injEq, Prod.mk.injEq] at hs
                rw [← hs.1]
                exact StepSum.of_calm (X := fun j => j = i)
                  (Calm.simple (ChLe.refl _) (erase_sublist _ _) rfl
                    (((t0 _ (by rfl) (by rfl)).trans (fwdX_dropSenderOpt _ _ _)).trans (fwdX_ack _ _ _))) hk hq hsub hX
              | unbind =>
                simp only [hkd, Option.some.injEq, Prod.mk.injEq] at hs
                rw [← hs.1]
                exact StepSum.of_calm (X := fun j => j = i)
                  (Calm.simple (ChLe.refl _) (List.Sublist.refl _) rfl ((t0 _ (by rfl) (by rfl)).trans (fwdX_ack _ _ _))) hk hq hsub hX

/-- every step, summarised -/
theorem StepSum.step {s s' : St} {ob : Obs} (hr : RouteInv s) (hk : KeyU s.searchmap) (hq : QInv s) (e : Ev)
    (hs : Conn.step s e = some (s', ob)) : StepSum s s' := by
  cases e with
  | alloc k => exact sum_alloc hr hk hq k hs
  | enqueue i t => exact sum_enqueue hk hq i t hs
  | poll i => exact sum_poll hk hq i hs
  | recv c d => exact sum_recv hk hq c d hs
  | finish c b => exact sum_finish hk hq c b hs
  | dropHandles =>
    simp only [Conn.step, Option.some.injEq, Prod.mk.injEq] at hs; rw [← hs.1]; exact StepSum.same hk hq rfl rfl rfl rfl rfl
  | drvScrub => exact sum_drvScrub hk hq hs
  | drvOp b => exact sum_drvOp hr hk hq b hs
  | drvOpClosed =>
    simp only [Conn.step] at hs
    split at hs
    · simp only [Option.some.injEq, Prod.mk.injEq] at hs; rw [← hs.1]; exact StepSum.endDriver hk hq _
    · cases hs
  | drvMiscClosed =>
    simp only [Conn.step] at hs
    split at hs
    · simp only [Option.some.injEq, Prod.mk.injEq] at hs; rw [← hs.1]; exact StepSum.endDriver hk hq _
    · cases hs
  | drvResp => exact sum_drvResp hr hk hq hs
  | srvSend f =>
    simp only [Conn.step] at hs
    split at hs
    · simp only [Option.some.injEq, Prod.mk.injEq] at hs; rw [← hs.1]
      exact StepSum.same hk hq rfl rfl rfl (consumed_srvSend hr f) rfl
    · cases hs
  | srvClose =>
    simp only [Conn.step] at hs
    split at hs
    · simp only [Option.some.injEq, Prod.mk.injEq] at hs; rw [← hs.1]; exact StepSum.same hk hq rfl rfl rfl rfl rfl
    · cases hs
  | srvGarbage =>
    simp only [Conn.step] at hs
    split at hs
    · simp only [Option.some.injEq, Prod.mk.injEq] at hs; rw [← hs.1]; exact StepSum.same hk hq rfl rfl rfl rfl rfl
    · cases hs
  | tick dt =>
    simp only [Conn.step, Option.some.injEq, Prod.mk.injEq] at hs; rw [← hs.1]; exact StepSum.same hk hq rfl rfl rfl rfl rfl

end Ldap3V.Conn

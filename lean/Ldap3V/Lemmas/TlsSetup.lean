/- Lemmas for C17: the establishment control flow of `TlsSetup.establish`, for every TLS library
(parameter), configuration and server behaviour. -/
import Ldap3V.Model.TlsSetup
import Ldap3V.Lemmas.Framing
namespace Ldap3V.TlsSetup
open Ldap3V

/-! ### stalls -/

theorem stall_cases (c : Cfg) : stall c = .hang ∨ stall c = .err .timeout := by
  unfold stall; split <;> simp

theorem stall_ne_okSecure (c : Cfg) : stall c ≠ .okSecure := by
  unfold stall; split <;> simp

theorem stall_ne_okPlain (c : Cfg) : stall c ≠ .okPlain := by
  unfold stall; split <;> simp

/-! ### the TLS phase: only the outcome, the stale bytes and `hasTls` change -/

theorem tlsPhase_fields (lib : TlsLib) (c : Cfg) (s : Server) (r : Result) (stale : Bytes) :
    let q := tlsPhase lib c s r stale
    q.cleartextWrites = r.cleartextWrites ∧ q.decoded = r.decoded ∧ q.consumed = r.consumed ∧
    q.discarded = r.discarded ∧ q.sessionBuf = r.sessionBuf ∧ q.tlsStale = stale := by
  simp only [tlsPhase]; split <;> simp

theorem tlsPhase_ok_iff (lib : TlsLib) (c : Cfg) (s : Server) (r : Result) (stale : Bytes) :
    (tlsPhase lib c s r stale).outcome = .okSecure ↔ lib stale s.peer c.verifyOff = .ok := by
  simp only [tlsPhase]
  split
  · next h => simp [h]
  · next h => simp [h]
  · next h => simp [h, stall_ne_okSecure]

theorem tlsPhase_not_okPlain (lib : TlsLib) (c : Cfg) (s : Server) (r : Result) (stale : Bytes) :
    (tlsPhase lib c s r stale).outcome ≠ .okPlain := by
  simp only [tlsPhase]
  split <;> simp [stall_ne_okPlain]

theorem tlsPhase_hasTls (lib : TlsLib) (c : Cfg) (s : Server) (r : Result) (stale : Bytes)
    (hr : r.hasTls = false) :
    ((tlsPhase lib c s r stale).hasTls = true ↔ (tlsPhase lib c s r stale).outcome = .okSecure) := by
  simp only [tlsPhase]
  split <;> simp [hr, stall_ne_okSecure]

theorem tlsPhase_outcome (lib : TlsLib) (c : Cfg) (s : Server) (r : Result) (stale : Bytes) :
    (tlsPhase lib c s r stale).outcome =
      (match lib stale s.peer c.verifyOff with
       | .ok => .okSecure | .error => .err .nativeTls | .pending => stall c) := by
  simp only [tlsPhase]; split <;> simp_all

/-! ### `Framed::poll_next` until one frame: conservation of bytes -/

theorem readFrame_frame (e : End) : ∀ (cs : List Bytes) (buf : Bytes) (id : Int) (op : Tlv) (ctl : List Control)
    (consumed rest : Bytes) (unread : List Bytes),
    readFrame e buf cs = .frame id op ctl consumed rest unread →
    buf ++ cs.flatten = consumed ++ rest ++ unread.flatten ∧
    decodeInner (consumed ++ rest) = .frame id op ctl consumed.length ∧ 2 ≤ consumed.length
  | [], buf, id, op, ctl, consumed, rest, unread, h => by
    unfold readFrame at h
    cases e <;> simp at h
    split at h <;> cases h
  | c :: cs, buf, id, op, ctl, consumed, rest, unread, h => by
    unfold readFrame at h
    cases hd : decodeInner (buf ++ c) with
    | needMore =>
      rw [hd] at h
      have ih := readFrame_frame e cs (buf ++ c) id op ctl consumed rest unread h
      refine ⟨?_, ih.2⟩
      rw [← ih.1]; simp
    | decodeError => rw [hd] at h; cases h
    | frame id' op' ctl' n =>
      rw [hd] at h
      simp only [ReadOut.frame.injEq] at h
      obtain ⟨h1, h2, h3, h4, h5, h6⟩ := h
      subst h1 h2 h3 h4 h5 h6
      have hn := decodeInner_frame_append (buf ++ c) [] id' op' ctl' n hd
      have hl : ((buf ++ c).take n).length = n := by
        rw [List.length_take]; omega
      refine ⟨?_, ?_, by omega⟩
      · simp [List.take_append_drop]
      · rw [List.take_append_drop, hl]; exact hd

/-- `poll_next` with a possibly non-empty buffer: same conservation -/
theorem nextFrame_frame (e : End) (cs : List Bytes) (buf : Bytes) (id : Int) (op : Tlv) (ctl : List Control)
    (consumed rest : Bytes) (unread : List Bytes)
    (h : nextFrame e buf cs = .frame id op ctl consumed rest unread) :
    buf ++ cs.flatten = consumed ++ rest ++ unread.flatten ∧
    decodeInner (consumed ++ rest) = .frame id op ctl consumed.length ∧ 2 ≤ consumed.length := by
  unfold nextFrame at h
  cases hd : decodeInner buf with
  | needMore => rw [hd] at h; exact readFrame_frame e cs buf id op ctl consumed rest unread h
  | decodeError => rw [hd] at h; cases h
  | frame id' op' ctl' n =>
    rw [hd] at h
    simp only [ReadOut.frame.injEq] at h
    obtain ⟨h1, h2, h3, h4, h5, h6⟩ := h
    subst h1 h2 h3 h4 h5 h6
    have hn := decodeInner_frame_append buf [] id' op' ctl' n hd
    have hl : (buf.take n).length = n := by rw [List.length_take]; omega
    refine ⟨by simp [List.take_append_drop], ?_, by omega⟩
    rw [List.take_append_drop, hl]; exact hd

theorem readFrame_pending (e : End) : ∀ (cs : List Bytes) (buf : Bytes), readFrame e buf cs = .pending → e = .silent
  | [], buf, h => by
    unfold readFrame at h
    cases e <;> simp at h
    · split at h <;> cases h
    · rfl
  | c :: cs, buf, h => by
    unfold readFrame at h
    cases hd : decodeInner (buf ++ c) with
    | needMore => rw [hd] at h; exact readFrame_pending e cs (buf ++ c) h
    | decodeError => rw [hd] at h; cases h
    | frame id' op' ctl' n => rw [hd] at h; cases h

theorem nextFrame_pending (e : End) (cs : List Bytes) (buf : Bytes) (h : nextFrame e buf cs = .pending) : e = .silent := by
  unfold nextFrame at h
  cases hd : decodeInner buf with
  | needMore => rw [hd] at h; exact readFrame_pending e cs buf h
  | decodeError => rw [hd] at h; cases h
  | frame id' op' ctl' n => rw [hd] at h; cases h

/-! ### the loop of the turn after the request -/

/-- the bytes still to be looked at shrink with every frame -/
theorem nextFrame_shrinks (e : End) (cs : List Bytes) (buf : Bytes) (id : Int) (op : Tlv) (ctl : List Control)
    (consumed rest : Bytes) (unread : List Bytes)
    (h : nextFrame e buf cs = .frame id op ctl consumed rest unread) :
    (rest ++ unread.flatten).length + 2 ≤ (buf ++ cs.flatten).length := by
  have c := nextFrame_frame e cs buf id op ctl consumed rest unread h
  rw [c.1]; simp only [List.length_append] at *; omega

/-- FUEL: any fuel above the number of bytes still to be looked at gives the same result; in
particular the `0` case of `awaitResponse` is never reached from `afterRequest` -/
theorem awaitResponse_fuel (e : End) : ∀ (f f' : Nat) (buf : Bytes) (cs : List Bytes) (sk : List (Int × Tlv)) (skb : Bytes),
    (buf ++ cs.flatten).length < f → (buf ++ cs.flatten).length < f' →
    awaitResponse e f buf cs sk skb = awaitResponse e f' buf cs sk skb
  | 0, _, _, _, _, _, h, _ => by omega
  | _ + 1, 0, _, _, _, _, _, h => by omega
  | f + 1, f' + 1, buf, cs, sk, skb, h, h' => by
    unfold awaitResponse
    cases hn : nextFrame e buf cs with
    | error => rfl
    | eof => rfl
    | pending => rfl
    | frame id op ctl consumed rest unread =>
      simp only
      split
      · rfl
      · have hs := nextFrame_shrinks e cs buf id op ctl consumed rest unread hn
        exact awaitResponse_fuel e f f' rest unread _ _ (by omega) (by omega)

/-- with enough fuel the turn waits only if the peer stays silent -/
theorem awaitResponse_waiting (e : End) : ∀ (f : Nat) (buf : Bytes) (cs : List Bytes) (sk : List (Int × Tlv)) (skb : Bytes)
    (sk' : List (Int × Tlv)) (skb' : Bytes), (buf ++ cs.flatten).length < f →
    awaitResponse e f buf cs sk skb = .waiting sk' skb' → e = .silent
  | 0, _, _, _, _, _, _, h, _ => by omega
  | f + 1, buf, cs, sk, skb, sk', skb', h, hw => by
    unfold awaitResponse at hw
    cases hn : nextFrame e buf cs with
    | error => rw [hn] at hw; cases hw
    | eof => rw [hn] at hw; cases hw
    | pending => exact nextFrame_pending e cs buf hn
    | frame id op ctl consumed rest unread =>
      rw [hn] at hw
      simp only at hw
      split at hw
      · cases hw
      · have hs := nextFrame_shrinks e cs buf id op ctl consumed rest unread hn
        exact awaitResponse_waiting e f rest unread _ _ sk' skb' (by omega) hw

/-- the response: what was skipped before it carries other IDs, and every byte is accounted for -/
theorem awaitResponse_response (e : End) : ∀ (f : Nat) (buf : Bytes) (cs : List Bytes) (sk : List (Int × Tlv)) (skb : Bytes)
    (op : Tlv) (sk' : List (Int × Tlv)) (skb' resp rest : Bytes) (unread : List Bytes),
    awaitResponse e f buf cs sk skb = .response op sk' skb' resp rest unread →
    ∃ mid midb ctl, sk' = sk ++ mid ∧ skb' = skb ++ midb ∧ (∀ x ∈ mid, x.1 ≠ 1) ∧
      buf ++ cs.flatten = midb ++ resp ++ rest ++ unread.flatten ∧
      decodeInner (resp ++ rest) = .frame 1 op ctl resp.length
  | 0, _, _, _, _, _, _, _, _, _, _, h => by unfold awaitResponse at h; cases h
  | f + 1, buf, cs, sk, skb, op, sk', skb', resp, rest, unread, h => by
    unfold awaitResponse at h
    cases hn : nextFrame e buf cs with
    | error => rw [hn] at h; cases h
    | eof => rw [hn] at h; cases h
    | pending => rw [hn] at h; cases h
    | frame id op0 ctl consumed rest0 unread0 =>
      rw [hn] at h
      simp only at h
      have c := nextFrame_frame e cs buf id op0 ctl consumed rest0 unread0 hn
      split at h
      · next hid =>
        simp only [Await.response.injEq] at h
        obtain ⟨h1, h2, h3, h4, h5, h6⟩ := h
        subst h1 h2 h3 h4 h5 h6 hid
        exact ⟨[], [], ctl, by simp, by simp, by simp, by simpa using c.1, c.2.1⟩
      · next hid =>
        obtain ⟨mid, midb, ctl', e1, e2, e3, e4, e5⟩ :=
          awaitResponse_response e f rest0 unread0 _ _ op sk' skb' resp rest unread h
        refine ⟨(id, op0) :: mid, consumed ++ midb, ctl', by simp [e1], by simp [e2], ?_, ?_, e5⟩
        · intro x hx
          cases hx with
          | head => exact hid
          | tail _ hx => exact e3 x hx
        · rw [c.1, List.append_assoc consumed rest0, e4]; simp

/-- one step of the loop: a frame for another ID is dropped and the turn goes on -/
theorem await_skip (e : End) (buf : Bytes) (cs : List Bytes) (sk : List (Int × Tlv)) (skb : Bytes)
    {id : Int} {op : Tlv} {ctl : List Control} {consumed rest : Bytes} {unread : List Bytes}
    (hn : nextFrame e buf cs = .frame id op ctl consumed rest unread) (hid : id ≠ 1) :
    await e buf cs sk skb = await e rest unread (sk ++ [(id, op)]) (skb ++ consumed) := by
  have hs := nextFrame_shrinks e cs buf id op ctl consumed rest unread hn
  unfold await
  rw [awaitResponse, hn]
  simp only [hid, if_false]
  exact awaitResponse_fuel e _ _ rest unread _ _ (by omega) (by omega)

/-- one step of the loop: the frame with the request's ID ends it -/
theorem await_hit (e : End) (buf : Bytes) (cs : List Bytes) (sk : List (Int × Tlv)) (skb : Bytes)
    {op : Tlv} {ctl : List Control} {consumed rest : Bytes} {unread : List Bytes}
    (hn : nextFrame e buf cs = .frame 1 op ctl consumed rest unread) :
    await e buf cs sk skb = .response op sk skb consumed rest unread := by
  unfold await
  rw [awaitResponse, hn]
  simp

/-! ### after the request has been written: one lemma per way the turn / `op_call` / `success()` ends -/

/-- the record built up to the point where the StartTLS response has been accepted -/
def okBase (op : Tlv) (sk : List (Int × Tlv)) (skb resp rest : Bytes) : Result :=
  { outcome := .hang, cleartextWrites := [startTlsReq], decoded := sk ++ [(1, op)], consumed := skb ++ resp,
    response := resp, discarded := rest }

section AfterRequest
variable (lib : TlsLib) (c : Cfg) (s : Server) (buf : Bytes) (cs : List Bytes) (sk0 : List (Int × Tlv)) (skb0 : Bytes)


theorem afterRequest_driverErr {sk : List (Int × Tlv)} {skb : Bytes} (h : await s.atEnd buf cs sk0 skb0 = .driverErr sk skb) :
    (afterRequest lib c s buf cs sk0 skb0).outcome = .err .driverEnded := by
  simp [afterRequest, h]

theorem afterRequest_waiting {sk : List (Int × Tlv)} {skb : Bytes} (h : await s.atEnd buf cs sk0 skb0 = .waiting sk skb) :
    (afterRequest lib c s buf cs sk0 skb0).outcome = stall c := by
  simp [afterRequest, h]

theorem afterRequest_panic {op : Tlv} {sk : List (Int × Tlv)} {skb resp rest : Bytes} {unread : List Bytes}
    (h : await s.atEnd buf cs sk0 skb0 = .response op sk skb resp rest unread) (hr : resultExt op = none) :
    (afterRequest lib c s buf cs sk0 skb0).outcome = .err .notLdapResult := by
  simp [afterRequest, h, hr]

theorem afterRequest_refused {op : Tlv} {sk : List (Int × Tlv)} {skb resp rest : Bytes} {unread : List Bytes} {r : ResultExt}
    (h : await s.atEnd buf cs sk0 skb0 = .response op sk skb resp rest unread) (hr : resultExt op = some r) (hrc : r.rc ≠ 0) :
    (afterRequest lib c s buf cs sk0 skb0).outcome = .err (.ldapResult r.rc) := by
  simp [afterRequest, h, hr, hrc]

/-- the StartTLS response is a success: everything up to the TLS phase is determined -/
theorem afterRequest_success {op : Tlv} {sk : List (Int × Tlv)} {skb resp rest : Bytes} {unread : List Bytes} {r : ResultExt}
    (h : await s.atEnd buf cs sk0 skb0 = .response op sk skb resp rest unread) (hr : resultExt op = some r) (hrc : r.rc = 0) :
    afterRequest lib c s buf cs sk0 skb0 = tlsPhase lib c s (okBase op sk skb resp rest) unread.flatten := by
  simp [afterRequest, h, hr, hrc, okBase]

theorem afterRequest_ok_iff :
    (afterRequest lib c s buf cs sk0 skb0).outcome = .okSecure ↔
      ∃ op sk skb resp rest unread r, await s.atEnd buf cs sk0 skb0 = .response op sk skb resp rest unread ∧
        resultExt op = some r ∧ r.rc = 0 ∧ lib unread.flatten s.peer c.verifyOff = .ok := by
  constructor
  · intro h
    cases hf : await s.atEnd buf cs sk0 skb0 with
    | driverErr sk skb => rw [afterRequest_driverErr lib c s buf cs sk0 skb0 hf] at h; cases h
    | waiting sk skb => rw [afterRequest_waiting lib c s buf cs sk0 skb0 hf] at h; exact absurd h (stall_ne_okSecure c)
    | response op sk skb resp rest unread =>
      cases hr : resultExt op with
      | none => rw [afterRequest_panic lib c s buf cs sk0 skb0 hf hr] at h; cases h
      | some r =>
        by_cases hrc : r.rc = 0
        · rw [afterRequest_success lib c s buf cs sk0 skb0 hf hr hrc, tlsPhase_ok_iff] at h
          exact ⟨op, sk, skb, resp, rest, unread, r, rfl, hr, hrc, h⟩
        · rw [afterRequest_refused lib c s buf cs sk0 skb0 hf hr hrc] at h; cases h
  · rintro ⟨op, sk, skb, resp, rest, unread, r, hf, hr, hrc, hl⟩
    rw [afterRequest_success lib c s buf cs sk0 skb0 hf hr hrc, tlsPhase_ok_iff]; exact hl

/-- invariants of every path after the request -/
theorem afterRequest_invariants :
    let q := afterRequest lib c s buf cs sk0 skb0
    q.cleartextWrites = [startTlsReq] ∧ q.sessionBuf = [] ∧ q.outcome ≠ .okPlain ∧
    (q.hasTls = true ↔ q.outcome = .okSecure) := by
  intro q
  cases hf : await s.atEnd buf cs sk0 skb0 with
  | driverErr sk skb => simp [q, afterRequest, hf]
  | waiting sk skb => simp [q, afterRequest, hf, stall_ne_okPlain, stall_ne_okSecure]
  | response op sk skb resp rest unread =>
    cases hr : resultExt op with
    | none => simp [q, afterRequest, hf, hr]
    | some r =>
      by_cases hrc : r.rc = 0
      · have e : q = tlsPhase lib c s (okBase op sk skb resp rest) unread.flatten :=
          afterRequest_success lib c s buf cs sk0 skb0 hf hr hrc
        have f := tlsPhase_fields lib c s (okBase op sk skb resp rest) unread.flatten
        rw [e]
        exact ⟨f.1, f.2.2.2.2.1, tlsPhase_not_okPlain _ _ _ _ _, tlsPhase_hasTls _ _ _ _ _ rfl⟩
      · simp [q, afterRequest, hf, hr, hrc]

end AfterRequest

/-! ### the events before the request -/

theorem preRequest_sent (e : End) : ∀ (k : Nat) (buf : Bytes) (cs : List Bytes) (sk : List (Int × Tlv)) (skb : Bytes)
    (buf' : Bytes) (cs' : List Bytes) (sk' : List (Int × Tlv)) (skb' : Bytes),
    preRequest e k buf cs sk skb = .sent buf' cs' sk' skb' →
    ∃ midb, skb' = skb ++ midb ∧ buf ++ cs.flatten = midb ++ buf' ++ cs'.flatten
  | 0, buf, cs, sk, skb, buf', cs', sk', skb', h => by
    unfold preRequest at h
    cases h
    exact ⟨[], by simp, by simp⟩
  | k + 1, buf, cs, sk, skb, buf', cs', sk', skb', h => by
    unfold preRequest at h
    cases hn : nextFrame e buf cs with
    | error => rw [hn] at h; cases h
    | eof => rw [hn] at h; cases h
    | pending => rw [hn] at h; cases h; exact ⟨[], by simp, by simp⟩
    | frame id op ctl consumed rest unread =>
      rw [hn] at h
      obtain ⟨midb, e1, e2⟩ := preRequest_sent e k rest unread _ _ buf' cs' sk' skb' h
      have c := nextFrame_frame e cs buf id op ctl consumed rest unread hn
      exact ⟨consumed ++ midb, by simp [e1], by rw [c.1, List.append_assoc consumed rest, e2]; simp⟩

theorem firstEvent_sent_flatten (s : Server) (buf : Bytes) (cs : List Bytes) (sk : List (Int × Tlv)) (skb : Bytes)
    (h : firstEvent s = .sent buf cs sk skb) : skb ++ buf ++ cs.flatten = s.chunks.flatten := by
  obtain ⟨midb, e1, e2⟩ := preRequest_sent s.atEnd s.early [] s.chunks [] [] buf cs sk skb h
  simp only [List.nil_append] at e1 e2
  rw [e1, e2]

theorem firstEvent_not_early (s : Server) (h : s.early = 0) : firstEvent s = .sent [] s.chunks [] [] := by
  simp [firstEvent, h, preRequest]

theorem answer_eq_some (s : Server) (x : Await) :
    answer s = some x ↔ ∃ buf cs sk skb, firstEvent s = .sent buf cs sk skb ∧
      await s.atEnd buf cs sk skb = x := by
  unfold answer
  cases firstEvent s with
  | sent buf cs sk skb =>
    simp only [Option.some.injEq]
    constructor
    · intro h; exact ⟨buf, cs, sk, skb, rfl, h⟩
    · rintro ⟨b, k, a1, a2, hb, h⟩; cases hb; exact h
  | endedErr sk skb => simp

theorem answer_not_early (s : Server) (h : s.early = 0) :
    answer s = some (await s.atEnd [] s.chunks [] []) := by
  simp [answer, firstEvent_not_early s h]

/-! ### the whole establishment -/

section Establish
variable (lib : TlsLib) (c : Cfg) (s : Server)

theorem establish_plain (hm : c.mode = .plain) : establish lib c s = { outcome := .okPlain } := by
  simp [establish, hm]

theorem establish_direct (hm : c.mode = .direct) :
    establish lib c s = tlsPhase lib c s { outcome := .hang } s.chunks.flatten := by
  simp [establish, hm]

theorem establish_startTls_sent (hm : c.mode = .startTls) {buf : Bytes} {cs : List Bytes} {sk : List (Int × Tlv)} {skb : Bytes}
    (hf : firstEvent s = .sent buf cs sk skb) : establish lib c s = afterRequest lib c s buf cs sk skb := by
  simp [establish, hm, startTls, hf]

/-- invariants of every path -/
theorem establish_invariants :
    let R := establish lib c s
    R.sessionBuf = [] ∧ (R.hasTls = true ↔ R.outcome = .okSecure) ∧
    (R.outcome = .okPlain ↔ c.mode = .plain) ∧
    (R.cleartextWrites = [] ∨ (R.cleartextWrites = [startTlsReq] ∧ c.mode = .startTls)) := by
  intro R
  cases hm : c.mode with
  | plain => simp [R, establish_plain lib c s hm]
  | direct =>
    have e : R = tlsPhase lib c s { outcome := .hang } s.chunks.flatten := establish_direct lib c s hm
    have f := tlsPhase_fields lib c s { outcome := .hang } s.chunks.flatten
    rw [e]
    exact ⟨f.2.2.2.2.1, tlsPhase_hasTls _ _ _ _ _ rfl, by simp [tlsPhase_not_okPlain], Or.inl f.1⟩
  | startTls =>
    cases hf : firstEvent s with
    | sent buf cs sk skb =>
      have e : R = afterRequest lib c s buf cs sk skb := establish_startTls_sent lib c s hm hf
      have i := afterRequest_invariants lib c s buf cs sk skb
      rw [e]
      exact ⟨i.2.1, i.2.2.2, by simp [i.2.2.1], Or.inr ⟨i.1, rfl⟩⟩
    | endedErr sk skb => simp [R, establish, hm, startTls, hf]

/-- EXACTLY when a handle over TLS is handed back -/
theorem establish_ok_iff :
    (establish lib c s).outcome = .okSecure ↔
      (c.mode = .direct ∧ lib s.chunks.flatten s.peer c.verifyOff = .ok) ∨
      (c.mode = .startTls ∧ ∃ op sk skb resp rest unread r,
          answer s = some (.response op sk skb resp rest unread) ∧ resultExt op = some r ∧ r.rc = 0 ∧
          lib unread.flatten s.peer c.verifyOff = .ok) := by
  cases hm : c.mode with
  | plain => simp [establish_plain lib c s hm]
  | direct => simp [establish_direct lib c s hm, tlsPhase_ok_iff]
  | startTls =>
    simp only [reduceCtorEq, false_and, false_or, true_and]
    cases hf : firstEvent s with
    | sent buf cs sk skb =>
      rw [establish_startTls_sent lib c s hm hf, afterRequest_ok_iff]
      simp [answer, hf]
    | endedErr sk skb => simp [establish, hm, startTls, hf, answer]

/-- the request was never written (the socket was served first and ended the turn with `Err`) -/
theorem establish_never_sent (hm : c.mode = .startTls) (ha : answer s = none) :
    (establish lib c s).cleartextWrites = [] ∧ (establish lib c s).outcome = .err .driverEnded := by
  cases hf : firstEvent s with
  | sent buf cs sk skb => simp [answer, hf] at ha
  | endedErr sk skb => simp [establish, hm, startTls, hf]

/-- how each kind of answer ends the establishment -/
theorem establish_answer (hm : c.mode = .startTls) (x : Await) (ha : answer s = some x) :
    (establish lib c s).cleartextWrites = [startTlsReq] ∧
    (∀ sk skb, x = .driverErr sk skb → (establish lib c s).outcome = .err .driverEnded) ∧
    (∀ sk skb, x = .waiting sk skb → (establish lib c s).outcome = stall c ∧ s.atEnd = .silent) ∧
    (∀ op sk skb resp rest unread, x = .response op sk skb resp rest unread →
      (resultExt op = none → (establish lib c s).outcome = .err .notLdapResult) ∧
      (∀ r, resultExt op = some r →
        (r.rc ≠ 0 → (establish lib c s).outcome = .err (.ldapResult r.rc)) ∧
        (r.rc = 0 → (establish lib c s).outcome =
          (match lib unread.flatten s.peer c.verifyOff with
           | .ok => .okSecure | .error => .err .nativeTls | .pending => stall c)))) := by
  obtain ⟨buf, cs, sk0, skb0, hf, hx⟩ := (answer_eq_some s x).mp ha
  rw [establish_startTls_sent lib c s hm hf]
  refine ⟨(afterRequest_invariants lib c s buf cs sk0 skb0).1, ?_, ?_, ?_⟩
  · intro sk skb h; exact afterRequest_driverErr lib c s buf cs sk0 skb0 (hx.trans h)
  · intro sk skb h
    exact ⟨afterRequest_waiting lib c s buf cs sk0 skb0 (hx.trans h),
      awaitResponse_waiting s.atEnd ((buf ++ cs.flatten).length + 1) buf cs sk0 skb0 sk skb (by omega)
        (by unfold await at hx; exact hx.trans h)⟩
  · intro op sk skb resp rest unread h
    have hr := hx.trans h
    refine ⟨fun hres => afterRequest_panic lib c s buf cs sk0 skb0 hr hres, fun r hres => ?_⟩
    refine ⟨fun hrc => afterRequest_refused lib c s buf cs sk0 skb0 hr hres hrc, fun hrc => ?_⟩
    rw [afterRequest_success lib c s buf cs sk0 skb0 hr hres hrc, tlsPhase_outcome]

/-- where every cleartext byte went when StartTLS establishment succeeds -/
theorem establish_ok_bytes (hm : c.mode = .startTls) (hok : (establish lib c s).outcome = .okSecure) :
    let R := establish lib c s
    ∃ pre preb op ctl r, R.decoded = pre ++ [(1, op)] ∧ R.consumed = preb ++ R.response ∧
      resultExt op = some r ∧ r.rc = 0 ∧
      s.chunks.flatten = R.consumed ++ R.discarded ++ R.tlsStale ∧
      decodeInner (R.response ++ R.discarded) = .frame 1 op ctl R.response.length ∧
      lib R.tlsStale s.peer c.verifyOff = .ok := by
  intro R
  cases hf : firstEvent s with
  | endedErr sk skb => simp [establish, hm, startTls, hf] at hok
  | sent buf cs sk0 skb0 =>
    have e : R = afterRequest lib c s buf cs sk0 skb0 := establish_startTls_sent lib c s hm hf
    rw [establish_startTls_sent lib c s hm hf, afterRequest_ok_iff] at hok
    obtain ⟨op, sk, skb, resp, rest, unread, r, haw, hr, hrc, hl⟩ := hok
    obtain ⟨mid, midb, ctl, e1, e2, _, e4, e5⟩ :=
      awaitResponse_response s.atEnd _ buf cs sk0 skb0 op sk skb resp rest unread (by unfold await at haw; exact haw)
    have f := tlsPhase_fields lib c s (okBase op sk skb resp rest) unread.flatten
    have hfl := firstEvent_sent_flatten s buf cs sk0 skb0 hf
    have hresp : (tlsPhase lib c s (okBase op sk skb resp rest) unread.flatten).response = resp := by
      simp only [tlsPhase]; split <;> simp [okBase]
    rw [e, afterRequest_success lib c s buf cs sk0 skb0 haw hr hrc]
    refine ⟨sk, skb, op, ctl, r, f.2.1, ?_, hr, hrc, ?_, ?_, ?_⟩
    · rw [f.2.2.1, hresp]; rfl
    · rw [f.2.2.1, f.2.2.2.1, f.2.2.2.2.2, ← hfl]
      simp only [okBase, e2]
      rw [List.append_assoc skb0 buf, e4]; simp
    · rw [hresp, f.2.2.2.1]; exact e5
    · rw [f.2.2.2.2.2]; exact hl

end Establish

/-! ### the reference library obeys the contract -/

theorem refLib_sound : TlsLib.Sound refLib := by
  intro stale p off h
  unfold refLib at h
  split at h
  · cases h
  · split at h
    · cases h
    · cases h
    · next hc =>
      split at h
      · next ho =>
        refine ⟨hc, fun hoff => ?_⟩
        subst hoff; simpa using ho
      · cases h

theorem refLib_ok_stale (stale : Bytes) (p : Peer) (off : Bool) (h : refLib stale p off = .ok) : stale = [] := by
  unfold refLib at h
  split at h
  · cases h
  · next hs => simpa using hs

end Ldap3V.TlsSetup

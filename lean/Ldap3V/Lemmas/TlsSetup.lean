/- Lemmas for C17: the establishment control flow of `TlsSetup.establish`, for every TLS library
(parameter), configuration and server behaviour. -/
import Ldap3V.Model.TlsSetup
import Ldap3V.Lemmas.Framing
namespace Ldap3V.TlsSetup
open Ldap3V

/-! ### stalls -/

theorem stall_cases (c : Cfg) : stall c = .hang ∨ stall c = .err .timeout := by
  unfold stall; split <;> simp

theorem stall_ne_okSecure (c : Cfg) : stall c ≠ .okSecure := by
  unfold stall; split <;> simp

theorem stall_ne_okPlain (c : Cfg) : stall c ≠ .okPlain := by
  unfold stall; split <;> simp

/-! ### the TLS phase: only the outcome, the stale bytes and `hasTls` change -/

theorem tlsPhase_fields (lib : TlsLib) (c : Cfg) (s : Server) (r : Result) (stale : Bytes) :
    let q := tlsPhase lib c s r stale
    q.cleartextWrites = r.cleartextWrites ∧ q.decoded = r.decoded ∧ q.consumed = r.consumed ∧
    q.discarded = r.discarded ∧ q.sessionBuf = r.sessionBuf ∧ q.tlsStale = stale := by
  simp only [tlsPhase]; split <;> simp

theorem tlsPhase_ok_iff (lib : TlsLib) (c : Cfg) (s : Server) (r : Result) (stale : Bytes) :
    (tlsPhase lib c s r stale).outcome = .okSecure ↔ lib stale s.peer c.verifyOff = .ok := by
  simp only [tlsPhase]
  split
  · next h => simp [h]
  · next h => simp [h]
  · next h => simp [h, stall_ne_okSecure]

theorem tlsPhase_not_okPlain (lib : TlsLib) (c : Cfg) (s : Server) (r : Result) (stale : Bytes) :
    (tlsPhase lib c s r stale).outcome ≠ .okPlain := by
  simp only [tlsPhase]
  split <;> simp [stall_ne_okPlain]

theorem tlsPhase_hasTls (lib : TlsLib) (c : Cfg) (s : Server) (r : Result) (stale : Bytes)
    (hr : r.hasTls = false) :
    ((tlsPhase lib c s r stale).hasTls = true ↔ (tlsPhase lib c s r stale).outcome = .okSecure) := by
  simp only [tlsPhase]
  split <;> simp [hr, stall_ne_okSecure]

theorem tlsPhase_outcome (lib : TlsLib) (c : Cfg) (s : Server) (r : Result) (stale : Bytes) :
    (tlsPhase lib c s r stale).outcome =
      (match lib stale s.peer c.verifyOff with
       | .ok => .okSecure | .error => .err .nativeTls | .pending => stall c) := by
  simp only [tlsPhase]; split <;> simp_all

/-! ### `Framed::poll_next` until one frame: conservation of bytes -/

theorem readFrame_frame (e : End) : ∀ (cs : List Bytes) (buf : Bytes) (id : Int) (op : Tlv) (ctl : List Control)
    (consumed rest : Bytes) (unread : List Bytes),
    readFrame e buf cs = .frame id op ctl consumed rest unread →
    buf ++ cs.flatten = consumed ++ rest ++ unread.flatten ∧
    decodeInner (consumed ++ rest) = .frame id op ctl consumed.length ∧ 2 ≤ consumed.length
  | [], buf, id, op, ctl, consumed, rest, unread, h => by
    unfold readFrame at h
    cases e <;> simp at h
    split at h <;> cases h
  | c :: cs, buf, id, op, ctl, consumed, rest, unread, h => by
    unfold readFrame at h
    cases hd : decodeInner (buf ++ c) with
    | needMore =>
      rw [hd] at h
      have ih := readFrame_frame e cs (buf ++ c) id op ctl consumed rest unread h
      refine ⟨?_, ih.2⟩
      rw [← ih.1]; simp
    | decodeError => rw [hd] at h; cases h
    | frame id' op' ctl' n =>
      rw [hd] at h
      simp only [ReadOut.frame.injEq] at h
      obtain ⟨h1, h2, h3, h4, h5, h6⟩ := h
      subst h1 h2 h3 h4 h5 h6
      have hn := decodeInner_frame_append (buf ++ c) [] id' op' ctl' n hd
      have hl : ((buf ++ c).take n).length = n := by
        rw [List.length_take]; omega
      refine ⟨?_, ?_, by omega⟩
      · simp [List.take_append_drop]
      · rw [List.take_append_drop, hl]; exact hd

/-! ### after the request has been written: one lemma per way the turn / `op_call` / `success()` ends -/

/-- the record built up to the point where the StartTLS response has been accepted -/
def okBase (op : Tlv) (consumed rest : Bytes) : Result :=
  { outcome := .hang, cleartextWrites := [startTlsReq], decoded := [(1, op)], consumed := consumed, discarded := rest }

section AfterRequest
variable (lib : TlsLib) (c : Cfg) (s : Server) (buf : Bytes) (cs : List Bytes)

theorem afterRequest_error (h : readFrame s.atEnd buf cs = .error) :
    (afterRequest lib c s buf cs).outcome = .err .driverEnded := by
  simp [afterRequest, h]

theorem afterRequest_eof (h : readFrame s.atEnd buf cs = .eof) :
    (afterRequest lib c s buf cs).outcome = stall c := by
  simp [afterRequest, h]

theorem afterRequest_pending (h : readFrame s.atEnd buf cs = .pending) :
    (afterRequest lib c s buf cs).outcome = stall c := by
  simp [afterRequest, h]

theorem afterRequest_foreign {id : Int} {op : Tlv} {ctl : List Control} {consumed rest : Bytes} {unread : List Bytes}
    (h : readFrame s.atEnd buf cs = .frame id op ctl consumed rest unread) (hid : id ≠ 1) :
    (afterRequest lib c s buf cs).outcome = stall c := by
  simp [afterRequest, h, hid]

theorem afterRequest_panic {op : Tlv} {ctl : List Control} {consumed rest : Bytes} {unread : List Bytes}
    (h : readFrame s.atEnd buf cs = .frame 1 op ctl consumed rest unread) (hr : resultExt op = none) :
    (afterRequest lib c s buf cs).outcome = .panic := by
  simp [afterRequest, h, hr]

theorem afterRequest_refused {op : Tlv} {ctl : List Control} {consumed rest : Bytes} {unread : List Bytes} {r : ResultExt}
    (h : readFrame s.atEnd buf cs = .frame 1 op ctl consumed rest unread) (hr : resultExt op = some r)
    (hrc : r.rc ≠ 0) :
    (afterRequest lib c s buf cs).outcome = .err (.ldapResult r.rc) := by
  simp [afterRequest, h, hr, hrc]

/-- the StartTLS response is a success: everything up to the TLS phase is determined -/
theorem afterRequest_success {op : Tlv} {ctl : List Control} {consumed rest : Bytes} {unread : List Bytes} {r : ResultExt}
    (h : readFrame s.atEnd buf cs = .frame 1 op ctl consumed rest unread) (hr : resultExt op = some r)
    (hrc : r.rc = 0) :
    afterRequest lib c s buf cs = tlsPhase lib c s (okBase op consumed rest) unread.flatten := by
  simp [afterRequest, h, hr, hrc, okBase]

theorem afterRequest_ok_iff :
    (afterRequest lib c s buf cs).outcome = .okSecure ↔
      ∃ op ctl consumed rest unread r, readFrame s.atEnd buf cs = .frame 1 op ctl consumed rest unread ∧
        resultExt op = some r ∧ r.rc = 0 ∧ lib unread.flatten s.peer c.verifyOff = .ok := by
  constructor
  · intro h
    cases hf : readFrame s.atEnd buf cs with
    | error => rw [afterRequest_error lib c s buf cs hf] at h; cases h
    | eof => rw [afterRequest_eof lib c s buf cs hf] at h; exact absurd h (stall_ne_okSecure c)
    | pending => rw [afterRequest_pending lib c s buf cs hf] at h; exact absurd h (stall_ne_okSecure c)
    | frame id op ctl consumed rest unread =>
      by_cases hid : id = 1
      · subst hid
        cases hr : resultExt op with
        | none => rw [afterRequest_panic lib c s buf cs hf hr] at h; cases h
        | some r =>
          by_cases hrc : r.rc = 0
          · rw [afterRequest_success lib c s buf cs hf hr hrc, tlsPhase_ok_iff] at h
            exact ⟨op, ctl, consumed, rest, unread, r, rfl, hr, hrc, h⟩
          · rw [afterRequest_refused lib c s buf cs hf hr hrc] at h; cases h
      · rw [afterRequest_foreign lib c s buf cs hf hid] at h; exact absurd h (stall_ne_okSecure c)
  · rintro ⟨op, ctl, consumed, rest, unread, r, hf, hr, hrc, hl⟩
    rw [afterRequest_success lib c s buf cs hf hr hrc, tlsPhase_ok_iff]; exact hl

/-- invariants of every path after the request -/
theorem afterRequest_invariants :
    let q := afterRequest lib c s buf cs
    q.cleartextWrites = [startTlsReq] ∧ q.sessionBuf = [] ∧ q.decoded.length ≤ 1 ∧ q.outcome ≠ .okPlain ∧
    (q.hasTls = true ↔ q.outcome = .okSecure) := by
  intro q
  cases hf : readFrame s.atEnd buf cs with
  | error => simp [q, afterRequest, hf]
  | eof => simp [q, afterRequest, hf, stall_ne_okPlain, stall_ne_okSecure]
  | pending => simp [q, afterRequest, hf, stall_ne_okPlain, stall_ne_okSecure]
  | frame id op ctl consumed rest unread =>
    by_cases hid : id = 1
    · subst hid
      cases hr : resultExt op with
      | none => simp [q, afterRequest, hf, hr]
      | some r =>
        by_cases hrc : r.rc = 0
        · have e : q = tlsPhase lib c s (okBase op consumed rest) unread.flatten :=
            afterRequest_success lib c s buf cs hf hr hrc
          have f := tlsPhase_fields lib c s (okBase op consumed rest) unread.flatten
          rw [e]
          refine ⟨f.1, f.2.2.2.2.1, ?_, tlsPhase_not_okPlain _ _ _ _ _, tlsPhase_hasTls _ _ _ _ _ rfl⟩
          rw [f.2.1]; simp [okBase]
        · simp [q, afterRequest, hf, hr, hrc]
    · simp [q, afterRequest, hf, hid, stall_ne_okPlain, stall_ne_okSecure]

end AfterRequest

/-! ### the first event of the turn -/

theorem firstEvent_sent_flatten (s : Server) (buf : Bytes) (cs : List Bytes) (h : firstEvent s = .sent buf cs) :
    buf ++ cs.flatten = s.chunks.flatten := by
  unfold firstEvent at h
  split at h
  · split at h
    · next hc => split at h <;> (try cases h) <;> simp [hc]
    · next ch rest hc => split at h <;> (try cases h) <;> simp [hc]
  · cases h; simp

theorem firstEvent_endedOk_len (s : Server) (d : List (Int × Tlv)) (k : Bytes) (h : firstEvent s = .endedOk d k) :
    d.length ≤ 1 := by
  unfold firstEvent at h
  split at h
  · split at h
    · split at h <;> (try cases h) <;> simp
    · split at h <;> (try cases h) <;> simp
  · cases h

theorem firstEvent_not_readFirst (s : Server) (h : s.readFirst = false) : firstEvent s = .sent [] s.chunks := by
  simp [firstEvent, h]

theorem answer_eq_some (s : Server) (x : ReadOut) :
    answer s = some x ↔ ∃ buf cs, firstEvent s = .sent buf cs ∧ readFrame s.atEnd buf cs = x := by
  unfold answer
  cases firstEvent s with
  | sent buf cs =>
    simp only [Option.some.injEq]
    constructor
    · intro h; exact ⟨buf, cs, rfl, h⟩
    · rintro ⟨b, k, hb, h⟩; cases hb; exact h
  | endedOk d k => simp
  | endedErr => simp

theorem answer_not_readFirst (s : Server) (h : s.readFirst = false) :
    answer s = some (readFrame s.atEnd [] s.chunks) := by
  simp [answer, firstEvent_not_readFirst s h]

/-! ### the whole establishment -/

section Establish
variable (lib : TlsLib) (c : Cfg) (s : Server)

theorem establish_plain (hm : c.mode = .plain) : establish lib c s = { outcome := .okPlain } := by
  simp [establish, hm]

theorem establish_direct (hm : c.mode = .direct) :
    establish lib c s = tlsPhase lib c s { outcome := .hang } s.chunks.flatten := by
  simp [establish, hm]

theorem establish_startTls_sent (hm : c.mode = .startTls) {buf : Bytes} {cs : List Bytes}
    (hf : firstEvent s = .sent buf cs) : establish lib c s = afterRequest lib c s buf cs := by
  simp [establish, hm, startTls, hf]

/-- invariants of every path -/
theorem establish_invariants :
    let R := establish lib c s
    R.sessionBuf = [] ∧ R.decoded.length ≤ 1 ∧ (R.hasTls = true ↔ R.outcome = .okSecure) ∧
    (R.outcome = .okPlain ↔ c.mode = .plain) ∧
    (R.cleartextWrites = [] ∨ (R.cleartextWrites = [startTlsReq] ∧ c.mode = .startTls)) := by
  intro R
  cases hm : c.mode with
  | plain => simp [R, establish_plain lib c s hm]
  | direct =>
    have e : R = tlsPhase lib c s { outcome := .hang } s.chunks.flatten := establish_direct lib c s hm
    have f := tlsPhase_fields lib c s { outcome := .hang } s.chunks.flatten
    rw [e]
    refine ⟨f.2.2.2.2.1, ?_, tlsPhase_hasTls _ _ _ _ _ rfl, ?_, Or.inl f.1⟩
    · rw [f.2.1]; simp
    · simp [tlsPhase_not_okPlain]
  | startTls =>
    cases hf : firstEvent s with
    | sent buf cs =>
      have e : R = afterRequest lib c s buf cs := establish_startTls_sent lib c s hm hf
      have i := afterRequest_invariants lib c s buf cs
      rw [e]
      exact ⟨i.2.1, i.2.2.1, i.2.2.2.2, by simp [i.2.2.2.1], Or.inr ⟨i.1, rfl⟩⟩
    | endedOk d k =>
      have hl := firstEvent_endedOk_len s d k hf
      simp [R, establish, hm, startTls, hf, hl, stall_ne_okPlain, stall_ne_okSecure]
    | endedErr => simp [R, establish, hm, startTls, hf]

/-- EXACTLY when a handle over TLS is handed back -/
theorem establish_ok_iff :
    (establish lib c s).outcome = .okSecure ↔
      (c.mode = .direct ∧ lib s.chunks.flatten s.peer c.verifyOff = .ok) ∨
      (c.mode = .startTls ∧ ∃ op ctl consumed rest unread r,
          answer s = some (.frame 1 op ctl consumed rest unread) ∧ resultExt op = some r ∧ r.rc = 0 ∧
          lib unread.flatten s.peer c.verifyOff = .ok) := by
  cases hm : c.mode with
  | plain => simp [establish_plain lib c s hm]
  | direct => simp [establish_direct lib c s hm, tlsPhase_ok_iff]
  | startTls =>
    simp only [reduceCtorEq, false_and, false_or, true_and]
    cases hf : firstEvent s with
    | sent buf cs =>
      rw [establish_startTls_sent lib c s hm hf, afterRequest_ok_iff]
      simp [answer, hf]
    | endedOk d k => simp [establish, hm, startTls, hf, stall_ne_okSecure, answer]
    | endedErr => simp [establish, hm, startTls, hf, answer]

/-- the request was never written (the socket was served first and ended the turn) -/
theorem establish_never_sent (hm : c.mode = .startTls) (ha : answer s = none) :
    (establish lib c s).cleartextWrites = [] ∧
    ((establish lib c s).outcome = stall c ∨ (establish lib c s).outcome = .err .driverEnded) := by
  cases hf : firstEvent s with
  | sent buf cs => simp [answer, hf] at ha
  | endedOk d k => simp [establish, hm, startTls, hf]
  | endedErr => simp [establish, hm, startTls, hf]

/-- how each kind of answer ends the establishment -/
theorem establish_answer (hm : c.mode = .startTls) (x : ReadOut) (ha : answer s = some x) :
    (establish lib c s).cleartextWrites = [startTlsReq] ∧
    (x = .error → (establish lib c s).outcome = .err .driverEnded) ∧
    (x = .eof ∨ x = .pending → (establish lib c s).outcome = stall c) ∧
    (∀ id op ctl consumed rest unread, x = .frame id op ctl consumed rest unread →
      (id ≠ 1 → (establish lib c s).outcome = stall c) ∧
      (id = 1 → resultExt op = none → (establish lib c s).outcome = .panic) ∧
      (id = 1 → ∀ r, resultExt op = some r →
        (r.rc ≠ 0 → (establish lib c s).outcome = .err (.ldapResult r.rc)) ∧
        (r.rc = 0 → (establish lib c s).outcome =
          (match lib unread.flatten s.peer c.verifyOff with
           | .ok => .okSecure | .error => .err .nativeTls | .pending => stall c)))) := by
  obtain ⟨buf, cs, hf, hx⟩ := (answer_eq_some s x).mp ha
  rw [establish_startTls_sent lib c s hm hf]
  refine ⟨(afterRequest_invariants lib c s buf cs).1, ?_, ?_, ?_⟩
  · intro h; exact afterRequest_error lib c s buf cs (hx.trans h)
  · rintro (h | h)
    · exact afterRequest_eof lib c s buf cs (hx.trans h)
    · exact afterRequest_pending lib c s buf cs (hx.trans h)
  · intro id op ctl consumed rest unread h
    have hr := hx.trans h
    refine ⟨fun hid => afterRequest_foreign lib c s buf cs hr hid, ?_, ?_⟩
    · intro hid hres; subst hid; exact afterRequest_panic lib c s buf cs hr hres
    · intro hid r hres; subst hid
      refine ⟨fun hrc => afterRequest_refused lib c s buf cs hr hres hrc, fun hrc => ?_⟩
      rw [afterRequest_success lib c s buf cs hr hres hrc, tlsPhase_outcome]

/-- where every cleartext byte went when StartTLS establishment succeeds -/
theorem establish_ok_bytes (hm : c.mode = .startTls) (hok : (establish lib c s).outcome = .okSecure) :
    let R := establish lib c s
    ∃ op ctl r, R.decoded = [(1, op)] ∧ resultExt op = some r ∧ r.rc = 0 ∧
      s.chunks.flatten = R.consumed ++ R.discarded ++ R.tlsStale ∧
      decodeInner (R.consumed ++ R.discarded) = .frame 1 op ctl R.consumed.length ∧
      lib R.tlsStale s.peer c.verifyOff = .ok := by
  intro R
  cases hf : firstEvent s with
  | endedOk d k => simp [establish, hm, startTls, hf, stall_ne_okSecure] at hok
  | endedErr => simp [establish, hm, startTls, hf] at hok
  | sent buf cs =>
    have e : R = afterRequest lib c s buf cs := establish_startTls_sent lib c s hm hf
    rw [establish_startTls_sent lib c s hm hf, afterRequest_ok_iff] at hok
    obtain ⟨op, ctl, consumed, rest, unread, r, hfr, hr, hrc, hl⟩ := hok
    have f := tlsPhase_fields lib c s (okBase op consumed rest) unread.flatten
    have cons := readFrame_frame s.atEnd cs buf 1 op ctl consumed rest unread hfr
    rw [e, afterRequest_success lib c s buf cs hfr hr hrc]
    refine ⟨op, ctl, r, f.2.1, hr, hrc, ?_, ?_, ?_⟩
    · rw [f.2.2.1, f.2.2.2.1, f.2.2.2.2.2, ← firstEvent_sent_flatten s buf cs hf]; exact cons.1
    · rw [f.2.2.1, f.2.2.2.1]; exact cons.2.1
    · rw [f.2.2.2.2.2]; exact hl

end Establish

/-! ### the reference library obeys the contract -/

theorem refLib_sound : TlsLib.Sound refLib := by
  intro stale p off h
  unfold refLib at h
  split at h
  · cases h
  · split at h
    · cases h
    · cases h
    · next hc =>
      split at h
      · next ho =>
        refine ⟨hc, fun hoff => ?_⟩
        subst hoff; simpa using ho
      · cases h

theorem refLib_ok_stale (stale : Bytes) (p : Peer) (off : Bool) (h : refLib stale p off = .ok) : stale = [] := by
  unfold refLib at h
  split at h
  · cases h
  · next hs => simpa using hs

end Ldap3V.TlsSetup

/- `dn_escape` output is read back by the RFC 4514 reader Spec.Dn (value level). -/
import Ldap3V.Lemmas.EscapeUtf8
import Ldap3V.Spec.Dn
namespace Ldap3V
open Spec Spec.Dn

/-! ### byte facts -/

set_option maxRecDepth 100000 in
theorem xdigit_hi_plain : ∀ c : UInt8, ((xdigit (c >>> 4)).toNat = 0x5C || isSpecial (xdigit (c >>> 4))) = false := by
  apply forall_u8; decide

set_option maxRecDepth 100000 in
/-- an ASCII byte that `dn_escape` never escapes is a `stringchar` (and not ESC) -/
theorem sutf1_of_not_always : ∀ c : UInt8, c.toNat < 0x80 → alwaysEscape c = false →
    (isSUTF1 c = true ∧ ¬ c.toNat = 0x5C) := by
  apply forall_u8; decide

set_option maxRecDepth 100000 in
theorem lutf1_of_not_leading : ∀ c : UInt8, c.toNat < 0x80 → alwaysEscape c = false → escapeLeading c = false →
    isLUTF1 c = true := by
  apply forall_u8; decide

set_option maxRecDepth 100000 in
theorem tutf1_of_not_trailing : ∀ c : UInt8, c.toNat < 0x80 → alwaysEscape c = false → escapeTrailing c = false →
    isTUTF1 c = true := by
  apply forall_u8; decide

set_option maxRecDepth 100000 in
theorem not_sharp_of_not_leading : ∀ c : UInt8, escapeLeading c = false → ¬ c.toNat = 0x23 := by
  apply forall_u8; decide

/-! ### items -/

theorem readItem_triple (c : UInt8) (r : Bytes) : readItem (escTriple c ++ r) = some (⟨[c], true, true⟩, r) := by
  have h1 := xdigit_hi_plain c
  have h2 := hexVal_xdigit_hi c
  have h3 := hexVal_xdigit_lo c
  have e : (c.toNat / 16 * 16 + c.toNat % 16).toUInt8 = c := by
    rw [Nat.div_add_mod']; simp
  simp only [escTriple, List.cons_append, List.nil_append]
  rw [readItem]
  simp only [show (0x5C : UInt8).toNat = 0x5C from rfl, if_true]
  rw [readPairTail.eq_def]
  simp [h1, h2, h3, e]

theorem readItem_lit (c : UInt8) (r : Bytes) (h0 : c.toNat < 0x80) (ha : alwaysEscape c = false) :
    readItem (c :: r) = some (⟨[c], isLUTF1 c, isTUTF1 c⟩, r) := by
  obtain ⟨h1, h2⟩ := sutf1_of_not_always c h0 ha
  simp [readItem, h0, h1, h2]

theorem isUTF0_of_isCont (b : UInt8) (h : isCont b = true) : isUTF0 b = true := by
  simpa [isUTF0, inR, isCont] using h

theorem readItem_mb2 (b0 b1 : UInt8) (r : Bytes) (h : isMb2 b0 b1 = true) :
    readItem (b0 :: b1 :: r) = some (⟨[b0, b1], true, true⟩, r) := by
  have hg := isMb2_ge b0 b1 h
  simp only [isMb2, Bool.and_eq_true] at h
  have h1 : inR b0 0xC2 0xDF = true := by simpa [inR, inRange] using h.1
  simp [readItem, utfmb, show ¬ b0.toNat = 0x5C by omega, show ¬ b0.toNat < 0x80 by omega, h1, isUTF0_of_isCont _ h.2]

theorem isUTF3_of_isMb3 (b0 b1 b2 : UInt8) (h : isMb3 b0 b1 b2 = true) : isUTF3 b0 b1 b2 = true := by
  simp only [isMb3, Bool.and_eq_true] at h
  obtain ⟨h0, h1, h2⟩ := h
  have h2' := isUTF0_of_isCont _ h2
  simp only [inRange, Bool.and_eq_true, decide_eq_true_eq] at h0
  by_cases e0 : b0.toNat = 0xE0
  · simp only [e0, if_true] at h1
    have : inR b1 0xA0 0xBF = true := by simpa [inR, inRange] using h1
    simp [isUTF3, e0, this, h2']
  · by_cases ed : b0.toNat = 0xED
    · simp only [ed, if_true, show ¬ (0xED : Nat) = 0xE0 by decide, if_false] at h1
      have : inR b1 0x80 0x9F = true := by simpa [inR, inRange] using h1
      simp [isUTF3, ed, this, h2']
    · simp only [e0, ed, if_false] at h1
      have h1' := isUTF0_of_isCont _ h1
      have : inR b0 0xE1 0xEC = true ∨ inR b0 0xEE 0xEF = true := by
        simp only [inR, Bool.and_eq_true, decide_eq_true_eq]; omega
      rcases this with t | t <;> simp [isUTF3, t, h1', h2']

theorem isUTF4_of_isMb4 (b0 b1 b2 b3 : UInt8) (h : isMb4 b0 b1 b2 b3 = true) : isUTF4 b0 b1 b2 b3 = true := by
  simp only [isMb4, Bool.and_eq_true] at h
  obtain ⟨h0, ⟨h1, h2⟩, h3⟩ := h
  have h2' := isUTF0_of_isCont _ h2
  have h3' := isUTF0_of_isCont _ h3
  simp only [inRange, Bool.and_eq_true, decide_eq_true_eq] at h0
  by_cases e0 : b0.toNat = 0xF0
  · simp only [e0, if_true] at h1
    have : inR b1 0x90 0xBF = true := by simpa [inR, inRange] using h1
    simp [isUTF4, e0, this, h2', h3']
  · by_cases e4 : b0.toNat = 0xF4
    · simp only [e4, if_true, show ¬ (0xF4 : Nat) = 0xF0 by decide, if_false] at h1
      have : inR b1 0x80 0x8F = true := by simpa [inR, inRange] using h1
      simp [isUTF4, e4, this, h2', h3']
    · simp only [e0, e4, if_false] at h1
      have h1' := isUTF0_of_isCont _ h1
      have : inR b0 0xF1 0xF3 = true := by
        simp only [inR, Bool.and_eq_true, decide_eq_true_eq]; omega
      simp [isUTF4, this, h1', h2', h3']

theorem readItem_mb3 (b0 b1 b2 : UInt8) (r : Bytes) (h : isMb3 b0 b1 b2 = true) :
    readItem (b0 :: b1 :: b2 :: r) = some (⟨[b0, b1, b2], true, true⟩, r) := by
  have hg := isMb3_ge b0 b1 b2 h
  have h3 := isUTF3_of_isMb3 _ _ _ h
  simp only [isMb3, Bool.and_eq_true, inRange, decide_eq_true_eq] at h
  have h1 : inR b0 0xC2 0xDF = false := by simp [inR]; omega
  simp [readItem, utfmb, show ¬ b0.toNat = 0x5C by omega, show ¬ b0.toNat < 0x80 by omega, h1, h3]

theorem readItem_mb4 (b0 b1 b2 b3 : UInt8) (r : Bytes) (h : isMb4 b0 b1 b2 b3 = true) :
    readItem (b0 :: b1 :: b2 :: b3 :: r) = some (⟨[b0, b1, b2, b3], true, true⟩, r) := by
  have hg := isMb4_ge b0 b1 b2 b3 h
  have h4 := isUTF4_of_isMb4 _ _ _ _ h
  simp only [isMb4, Bool.and_eq_true, inRange, decide_eq_true_eq] at h
  have h1 : inR b0 0xC2 0xDF = false := by simp [inR]; omega
  have h3 : isUTF3 b0 b1 b2 = false := by
    simp [isUTF3, inR]; omega
  simp [readItem, utfmb, show ¬ b0.toNat = 0x5C by omega, show ¬ b0.toNat < 0x80 by omega, h1, h3, h4]

/-! ### what may follow a value -/

/-- end of input, or a `,` or `+` separator -/
def sepOk : Bytes → Bool
  | [] => true
  | c :: _ => c == 0x2C || c == 0x2B

theorem readItem_sep (rest : Bytes) (h : sepOk rest = true) : readItem rest = none := by
  cases rest with
  | nil => rfl
  | cons c t =>
    simp only [sepOk, Bool.or_eq_true, beq_iff_eq] at h
    rcases h with rfl | rfl <;> simp [readItem] <;> decide

theorem escMap_length_ge (need : Nat → UInt8 → Bool) (i : Nat) (w : Bytes) : w.length ≤ (escMap need i w).length := by
  induction w generalizing i with
  | nil => simp [escMap]
  | cons c r ih =>
    have := ih (i + 1)
    simp only [escMap, List.length_append, List.length_cons]
    split <;> simp [escTriple] <;> omega

/-- the part of an escaped value after its first character -/
theorem readMore_tail (rest : Bytes) (hrest : readItem rest = none) (n : Nat) :
    ∀ (w : Bytes) (k L fuel : Nat) (lastOk : Bool), w.length ≤ n → utf8Valid w = true → 1 ≤ k → L = k + w.length →
      w.length < fuel →
      readMore fuel (escMap (dnNeed L) k w ++ rest) lastOk = (w, lastOk || !w.isEmpty, rest) := by
  induction n with
  | zero =>
    intro w k L fuel lastOk hn _ _ _ hf
    have : w = [] := List.eq_nil_of_length_eq_zero (by omega)
    subst this
    obtain ⟨f, rfl⟩ : ∃ f, fuel = f + 1 := ⟨fuel - 1, by simp at hf; omega⟩
    simp [escMap, readMore, hrest]
  | succ n ih =>
    intro w k L fuel lastOk hn hv hk hL hf
    obtain ⟨f, rfl⟩ : ∃ f, fuel = f + 1 := ⟨fuel - 1, by omega⟩
    cases w with
    | nil => simp [escMap, readMore, hrest]
    | cons b0 r =>
      simp only [List.length_cons] at hn hL hf
      have hA := dnNeed_ascii L
      rcases utf8_cases b0 r hv with ⟨h0, hr⟩ | ⟨b1, r1, rfl, hm, hr⟩ | ⟨b1, b2, r2, rfl, hm, hr⟩ | ⟨b1, b2, b3, r3, rfl, hm, hr⟩
      · have IH := fun ok => ih r (k + 1) L f ok (by omega) hr (by omega) (by omega) (by omega)
        by_cases hnd : dnNeed L k b0 = true
        · simp only [escMap, hnd, if_true, List.append_assoc]
          rw [readMore, readItem_triple]
          simp [IH]
        · have hnd' : dnNeed L k b0 = false := by simpa using hnd
          simp only [dnNeed, Bool.or_eq_false_iff, Bool.and_eq_false_imp, beq_iff_eq] at hnd'
          obtain ⟨⟨ha, _⟩, ht⟩ := hnd'
          simp only [escMap, hnd, Bool.false_eq_true, if_false, List.cons_append, List.nil_append]
          rw [readMore, readItem_lit _ _ h0 ha]
          simp only [IH]
          have : (isTUTF1 b0 || !r.isEmpty) = true := by
            cases r with
            | nil => simp [tutf1_of_not_trailing b0 h0 ha (ht (by simp at hL; omega))]
            | cons _ _ => simp
          simp [this]
      · have hg := isMb2_ge _ _ hm
        simp only [List.length_cons] at hn hL hf
        rw [escMap_cons_high _ hA _ _ _ hg.1, escMap_cons_high _ hA _ _ _ hg.2]
        simp only [List.cons_append]
        rw [readMore, readItem_mb2 _ _ _ hm]
        simp [ih r1 (k + 1 + 1) L f true (by omega) hr (by omega) (by omega) (by omega)]
      · have hg := isMb3_ge _ _ _ hm
        simp only [List.length_cons] at hn hL hf
        rw [escMap_cons_high _ hA _ _ _ hg.1, escMap_cons_high _ hA _ _ _ hg.2.1, escMap_cons_high _ hA _ _ _ hg.2.2]
        simp only [List.cons_append]
        rw [readMore, readItem_mb3 _ _ _ _ hm]
        simp [ih r2 (k + 1 + 1 + 1) L f true (by omega) hr (by omega) (by omega) (by omega)]
      · have hg := isMb4_ge _ _ _ _ hm
        simp only [List.length_cons] at hn hL hf
        rw [escMap_cons_high _ hA _ _ _ hg.1, escMap_cons_high _ hA _ _ _ hg.2.1,
          escMap_cons_high _ hA _ _ _ hg.2.2.1, escMap_cons_high _ hA _ _ _ hg.2.2.2]
        simp only [List.cons_append]
        rw [readMore, readItem_mb4 _ _ _ _ _ hm]
        simp [ih r3 (k + 1 + 1 + 1 + 1) L f true (by omega) hr (by omega) (by omega) (by omega)]

theorem readAttrValue_of_readString (b : UInt8) (t : Bytes) (v r : Bytes) (hb : ¬ b.toNat = 0x23)
    (h : readString (b :: t) = some (v, r)) : readAttrValue (b :: t) = some (.str v, r) := by
  simp [readAttrValue, hb, h]

/-- `string` whose first item is known and whose remainder is an escaped valid string -/
theorem readString_of_item (bs : Bytes) (it : Item) (rest w : Bytes) (L k : Nat)
    (hrest : readItem rest = none)
    (hi : readItem bs = some (it, escMap (dnNeed L) k w ++ rest)) (hlead : it.lead = true)
    (hw : utf8Valid w = true) (hk : 1 ≤ k) (hL : L = k + w.length) (hok : (it.trail || !w.isEmpty) = true) :
    readString bs = some (it.val ++ w, rest) := by
  have ht := readMore_tail rest hrest w.length w k L ((escMap (dnNeed L) k w ++ rest).length + 1) it.trail
    (Nat.le_refl _) hw hk hL
    (by have := escMap_length_ge (dnNeed L) k w; simp only [List.length_append]; omega)
  unfold readString
  rw [hi]
  simp only [hlead, if_true]
  rw [ht]
  simp only [hok, if_true]

/-- value level: the reader gets `v` back from `dn_escape v` and stops exactly at the separator -/
theorem readAttrValue_dnEscape (v rest : Bytes) (hv : utf8Valid v = true) (hs : sepOk rest = true) :
    readAttrValue (dnEscape v ++ rest) = some (.str v, rest) := by
  have hrest := readItem_sep rest hs
  rw [dnEscape_eq]
  cases v with
  | nil =>
    simp only [escMap, List.nil_append]
    cases rest with
    | nil => rfl
    | cons c t =>
      have hc : ¬ c.toNat = 0x23 := by
        simp only [sepOk, Bool.or_eq_true, beq_iff_eq] at hs
        rcases hs with rfl | rfl <;> decide
      apply readAttrValue_of_readString _ _ _ _ hc
      simp [readString, hrest]
  | cons b0 r =>
    generalize hL : (b0 :: r).length = L
    have hA := dnNeed_ascii L
    rcases utf8_cases b0 r hv with ⟨h0, hr⟩ | ⟨b1, r1, rfl, hm, hr⟩ | ⟨b1, b2, r2, rfl, hm, hr⟩ | ⟨b1, b2, b3, r3, rfl, hm, hr⟩
    · simp only [List.length_cons] at hL
      by_cases hnd : dnNeed L 0 b0 = true
      · simp only [escMap, hnd, if_true, List.append_assoc]
        simp only [escTriple, List.cons_append, List.nil_append]
        apply readAttrValue_of_readString _ _ _ _ (by decide)
        have hi := readItem_triple b0 (escMap (dnNeed L) (0 + 1) r ++ rest)
        simp only [escTriple, List.cons_append, List.nil_append] at hi
        exact readString_of_item _ _ rest r L (0 + 1) hrest hi rfl hr (by omega) (by omega) rfl
      · have hnd' : dnNeed L 0 b0 = false := by simpa using hnd
        simp only [dnNeed, Bool.or_eq_false_iff, Bool.and_eq_false_imp, beq_iff_eq] at hnd'
        obtain ⟨⟨ha, hl⟩, ht⟩ := hnd'
        have hl := hl (by trivial)
        simp only [escMap, hnd, Bool.false_eq_true, if_false, List.cons_append, List.nil_append]
        apply readAttrValue_of_readString _ _ _ _ (not_sharp_of_not_leading b0 hl)
        have hok : (isTUTF1 b0 || !r.isEmpty) = true := by
          cases r with
          | nil => simp [tutf1_of_not_trailing b0 h0 ha (ht (by simp at hL; omega))]
          | cons _ _ => simp
        exact readString_of_item _ _ rest r L (0 + 1) hrest (readItem_lit _ _ h0 ha)
          (lutf1_of_not_leading b0 h0 ha hl) hr (by omega) (by omega) hok
    · have hg := isMb2_ge _ _ hm
      simp only [List.length_cons] at hL
      rw [escMap_cons_high _ hA _ _ _ hg.1, escMap_cons_high _ hA _ _ _ hg.2]
      simp only [List.cons_append]
      apply readAttrValue_of_readString _ _ _ _ (by omega)
      exact readString_of_item _ _ rest r1 L _ hrest (readItem_mb2 _ _ _ hm) rfl hr (by omega) (by omega) rfl
    · have hg := isMb3_ge _ _ _ hm
      simp only [List.length_cons] at hL
      rw [escMap_cons_high _ hA _ _ _ hg.1, escMap_cons_high _ hA _ _ _ hg.2.1, escMap_cons_high _ hA _ _ _ hg.2.2]
      simp only [List.cons_append]
      apply readAttrValue_of_readString _ _ _ _ (by omega)
      exact readString_of_item _ _ rest r2 L _ hrest (readItem_mb3 _ _ _ _ hm) rfl hr (by omega) (by omega) rfl
    · have hg := isMb4_ge _ _ _ _ hm
      simp only [List.length_cons] at hL
      rw [escMap_cons_high _ hA _ _ _ hg.1, escMap_cons_high _ hA _ _ _ hg.2.1,
        escMap_cons_high _ hA _ _ _ hg.2.2.1, escMap_cons_high _ hA _ _ _ hg.2.2.2]
      simp only [List.cons_append]
      apply readAttrValue_of_readString _ _ _ _ (by omega)
      exact readString_of_item _ _ rest r3 L _ hrest (readItem_mb4 _ _ _ _ _ hm) rfl hr (by omega) (by omega) rfl

theorem readValue_dnEscape (v rest : Bytes) (hv : utf8Valid v = true) (hs : sepOk rest = true) :
    readValue (dnEscape v ++ rest) = some (v, rest) := by
  simp [readValue, readAttrValue_dnEscape v rest hv hs]

end Ldap3V

/- Structural facts about the model parser on ARBITRARY input: fuel independence, stability of a
decided outcome under appended bytes, and when `Incomplete` can arise. -/
import Ldap3V.Lemmas.Ber
namespace Ldap3V

theorem parseLen_rest_le (i : Bytes) (n : Nat) (r : Bytes) (h : parseLen i = .ok n r) :
    r.length + 1 ≤ i.length := by
  cases i with
  | nil => simp [parseLen] at h
  | cons b rest =>
    simp only [parseLen] at h
    split at h
    · injection h with _ h2; subst h2; simp
    · split at h
      · cases h
      · injection h with _ h2; subst h2; simp

theorem pTag_rest_le (f d : Nat) (i : Bytes) (t : Tlv) (r : Bytes) (h : pTag f d i = .ok t r) :
    r.length + 2 ≤ i.length := by
  cases f with
  | zero => simp [pTag] at h
  | succ f =>
    cases i with
    | nil => simp [pTag] at h
    | cons b i1 =>
      simp only [pTag] at h
      cases hl : parseLen i1 with
      | incomplete => rw [hl] at h; cases h
      | error => rw [hl] at h; cases h
      | ok len i2 =>
        have hr := parseLen_rest_le i1 len i2 hl
        rw [hl] at h
        simp only at h
        split at h
        · cases h
        · split at h
          · split at h
            · cases h
            · split at h
              · injection h with _ h2; subst h2; simp; omega
              · cases h
          · injection h with _ h2; subst h2; simp; omega

mutual
theorem pTag_fuel : ∀ (f f' d : Nat) (i : Bytes), i.length ≤ f → 1 ≤ f → i.length ≤ f' → 1 ≤ f' →
    pTag f d i = pTag f' d i
  | 0, _, _, _, _, h, _, _ => by omega
  | _, 0, _, _, _, _, _, h => by omega
  | f + 1, f' + 1, d, i, hf, _, hf', _ => by
    cases i with
    | nil => simp [pTag]
    | cons b i1 =>
      simp only [pTag]
      cases hl : parseLen i1 with
      | incomplete => rfl
      | error => rfl
      | ok len i2 =>
        have hr := parseLen_rest_le i1 len i2 hl
        simp only
        split
        · rfl
        · split
          · split
            · rfl
            · have hc : (List.take len i2).length < f := by
                simp at hf ⊢; omega
              have hc' : (List.take len i2).length < f' := by
                simp at hf' ⊢; omega
              rw [pKids_fuel f f' (d + 1) (List.take len i2) hc hc']
          · rfl
theorem pKids_fuel : ∀ (f f' d : Nat) (c : Bytes), c.length < f → c.length < f' →
    pKids f d c = pKids f' d c
  | 0, _, _, _, h, _ => by omega
  | _, 0, _, _, _, h => by omega
  | f + 1, f' + 1, d, c, hf, hf' => by
    cases c with
    | nil => simp [pKids]
    | cons x c1 =>
      simp only [pKids]
      have e := pTag_fuel f f' d (x :: c1) (by simp at hf ⊢; omega) (by simp at hf; omega)
        (by simp at hf' ⊢; omega) (by simp at hf'; omega)
      rw [e]
      cases ht : pTag f' d (x :: c1) with
      | incomplete => rfl
      | error => rfl
      | ok t r =>
        simp only
        have hr := pTag_rest_le f' d (x :: c1) t r ht
        rw [pKids_fuel f f' d r (by simp at hf hr; omega) (by simp at hf' hr; omega)]
end

theorem parseLen_ne_error (i : Bytes) : parseLen i ≠ .error := by
  cases i with
  | nil => simp [parseLen]
  | cons b rest =>
    simp only [parseLen]
    split
    · simp
    · split <;> simp

theorem parseLen_append (i y : Bytes) (n : Nat) (r : Bytes) (h : parseLen i = .ok n r) :
    parseLen (i ++ y) = .ok n (r ++ y) := by
  cases i with
  | nil => simp [parseLen] at h
  | cons b rest =>
    simp only [parseLen, List.cons_append] at h ⊢
    split at h
    · next hb => rw [if_pos hb]; injection h with h1 h2; subst h1 h2; rfl
    · next hb =>
      rw [if_neg hb]
      split at h
      · cases h
      · next hk =>
        simp only [PR.ok.injEq] at h
        obtain ⟨h1, h2⟩ := h
        rw [← h1, ← h2]
        have hk' : ¬ (rest ++ y).length < b.toNat - 128 := by simp at hk ⊢; omega
        rw [if_neg hk']
        have hle : b.toNat - 128 ≤ rest.length := by omega
        rw [List.take_append_of_le_length hle, List.drop_append_of_le_length hle]

/-- a decided parse (`ok`) does not depend on what follows the value -/
theorem pTag_append_ok (f f' d : Nat) (x y : Bytes) (t : Tlv) (r : Bytes)
    (h : pTag f d x = .ok t r) (hf : x.length ≤ f) (hf' : (x ++ y).length ≤ f') :
    pTag f' d (x ++ y) = .ok t (r ++ y) := by
  cases f with
  | zero => simp [pTag] at h
  | succ f =>
    cases x with
    | nil => simp [pTag] at h
    | cons b i1 =>
      obtain ⟨g, rfl⟩ : ∃ g, f' = g + 1 := ⟨f' - 1, by simp at hf'; omega⟩
      simp only [pTag, List.cons_append] at h ⊢
      cases hl : parseLen i1 with
      | incomplete => rw [hl] at h; cases h
      | error => rw [hl] at h; cases h
      | ok len i2 =>
        have hr := parseLen_rest_le i1 len i2 hl
        rw [hl] at h
        rw [parseLen_append i1 y len i2 hl]
        simp only at h ⊢
        split at h
        · cases h
        · next hlen =>
          have hlen' : ¬ (i2 ++ y).length < len := by simp at hlen ⊢; omega
          rw [if_neg hlen']
          have hle : len ≤ i2.length := by omega
          rw [List.take_append_of_le_length hle, List.drop_append_of_le_length hle]
          split at h
          · next hc =>
            rw [if_pos hc]
            split at h
            · cases h
            · next hd =>
              rw [if_neg hd]
              have e := pKids_fuel f g (d + 1) (List.take len i2) (by simp at hf ⊢; omega)
                (by simp at hf' ⊢; omega)
              rw [← e]
              cases hk : pKids f (d + 1) (List.take len i2) with
              | ok ks r2 => rw [hk] at h; injection h with h1 h2; subst h1 h2; rfl
              | incomplete => rw [hk] at h; cases h
              | error => rw [hk] at h; cases h
          · next hc =>
            rw [if_neg hc]
            injection h with h1 h2; subst h1 h2; rfl

/-- a rejected parse (`error`) does not depend on what follows either -/
theorem pTag_append_error (f f' d : Nat) (x y : Bytes)
    (h : pTag f d x = .error) (hf : x.length ≤ f) (hf1 : 1 ≤ f) (hf' : (x ++ y).length ≤ f') (hf1' : 1 ≤ f') :
    pTag f' d (x ++ y) = .error := by
  obtain ⟨f, rfl⟩ : ∃ g, f = g + 1 := ⟨f - 1, by omega⟩
  obtain ⟨g, rfl⟩ : ∃ g, f' = g + 1 := ⟨f' - 1, by omega⟩
  cases x with
  | nil => simp [pTag] at h
  | cons b i1 =>
    simp only [pTag, List.cons_append] at h ⊢
    cases hl : parseLen i1 with
    | incomplete => rw [hl] at h; cases h
    | error => exact absurd hl (parseLen_ne_error i1)
    | ok len i2 =>
      have hr := parseLen_rest_le i1 len i2 hl
      rw [hl] at h
      rw [parseLen_append i1 y len i2 hl]
      simp only at h ⊢
      split at h
      · cases h
      · next hlen =>
        have hlen' : ¬ (i2 ++ y).length < len := by simp at hlen ⊢; omega
        rw [if_neg hlen']
        have hle : len ≤ i2.length := by omega
        rw [List.take_append_of_le_length hle, List.drop_append_of_le_length hle]
        split at h
        · next hc =>
          rw [if_pos hc]
          split at h
          · next hd => rw [if_pos hd]
          · next hd =>
            rw [if_neg hd]
            have e := pKids_fuel f g (d + 1) (List.take len i2) (by simp at hf ⊢; omega)
              (by simp at hf' ⊢; omega)
            rw [← e]
            cases hk : pKids f (d + 1) (List.take len i2) with
            | ok ks r2 => rw [hk] at h; cases h
            | incomplete => rfl
            | error => rfl
        · cases h

end Ldap3V

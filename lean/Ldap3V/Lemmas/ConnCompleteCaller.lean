/- What the CALLER received (as opposed to what sits in a mailbox / channel): a frame result returned
by `op_call` carries the operation's ID and was sent by the server; the items handed out by
`next()` are the channel's items, in order, without gaps. -/
import Ldap3V.Lemmas.ConnCompleteRun
namespace Ldap3V.Conn

/-! ### results -/

/-- no operation newly shows a frame as its result (true of every step except `poll`) -/
def RB (ops ops' : List Op) : Prop :=
  ∀ (j : Nat) (o' : Op), ops'[j]? = some o' → ∀ f, o'.res = some (.frame f) →
    ∃ o, ops[j]? = some o ∧ o'.id = o.id ∧ o.res = some (.frame f)

theorem RB.refl (ops : List Op) : RB ops ops := fun _ o' h _ hf => ⟨o', h, rfl, hf⟩

theorem RB.trans {a b c : List Op} (h1 : RB a b) (h2 : RB b c) : RB a c := by
  intro j o'' ho'' f hf
  obtain ⟨o', ho', e1, r1⟩ := h2 j o'' ho'' f hf
  obtain ⟨o, ho, e2, r2⟩ := h1 j o' ho' f r1
  exact ⟨o, ho, e1.trans e2, r2⟩

theorem rb_modify (ops : List Op) (i : Nat) (g : Op → Op) (hg : ∀ o, (g o).id = o.id ∧ (g o).res = o.res) :
    RB ops (modifyOp ops i g) := by
  intro j o' ho' f hf
  rw [modifyOp_get] at ho'
  split at ho'
  · next hj =>
    subst hj
    cases ho : ops[j]? with
    | none => rw [ho] at ho'; cases ho'
    | some o =>
      rw [ho] at ho'
      simp only [Option.map_some, Option.some.injEq] at ho'
      subst ho'
      exact ⟨o, rfl, (hg o).1, by rw [← (hg o).2]; exact hf⟩
  · exact ⟨o', ho', rfl, hf⟩

theorem rb_set (ops : List Op) (i : Nat) (o o' : Op) (ho : ops[i]? = some o) (hid : o'.id = o.id)
    (hres : ∀ f, o'.res = some (.frame f) → o.res = some (.frame f)) : RB ops (ops.set i o') := by
  intro j x hx f hf
  rw [get_set o' j ho] at hx
  split at hx
  · next hj =>
    subst hj
    cases hx
    exact ⟨o, ho, hid, hres f hf⟩
  · exact ⟨x, hx, rfl, hf⟩

theorem rb_dropSender (ops : List Op) (i : Nat) : RB ops (dropSender ops i) := by
  apply rb_modify
  intro o; split <;> exact ⟨rfl, rfl⟩

theorem rb_dropSenderOpt (ops : List Op) (x : Option Nat) : RB ops (dropSenderOpt ops x) := by
  cases x with
  | none => exact RB.refl _
  | some i => exact rb_dropSender ops i

theorem rb_ack (ops : List Op) (i : Nat) : RB ops (modifyOp ops i fun o => { o with mail := .ack }) :=
  rb_modify ops i _ (fun _ => ⟨rfl, rfl⟩)

theorem rb_endDriver (s : St) (how : Drv) : RB s.ops (endDriver s how).ops := by
  intro j o' ho' f hf
  rw [endDriver_get] at ho'
  cases ho : s.ops[j]? with
  | none => rw [ho] at ho'; cases ho'
  | some o =>
    rw [ho] at ho'
    simp only [Option.map_some, Option.some.injEq] at ho'
    refine ⟨o, rfl, ?_, ?_⟩
    · rw [← ho']; split
      · rfl
      · split <;> rfl
    · rw [← ho'] at hf
      split at hf
      · exact hf
      · split at hf <;> exact hf

theorem rb_endDriver' (s : St) (how : Drv) (ops0 : List Op) (h0 : s.ops = ops0) : RB ops0 (endDriver s how).ops := by
  subst h0; exact rb_endDriver s how

theorem rb_append (ops : List Op) (x : Op) (hx : x.res = none) : RB ops (ops ++ [x]) := by
  intro j o' ho' f hf
  rw [get_append_one] at ho'
  split at ho'
  · exact ⟨o', ho', rfl, hf⟩
  · split at ho'
    · cases ho'; rw [hx] at hf; cases hf
    · cases ho'

theorem rb_routeSearch (s : St) (c : Nat) (f : Frame) : RB s.ops (routeSearch s c f).ops := by
  have key : ∀ (b : Bool) (chans' : List Chan),
      RB s.ops (if b = true then ({ s with chans := chans', searchmap := erase s.searchmap f.id, inUse := eraseId s.inUse f.id } : St)
        else { s with chans := chans' }).ops := by
    intro b chans'
    cases b <;> exact RB.refl _
  unfold routeSearch
  by_cases h1 : f.op = 4 ∨ f.op = 25 ∨ f.op = 19
  · simp only [h1, if_true]; exact key _ _
  · simp only [h1, if_false]
    by_cases h2 : f.op = 5
    · simp only [h2, if_true]
      by_cases h3 : f.good = true
      · simp only [h3, if_true]; exact key _ _
      · simp only [h3]; exact rb_endDriver _ _
    · simp only [h2, if_false]; exact rb_endDriver _ _

theorem rb_drvOp {s s' : St} {ob : Obs} {b : Bool} (hs : step s (.drvOp b) = some (s', ob)) : RB s.ops s'.ops := by
  simp only [step] at hs
  split at hs
  · cases hs
  · split at hs
    · cases hs
    · next i rest hqe =>
      cases ho : s.ops[i]? with
      | none => rw [ho] at hs; cases hs
      | some o =>
        rw [ho] at hs
        simp only at hs
        have t0 : ∀ o' : Op, o'.id = o.id → o'.res = o.res → RB s.ops (s.ops.set i o') :=
          fun o' h1 h2 => rb_set _ i o o' ho h1 (fun f hf => by rw [← h2]; exact hf)
        split at hs
        · simp only [Option.some.injEq, Prod.mk.injEq] at hs
          rw [← hs.1]
          exact (t0 _ (by rfl) (by rfl)).trans (rb_dropSender _ _)
        · split at hs
          · simp only [Option.some.injEq, Prod.mk.injEq] at hs
            rw [← hs.1]
            refine RB.trans (b := dropSender (s.ops.set i { o with phase := .taken }) i)
              ((t0 { o with phase := .taken } rfl rfl).trans (rb_dropSender _ _)) ?_
            exact rb_endDriver' _ _ _ rfl
          · split at hs
            · cases hs
            · split at hs
              · simp only [Option.some.injEq, Prod.mk.injEq] at hs
                rw [← hs.1]
                exact (t0 _ (by rfl) (by rfl)).trans (rb_dropSenderOpt _ _)
              · simp only [Option.some.injEq, Prod.mk.injEq] at hs
                rw [← hs.1]
                exact (t0 _ (by rfl) (by rfl)).trans (rb_ack _ _)
              · simp only [Option.some.injEq, Prod.mk.injEq] at hs
                rw [← hs.1]
                exact ((t0 _ (by rfl) (by rfl)).trans (rb_dropSenderOpt _ _)).trans (rb_ack _ _)
              · simp only [Option.some.injEq, Prod.mk.injEq] at hs
                rw [← hs.1]
                exact (t0 _ (by rfl) (by rfl)).trans (rb_ack _ _)

theorem rb_drvResp {s s' : St} {ob : Obs} (hs : step s .drvResp = some (s', ob)) : RB s.ops s'.ops := by
  simp only [step] at hs
  split at hs
  · cases hs
  · cases hf : s.srvLog[s.pos]? with
    | none =>
      rw [hf] at hs
      simp only at hs
      split at hs
      · cases hs
      · simp only [Option.some.injEq, Prod.mk.injEq] at hs; rw [← hs.1]; exact rb_endDriver _ _
      · simp only [Option.some.injEq, Prod.mk.injEq] at hs; rw [← hs.1]; exact rb_endDriver _ _
    | some f =>
      rw [hf] at hs
      simp only at hs
      cases hl : lookup s.searchmap f.id with
      | some c =>
        rw [hl] at hs
        simp only [Option.some.injEq, Prod.mk.injEq] at hs
        rw [← hs.1]
        exact rb_routeSearch ({ s with pos := s.pos + 1 } : St) c f
      | none =>
        rw [hl] at hs
        simp only at hs
        cases hrm : lookup s.resultmap f.id with
        | none =>
          rw [hrm] at hs
          simp only [Option.some.injEq, Prod.mk.injEq] at hs
          rw [← hs.1]
          exact RB.refl _
        | some i =>
          rw [hrm] at hs
          simp only [Option.some.injEq, Prod.mk.injEq] at hs
          rw [← hs.1]
          refine rb_modify _ i _ ?_
          intro o; split <;> exact ⟨rfl, rfl⟩

/-- every step except `poll` -/
theorem step_rb {s s' : St} {ob : Obs} (e : Ev) (hs : Conn.step s e = some (s', ob)) (hnp : ∀ i, e ≠ .poll i) :
    RB s.ops s'.ops := by
  cases e with
  | poll i => exact absurd rfl (hnp i)
  | drvOp b => exact rb_drvOp hs
  | drvResp => exact rb_drvResp hs
  | alloc k =>
    simp only [Conn.step] at hs
    split at hs
    · simp only [Option.some.injEq, Prod.mk.injEq] at hs
      rw [← hs.1]; exact rb_append _ _ rfl
    · simp only [Option.some.injEq, Prod.mk.injEq] at hs
      rw [← hs.1]; exact RB.refl _
    · cases hs
  | enqueue i t =>
    simp only [Conn.step] at hs
    cases ho : s.ops[i]? with
    | none => rw [ho] at hs; cases hs
    | some o =>
      rw [ho] at hs
      simp only at hs
      split at hs
      · cases hs
      · split at hs
        · simp only [Option.some.injEq, Prod.mk.injEq] at hs
          rw [← hs.1]
          exact rb_set _ i o _ ho rfl (fun f hf => by cases hf)
        · simp only [Option.some.injEq, Prod.mk.injEq] at hs
          rw [← hs.1]
          exact rb_set _ i o _ ho rfl (fun f hf => hf)
  | drvScrub =>
    simp only [Conn.step] at hs
    split at hs
    · cases hs
    · split at hs
      · cases hs
      · simp only [Option.some.injEq, Prod.mk.injEq] at hs
        rw [← hs.1]
        exact rb_dropSenderOpt _ _
  | _ =>
    simp only [Conn.step] at hs
    repeat' (split at hs)
    all_goals first
      | (cases hs; done)
      | (simp only [Option.some.injEq, Prod.mk.injEq] at hs
         obtain ⟨rfl, _⟩ := hs
         first | exact RB.refl _ | exact rb_endDriver _ _)

/-- `poll`: the only step that produces a result; a frame result is the frame in the mailbox -/
theorem poll_res {s s' : St} {ob : Obs} {i : Nat} (hs : step s (.poll i) = some (s', ob)) :
    consumed s' = consumed s ∧ ∀ (j : Nat) (o' : Op) (f : Frame), s'.ops[j]? = some o' → o'.res = some (.frame f) →
      ∃ o, s.ops[j]? = some o ∧ o'.id = o.id ∧ (o.res = some (.frame f) ∨ (o.mail = .frame f ∧ f.good = true)) := by
  simp only [step] at hs
  cases ho : s.ops[i]? with
  | none => rw [ho] at hs; cases hs
  | some o =>
    rw [ho] at hs
    simp only at hs
    have hsame : consumed s = consumed s ∧ ∀ (j : Nat) (o' : Op) (f : Frame), s.ops[j]? = some o' → o'.res = some (.frame f) →
        ∃ o, s.ops[j]? = some o ∧ o'.id = o.id ∧ (o.res = some (.frame f) ∨ (o.mail = .frame f ∧ f.good = true)) :=
      ⟨rfl, fun j o' f h1 h2 => ⟨o', h1, rfl, Or.inl h2⟩⟩
    have hset : ∀ (r : Option Res) (q : List Nat) (cs : List Chan),
        (∀ f, r = some (.frame f) → o.mail = .frame f ∧ f.good = true) →
        consumed ({ s with ops := s.ops.set i { o with res := r }, scrubQ := q, chans := cs } : St) = consumed s ∧
        ∀ (j : Nat) (o' : Op) (f : Frame), (s.ops.set i { o with res := r })[j]? = some o' → o'.res = some (.frame f) →
          ∃ o, s.ops[j]? = some o ∧ o'.id = o.id ∧ (o.res = some (.frame f) ∨ (o.mail = .frame f ∧ f.good = true)) := by
      intro r q cs hr
      refine ⟨rfl, fun j o' f h1 h2 => ?_⟩
      rw [get_set _ j ho] at h1
      split at h1
      · next hj =>
        subst hj
        cases h1
        exact ⟨o, ho, rfl, Or.inr (hr f h2)⟩
      · exact ⟨o', h1, rfl, Or.inl h2⟩
    split at hs
    · cases hs
    · split at hs
      · simp only [Option.some.injEq, Prod.mk.injEq] at hs; rw [← hs.1]
        exact hset _ s.scrubQ s.chans (fun f h => by cases h)
      · next g hm =>
        simp only [Option.some.injEq, Prod.mk.injEq] at hs; rw [← hs.1]
        refine hset _ s.scrubQ s.chans (fun f h => ?_)
        by_cases hg : g.good = true
        · simp only [hg, if_true, Option.some.injEq, Res.frame.injEq] at h
          subst h; exact ⟨hm, hg⟩
        · simp only [hg] at h; cases h
      · simp only [Option.some.injEq, Prod.mk.injEq] at hs; rw [← hs.1]
        exact hset _ s.scrubQ _ (fun f h => by cases h)
      · split at hs
        · split at hs
          · split at hs
            · simp only [Option.some.injEq, Prod.mk.injEq] at hs; rw [← hs.1]
              exact hset _ _ _ (fun f h => by cases h)
            · simp only [Option.some.injEq, Prod.mk.injEq] at hs; rw [← hs.1]
              exact hset _ s.scrubQ _ (fun f h => by cases h)
          · simp only [Option.some.injEq, Prod.mk.injEq] at hs; rw [← hs.1]; exact hsame
        · simp only [Option.some.injEq, Prod.mk.injEq] at hs; rw [← hs.1]; exact hsame

/-- a frame an operation was given as its result carries the operation's ID, is well-formed, and is
one of the frames the driver read from the server -/
def ResInv (s : St) : Prop :=
  ∀ (i : Nat) (o : Op) (f : Frame), s.ops[i]? = some o → o.res = some (.frame f) →
    f.id = (o.id : Int) ∧ f.good = true ∧ f ∈ consumed s

theorem StepSum.consumed_mono {s s' : St} (sum : StepSum s s') : ∃ ex, consumed s' = consumed s ++ ex := by
  rcases sum.cls 0 with q | r | a
  · obtain ⟨ex, e, _⟩ := q.log; exact ⟨ex, e⟩
  · exact ⟨[], by rw [r.log, List.append_nil]⟩
  · obtain ⟨_, _, f, _, _, _, _, _, _, _, _, e, _⟩ := a
    exact ⟨[f], e⟩

theorem ResInv.step {s s' : St} {ob : Obs} (h : ResInv s) (hg : Good s) (e : Ev) (hs : Conn.step s e = some (s', ob)) :
    ResInv s' := by
  obtain ⟨ex, hex⟩ := (StepSum.step hg.route hg.keyU hg.qInv e hs).consumed_mono
  by_cases hp : ∃ i, e = .poll i
  · obtain ⟨i, rfl⟩ := hp
    obtain ⟨hc, hb⟩ := poll_res hs
    intro j o' f ho' hres
    obtain ⟨o, ho, hid, hcase⟩ := hb j o' f ho' hres
    rw [hc, hid]
    rcases hcase with h1 | ⟨h1, h2⟩
    · exact h j o f ho h1
    · exact ⟨hg.route.mail j o f ho h1, h2, hg.route.mailLog j o f ho h1⟩
  · have hb := step_rb e hs (fun i he => hp ⟨i, he⟩)
    intro j o' f ho' hres
    obtain ⟨o, ho, hid, h1⟩ := hb j o' ho' f hres
    obtain ⟨a, b, c⟩ := h j o f ho h1
    exact ⟨by rw [hid]; exact a, b, by rw [hex]; exact List.mem_append_left _ c⟩

theorem ResInv.run' (evs : List Ev) : ∀ s, Good s → ResInv s → ResInv (Conn.run s evs) := by
  induction evs with
  | nil => intro s _ h; exact h
  | cons e es ih =>
    intro s hg h
    simp only [Conn.run, List.foldl_cons]
    cases hstep : Conn.step s e with
    | none => exact ih s hg h
    | some r => obtain ⟨s', ob⟩ := r; exact ih s' (hg.step e hstep) (h.step hg e hstep)

theorem ResInv.run (N : Nat) (evs : List Ev) : ResInv (Conn.run (Conn.init N) evs) :=
  ResInv.run' evs _ (Good.init N) (by intro i o f ho; simp [Conn.init] at ho)

/-! ### items handed out by `next()` -/

/-- what the consumer of channel `c` has been handed so far, according to the channel's cursor -/
def got (s : St) (c : Nat) : List Item :=
  match s.chans[c]? with
  | some ch => ch.items.take ch.taken
  | none => []

/-- the item one step hands to the consumer of channel `c` (only a `recv` on `c` that yields an item) -/
def outItem (c : Nat) : Ev → Obs → List Item
  | .recv c' _, .item (some it) => if c' = c then [it] else []
  | _, _ => []

/-- the items handed to the consumer of channel `c` along a history, in order -/
def handed (c : Nat) : St → List Ev → List Item
  | _, [] => []
  | s, e :: es =>
    match step s e with
    | some (s', ob) => outItem c e ob ++ handed c s' es
    | none => handed c s es

def TakenLe (s : St) : Prop := ∀ (c : Nat) (ch : Chan), s.chans[c]? = some ch → ch.taken ≤ ch.items.length

/-- channels keep their cursor, items are only appended, new channels start with cursor 0 -/
def GotOk (cs cs' : List Chan) : Prop :=
  (∀ (c : Nat) (ch : Chan), cs[c]? = some ch →
    ∃ ch' : Chan, cs'[c]? = some ch' ∧ ch'.taken = ch.taken ∧ ∃ ex, ch'.items = ch.items ++ ex) ∧
  (∀ (c : Nat) (ch' : Chan), cs[c]? = none → cs'[c]? = some ch' → ch'.taken = 0)

theorem GotOk.refl (cs : List Chan) : GotOk cs cs :=
  ⟨fun _ ch h => ⟨ch, h, rfl, [], (List.append_nil _).symm⟩, fun _ _ h1 h2 => by rw [h1] at h2; cases h2⟩

theorem got_of_gotOk {s s' : St} (hle : TakenLe s) (h : GotOk s.chans s'.chans) :
    TakenLe s' ∧ ∀ c, got s' c = got s c := by
  constructor
  · intro c ch' hc'
    cases hc : s.chans[c]? with
    | none => rw [h.2 c ch' hc hc']; exact Nat.zero_le _
    | some ch =>
      obtain ⟨ch2, h1, h2, ex, h3⟩ := h.1 c ch hc
      rw [hc'] at h1; cases h1
      have := hle c ch hc
      rw [h2, h3, List.length_append]; omega
  · intro c
    unfold got
    cases hc : s.chans[c]? with
    | none =>
      cases hc' : s'.chans[c]? with
      | none => rfl
      | some ch' => simp only [h.2 c ch' hc hc', List.take_zero]
    | some ch =>
      obtain ⟨ch', h1, h2, ex, h3⟩ := h.1 c ch hc
      rw [h1]
      simp only [h2, h3]
      exact List.take_append_of_le_length (hle c ch hc)

theorem gotOk_set (cs : List Chan) (c : Nat) (ch ch' : Chan) (hc : cs[c]? = some ch) (ht : ch'.taken = ch.taken)
    (hi : ∃ ex, ch'.items = ch.items ++ ex) : GotOk cs (cs.set c ch') := by
  have hlt : c < cs.length := (List.getElem?_eq_some_iff.mp hc).1
  constructor
  · intro d chd hd
    rw [List.getElem?_set]
    split
    · next hcd =>
      subst hcd
      rw [hc] at hd; cases hd
      exact ⟨ch', by simp, ht, hi⟩
    · exact ⟨chd, hd, rfl, [], (List.append_nil _).symm⟩
  · intro d chd h1 h2
    rw [List.getElem?_set] at h2
    split at h2
    · next hcd => subst hcd; rw [hc] at h1; cases h1
    · rw [h1] at h2; cases h2

theorem gotOk_dropRx (cs : List Chan) (oc : Option Nat) : GotOk cs (dropRxOf cs oc) := by
  constructor
  · intro d chd hd
    obtain ⟨g, hg, hprops⟩ := dropRx_get cs oc d
    rw [hg, hd]
    exact ⟨g chd, rfl, (hprops chd).2.2.2.2, [], by rw [(hprops chd).2.1, List.append_nil]⟩
  · intro d chd h1 h2
    obtain ⟨g, hg, _⟩ := dropRx_get cs oc d
    rw [hg, h1] at h2; cases h2

theorem gotOk_append (cs : List Chan) (x : Chan) (hx : x.taken = 0) : GotOk cs (cs ++ [x]) := by
  constructor
  · intro d chd hd
    have hlt : d < cs.length := (List.getElem?_eq_some_iff.mp hd).1
    exact ⟨chd, by rw [List.getElem?_append_left hlt]; exact hd, rfl, [], (List.append_nil _).symm⟩
  · intro d chd h1 h2
    rw [get_append_one] at h2
    split at h2
    · rw [h1] at h2; cases h2
    · split at h2
      · cases h2; exact hx
      · cases h2

theorem gotOk_routeSearch (s : St) (c : Nat) (f : Frame) : GotOk s.chans (routeSearch s c f).chans := by
  have key : ∀ (b : Bool) (item : Item) (rm : Bool),
      GotOk s.chans (if rm = true then
          ({ s with chans := (if b = true then modifyChan s.chans c fun ch => { ch with items := ch.items ++ [item] } else s.chans),
                    searchmap := erase s.searchmap f.id, inUse := eraseId s.inUse f.id } : St)
        else { s with chans := (if b = true then modifyChan s.chans c fun ch => { ch with items := ch.items ++ [item] } else s.chans) }).chans := by
    intro b item rm
    have : GotOk s.chans (if b = true then modifyChan s.chans c fun ch => { ch with items := ch.items ++ [item] } else s.chans) := by
      cases b with
      | false => exact GotOk.refl _
      | true =>
        simp only [if_true]
        unfold modifyChan
        cases hc : s.chans[c]? with
        | none => exact GotOk.refl _
        | some ch => exact gotOk_set _ c ch _ hc rfl ⟨[item], rfl⟩
    cases rm <;> exact this
  unfold routeSearch
  by_cases h1 : f.op = 4 ∨ f.op = 25 ∨ f.op = 19
  · simp only [h1, if_true]; exact key _ _ _
  · simp only [h1, if_false]
    by_cases h2 : f.op = 5
    · simp only [h2, if_true]
      by_cases h3 : f.good = true
      · simp only [h3, if_true]; exact key _ _ _
      · simp only [h3]; exact GotOk.refl _
    · simp only [h2, if_false]; exact GotOk.refl _

theorem gotOk_routeSearch' (s : St) (c : Nat) (f : Frame) (cs0 : List Chan) (h0 : s.chans = cs0) :
    GotOk cs0 (routeSearch s c f).chans := by
  subst h0; exact gotOk_routeSearch s c f

theorem step_gotOk {s s' : St} {ob : Obs} (e : Ev) (hs : Conn.step s e = some (s', ob)) (hne : ∀ c d, e ≠ .recv c d) :
    GotOk s.chans s'.chans := by
  cases e with
  | recv c d => exact absurd rfl (hne c d)
  | _ =>
    simp only [Conn.step] at hs
    repeat' (split at hs)
    all_goals first
      | (cases hs; done)
      | (simp only [Option.some.injEq, Prod.mk.injEq] at hs
         obtain ⟨rfl, _⟩ := hs
         first
           | exact GotOk.refl _
           | exact gotOk_dropRx _ _
           | exact gotOk_routeSearch' _ _ _ _ rfl
           | exact gotOk_append _ _ rfl
           | (refine gotOk_set _ _ ?ch _ ?h1 ?h2 ?h3
              case h1 => assumption
              case h2 => rfl
              case h3 => exact ⟨[], (List.append_nil _).symm⟩))

theorem take_succ_items {l : List Item} {n : Nat} {x : Item} (h : l[n]? = some x) : l.take (n + 1) = l.take n ++ [x] := by
  rw [List.take_add_one, h]; rfl

theorem step_got_recv {s s' : St} {ob : Obs} {c0 : Nat} {d : Option Nat} (hs : step s (.recv c0 d) = some (s', ob))
    (hle : TakenLe s) : TakenLe s' ∧ ∀ c, got s' c = got s c ++ outItem c (.recv c0 d) ob := by
  have quiet : ∀ (s2 : St) (ob2 : Obs), GotOk s.chans s2.chans → (∀ c, outItem c (.recv c0 d) ob2 = []) →
      TakenLe s2 ∧ ∀ c, got s2 c = got s c ++ outItem c (.recv c0 d) ob2 := by
    intro s2 ob2 h1 h2
    obtain ⟨a, b⟩ := got_of_gotOk hle h1
    exact ⟨a, fun c => by rw [b c, h2 c, List.append_nil]⟩
  simp only [step] at hs
  cases hc : s.chans[c0]? with
  | none => rw [hc] at hs; cases hs
  | some ch =>
    rw [hc] at hs
    simp only at hs
    have hclt : c0 < s.chans.length := (List.getElem?_eq_some_iff.mp hc).1
    split at hs
    · cases hs
    · split at hs
      · cases hs
      · split at hs
        · next it hit =>
          simp only [Option.some.injEq, Prod.mk.injEq] at hs
          obtain ⟨rfl, rfl⟩ := hs
          have hlt : ch.taken < ch.items.length := (List.getElem?_eq_some_iff.mp hit).1
          constructor
          · intro c ch' hc'
            simp only [List.getElem?_set] at hc'
            split at hc'
            · simp only [Option.some.injEq] at hc'
              subst hc'
              exact hlt
            · exact hle c ch' hc'
          · intro c
            unfold got
            simp only [List.getElem?_set, outItem]
            by_cases hcc : c0 = c
            · subst hcc
              simp only [if_true, hclt, hc]
              exact take_succ_items hit
            · simp only [hcc, if_false, List.append_nil]
        · split at hs
          · simp only [Option.some.injEq, Prod.mk.injEq] at hs
            obtain ⟨rfl, rfl⟩ := hs
            exact quiet _ _ (GotOk.refl _) (fun _ => rfl)
          · split at hs
            · split at hs
              · split at hs
                · split at hs
                  · simp only [Option.some.injEq, Prod.mk.injEq] at hs
                    obtain ⟨rfl, rfl⟩ := hs
                    exact quiet _ _ (gotOk_set _ c0 ch _ hc rfl ⟨[], (List.append_nil _).symm⟩) (fun _ => rfl)
                  · simp only [Option.some.injEq, Prod.mk.injEq] at hs
                    obtain ⟨rfl, rfl⟩ := hs
                    exact quiet _ _ (GotOk.refl _) (fun _ => rfl)
                · cases hs
              · simp only [Option.some.injEq, Prod.mk.injEq] at hs
                obtain ⟨rfl, rfl⟩ := hs
                exact quiet _ _ (GotOk.refl _) (fun _ => rfl)
            · simp only [Option.some.injEq, Prod.mk.injEq] at hs
              obtain ⟨rfl, rfl⟩ := hs
              exact quiet _ _ (GotOk.refl _) (fun _ => rfl)

theorem outItem_nil {e : Ev} (hne : ∀ c d, e ≠ .recv c d) (c : Nat) (ob : Obs) : outItem c e ob = [] := by
  cases e with
  | recv c0 d => exact absurd rfl (hne c0 d)
  | _ => rfl

theorem step_got {s s' : St} {ob : Obs} (e : Ev) (hs : Conn.step s e = some (s', ob)) (hle : TakenLe s) :
    TakenLe s' ∧ ∀ c, got s' c = got s c ++ outItem c e ob := by
  by_cases hr : ∃ c d, e = .recv c d
  · obtain ⟨c, d, rfl⟩ := hr
    exact step_got_recv hs hle
  · have hne : ∀ c d, e ≠ .recv c d := fun c d h => hr ⟨c, d, h⟩
    obtain ⟨a, b⟩ := got_of_gotOk hle (step_gotOk e hs hne)
    exact ⟨a, fun c => by rw [b c, outItem_nil hne, List.append_nil]⟩

/-- along any history from any state whose cursors are within bounds: what the channel's cursor
says has been consumed is what was there before plus exactly the items `recv` handed out, in order -/
theorem got_run (c : Nat) (evs : List Ev) : ∀ s, TakenLe s →
    got (Conn.run s evs) c = got s c ++ handed c s evs ∧ TakenLe (Conn.run s evs) := by
  induction evs with
  | nil => intro s h; exact ⟨by simp [Conn.run, handed], h⟩
  | cons e es ih =>
    intro s h
    simp only [Conn.run, List.foldl_cons, handed]
    cases hstep : Conn.step s e with
    | none => exact ih s h
    | some r =>
      obtain ⟨s', ob⟩ := r
      obtain ⟨h', hg⟩ := step_got e hstep h
      obtain ⟨e1, e2⟩ := ih s' h'
      refine ⟨?_, e2⟩
      simp only
      rw [show Conn.run s' es = List.foldl _ s' es from rfl] at e1
      rw [e1, hg c, List.append_assoc]

end Ldap3V.Conn

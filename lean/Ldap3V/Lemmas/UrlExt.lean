/-
C20 helper lemmas, part 2: `ascii_lc_equal`, extension classification, one pass of the
extension loop on a formatted extension, the whole loop, first-of-a-kind.
-/
import Ldap3V.Lemmas.Url
namespace Ldap3V.Url
open Ldap3V Ldap3V.Url.Spec

/-! ## alphabets -/

theorem oidChar_lt (b : UInt8) (h : oidChar b = true) : b.toNat < 128 := by
  simp only [oidChar, isAlpha, isDigit, Bool.or_eq_true, Bool.and_eq_true, decide_eq_true_eq, beq_iff_eq] at h
  rcases h with ((h | h) | h) | h
  · omega
  · omega
  · subst h; decide
  · subst h; decide

theorem oidChar_ne (b c : UInt8) (h : oidChar b = true) (hc : oidChar c = false) : b ≠ c := by
  intro e; subst e; rw [h] at hc; exact Bool.noConfusion hc

theorem attrChar_ne (b c : UInt8) (h : attrChar b = true) (hc : attrChar c = false) : b ≠ c := by
  intro e; subst e; rw [h] at hc; exact Bool.noConfusion hc

theorem oidChar_not_cont (b : UInt8) (h : oidChar b = true) : isCont b = false := by
  have := oidChar_lt b h
  simp only [isCont, Bool.and_eq_false_iff, decide_eq_false_iff_not]
  left; omega

/-! ## `ascii_lc_equal` -/

theorem asciiLcEqual_iff (s t : Bytes) : asciiLcEqual s t = true ↔ s = t.map toAsciiLower := by
  induction s generalizing t with
  | nil => cases t <;> simp [asciiLcEqual]
  | cons a s ih =>
    cases t with
    | nil => simp [asciiLcEqual]
    | cons b t =>
      have := ih t
      simp only [asciiLcEqual] at this ⊢
      by_cases hl : s.length = t.length
      · simp only [hl, ne_eq, not_true_eq_false, if_false] at this
        simp [hl, this]
      · have hne : s ≠ t.map toAsciiLower := fun e => hl (by rw [e]; simp)
        simp [hl, hne]

theorem classify_eq_kindOf (id : Bytes) : classify id = kindOf id := by
  simp only [classify, kindOf, asciiLcEqual_iff, oidCredentials, oidSaslMech, oidStartTls, litBindname, litXBindpw,
    @eq_comm _ _ (List.map toAsciiLower id)]

/-! ## one extension -/

/-- the extension type with its criticality mark -/
def idTxt (crit : Bool) (name : Bytes) : Bytes := (if crit then [0x21] else []) ++ name

theorem fmtExtRaw_eq (crit : Bool) (name : Bytes) (v : Option Bytes) :
    fmtExtRaw crit name v = idTxt crit name ++ (match v with | none => [] | some v => 0x3D :: v) := by
  cases v <;> simp [fmtExtRaw, idTxt]

theorem not_mem_idTxt (crit : Bool) (name : Bytes) (c : UInt8) (hn : ∀ b ∈ name, oidChar b = true)
    (hc : oidChar c = false) (hc' : c ≠ 0x21) : c ∉ idTxt crit name := by
  intro h
  rcases List.mem_append.mp h with h | h
  · cases crit <;> simp at h; exact hc' h
  · exact oidChar_ne c c (hn c h) hc rfl

theorem splitIdVal_fmt (crit : Bool) (name : Bytes) (v : Option Bytes) (hn : ∀ b ∈ name, oidChar b = true) :
    splitIdVal (fmtExtRaw crit name v) = (idTxt crit name, v) := by
  have h3d : (0x3D : UInt8) ∉ idTxt crit name := not_mem_idTxt crit name _ hn (by decide) (by decide)
  rw [fmtExtRaw_eq]
  cases v with
  | none => simp [splitIdVal, breakAt_none _ _ h3d]
  | some v => simp [splitIdVal, breakAt_append _ _ _ h3d]

theorem charBoundary1_idTxt (crit : Bool) (name : Bytes) (hn : ∀ b ∈ name, oidChar b = true) :
    charBoundary1 (idTxt crit name) = true := by
  cases crit with
  | true =>
    cases name with
    | nil => simp [idTxt, charBoundary1]
    | cons b r => simp [idTxt, charBoundary1, oidChar_not_cont b (hn b (by simp))]
  | false =>
    cases name with
    | nil => simp [idTxt, charBoundary1]
    | cons a r =>
      cases r with
      | nil => simp [idTxt, charBoundary1]
      | cons b r => simp [idTxt, charBoundary1, oidChar_not_cont b (hn b (by simp))]

theorem critOf_idTxt (crit : Bool) (name : Bytes) (hn : ∀ b ∈ name, oidChar b = true) :
    critOf (idTxt crit name) = (crit, name) := by
  cases crit with
  | true => simp [idTxt, critOf]
  | false =>
    cases name with
    | nil => simp [idTxt, critOf]
    | cons b r =>
      have : b ≠ 0x21 := oidChar_ne b _ (hn b (by simp)) (by decide)
      simp [idTxt, critOf, this]

/-- one pass of the loop body on `[!]name[=valTxt]` -/
theorem extStep_fmt (crit : Bool) (name : Bytes) (v : Option Bytes) (hn : ∀ b ∈ name, oidChar b = true) :
    extStep (fmtExtRaw crit name v) =
      match decodeUtf8 (v.getD []) with
      | none => .err .decodingUtf8
      | some d => extOf crit name d := by
  simp only [extStep, splitIdVal_fmt crit name v hn, charBoundary1_idTxt crit name hn, critOf_idTxt crit name hn]
  cases decodeUtf8 (v.getD []) <;> simp

/-- what a formatted, well-formed extension does to the loop -/
def stepOf (e : ExtC) : ExtStep :=
  match toExt e with
  | some x => .insert x
  | none => if e.critical then .err .unrecognizedCritical else .skip

theorem extOf_eq (e : ExtC) : extOf e.critical e.name (e.value.getD []) = stepOf e := by
  simp only [extOf, stepOf, toExt, classify_eq_kindOf]
  cases kindOf e.name with
  | none => rfl
  | some k => cases k <;> rfl

theorem extStep_fmtExt (s : Style) (hs : s.Legal) (e : ExtC) (hn : ∀ b ∈ e.name, oidChar b = true)
    (hv : ∀ v ∈ e.value, utf8Valid v = true) : extStep (fmtExt s e) = stepOf e := by
  rw [fmtExt, extStep_fmt _ _ _ hn, ← extOf_eq]
  cases hval : e.value with
  | none => simp [decodeUtf8_nil]
  | some v =>
    have := decodeUtf8_pctEncode s.valRaw s.upper (fun b hb => (hs.2.2 b hb).1) v (hv v (by simp [hval]))
    simp [this]

/-! ## the loop -/

/-- well-formed extension (the extension part of `WFCore`) -/
def WFExt (e : ExtC) : Prop := (∀ b ∈ e.name, oidChar b = true) ∧ (∀ v ∈ e.value, utf8Valid v = true)

theorem extLoop_ok (s : Style) (hs : s.Legal) (exts : List ExtC) (acc : List Ext)
    (hw : ∀ e ∈ exts, WFExt e) (hc : ∀ e ∈ exts, kindOf e.name = none → e.critical = false) :
    extLoop (exts.map (fmtExt s)) acc = .ok ((exts.filterMap toExt).foldl insertExt acc) := by
  induction exts generalizing acc with
  | nil => simp [extLoop]
  | cons e es ih =>
    have he := hw e (by simp)
    have hes : ∀ e ∈ es, WFExt e := fun x hx => hw x (by simp [hx])
    have hcs : ∀ e ∈ es, kindOf e.name = none → e.critical = false := fun x hx => hc x (by simp [hx])
    simp only [List.map_cons, extLoop, extStep_fmtExt s hs e he.1 he.2, stepOf]
    cases ht : toExt e with
    | some x => simp [ht, ih _ hes hcs]
    | none =>
      have hk : kindOf e.name = none := by
        simp only [toExt] at ht
        cases hk : kindOf e.name with
        | none => rfl
        | some k => rw [hk] at ht; cases k <;> simp at ht
      simp [ht, hc e (by simp) hk, ih _ hes hcs]

/-- an unknown critical extension among well-formed ones: the loop stops with the error -/
theorem extLoop_unknown_critical (s : Style) (hs : s.Legal) (exts : List ExtC) (acc : List Ext)
    (hw : ∀ e ∈ exts, WFExt e) (hx : ∃ e ∈ exts, kindOf e.name = none ∧ e.critical = true) :
    extLoop (exts.map (fmtExt s)) acc = .err .unrecognizedCritical := by
  induction exts generalizing acc with
  | nil => simp at hx
  | cons e es ih =>
    have he := hw e (by simp)
    have hes : ∀ e ∈ es, WFExt e := fun x hx => hw x (by simp [hx])
    simp only [List.map_cons, extLoop, extStep_fmtExt s hs e he.1 he.2, stepOf]
    cases ht : toExt e with
    | some x =>
      have hx' : ∃ e ∈ es, kindOf e.name = none ∧ e.critical = true := by
        obtain ⟨b, hb, hk, hcr⟩ := hx
        rcases List.mem_cons.mp hb with hb | hb
        · subst hb; simp [toExt, hk] at ht
        · exact ⟨b, hb, hk, hcr⟩
      simp [ih _ hes hx']
    | none =>
      by_cases hcr : e.critical = true
      · simp [hcr]
      · have hx' : ∃ e ∈ es, kindOf e.name = none ∧ e.critical = true := by
          obtain ⟨b, hb, hk, hcr'⟩ := hx
          rcases List.mem_cons.mp hb with hb | hb
          · subst hb; exact absurd hcr' hcr
          · exact ⟨b, hb, hk, hcr'⟩
        simp [hcr, ih _ hes hx']

/-- a value that does not decode to UTF-8, after well-formed extensions none of which is unknown
and critical: `DecodingUTF8` — whatever the type of the offending extension (recognised, unknown,
StartTLS) and whatever follows -/
theorem extLoop_bad_value (s : Style) (hs : s.Legal) (pre : List ExtC) (crit : Bool) (name t : Bytes)
    (post : List Bytes) (acc : List Ext)
    (hw : ∀ e ∈ pre, WFExt e) (hc : ∀ e ∈ pre, kindOf e.name = none → e.critical = false)
    (hn : ∀ b ∈ name, oidChar b = true) (ht : decodeUtf8 t = none) :
    extLoop (pre.map (fmtExt s) ++ fmtExtRaw crit name (some t) :: post) acc = .err .decodingUtf8 := by
  induction pre generalizing acc with
  | nil => simp [extLoop, extStep_fmt _ _ _ hn, ht]
  | cons e es ih =>
    have he := hw e (by simp)
    have hes : ∀ e ∈ es, WFExt e := fun x hx => hw x (by simp [hx])
    have hcs : ∀ e ∈ es, kindOf e.name = none → e.critical = false := fun x hx => hc x (by simp [hx])
    simp only [List.map_cons, List.cons_append, extLoop, extStep_fmtExt s hs e he.1 he.2, stepOf]
    cases htx : toExt e with
    | some x => simp [ih _ hes hcs]
    | none =>
      have hk : kindOf e.name = none := by
        simp only [toExt] at htx
        cases hk : kindOf e.name with
        | none => rfl
        | some k => rw [hk] at htx; cases k <;> simp at htx
      simp [hc e (by simp) hk, ih _ hes hcs]

/-! ## first of a kind -/

theorem foldl_insertExt (l : List Ext) (seen : List ExtKind) (acc : List Ext)
    (h : ∀ k, k ∈ seen ↔ k ∈ acc.map (·.kind)) :
    l.foldl insertExt acc = acc ++ firstOfKindAux seen l := by
  induction l generalizing seen acc with
  | nil => simp [firstOfKindAux]
  | cons e es ih =>
    have hany : acc.any (fun x => x.kind == e.kind) = seen.contains e.kind := by
      rw [Bool.eq_iff_iff]
      simp only [List.any_eq_true, beq_iff_eq, List.contains_iff_mem, h, List.mem_map]
    simp only [List.foldl_cons, insertExt, firstOfKindAux, hany]
    by_cases hc : seen.contains e.kind = true
    · simp only [hc, if_true]; exact ih seen acc h
    · simp only [hc, Bool.false_eq_true, if_false]
      rw [ih (e.kind :: seen) (acc ++ [e]) (by intro k; simp [h]; exact or_comm)]
      simp

theorem firstOfKindAux_nodup (l : List Ext) (seen : List ExtKind) (hn : (l.map (·.kind)).Nodup)
    (hd : ∀ e ∈ l, e.kind ∉ seen) : firstOfKindAux seen l = l := by
  induction l generalizing seen with
  | nil => simp [firstOfKindAux]
  | cons e es ih =>
    have h1 : seen.contains e.kind = false := by
      rw [Bool.eq_false_iff]; simpa using hd e (by simp)
    simp only [List.map_cons, List.nodup_cons, List.mem_map, not_exists, not_and] at hn
    simp only [firstOfKindAux, h1, Bool.false_eq_true, if_false, List.cons.injEq, true_and]
    apply ih _ hn.2
    intro x hx hmem
    rcases List.mem_cons.mp hmem with hm | hm
    · exact hn.1 x hx hm
    · exact hd x (by simp [hx]) hm

theorem firstOfKind_nodup (l : List Ext) (hn : (l.map (·.kind)).Nodup) : firstOfKind l = l :=
  firstOfKindAux_nodup l [] hn (by simp)

theorem foldl_insertExt_nil (l : List Ext) : l.foldl insertExt [] = firstOfKind l := by
  simpa [firstOfKind] using foldl_insertExt l [] [] (by simp)

end Ldap3V.Url

/- DN level: a DN rendered from `dn_escape`d values is parsed by Spec.Dn.parse into the same RDN structure. -/
import Ldap3V.Lemmas.EscapeDn
namespace Ldap3V
open Spec Spec.Dn

/-! ### attribute types -/

set_option maxRecDepth 100000 in
theorem typeChar_of_alpha : ∀ c : UInt8, isAlpha c = true → isTypeChar c = true := by
  apply forall_u8; decide
set_option maxRecDepth 100000 in
theorem typeChar_of_keychar : ∀ c : UInt8, isKeychar c = true → isTypeChar c = true := by
  apply forall_u8; decide
set_option maxRecDepth 100000 in
theorem typeChar_of_digit : ∀ c : UInt8, isDigit c = true → isTypeChar c = true := by
  apply forall_u8; decide
set_option maxRecDepth 100000 in
theorem digit_of_ldigit : ∀ c : UInt8, inR c 0x31 0x39 = true → isDigit c = true := by
  apply forall_u8; decide
set_option maxRecDepth 100000 in
theorem typeChar_of_dot : ∀ c : UInt8, c.toNat = 0x2E → isTypeChar c = true := by
  apply forall_u8; decide

theorem isNumber_all_digit (p : Bytes) (h : isNumber p = true) : p.all isDigit = true := by
  match p, h with
  | [d], h => simpa [isNumber] using h
  | d :: e :: r, h =>
    simp only [isNumber, Bool.and_eq_true] at h
    simp only [List.all_cons, Bool.and_eq_true]
    exact ⟨digit_of_ldigit d h.1, by simpa using h.2⟩

theorem splitDots_ne_nil (a : Bytes) : splitDots a ≠ [] := by
  cases a with
  | nil => simp [splitDots]
  | cons c r =>
    simp only [splitDots]
    split
    · simp
    · split <;> simp

theorem typeChars_of_splitDots (a : Bytes) (h : ∀ p ∈ splitDots a, p.all isDigit = true) :
    a.all isTypeChar = true := by
  induction a with
  | nil => rfl
  | cons c r ih =>
    simp only [splitDots] at h
    simp only [List.all_cons, Bool.and_eq_true]
    by_cases hc : c.toNat = 0x2E
    · simp only [hc, if_true] at h
      exact ⟨typeChar_of_dot c hc, ih (fun p hp => h p (by simp [hp]))⟩
    · simp only [hc, if_false] at h
      cases hs : splitDots r with
      | nil => exact absurd hs (splitDots_ne_nil r)
      | cons p ps =>
        rw [hs] at h
        simp only at h
        have h1 := h (c :: p) (by simp)
        simp only [List.all_cons, Bool.and_eq_true] at h1
        refine ⟨typeChar_of_digit c h1.1, ih (fun q hq => ?_)⟩
        rw [hs] at hq
        rcases List.mem_cons.mp hq with rfl | hq
        · exact h1.2
        · exact h q (by simp [hq])

theorem typeChars_of_attrType (a : Bytes) (h : isAttrType a = true) : a.all isTypeChar = true := by
  simp only [isAttrType, Bool.or_eq_true] at h
  rcases h with h | h
  · cases a with
    | nil => simp [isDescr] at h
    | cons c r =>
      simp only [isDescr, Bool.and_eq_true] at h
      simp only [List.all_cons, Bool.and_eq_true]
      refine ⟨typeChar_of_alpha c h.1, ?_⟩
      rw [List.all_eq_true] at h ⊢
      exact fun x hx => typeChar_of_keychar x (h.2 x hx)
  · simp only [isNumericoid, Bool.and_eq_true, List.all_eq_true] at h
    exact typeChars_of_splitDots a (fun p hp => isNumber_all_digit p (h.2 p hp))

theorem takeWhile_append_stop (p : UInt8 → Bool) (a : Bytes) (c : UInt8) (t : Bytes)
    (ha : a.all p = true) (hc : p c = false) :
    (a ++ c :: t).takeWhile p = a ∧ (a ++ c :: t).dropWhile p = c :: t := by
  induction a with
  | nil => simp [hc]
  | cons x a ih =>
    simp only [List.all_cons, Bool.and_eq_true] at ha
    have := ih ha.2
    simp [ha.1, this.1, this.2]

theorem readType_eq (a t : Bytes) (h : isAttrType a = true) :
    readType (a ++ 0x3D :: t) = some (a, 0x3D :: t) := by
  have := takeWhile_append_stop isTypeChar a 0x3D t (typeChars_of_attrType a h) (by decide)
  simp [readType, this.1, this.2, h]

/-! ### AVA, RDN, DN -/

/-- `(type, value) ↦ (type, dn_escape value)` -/
def escAva (av : Bytes × Bytes) : Bytes × Bytes := (av.1, dnEscape av.2)
/-- what the parser is expected to return for it -/
def strAva (av : Bytes × Bytes) : Ava := (av.1, .str av.2)

def avaOk (av : Bytes × Bytes) : Bool := isAttrType av.1 && utf8Valid av.2

theorem readAva_render (av : Bytes × Bytes) (rest : Bytes) (h : avaOk av = true) (hs : sepOk rest = true) :
    readAva (renderAva (escAva av) ++ rest) = some (strAva av, rest) := by
  simp only [avaOk, Bool.and_eq_true] at h
  have e : renderAva (escAva av) ++ rest = av.1 ++ 0x3D :: (dnEscape av.2 ++ rest) := by
    simp [renderAva, escAva]
  rw [e]
  unfold readAva
  rw [readType_eq _ _ h.1]
  simp only [show (0x3D : UInt8).toNat = 0x3D from rfl, if_true]
  rw [readAttrValue_dnEscape _ _ h.2 hs]
  rfl

/-- end of input or `,` -/
def rdnSepOk : Bytes → Bool
  | [] => true
  | c :: _ => c == 0x2C

theorem sepOk_of_rdnSepOk (rest : Bytes) (h : rdnSepOk rest = true) : sepOk rest = true := by
  cases rest with
  | nil => rfl
  | cons c t => simp only [rdnSepOk, beq_iff_eq] at h; simp [sepOk, h]

theorem readRdn_render (avas : List (Bytes × Bytes)) :
    ∀ (f : Nat) (rest : Bytes), avas ≠ [] → (∀ av ∈ avas, avaOk av = true) → avas.length ≤ f → rdnSepOk rest = true →
      readRdn f (renderRdn (avas.map escAva) ++ rest) = some (avas.map strAva, rest) := by
  induction avas with
  | nil => intro f rest h; exact absurd rfl h
  | cons a as ih =>
    intro f rest _ hok hf hs
    obtain ⟨f, rfl⟩ : ∃ g, f = g + 1 := ⟨f - 1, by simp at hf; omega⟩
    cases as with
    | nil =>
      simp only [List.map_cons, List.map_nil, renderRdn]
      rw [readRdn, readAva_render a rest (hok a (by simp)) (sepOk_of_rdnSepOk rest hs)]
      cases rest with
      | nil => rfl
      | cons c t =>
        simp only [rdnSepOk, beq_iff_eq] at hs
        subst hs
        simp
    | cons a2 as =>
      have IH := ih f rest (by simp) (fun av hav => hok av (by simp [hav])) (by simp at hf ⊢; omega) hs
      simp only [List.map_cons, renderRdn, List.append_assoc, List.cons_append] at IH ⊢
      rw [readRdn, readAva_render a _ (hok a (by simp)) (by simp [sepOk])]
      simp only [show (0x2B : UInt8).toNat = 0x2B from rfl, if_true]
      rw [IH]

theorem renderAva_length (av : Bytes × Bytes) : 1 ≤ (renderAva av).length := by
  simp [renderAva]; omega

theorem renderRdn_length (avas : List (Bytes × Bytes)) : avas.length ≤ (renderRdn avas).length := by
  induction avas with
  | nil => simp [renderRdn]
  | cons a as ih =>
    cases as with
    | nil => have := renderAva_length a; simpa [renderRdn] using this
    | cons a2 as =>
      have := renderAva_length a
      simp only [renderRdn, List.length_append, List.length_cons] at ih ⊢
      omega

def rdnOk (rdn : List (Bytes × Bytes)) : Bool := !rdn.isEmpty && rdn.all avaOk

theorem readRdns_render (rdns : List (List (Bytes × Bytes))) :
    ∀ (f : Nat), rdns ≠ [] → (∀ rdn ∈ rdns, rdnOk rdn = true) → rdns.length ≤ f →
      readRdns f (render (rdns.map (·.map escAva))) = some (rdns.map (·.map strAva)) := by
  induction rdns with
  | nil => intro f h; exact absurd rfl h
  | cons r rs ih =>
    intro f _ hok hf
    obtain ⟨f, rfl⟩ : ∃ g, f = g + 1 := ⟨f - 1, by simp at hf; omega⟩
    have hr := hok r (by simp)
    simp only [rdnOk, Bool.and_eq_true, Bool.not_eq_true', List.isEmpty_eq_false_iff, List.all_eq_true] at hr
    have one := fun rest (hs : rdnSepOk rest = true) =>
      readRdn_render r ((renderRdn (r.map escAva) ++ rest).length + 1) rest hr.1 hr.2
        (by have := renderRdn_length (r.map escAva); simp only [List.length_map, List.length_append] at this ⊢; omega) hs
    cases rs with
    | nil =>
      simp only [List.map_cons, List.map_nil, render]
      have := one [] rfl
      simp only [List.append_nil] at this
      rw [readRdns, this]
    | cons r2 rs =>
      have IH := ih f (by simp) (fun rdn h => hok rdn (by simp [h])) (by simp at hf ⊢; omega)
      simp only [List.map_cons, render] at IH ⊢
      rw [readRdns, one _ (by simp [rdnSepOk])]
      simp only [show (0x2C : UInt8).toNat = 0x2C from rfl, if_true]
      rw [IH]

theorem render_length (rdns : List (List (Bytes × Bytes))) (h : ∀ rdn ∈ rdns, rdn ≠ []) :
    rdns.length ≤ (render rdns).length := by
  induction rdns with
  | nil => simp [render]
  | cons r rs ih =>
    have h1 : 1 ≤ (renderRdn r).length := by
      have := renderRdn_length r
      have : r ≠ [] := h r (by simp)
      cases r with
      | nil => exact absurd rfl this
      | cons _ _ => simp at *; omega
    have ih := ih (fun rdn hr => h rdn (by simp [hr]))
    cases rs with
    | nil => simpa [render] using h1
    | cons r2 rs =>
      simp only [render, List.length_append, List.length_cons] at ih ⊢
      omega

theorem parse_render (rdns : List (List (Bytes × Bytes))) (h : ∀ rdn ∈ rdns, rdnOk rdn = true) :
    parse (render (rdns.map (·.map escAva))) = some (rdns.map (·.map strAva)) := by
  cases hr : rdns with
  | nil => rfl
  | cons r rs =>
    rw [← hr]
    have hne : ∀ rdn ∈ rdns.map (·.map escAva), rdn ≠ [] := by
      intro rdn hm
      obtain ⟨r0, hr0, rfl⟩ := List.mem_map.mp hm
      have := h r0 hr0
      simp only [rdnOk, Bool.and_eq_true, Bool.not_eq_true', List.isEmpty_eq_false_iff] at this
      simpa using this.1
    have hl := render_length _ hne
    simp only [List.length_map] at hl
    have hpos : 1 ≤ rdns.length := by rw [hr]; simp
    have hp : parse (render (rdns.map (·.map escAva))) =
        readRdns ((render (rdns.map (·.map escAva))).length + 1) (render (rdns.map (·.map escAva))) := by
      cases hb : render (rdns.map (·.map escAva)) with
      | nil => rw [hb] at hl; simp only [List.length_nil] at hl; omega
      | cons _ _ => rfl
    rw [hp]
    exact readRdns_render rdns _ (by rw [hr]; simp) h (by omega)

end Ldap3V

/-
Stream behind `EntriesOnly`: the model refines the cursor on the entries-only view.
-/
import Ldap3V.Lemmas.StreamDirect
namespace Ldap3V.Stream
open Spec

/-- the entries-only view of a script, `g` = URIs passed since the last entry -/
def eoRaw (g : List Bytes) (l : List Recv) : View := eoSteps g (rawView l).steps (rawView l).ending

theorem eoRaw_nil (g : List Bytes) : eoRaw g [] = ⟨[], .pending⟩ := rfl

theorem eoRaw_done (g : List Bytes) (r : Res) (l : List Recv) : eoRaw g (.done r :: l) = ⟨[], .done g r⟩ := by
  simp [eoRaw, rawView, eoSteps, End.addGain]

theorem eoRaw_closed (g : List Bytes) (l : List Recv) : eoRaw g (.closed :: l) = ⟨[], .fail g .endOfStream⟩ := by
  simp [eoRaw, rawView, eoSteps, End.addGain]

theorem eoRaw_timeout (g : List Bytes) (l : List Recv) : eoRaw g (.timeout :: l) = ⟨[], .fail g .timeout⟩ := by
  simp [eoRaw, rawView, eoSteps, End.addGain]

theorem eoRaw_entry (g : List Bytes) (i : Item) (l : List Recv) (hk : i.kind = .entry) :
    eoRaw g (.item i :: l) = ⟨⟨g, i⟩ :: (eoRaw [] l).steps, (eoRaw [] l).ending⟩ := by
  simp [eoRaw, rawView, eoSteps, hk]

theorem eoRaw_inter (g : List Bytes) (i : Item) (l : List Recv) (hk : i.kind = .inter) :
    eoRaw g (.item i :: l) = eoRaw g l := by
  simp [eoRaw, rawView, eoSteps, hk]

theorem eoRaw_ref (g : List Bytes) (i : Item) (l : List Recv) (us : List Bytes) (hk : i.kind = .ref)
    (hu : i.uris = some us) : eoRaw g (.item i :: l) = eoRaw (g ++ us) l := by
  simp [eoRaw, rawView, eoSteps, hk, hu]

theorem eoRaw_badref (g : List Bytes) (i : Item) (l : List Recv) (hk : i.kind = .ref) (hu : i.uris = none) :
    eoRaw g (.item i :: l) = ⟨[], .panic⟩ := by
  simp [eoRaw, rawView, eoSteps, hk, hu]

/-- abstraction relation for `[EntriesOnly]` -/
structure RelE (m : M) (c : Cursor) : Prop where
  chain : m.chain = [.entriesOnly c.acc]
  state : m.s.state = c.state
  notFresh : c.state ≠ .fresh
  res : m.s.res = c.final
  live : c.state = .active → ∃ l, m.s.rx = some l ∧ (eoRaw [] l).steps = c.rest ∧ (eoRaw [] l).ending = c.ending

theorem kind_cases (k : Kind) : k = .entry ∨ k = .inter ∨ k = .ref := by cases k <;> simp

/-- one `EntriesOnly::next` over a direct stream against one `next` of the cursor -/
theorem eo_loop_sim : ∀ (l : List Recv) (g base : List Bytes) (f : Nat) (s : Stream) (c : Cursor),
    s.state = .active → s.rx = some l → l.length + 2 ≤ f → c.state = .active → c.acc = base →
    c.final = s.res → c.rest = (eoRaw g l).steps → c.ending = (eoRaw g l).ending →
    Output.item (eoLoop f (base ++ g) [] s).2.2.2 = c.next.2 ∧
    ((eoLoop f (base ++ g) [] s).2.2.2 ≠ .pending → (eoLoop f (base ++ g) [] s).2.2.2 ≠ .panic →
      RelE ⟨.entriesOnly (eoLoop f (base ++ g) [] s).1 :: (eoLoop f (base ++ g) [] s).2.1,
        post true (eoLoop f (base ++ g) [] s).2.2.2 (eoLoop f (base ++ g) [] s).2.2.1⟩ c.next.1) := by
  intro l
  induction l with
  | nil =>
    intro g base f s c hs hrx hf hc hacc hfin hrest hend
    obtain ⟨f1, rfl⟩ : ∃ f1, f = f1 + 1 + 1 := ⟨f - 2, by simp at hf; omega⟩
    have hn : next (f1 + 1) false [] s = ([], s, .pending) := by
      rw [next_nil _ _ _ hs, nextInner_nil _ hrx]; rfl
    rw [eoLoop_other hn (by simp)]
    rw [eoRaw_nil] at hrest hend
    simp [Cursor.next, hc, hrest, hend]
  | cons x l' ih =>
    intro g base f s c hs hrx hf hc hacc hfin hrest hend
    obtain ⟨f1, rfl⟩ : ∃ f1, f = f1 + 1 + 1 := ⟨f - 2, by simp at hf; omega⟩
    cases x with
    | item i =>
      have hn : next (f1 + 1) false [] s = ([], { s with rx := some l' }, .ok (some i)) := by
        rw [next_nil _ _ _ hs, nextInner_item _ _ _ hrx]; rfl
      rcases kind_cases i.kind with hk | hk | hk
      · rw [eoLoop_entry hn hk]
        rw [eoRaw_entry _ _ _ hk] at hrest hend
        simp only [Cursor.next, hc, hrest, post]
        refine ⟨by simp, fun _ _ => ⟨by simp [hacc], hs, by simp, by simp [hfin], fun _ => ⟨l', rfl, rfl, by simp [hend]⟩⟩⟩
      · rw [eoLoop_inter hn hk]
        rw [eoRaw_inter _ _ _ hk] at hrest hend
        exact ih g base (f1 + 1) _ c hs rfl (by simp at hf ⊢; omega) hc hacc hfin hrest hend
      · cases hu : i.uris with
        | some us =>
          rw [eoLoop_ref hn hk hu, List.append_assoc]
          rw [eoRaw_ref _ _ _ _ hk hu] at hrest hend
          exact ih (g ++ us) base (f1 + 1) _ c hs rfl (by simp at hf ⊢; omega) hc hacc hfin hrest hend
        | none =>
          rw [eoLoop_badref hn hk hu]
          rw [eoRaw_badref _ _ _ hk hu] at hrest hend
          simp [Cursor.next, hc, hrest, hend]
    | done r =>
      have hn : next (f1 + 1) false [] s = ([], { s with res := some r, rx := none }, .ok none) := by
        rw [next_nil _ _ _ hs, nextInner_done _ _ _ hrx]; rfl
      rw [eoLoop_other hn (by simp)]
      rw [eoRaw_done] at hrest hend
      simp only [Cursor.next, hc, hrest, hend, post]
      refine ⟨by simp, fun _ _ => ⟨by simp [hacc], rfl, by simp, rfl, by simp⟩⟩
    | closed =>
      have hn : next (f1 + 1) false [] s = ([], { s with rx := none, state := .error }, .err .endOfStream) := by
        rw [next_nil _ _ _ hs, nextInner_closed _ _ hrx]; rfl
      rw [eoLoop_other hn (by simp)]
      rw [eoRaw_closed] at hrest hend
      simp only [Cursor.next, hc, hrest, hend, post]
      refine ⟨by simp, fun _ _ => ⟨by simp [hacc], rfl, by simp, by simp [hfin], by simp⟩⟩
    | timeout =>
      have hn : next (f1 + 1) false [] s =
          ([], { s with rx := some l', scrubs := s.scrubs ++ [s.reqs.length], state := .error }, .err .timeout) := by
        rw [next_nil _ _ _ hs, nextInner_timeout _ _ hrx]; rfl
      rw [eoLoop_other hn (by simp)]
      rw [eoRaw_timeout] at hrest hend
      simp only [Cursor.next, hc, hrest, hend, post]
      refine ⟨by simp, fun _ _ => ⟨by simp [hacc], rfl, by simp, by simp [hfin], by simp⟩⟩

theorem remaining_ge (s : Stream) (l : List Recv) (h : s.rx = some l) : l.length ≤ remaining s := by
  simp [remaining, h]

theorem RelE.step (r : StartOut) (m : M) (c : Cursor) (k : Call) (h : RelE m c) :
    (step m k).2 = (c.step r k).2 ∧ ((step m k).2.stuck = false → RelE (step m k).1 (c.step r k).1) := by
  obtain ⟨ch, s⟩ := m
  have hch : ch = [.entriesOnly c.acc] := h.chain
  subst hch
  have hst : s.state = c.state := h.state
  cases k with
  | start q =>
    simp only [Ldap3V.Stream.step, Cursor.step, Cursor.start]
    rw [start_notfresh _ _ _ (by rw [hst]; exact h.notFresh)]
    simp [h.notFresh, h]
  | state =>
    simp only [Ldap3V.Stream.step, Cursor.step]
    exact ⟨by rw [hst], fun _ => h⟩
  | finish =>
    simp only [Ldap3V.Stream.step, Cursor.step, Cursor.finish]
    by_cases hc : c.state = .closed
    · rw [finish_closed _ _ (by rw [hst]; exact hc)]
      simp [hc, h]
    · have hs : s.state ≠ .closed := by rw [hst]; exact hc
      have hres : s.res = c.final := h.res
      simp only [finish, hs, hc, if_false, finishInner, hres]
      refine ⟨trivial, fun _ => ⟨rfl, rfl, by simp, rfl, by simp⟩⟩
  | next =>
    simp only [Ldap3V.Stream.step, Cursor.step, fuelOf_succ]
    by_cases hc : c.state = .active
    · have hs : s.state = .active := by rw [hst]; exact hc
      obtain ⟨l, hrx, hsteps, hend⟩ := h.live hc
      have hrx' : s.rx = some l := hrx
      rw [next_eo _ _ _ _ _ hs]
      have hf : l.length + 2 ≤ 2 * remaining s + 2 * [Adapter.entriesOnly c.acc].length + 3 := by
        have := remaining_ge s l hrx'
        simp; omega
      have key := eo_loop_sim l [] c.acc _ s c hs hrx' hf hc rfl h.res.symm hsteps.symm hend.symm
      rw [List.append_nil] at key
      refine ⟨key.1, fun hstuck => key.2 ?_ ?_⟩
      · intro hp; rw [hp] at hstuck; simp [Output.stuck] at hstuck
      · intro hp; rw [hp] at hstuck; simp [Output.stuck] at hstuck
    · have hs : s.state ≠ .active := by rw [hst]; exact hc
      rw [next_inactive _ _ _ _ hs]
      simp only [Cursor.next, hc, ne_eq, not_false_eq_true, if_true]
      exact ⟨trivial, fun _ => h⟩

theorem eo_start (h : Handle) (pages : List Page) (q : Query) :
    (step (init [eo] h pages) (.start q)).2 =
        ((Cursor.ofView (view [.entriesOnly] pages)).step (startOutcome [.entriesOnly] h q pages) (.start q)).2 ∧
      RelE (step (init [eo] h pages) (.start q)).1
        ((Cursor.ofView (view [.entriesOnly] pages)).step (startOutcome [.entriesOnly] h q pages) (.start q)).1 := by
  cases hq : q.filterOk with
  | false =>
    simp [Ldap3V.Stream.step, init, eo, start, startInner, hq, errState, Cursor.step, Cursor.start, Cursor.ofView,
      startOutcome]
    exact ⟨rfl, rfl, by simp, rfl, by simp⟩
  | true =>
    cases pages with
    | nil =>
      simp [Ldap3V.Stream.step, init, eo, start, startInner, hq, errState, Cursor.step, Cursor.start, Cursor.ofView,
        startOutcome, view]
      exact ⟨rfl, rfl, by simp, rfl, fun _ => ⟨[], rfl, rfl, rfl⟩⟩
    | cons p ps =>
      cases p with
      | script l =>
        simp [Ldap3V.Stream.step, init, eo, start, startInner, hq, errState, Cursor.step, Cursor.start, Cursor.ofView,
          startOutcome, view]
        exact ⟨rfl, rfl, by simp, rfl, fun _ => ⟨l, rfl, rfl, rfl⟩⟩
      | fail e =>
        simp [Ldap3V.Stream.step, init, eo, start, startInner, hq, errState, Cursor.step, Cursor.start, Cursor.ofView,
          startOutcome, view]
        exact ⟨rfl, rfl, by simp, rfl, by simp⟩

/-- C10, stream behind EntriesOnly: outputs of the model = outputs of the cursor on the view -/
theorem refines_eo (h : Handle) (pages : List Page) (q : Query) (calls : List Call) :
    run (init [eo] h pages) (.start q :: calls) =
      Cursor.run (startOutcome [.entriesOnly] h q pages) (Cursor.ofView (view [.entriesOnly] pages))
        (.start q :: calls) := by
  obtain ⟨ho, hR⟩ := eo_start h pages q
  exact run_start_of_sim _ RelE (fun m c k hR => RelE.step _ m c k hR) _ _ q calls ho hR

end Ldap3V.Stream

/- Basic facts about the helpers of Model.Conn: how op / channel lists are modified. -/
import Ldap3V.Model.Conn
namespace Ldap3V.Conn

/-- identity of an operation: never changed by any step -/
def Op.sig (o : Op) : Nat × Kind × Option Nat := (o.id, o.kind, o.chan)

theorem modifyOp_get (ops : List Op) (i j : Nat) (f : Op → Op) :
    (modifyOp ops i f)[j]? = if j = i then (ops[i]?).map f else ops[j]? := by
  unfold modifyOp
  cases h : ops[i]? with
  | none =>
    simp only [Option.map_none]
    split
    · next hj => subst hj; exact h
    · rfl
  | some o =>
    simp only [Option.map_some, List.getElem?_set]
    split
    · next hj =>
      subst hj
      have : i < ops.length := by
        have := List.getElem?_eq_some_iff.mp h
        exact this.1
      simp [this]
    · next hj => simp [Ne.symm hj]

theorem modifyOp_length (ops : List Op) (i : Nat) (f : Op → Op) : (modifyOp ops i f).length = ops.length := by
  unfold modifyOp; split <;> simp

theorem modifyChan_get (cs : List Chan) (i j : Nat) (f : Chan → Chan) :
    (modifyChan cs i f)[j]? = if j = i then (cs[i]?).map f else cs[j]? := by
  unfold modifyChan
  cases h : cs[i]? with
  | none =>
    simp only [Option.map_none]
    split
    · next hj => subst hj; exact h
    · rfl
  | some o =>
    simp only [Option.map_some, List.getElem?_set]
    split
    · next hj =>
      subst hj
      have : i < cs.length := (List.getElem?_eq_some_iff.mp h).1
      simp [this]
    · next hj => simp [Ne.symm hj]

/-- `ops'` differs from `ops` only in mailboxes/results/phases/deadlines of existing operations,
and no mailbox newly holds a frame -/
def Tame (ops ops' : List Op) : Prop :=
  ops'.length = ops.length ∧
  ∀ (j : Nat) (o' : Op), ops'[j]? = some o' → ∃ o : Op, ops[j]? = some o ∧ o'.sig = o.sig ∧
    (∀ f, o'.mail = Mail.frame f → o.mail = Mail.frame f)

theorem Tame.refl (ops : List Op) : Tame ops ops := ⟨rfl, fun _ o' h => ⟨o', h, rfl, fun _ h => h⟩⟩

theorem Tame.trans {a b c : List Op} (h1 : Tame a b) (h2 : Tame b c) : Tame a c := by
  refine ⟨h2.1.trans h1.1, fun j o'' h => ?_⟩
  obtain ⟨o', ho', hs', hm'⟩ := h2.2 j o'' h
  obtain ⟨o, ho, hs, hm⟩ := h1.2 j o' ho'
  exact ⟨o, ho, hs'.trans hs, fun f hf => hm f (hm' f hf)⟩

/-- a field update that keeps the identity and does not put a frame into the mailbox -/
theorem tame_modify (ops : List Op) (i : Nat) (g : Op → Op)
    (hg : ∀ o, (g o).sig = o.sig ∧ ∀ f, (g o).mail = .frame f → o.mail = .frame f) :
    Tame ops (modifyOp ops i g) := by
  refine ⟨modifyOp_length ops i g, fun j o' h => ?_⟩
  rw [modifyOp_get] at h
  split at h
  · next hj =>
    subst hj
    cases ho : ops[j]? with
    | none => rw [ho] at h; cases h
    | some o =>
      rw [ho] at h
      simp only [Option.map_some, Option.some.injEq] at h
      subst h
      exact ⟨o, rfl, (hg o).1, (hg o).2⟩
  · exact ⟨o', h, rfl, fun _ hf => hf⟩

theorem tame_set (ops : List Op) (i : Nat) (o o' : Op) (ho : ops[i]? = some o)
    (hs : o'.sig = o.sig) (hm : ∀ f, o'.mail = .frame f → o.mail = .frame f) :
    Tame ops (ops.set i o') := by
  have : ops.set i o' = modifyOp ops i (fun _ => o') := by simp [modifyOp, ho]
  rw [this]
  refine ⟨modifyOp_length _ _ _, fun j x h => ?_⟩
  rw [modifyOp_get] at h
  split at h
  · next hj =>
    subst hj
    rw [ho] at h
    simp only [Option.map_some, Option.some.injEq] at h
    subst h
    exact ⟨o, ho, hs, hm⟩
  · exact ⟨x, h, rfl, fun _ hf => hf⟩

theorem tame_dropSender (ops : List Op) (i : Nat) : Tame ops (dropSender ops i) := by
  apply tame_modify
  intro o
  constructor
  · split <;> rfl
  · intro f hf
    split at hf
    · cases hf
    · exact hf

theorem tame_dropSenderOpt (ops : List Op) (x : Option Nat) : Tame ops (dropSenderOpt ops x) := by
  cases x with
  | none => exact Tame.refl ops
  | some i => exact tame_dropSender ops i

theorem tame_foldl_dropSender (l : List Nat) (ops : List Op) : Tame ops (l.foldl dropSender ops) := by
  induction l generalizing ops with
  | nil => exact Tame.refl ops
  | cons x xs ih => exact (tame_dropSender ops x).trans (ih _)

theorem tame_foldl_dropSender2 (l : List (Nat × Nat)) (ops : List Op) :
    Tame ops (l.foldl (fun o p => dropSender o p.2) ops) := by
  induction l generalizing ops with
  | nil => exact Tame.refl ops
  | cons x xs ih => exact (tame_dropSender ops x.2).trans (ih _)

theorem endDriver_get (s : St) (how : Drv) (j : Nat) :
    (endDriver s how).ops[j]? = (s.ops[j]?).map fun o =>
      if s.opQ.contains j then { o with phase := .taken, mail := dropIf o.mail }
      else if s.resultmap.any (fun p => p.2 == j) then { o with mail := dropIf o.mail }
      else o := by
  simp only [Conn.endDriver, List.getElem?_mapIdx]

theorem dropIf_frame {m : Mail} {f : Frame} (h : dropIf m = .frame f) : m = .frame f := by
  unfold dropIf at h
  split at h
  · cases h
  · exact h

theorem tame_endDriver (s : St) (how : Drv) : Tame s.ops (endDriver s how).ops := by
  refine ⟨by simp [Conn.endDriver], fun j o' h => ?_⟩
  rw [endDriver_get] at h
  cases ho : s.ops[j]? with
  | none => rw [ho] at h; cases h
  | some o =>
    rw [ho] at h
    simp only [Option.map_some, Option.some.injEq] at h
    refine ⟨o, rfl, ?_, ?_⟩
    · rw [← h]; split
      · rfl
      · split <;> rfl
    · intro f hf
      rw [← h] at hf
      split at hf
      · exact dropIf_frame hf
      · split at hf
        · exact dropIf_frame hf
        · exact hf

/-! ### maps -/

theorem mem_erase {m : List (Nat × Nat)} {k : Int} {p : Nat × Nat} (h : p ∈ erase m k) : p ∈ m ∧ (p.1 : Int) ≠ k := by
  unfold erase at h
  simp only [List.mem_filter, Bool.not_eq_eq_eq_not, Bool.not_true, beq_eq_false_iff_ne] at h
  exact h

theorem mem_insert {m : List (Nat × Nat)} {k v : Nat} {p : Nat × Nat} (h : p ∈ insert m k v) :
    p = (k, v) ∨ (p ∈ m ∧ p.1 ≠ k) := by
  unfold insert at h
  simp only [List.mem_append, List.mem_singleton] at h
  rcases h with h | h
  · have := mem_erase h
    exact Or.inr ⟨this.1, fun e => this.2 (by rw [e])⟩
  · exact Or.inl h

theorem lookup_some {m : List (Nat × Nat)} {k : Int} {v : Nat} (h : lookup m k = some v) :
    ∃ n : Nat, (n, v) ∈ m ∧ (n : Int) = k := by
  unfold lookup at h
  cases hf : m.find? (fun p => (p.1 : Int) == k) with
  | none => rw [hf] at h; cases h
  | some p =>
    rw [hf] at h
    simp only [Option.map_some, Option.some.injEq] at h
    subst h
    have hm := List.mem_of_find?_eq_some hf
    have hp := List.find?_some hf
    simp only [beq_iff_eq] at hp
    exact ⟨p.1, hm, hp⟩

theorem lookup_none {m : List (Nat × Nat)} {k : Int} (h : lookup m k = none) : ∀ p ∈ m, (p.1 : Int) ≠ k := by
  unfold lookup at h
  simp only [Option.map_eq_none_iff, List.find?_eq_none, beq_iff_eq] at h
  exact h

end Ldap3V.Conn
